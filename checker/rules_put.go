package main

import (
	"fmt"
	"go/types"
	"sort"
	"strings"

	"golang.org/x/tools/go/ssa"
)

// SPEC-put-delete: [[CanPut]] / [[Put]] (8.12.4-5) and [[Delete]] (8.12.7) of ordinary objects, evaluated abstractly on
// every reachable state of an own property combined with every reachable state of the same property on the prototype.

func init() {
	register(&Rule{ID: "SPEC-put-delete", Props: []string{"C07", "C01"}, Min: 6,
		Doc: "S (abstract evaluation over a finite domain): objectGet is evaluated on own x prototype representations (the value of a data property, or the getter called with the receiver - not the holder - as this: 8.12.3); fromPropertyDescriptor is evaluated on every reachable representation (the descriptor object has exactly value / writable or get / set, plus enumerable and configurable, with the stored values: 8.10.4); objectPut and objectDelete are evaluated - through the ordinary object's class table, with the property tables of the object and of its prototype as the only state - on every combination of: the own property in each representation reachable by Object.defineProperty (SPEC-define-own), the prototype missing / without the property / holding it in each reachable representation, the object extensible or not, and throw true or false. The outcome (TypeError, the setter that was called and with which receiver, the own property afterwards, the prototype's property untouched) equals ES5 8.12.4-5 and 8.12.7: a non-writable value never changes, an inherited accessor governs the assignment, an inherited read-only data property or a non-extensible object blocks the creation of an own property, a non-configurable property is not deleted",
		Run: ruleSpecPutDelete})
}

func ruleSpecPutDelete(c *Ctx, r *R) {
	w := defineWorldFor(c)
	if w == nil {
		r.undecided("unresolved:world", "-", "UNRESOLVED: SPEC-define-own could not set up the abstract model")
		return
	}
	m, in := w.m, w.in
	var fPut, fDelete *ssa.Function
	for _, fn := range c.AllSrcFuncs("") {
		switch ssaFuncName(fn) {
		case "objectPut":
			fPut = fn
		case "objectDelete":
			fDelete = fn
		}
	}
	if fPut == nil || fDelete == nil {
		r.undecided("unresolved:functions", "-", "UNRESOLVED: objectPut / objectDelete")
		return
	}
	// the ordinary object's class table, read from the package initialiser
	classTable, why := ordinaryClassTable(c, in)
	if why != "" {
		r.undecided("unresolved:classObject", "-", "UNRESOLVED: "+why)
		return
	}
	ost := m.tObject.Underlying().(*types.Struct)
	field := func(name string) int {
		for i := 0; i < ost.NumFields(); i++ {
			if ost.Field(i).Name() == name {
				return i
			}
		}
		return -1
	}
	fClass, fProto, fOrder := field("objectClass"), field("prototype"), field("propertyOrder")
	if fClass < 0 || fProto < 0 || fOrder < 0 {
		r.undecided("unresolved:fields", "-", "UNRESOLVED: object.objectClass / prototype / propertyOrder")
		return
	}
	// hooks: the setter call
	var setterCalls []string
	hooks := w.hooks
	hooks["(*object).call"] = func(in *absInterp, call *ssa.CallCommon, args []aval) (aval, bool) {
		fn := describeAval(args[0])
		this := m.valueAtom(args[1])
		arg := "?"
		if sl, ok := args[2].(aSlice); ok && sl.n == 1 {
			if arr, ok := in.load(sl.arr).(aArr); ok {
				arg = m.valueAtom(arr.e[sl.off])
			}
		}
		setterCalls = append(setterCalls, fmt.Sprintf("%s.call(%s, %s)", fn, this, arg))
		return in.zero(m.tValue), true
	}
	hooks["toValue"] = func(in *absInterp, call *ssa.CallCommon, args []aval) (aval, bool) {
		// toValue(obj): the receiver handed to a setter
		if i, ok := args[0].(aIface); ok {
			if ref, ok := i.v.(aRef); ok {
				v := in.zero(m.tValue).(aStruct)
				v.f[m.valueFieldKind] = aInt(m.kObject)
				v.f[m.valueFieldValue] = aIface{dyn: m.tObjPtr, v: aAtom{"obj:" + ref.root.name}}
				return v, true
			}
		}
		return nil, false
	}
	defer func() { delete(hooks, "(*object).call"); delete(hooks, "toValue") }()

	mkObject := func(name string, sp *storedProp, extensible bool, proto aval) *acell {
		obj := in.zero(m.tObject).(aStruct)
		pm := newAMap()
		obj.f[fOrder] = aNil{}
		if sp != nil {
			pv := in.zero(m.tProperty).(aStruct)
			pv.f[0], pv.f[1] = deepCopy(sp.value), aInt(sp.mode)
			pm.m["x"] = pv
			obj.f[fOrder] = aSlice{arr: aRef{root: &acell{v: aArr{e: []aval{aStr("x")}}, name: "order"}}, n: 1}
		}
		obj.f[w.fProp], obj.f[w.fExt], obj.f[w.fRt] = pm, aBool(extensible), aAtom{"rt"}
		obj.f[fClass] = classTable
		obj.f[fProto] = proto
		return &acell{v: obj, name: name}
	}
	readBack := func(cell *acell) *storedProp {
		pm := cell.v.(aStruct).f[w.fProp].(aMap)
		pv, ok := pm.m["x"]
		if !ok {
			return nil
		}
		ps := pv.(aStruct)
		mode, _ := ps.f[1].(aInt)
		return &storedProp{value: ps.f[0], mode: int64(mode)}
	}

	var keys []string
	for k := range w.states {
		keys = append(keys, k)
	}
	sort.Strings(keys)
	type protoCase struct {
		name string
		sp   *storedProp
		none bool
	}
	protos := []protoCase{{name: "no prototype", none: true}}
	for _, k := range keys {
		protos = append(protos, protoCase{name: k, sp: w.states[k]})
	}
	type stat struct {
		cases int
		bad   []string
		fail  string
	}
	stats := map[string]*stat{}
	get := func(cat string) *stat {
		if stats[cat] == nil {
			stats[cat] = &stat{}
		}
		return stats[cat]
	}
	n := 0
	for _, k := range keys {
		own := w.states[k]
		ownSt, why := w.decode(own)
		if why != "" {
			continue
		}
		for _, pc := range protos {
			var protoSt pdState
			if !pc.none {
				var why string
				if protoSt, why = w.decode(pc.sp); why != "" {
					continue
				}
			}
			for _, ext := range []bool{true, false} {
				for _, throw := range []bool{true, false} {
					n++
					// ---- expected (8.12.4, 8.12.5) ----
					canPut, setter := false, ""
					inherited := pdState{kind: "absent"}
					if !pc.none {
						inherited = protoSt
					}
					switch {
					case ownSt.kind == "accessor":
						canPut, setter = ownSt.s != "undefined", ownSt.s
					case ownSt.kind == "data":
						canPut = ownSt.w
					case inherited.kind == "absent":
						canPut = ext
					case inherited.kind == "accessor":
						canPut, setter = inherited.s != "undefined", inherited.s
					default:
						canPut = ext && inherited.w
					}
					wantErr := !canPut && throw
					wantOwn := ownSt
					wantCall := ""
					if canPut {
						switch {
						case ownSt.kind == "data":
							wantOwn.v = "NEW"
						case setter != "" && setter != "undefined":
							wantCall = fmt.Sprintf("%s.call(obj:obj, NEW)", setter)
						default:
							wantOwn = pdState{kind: "data", v: "NEW", w: true, e: true, c: true}
						}
					}
					cat := "8.12.5 own " + ownSt.kind + ", inherited " + inherited.kind
					if pc.none {
						cat = "8.12.5 own " + ownSt.kind + ", no prototype"
					}
					st := get(cat)
					st.cases++
					// ---- observed ----
					var proto aval = aNil{}
					var protoCell *acell
					if !pc.none {
						protoCell = mkObject("proto", pc.sp, true, aNil{})
						proto = aRef{root: protoCell}
					}
					cell := mkObject("obj", own, ext, proto)
					setterCalls = nil
					_, pan, fail := absRun(in, fPut, []aval{aRef{root: cell}, aStr("x"), m.mkValue(in, "NEW"), aBool(throw)})
					desc := fmt.Sprintf("own %s, prototype %s, extensible=%v, throw=%v: o.x = NEW", ownSt, map[bool]string{true: "none", false: inherited.String()}[pc.none], ext, throw)
					if fail != "" {
						if st.fail == "" {
							st.fail = fail + " [" + desc + "]"
						}
						continue
					}
					gotErr := false
					if pan != nil {
						if !isTypeErrorPanic(pan) {
							st.bad = append(st.bad, desc+" panics in the host ("+describeAval(pan)+")")
							continue
						}
						gotErr = true
					}
					gotOwn, why := w.decode(readBack(cell))
					if why != "" {
						st.bad = append(st.bad, desc+" leaves a property that cannot be read back: "+why)
						continue
					}
					gotCall := strings.Join(setterCalls, "; ")
					if gotErr != wantErr || gotOwn != wantOwn || gotCall != wantCall {
						st.bad = append(st.bad, fmt.Sprintf("%s -> TypeError=%v own=%s setter=[%s]; ES5 8.12.5 requires TypeError=%v own=%s setter=[%s]", desc, gotErr, gotOwn, gotCall, wantErr, wantOwn, wantCall))
						continue
					}
					if protoCell != nil {
						after := readBack(protoCell)
						if (after == nil) != (pc.sp == nil) || (after != nil && after.key() != pc.sp.key()) {
							st.bad = append(st.bad, desc+" changes the prototype's property")
						}
					}
				}
			}
		}
		// ---- [[Delete]] ----
		for _, throw := range []bool{true, false} {
			st := get("8.12.7 delete " + ownSt.kind)
			st.cases++
			cell := mkObject("obj", own, true, aNil{})
			ret, pan, fail := absRun(in, fDelete, []aval{aRef{root: cell}, aStr("x"), aBool(throw)})
			desc := fmt.Sprintf("own %s, throw=%v: delete o.x", ownSt, throw)
			if fail != "" {
				if st.fail == "" {
					st.fail = fail + " [" + desc + "]"
				}
				continue
			}
			wantGone := ownSt.kind == "absent" || ownSt.c
			wantErr := !wantGone && throw
			gotErr := pan != nil && isTypeErrorPanic(pan)
			if pan != nil && !gotErr {
				st.bad = append(st.bad, desc+" panics in the host ("+describeAval(pan)+")")
				continue
			}
			after := readBack(cell)
			gotRet, _ := ret.(aBool)
			switch {
			case gotErr != wantErr:
				st.bad = append(st.bad, fmt.Sprintf("%s -> TypeError=%v, ES5 8.12.7 requires %v", desc, gotErr, wantErr))
			case wantGone && after != nil:
				st.bad = append(st.bad, desc+" leaves the configurable property in place")
			case !wantGone && (after == nil || after.key() != own.key()):
				st.bad = append(st.bad, desc+" removes or changes a non-configurable property")
			case !gotErr && bool(gotRet) != wantGone:
				st.bad = append(st.bad, fmt.Sprintf("%s returns %v, ES5 8.12.7 requires %v", desc, gotRet, wantGone))
			}
			if wantGone && own != nil && after == nil {
				// the insertion-order list must forget the name too
				if ord, ok := cell.v.(aStruct).f[fOrder].(aSlice); ok && ord.n != 0 {
					st.bad = append(st.bad, desc+" leaves the name in the enumeration order list")
				}
			}
		}
	}
	// ---- [[Get]] (8.12.3): the value of a data property, or the getter called with the *receiver* as this ----
	var fGet *ssa.Function
	for _, fn := range c.AllSrcFuncs("") {
		if ssaFuncName(fn) == "objectGet" {
			fGet = fn
		}
	}
	if fGet == nil {
		r.undecided("unresolved:objectGet", "-", "UNRESOLVED: objectGet")
	} else {
		for _, k := range keys {
			own := w.states[k]
			ownSt, why := w.decode(own)
			if why != "" {
				continue
			}
			for _, pc := range protos {
				var protoSt pdState
				if !pc.none {
					var why string
					if protoSt, why = w.decode(pc.sp); why != "" {
						continue
					}
				}
				eff := ownSt
				where := "own"
				if ownSt.kind == "absent" {
					eff = pdState{kind: "absent"}
					if !pc.none {
						eff = protoSt
					}
					where = "inherited"
				}
				st := get("8.12.3 get " + where + " " + eff.kind)
				st.cases++
				var proto aval = aNil{}
				if !pc.none {
					proto = aRef{root: mkObject("proto", pc.sp, true, aNil{})}
				}
				cell := mkObject("obj", own, true, proto)
				setterCalls = nil
				ret, pan, fail := absRun(in, fGet, []aval{aRef{root: cell}, aStr("x")})
				desc := fmt.Sprintf("own %s, prototype %s: o.x", ownSt, map[bool]string{true: "none", false: protoSt.String()}[pc.none])
				if fail != "" {
					if st.fail == "" {
						st.fail = fail + " [" + desc + "]"
					}
					continue
				}
				if pan != nil {
					st.bad = append(st.bad, desc+" panics ("+describeAval(pan)+")")
					continue
				}
				wantVal, wantCall := "undefined", ""
				switch eff.kind {
				case "data":
					wantVal = eff.v
				case "accessor":
					if eff.g != "undefined" {
						wantCall = eff.g + ".call(obj:obj, ?)"
						wantVal = "undefined" // what the modelled call returns
					}
				}
				gotCall := strings.Join(setterCalls, "; ")
				gotVal := m.valueAtom(ret)
				if gotVal != wantVal || gotCall != wantCall {
					st.bad = append(st.bad, fmt.Sprintf("%s -> value %s, calls [%s]; ES5 8.12.3 requires value %s, calls [%s] (a getter runs with the receiver as this, also when it is inherited)", desc, gotVal, gotCall, wantVal, wantCall))
				}
			}
		}
	}
	// ---- FromPropertyDescriptor (8.10.4): what Object.getOwnPropertyDescriptor reports for each representation ----
	var fFrom *ssa.Function
	for _, fn := range c.AllSrcFuncs("") {
		if ssaFuncName(fn) == "(*runtime).fromPropertyDescriptor" {
			fFrom = fn
		}
	}
	if fFrom == nil {
		r.undecided("unresolved:fromPropertyDescriptor", "-", "UNRESOLVED: (*runtime).fromPropertyDescriptor")
	} else {
		var made []*acell
		hooks["(*runtime).newObject"] = func(in *absInterp, call *ssa.CallCommon, args []aval) (aval, bool) {
			cell := mkObject(fmt.Sprintf("desc%d", len(made)), nil, true, aNil{})
			made = append(made, cell)
			return aRef{root: cell}, true
		}
		for _, k := range keys {
			own := w.states[k]
			if own == nil {
				continue
			}
			ownSt, why := w.decode(own)
			if why != "" {
				continue
			}
			st := get("8.10.4 FromPropertyDescriptor " + ownSt.kind)
			st.cases++
			pv := in.zero(m.tProperty).(aStruct)
			pv.f[0], pv.f[1] = deepCopy(own.value), aInt(own.mode)
			made = nil
			ret, pan, fail := absRun(in, fFrom, []aval{aAtom{"rt"}, pv})
			desc := "Object.getOwnPropertyDescriptor of " + ownSt.String()
			if fail != "" {
				if st.fail == "" {
					st.fail = fail + " [" + desc + "]"
				}
				continue
			}
			if pan != nil {
				st.bad = append(st.bad, desc+" panics in the host ("+describeAval(pan)+")")
				continue
			}
			ref, ok := ret.(aRef)
			if !ok {
				st.bad = append(st.bad, desc+" does not return an object")
				continue
			}
			got := map[string]string{}
			for name, p := range ref.root.v.(aStruct).f[w.fProp].(aMap).m {
				ps := p.(aStruct)
				fst, why := w.decode(&storedProp{value: ps.f[0], mode: int64(ps.f[1].(aInt))})
				if why != "" || fst.kind != "data" || !fst.w || !fst.e || !fst.c {
					got[name] = "not a plain data property: " + why + fst.String()
					continue
				}
				got[name] = fst.v
			}
			want := map[string]string{"enumerable": fmt.Sprint(ownSt.e), "configurable": fmt.Sprint(ownSt.c)}
			if ownSt.kind == "data" {
				want["value"], want["writable"] = ownSt.v, fmt.Sprint(ownSt.w)
			} else {
				want["get"], want["set"] = strings.Replace(ownSt.g, "fn:", "obj:", 1), strings.Replace(ownSt.s, "fn:", "obj:", 1)
			}
			for name, v := range got {
				if strings.HasPrefix(v, "fn:") {
					got[name] = "obj:" + v[3:]
				}
			}
			if fmt.Sprint(got) != fmt.Sprint(want) {
				st.bad = append(st.bad, fmt.Sprintf("%s has fields %v; ES5 8.10.4 requires %v", desc, got, want))
			}
		}
		delete(hooks, "(*runtime).newObject")
	}
	var cats []string
	for k := range stats {
		cats = append(cats, k)
	}
	sort.Strings(cats)
	for _, cat := range cats {
		st := stats[cat]
		site := c.Pos(fPut.Pos())
		if strings.HasPrefix(cat, "8.12.7") {
			site = c.Pos(fDelete.Pos())
		}
		if strings.HasPrefix(cat, "8.10.4") && fFrom != nil {
			site = c.Pos(fFrom.Pos())
		}
		if strings.HasPrefix(cat, "8.12.3") && fGet != nil {
			site = c.Pos(fGet.Pos())
		}
		switch {
		case st.fail != "":
			r.undecided(cat, site, "UNDECIDED: the abstract evaluator does not model "+st.fail)
		case len(st.bad) > 0:
			r.bad(cat, site, fmt.Sprintf("%d of %d cases deviate from ES5; first: %s", len(st.bad), st.cases, st.bad[0]))
		default:
			r.ok(cat, site, fmt.Sprintf("%d cases agree with ES5", st.cases))
		}
	}
	r.ok("coverage", "-", fmt.Sprintf("%d [[Put]] cases over %d own x %d prototype representations", n, len(keys), len(protos)))
	if n < 500 {
		r.undecided("coverage-low", "-", fmt.Sprintf("UNDECIDED: only %d [[Put]] cases", n))
	}
}

// ordinaryClassTable builds the abstract value of *classObject from the stores the package initialiser makes.
func ordinaryClassTable(c *Ctx, in *absInterp) (aval, string) {
	return classTableOf(c, in, "classObject")
}

// classTableOf builds the abstract value of the class table stored in the package-level variable `global`.
func classTableOf(c *Ctx, in *absInterp, global string) (aval, string) {
	pkg := c.Otto()
	var init *ssa.Function
	for _, fn := range c.AllSrcFuncs("") {
		if strings.HasPrefix(fn.Name(), "init") && fn.Pkg != nil && fn.Pkg.Pkg == pkg.Types && fn.Signature.Recv() == nil && fn.Parent() == nil {
			for _, b := range fn.Blocks {
				for _, ins := range b.Instrs {
					if st, ok := ins.(*ssa.Store); ok {
						if g, ok := st.Addr.(*ssa.Global); ok && g.Name() == global {
							init = fn
						}
					}
				}
			}
		}
	}
	if init == nil {
		return nil, "no store to the global " + global + " found in an init function"
	}
	for _, b := range init.Blocks {
		for _, ins := range b.Instrs {
			st, ok := ins.(*ssa.Store)
			if !ok {
				continue
			}
			g, ok := st.Addr.(*ssa.Global)
			if !ok || g.Name() != global {
				continue
			}
			al, ok := st.Val.(*ssa.Alloc)
			if !ok {
				return nil, global + " is not initialised with a composite literal"
			}
			pt := al.Type().Underlying().(*types.Pointer)
			tbl := in.zero(pt.Elem()).(aStruct)
			for _, ref := range *al.Referrers() {
				fa, ok := ref.(*ssa.FieldAddr)
				if !ok {
					continue
				}
				for _, r2 := range *fa.Referrers() {
					if s2, ok := r2.(*ssa.Store); ok && s2.Addr == fa {
						if fn, ok := s2.Val.(*ssa.Function); ok {
							tbl.f[fa.Field] = aFunc{fn: fn}
						}
					}
				}
			}
			return aRef{root: &acell{v: tbl, name: global}}, ""
		}
	}
	return nil, global + " initialiser not found"
}
