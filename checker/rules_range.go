package main

import (
	"fmt"
	"go/types"
	"math"

	"golang.org/x/tools/go/ssa"
)

func init() {
	register(&Rule{ID: "SPEC-range-index", Props: []string{"C08", "C09"}, Min: 3,
		Doc: "E (exhaustive abstract evaluation over a small integer domain): the helpers that turn the position arguments of slice / splice / substring / substr into indices are pure functions of ToInteger(argument) and the length that touch their operands only through comparisons, additions of the length and min / max - a finite set of orderings of {i, 0, len, len + i}, all of which occur for lengths 0..5 and arguments undefined, -Infinity, -7..7, +Infinity (as Value.number() saturates them). The SSA of valueToRangeIndex, rangeStartEnd and rangeStartLength is interpreted on that domain and compared with ES5: 15.4.4.10 / 15.5.4.13 steps 5-8 (relative indices: k = i < 0 ? max(len + i, 0) : min(i, len); an undefined end is len), 15.5.4.15 steps 5-7 (min(max(i, 0), len)), B.2.3 steps 3-6 (start relative, length min(max(ToInteger(length), 0), len - start), undefined length = +Infinity)",
		Run: ruleSpecRangeIndex})
}

func ruleSpecRangeIndex(c *Ctx, r *R) {
	w := defineWorldFor(c)
	if w == nil {
		r.undecided("world", "-", "UNRESOLVED: the abstract model of SPEC-define-own is not available")
		return
	}
	m := w.m
	find := func(name string) *ssa.Function {
		if f := c.LookupFunc("", name); f != nil {
			return c.SSAFunc(f)
		}
		return nil
	}
	fSE, fSL := find("rangeStartEnd"), find("rangeStartLength")
	numT := c.LookupType("", "_number")
	if fSE == nil || fSL == nil || numT == nil {
		r.undecided("anchors", "-", "UNRESOLVED: rangeStartEnd / rangeStartLength / _number")
		return
	}
	// the helper that turns one argument into a position: whatever rangeStartEnd calls with (argument, size, flag) and an
	// int64 result - under any name, taking the Value or the already converted integer; nil when it is written out in
	// place (the two entry points below then cover it alone)
	var fIdx *ssa.Function
	idxTakesValue := false
	for _, b := range fSE.Blocks {
		for _, ins := range b.Instrs {
			if call, ok := ins.(*ssa.Call); ok {
				if cal := call.Call.StaticCallee(); cal != nil && len(cal.Blocks) > 0 && len(cal.Params) == 3 && cal.Signature.Results().Len() == 1 {
					isI64 := func(t types.Type) bool {
						bt, ok := t.Underlying().(*types.Basic)
						return ok && bt.Kind() == types.Int64
					}
					isB := func(t types.Type) bool {
						bt, ok := t.Underlying().(*types.Basic)
						return ok && bt.Kind() == types.Bool
					}
					if isI64(cal.Signature.Results().At(0).Type()) && isI64(cal.Params[1].Type()) && isB(cal.Params[2].Type()) {
						if typeIs(cal.Params[0].Type(), ottoPath, "Value") {
							fIdx, idxTakesValue = cal, true
						} else if isI64(cal.Params[0].Type()) {
							fIdx = cal
						}
					}
				}
			}
		}
	}
	nst := numT.Underlying().(*types.Struct)
	fInt := -1
	for i := 0; i < nst.NumFields(); i++ {
		if nst.Field(i).Name() == "int64" {
			fInt = i
		}
	}
	if fInt < 0 {
		r.undecided("anchors:_number.int64", "-", "UNRESOLVED: _number.int64")
		return
	}
	hooks := map[string]absHook{
		"(Value).number": func(in *absInterp, call *ssa.CallCommon, args []aval) (aval, bool) {
			v := args[0].(aStruct)
			out := in.zero(numT).(aStruct)
			if k, ok := v.f[m.valueFieldKind].(aInt); ok && int64(k) == m.kNumber {
				if p, ok := v.f[m.valueFieldValue].(aIface); ok {
					if n, ok := p.v.(aInt); ok {
						out.f[fInt] = n
					}
				}
			}
			return out, true // undefined: ToInteger(NaN) = 0
		},
	}
	in := newAbsInterp(hooks)
	const inf = math.MaxInt64
	type arg struct {
		undef bool
		n     int64
	}
	var argsDom []arg
	argsDom = append(argsDom, arg{undef: true}, arg{n: math.MinInt64}, arg{n: inf})
	for i := int64(-7); i <= 7; i++ {
		argsDom = append(argsDom, arg{n: i})
	}
	mk := func(a arg) aval {
		if a.undef {
			return m.mkValue(in, "undefined")
		}
		return m.mkValue(in, fmt.Sprintf("n:%d", a.n))
	}
	toInt := func(a arg) int64 {
		if a.undef {
			return 0
		}
		return a.n
	}
	rel := func(i, n int64) int64 { // relative index
		if i < 0 {
			if i == math.MinInt64 || n+i < 0 {
				return 0
			}
			return n + i
		}
		if i > n {
			return n
		}
		return i
	}
	clamp := func(i, n int64) int64 {
		if i < 0 {
			return 0
		}
		if i > n {
			return n
		}
		return i
	}
	show := func(a arg) string {
		switch {
		case a.undef:
			return "undefined"
		case a.n == inf:
			return "Infinity"
		case a.n == math.MinInt64:
			return "-Infinity"
		}
		return fmt.Sprint(a.n)
	}
	valSliceT := types.NewSlice(m.tValue)
	mkArgs := func(as ...arg) aval {
		elems := make([]aval, len(as))
		for i, a := range as {
			elems[i] = mk(a)
		}
		cell := &acell{v: aArr{e: elems}, name: "args"}
		_ = valSliceT
		return aSlice{arr: aRef{root: cell}, n: len(elems)}
	}
	getInt := func(v aval) (int64, bool) {
		n, ok := v.(aInt)
		return int64(n), ok
	}
	type res struct {
		n    int
		bad  string
		fail string
	}
	results := map[string]*res{"valueToRangeIndex": {}, "rangeStartEnd": {}, "rangeStartLength": {}}
	note := func(name, msg string) {
		if results[name].bad == "" {
			results[name].bad = msg
		}
	}
	for size := int64(0); size <= 5; size++ {
		for _, a := range argsDom {
			for _, flag := range []bool{false, true} {
				if fIdx == nil {
					continue
				}
				results["valueToRangeIndex"].n++
				var first aval = aInt(toInt(a))
				if idxTakesValue {
					first = mk(a)
				}
				ret, pan, fail := absRun(in, fIdx, []aval{first, aInt(size), aBool(flag)})
				if fail != "" || pan != nil {
					results["valueToRangeIndex"].fail = fail + describeAvalOrNil(pan)
					continue
				}
				got, _ := getInt(ret)
				want := rel(toInt(a), size)
				if flag {
					want = clamp(toInt(a), size)
				}
				if got != want {
					note("valueToRangeIndex", fmt.Sprintf("valueToRangeIndex(%s, %d, negativeIsZero=%v) = %d, ES5 gives %d", show(a), size, flag, got, want))
				}
			}
			// two-argument helpers
			for _, b := range append([]arg{{undef: true, n: -999}}, argsDom...) {
				absent := b.undef && b.n == -999
				var list aval
				if absent {
					list = mkArgs(a)
				} else {
					list = mkArgs(a, b)
				}
				for _, flag := range []bool{false, true} {
					results["rangeStartEnd"].n++
					ret, pan, fail := absRun(in, fSE, []aval{list, aInt(size), aBool(flag)})
					if fail != "" || pan != nil {
						results["rangeStartEnd"].fail = fail + describeAvalOrNil(pan)
						continue
					}
					tup, ok := ret.(aTuple)
					if !ok || len(tup) != 2 {
						results["rangeStartEnd"].fail = "result is not a pair"
						continue
					}
					gs, _ := getInt(tup[0])
					ge, _ := getInt(tup[1])
					f := rel
					if flag {
						f = clamp
					}
					ws := f(toInt(a), size)
					we := size
					if !b.undef {
						we = f(b.n, size)
					}
					if gs != ws || ge != we {
						bs := show(b)
						if absent {
							bs = "(absent)"
						}
						note("rangeStartEnd", fmt.Sprintf("rangeStartEnd([%s, %s], %d, negativeIsZero=%v) = (%d, %d), ES5 gives (%d, %d)", show(a), bs, size, flag, gs, ge, ws, we))
					}
				}
				results["rangeStartLength"].n++
				ret, pan, fail := absRun(in, fSL, []aval{list, aInt(size)})
				if fail != "" || pan != nil {
					results["rangeStartLength"].fail = fail + describeAvalOrNil(pan)
					continue
				}
				tup, ok := ret.(aTuple)
				if !ok || len(tup) != 2 {
					results["rangeStartLength"].fail = "result is not a pair"
					continue
				}
				gs, _ := getInt(tup[0])
				gl, _ := getInt(tup[1])
				ws := rel(toInt(a), size)
				eff := func(start, length int64) int64 { // min(max(length, 0), size - start)
					if start >= size || length <= 0 {
						return 0
					}
					if length >= size-start {
						return size - start
					}
					return length
				}
				wl := int64(inf)
				if !b.undef {
					wl = b.n
				}
				if gs != ws || eff(gs, gl) != eff(ws, wl) {
					bs := show(b)
					if absent {
						bs = "(absent)"
					}
					note("rangeStartLength", fmt.Sprintf("rangeStartLength([%s, %s], %d) = (start %d, length %d): takes %d characters from %d, ES5 B.2.3 takes %d from %d", show(a), bs, size, gs, gl, eff(gs, gl), gs, eff(ws, wl), ws))
				}
			}
		}
	}
	for _, name := range []string{"valueToRangeIndex", "rangeStartEnd", "rangeStartLength"} {
		re := results[name]
		var site string
		if name == "valueToRangeIndex" {
			if fIdx == nil {
				r.ok(name, "-", "no separate position helper: covered by the evaluation of rangeStartEnd and rangeStartLength")
				continue
			}
			site = c.Pos(fIdx.Pos())
		} else {
			site = c.Pos(find(name).Pos())
		}
		switch {
		case re.fail != "":
			r.undecided(name, site, "UNDECIDED: the abstract evaluator does not model "+re.fail)
		case re.bad != "":
			r.bad(name, site, "deviates from ES5: "+re.bad)
		default:
			r.ok(name, site, fmt.Sprintf("%d cases agree with ES5", re.n))
		}
	}
	r.note("cases", results["valueToRangeIndex"].n+results["rangeStartEnd"].n+results["rangeStartLength"].n)
}

func describeAvalOrNil(v aval) string {
	if v == nil {
		return ""
	}
	return " panic " + describeAval(v)
}

func init() {
	register(&Rule{ID: "SPEC-array-search", Props: []string{"C08"}, Min: 2,
		Doc: "E (exhaustive abstract evaluation): Array.prototype.indexOf and lastIndexOf on an abstract array-like whose length is 0..4, with fromIndex absent, undefined, +-Infinity or -6..6, and an element that never matches: the sequence of indices the built-in probes with [[HasProperty]] is the observable part of 15.4.4.14 / 15.4.4.15 (steps 4-9: where the scan starts, its direction, where it stops) and is compared with the specification's sequence. The receiver, its length and the comparison are hooks; everything else is the function's own SSA",
		Run: ruleSpecArraySearch})
}

func ruleSpecArraySearch(c *Ctx, r *R) {
	w := defineWorldFor(c)
	if w == nil {
		r.undecided("world", "-", "UNRESOLVED: the abstract model of SPEC-define-own is not available")
		return
	}
	m := w.m
	fns := c.Shape().boundSSA(c, "Array.prototype")
	tCall := c.LookupType("", "FunctionCall")
	numT := c.LookupType("", "_number")
	if fns["indexOf"] == nil || fns["lastIndexOf"] == nil || tCall == nil || numT == nil {
		r.undecided("anchors", "-", "UNRESOLVED: Array.prototype.indexOf / lastIndexOf / FunctionCall / _number")
		return
	}
	cst := tCall.Underlying().(*types.Struct)
	cArgs := -1
	for i := 0; i < cst.NumFields(); i++ {
		if cst.Field(i).Name() == "ArgumentList" {
			cArgs = i
		}
	}
	nst := numT.Underlying().(*types.Struct)
	fInt := -1
	for i := 0; i < nst.NumFields(); i++ {
		if nst.Field(i).Name() == "int64" {
			fInt = i
		}
	}
	if cArgs < 0 || fInt < 0 {
		r.undecided("anchors:fields", "-", "UNRESOLVED: FunctionCall.ArgumentList / _number.int64")
		return
	}
	var probes []int64
	length := int64(0)
	var in *absInterp
	hooks := map[string]absHook{
		"(*FunctionCall).thisObject": func(in *absInterp, call *ssa.CallCommon, args []aval) (aval, bool) {
			return aAtom{"this"}, true
		},
		"(FunctionCall).thisObject": func(in *absInterp, call *ssa.CallCommon, args []aval) (aval, bool) {
			return aAtom{"this"}, true
		},
		"(*object).get": func(in *absInterp, call *ssa.CallCommon, args []aval) (aval, bool) {
			if s, ok := args[1].(aStr); ok && string(s) == "length" {
				return m.mkValue(in, fmt.Sprintf("n:%d", length)), true
			}
			return m.mkValue(in, "elem"), true
		},
		"(*object).hasProperty": func(in *absInterp, call *ssa.CallCommon, args []aval) (aval, bool) {
			var k int64 = -1
			if s, ok := args[1].(aStr); ok {
				fmt.Sscanf(string(s), "%d", &k)
			}
			probes = append(probes, k)
			return aBool(true), true
		},
		"toUint32": func(in *absInterp, call *ssa.CallCommon, args []aval) (aval, bool) {
			v := args[0].(aStruct)
			if p, ok := v.f[m.valueFieldValue].(aIface); ok {
				if n, ok := p.v.(aInt); ok {
					return n, true
				}
			}
			return aInt(0), true
		},
		"arrayIndexToString": func(in *absInterp, call *ssa.CallCommon, args []aval) (aval, bool) {
			n, _ := args[0].(aInt)
			return aStr(fmt.Sprint(int64(n))), true
		},
		"strictEqualityComparison": func(in *absInterp, call *ssa.CallCommon, args []aval) (aval, bool) {
			return aBool(false), true
		},
		"(Value).number": func(in *absInterp, call *ssa.CallCommon, args []aval) (aval, bool) {
			v := args[0].(aStruct)
			out := in.zero(numT).(aStruct)
			if k, ok := v.f[m.valueFieldKind].(aInt); ok && int64(k) == m.kNumber {
				if p, ok := v.f[m.valueFieldValue].(aIface); ok {
					if n, ok := p.v.(aInt); ok {
						out.f[fInt] = n
					}
				}
			}
			return out, true
		},
		"intValue": func(in *absInterp, call *ssa.CallCommon, args []aval) (aval, bool) {
			return m.mkValue(in, "result"), true
		},
		"uint32Value": func(in *absInterp, call *ssa.CallCommon, args []aval) (aval, bool) {
			return m.mkValue(in, "result"), true
		},
	}
	in = newAbsInterp(hooks)
	type arg struct {
		absent, undef bool
		n             int64
	}
	dom := []arg{{absent: true}, {undef: true}, {n: math.MinInt64}, {n: math.MaxInt64}}
	for i := int64(-6); i <= 6; i++ {
		dom = append(dom, arg{n: i})
	}
	show := func(a arg) string {
		switch {
		case a.absent:
			return "(absent)"
		case a.undef:
			return "undefined"
		case a.n == math.MaxInt64:
			return "Infinity"
		case a.n == math.MinInt64:
			return "-Infinity"
		}
		return fmt.Sprint(a.n)
	}
	for _, name := range []string{"indexOf", "lastIndexOf"} {
		fn := fns[name]
		n, bad, fail := 0, "", ""
		for length = 0; length <= 4; length++ {
			for _, a := range dom {
				n++
				elems := []aval{m.mkValue(in, "needle")}
				if !a.absent {
					if a.undef {
						elems = append(elems, m.mkValue(in, "undefined"))
					} else {
						elems = append(elems, m.mkValue(in, fmt.Sprintf("n:%d", a.n)))
					}
				}
				call := in.zero(tCall).(aStruct)
				call.f[cArgs] = aSlice{arr: aRef{root: &acell{v: aArr{e: elems}, name: "args"}}, n: len(elems)}
				probes = nil
				_, pan, f := absRun(in, fn, []aval{call})
				if f != "" || pan != nil {
					fail = f + describeAvalOrNil(pan)
					continue
				}
				// ES5
				var want []int64
				if length > 0 {
					if name == "indexOf" {
						k := int64(0) // fromIndex absent or undefined: 0
						if !a.absent && !a.undef {
							k = a.n
						}
						switch {
						case k >= length:
							k = -1
						case k < 0:
							if k == math.MinInt64 || length+k < 0 {
								k = 0
							} else {
								k = length + k
							}
						}
						for ; k >= 0 && k < length; k++ {
							want = append(want, k)
						}
					} else {
						k := length - 1 // absent: len-1; an explicit undefined is ToInteger(undefined) = 0
						if !a.absent {
							x := int64(0)
							if !a.undef {
								x = a.n
							}
							switch {
							case x >= 0:
								k = x
								if k > length-1 {
									k = length - 1
								}
							case x == math.MinInt64:
								k = -1
							default:
								k = length + x
							}
						}
						for ; k >= 0; k-- {
							want = append(want, k)
						}
					}
				}
				if fmt.Sprint(probes) != fmt.Sprint(want) && bad == "" {
					bad = fmt.Sprintf("Array.prototype.%s.call({length: %d, ...}, x, %s) probes the indices %v; ES5 15.4.4.%s probes %v", name, length, show(a), probes, map[string]string{"indexOf": "14", "lastIndexOf": "15"}[name], want)
				}
			}
		}
		site := c.Pos(fn.Pos())
		switch {
		case fail != "":
			r.undecided(name, site, "UNDECIDED: the abstract evaluator does not model "+fail)
		case bad != "":
			r.bad(name, site, "deviates from ES5: "+bad+" (an index beyond the length, or none at all, is where inherited or array-like elements make the difference visible)")
		default:
			r.ok(name, site, fmt.Sprintf("%d cases agree with ES5", n))
		}
	}
}

func init() {
	register(&Rule{ID: "SPEC-exec-lastindex", Props: []string{"C10"}, Min: 1,
		Doc: "E (exhaustive abstract evaluation of the shared exec helper): RegExp.prototype.exec / test (15.10.6.2 steps 4-11) on the subject \"abcd\", lastIndex in {-1, 0, 2, 4, 5}, global or not, and three outcomes of the matcher (no match, an empty match at the start of the searched suffix, a non-empty match at offset 1). Compared: whether and on which suffix the matcher is consulted (i = global ? lastIndex : 0; i < 0 or i > length fails without matching), every write of lastIndex (0 on failure; exactly the end index of the match when global; none otherwise), and the reported match offsets (relative offsets shifted by i). The matcher, the property reads and writes are hooks; the arithmetic is the function's own",
		Run: ruleSpecExecLastIndex})
}

func ruleSpecExecLastIndex(c *Ctx, r *R) {
	w := defineWorldFor(c)
	if w == nil {
		r.undecided("world", "-", "UNRESOLVED: the abstract model of SPEC-define-own is not available")
		return
	}
	m := w.m
	var fn *ssa.Function
	if f := c.LookupFunc("", "execRegExp"); f != nil {
		fn = c.SSAFunc(f)
	}
	numT := c.LookupType("", "_number")
	if fn == nil || numT == nil {
		r.undecided("anchor", "-", "UNRESOLVED: execRegExp / _number")
		return
	}
	nst := numT.Underlying().(*types.Struct)
	fInt := -1
	for i := 0; i < nst.NumFields(); i++ {
		if nst.Field(i).Name() == "int64" {
			fInt = i
		}
	}
	ost := m.tObject.Underlying().(*types.Struct)
	fClass := -1
	for i := 0; i < ost.NumFields(); i++ {
		if ost.Field(i).Name() == "class" {
			fClass = i
		}
	}
	cls, _ := c.Otto().Types.Scope().Lookup("classRegExpName").(*types.Const)
	reT := c.LookupType("", "regExpObject")
	fRE := -1
	if reT != nil {
		rst := reT.Underlying().(*types.Struct)
		for i := 0; i < rst.NumFields(); i++ {
			if rst.Field(i).Name() == "regularExpression" {
				fRE = i
			}
		}
	}
	if fInt < 0 || fClass < 0 || cls == nil || fRE < 0 {
		r.undecided("anchor:fields", "-", "UNRESOLVED: _number.int64 / object.class / classRegExpName")
		return
	}
	var lastIndex int64
	var global bool
	var outcome string
	var searched []string
	var puts []string
	hooks := map[string]absHook{
		"(*object).get": func(in *absInterp, call *ssa.CallCommon, args []aval) (aval, bool) {
			switch s, _ := args[1].(aStr); string(s) {
			case "lastIndex":
				return m.mkValue(in, fmt.Sprintf("n:%d", lastIndex)), true
			case "global":
				if global {
					return m.mkValue(in, "true"), true
				}
				return m.mkValue(in, "false"), true
			}
			return m.mkValue(in, "undefined"), true
		},
		"(Value).bool": func(in *absInterp, call *ssa.CallCommon, args []aval) (aval, bool) {
			return aBool(m.valueAtom(args[0]) == "true"), true
		},
		"(Value).number": func(in *absInterp, call *ssa.CallCommon, args []aval) (aval, bool) {
			v := args[0].(aStruct)
			out := in.zero(numT).(aStruct)
			if p, ok := v.f[m.valueFieldValue].(aIface); ok {
				if n, ok := p.v.(aInt); ok {
					out.f[fInt] = n
				}
			}
			return out, true
		},
		"(*object).regExpValue": func(in *absInterp, call *ssa.CallCommon, args []aval) (aval, bool) {
			out := in.zero(reT).(aStruct)
			out.f[fRE] = aAtom{"compiled-regexp"}
			return out, true
		},
		"(*object).put": func(in *absInterp, call *ssa.CallCommon, args []aval) (aval, bool) {
			name, _ := args[1].(aStr)
			v := "?"
			if s, ok := args[2].(aStruct); ok {
				if p, ok := s.f[m.valueFieldValue].(aIface); ok {
					if n, ok := p.v.(aInt); ok {
						v = fmt.Sprint(int64(n))
					}
				}
			}
			puts = append(puts, string(name)+"="+v)
			return aNil{}, true
		},
		"intValue": func(in *absInterp, call *ssa.CallCommon, args []aval) (aval, bool) {
			n, _ := args[0].(aInt)
			return m.mkValue(in, fmt.Sprintf("n:%d", int64(n))), true
		},
	}
	matcher := func(in *absInterp, call *ssa.CallCommon, args []aval) (aval, bool) {
		s, _ := args[len(args)-1].(aStr)
		searched = append(searched, string(s))
		var e []aval
		switch outcome {
		case "none":
			return aNil{}, true
		case "empty":
			e = []aval{aInt(0), aInt(0)}
		case "at1":
			if len(s) < 2 {
				return aNil{}, true
			}
			e = []aval{aInt(1), aInt(2)}
		}
		return aSlice{arr: aRef{root: &acell{v: aArr{e: e}, name: "match"}}, n: len(e)}, true
	}
	hooks["(*regexp.Regexp).FindStringSubmatchIndex"] = matcher
	hooks["regexp.(*Regexp).FindStringSubmatchIndex"] = matcher
	hooks["(*Regexp).FindStringSubmatchIndex"] = matcher
	in := newAbsInterp(hooks)
	const subject = "abcd"
	n, bad, fail := 0, "", ""
	for _, lastIndex = range []int64{-1, 0, 2, 4, 5} {
		for _, global = range []bool{false, true} {
			for _, outcome = range []string{"none", "empty", "at1"} {
				n++
				searched, puts = nil, nil
				obj := in.zero(m.tObject).(aStruct)
				obj.f[fClass] = aStr(constantStringVal(cls))
				ret, pan, f := absRun(in, fn, []aval{aRef{root: &acell{v: obj, name: "re"}}, aStr(subject)})
				if f != "" || pan != nil {
					fail = f + describeAvalOrNil(pan)
					continue
				}
				// ES5
				i := int64(0)
				if global {
					i = lastIndex
				}
				var wantSearched, wantPuts []string
				wantMatch := "no match"
				if i < 0 || i > int64(len(subject)) {
					wantPuts = []string{"lastIndex=0"}
				} else {
					suffix := subject[i:]
					wantSearched = []string{suffix}
					s, e := int64(-1), int64(-1)
					switch outcome {
					case "empty":
						s, e = 0, 0
					case "at1":
						if len(suffix) >= 2 {
							s, e = 1, 2
						}
					}
					if s < 0 {
						wantPuts = []string{"lastIndex=0"}
					} else {
						wantMatch = fmt.Sprintf("[%d %d]", i+s, i+e)
						if global {
							wantPuts = []string{fmt.Sprintf("lastIndex=%d", i+e)}
						}
					}
				}
				gotMatch := "no match"
				switch x := ret.(type) {
				case aTuple: // (matched, offsets)
					if len(x) == 2 {
						if b, ok := x[0].(aBool); ok && bool(b) {
							gotMatch = describeIntSlice(in, x[1])
						}
					}
				case aSlice: // offsets, nil for no match
					gotMatch = describeIntSlice(in, x)
				}
				if fmt.Sprint(searched) != fmt.Sprint(wantSearched) || fmt.Sprint(puts) != fmt.Sprint(wantPuts) || gotMatch != wantMatch {
					if bad == "" {
						bad = fmt.Sprintf("subject %q, lastIndex %d, global %v, matcher outcome %s: searched %v, wrote %v, reported %s; ES5 15.10.6.2 searches %v, writes %v, reports %s", subject, lastIndex, global, outcome, searched, puts, gotMatch, wantSearched, wantPuts, wantMatch)
					}
				}
			}
		}
	}
	site := c.Pos(fn.Pos())
	switch {
	case fail != "":
		r.undecided("exec", site, "UNDECIDED: the abstract evaluator does not model "+fail)
	case bad != "":
		r.bad("exec", site, "deviates from ES5: "+bad)
	default:
		r.ok("exec", site, fmt.Sprintf("%d cases agree with ES5", n))
	}
}

func constantStringVal(k *types.Const) string {
	s := k.Val().ExactString()
	if len(s) >= 2 && s[0] == '"' {
		return s[1 : len(s)-1]
	}
	return s
}

func describeIntSlice(in *absInterp, v aval) string {
	sl, ok := v.(aSlice)
	if !ok {
		return "?"
	}
	arr, ok := in.load(sl.arr).(aArr)
	if !ok {
		return "?"
	}
	var out []int64
	for i := 0; i < sl.n; i++ {
		if n, ok := arr.e[sl.off+i].(aInt); ok {
			out = append(out, int64(n))
		}
	}
	return fmt.Sprint(out)
}

func init() {
	register(&Rule{ID: "SPEC-parseint-prefix", Props: []string{"C06", "C05", "C13"}, Min: 1,
		Doc: "E (exhaustive abstract evaluation of the text handling of parseInt, 15.1.2.2 steps 2-13): the algorithm looks at characters only through comparisons with constants (the two signs, `0`, `x` / `X`, the digit classes of the radix, white space), so one representative per class is a sound quotient of the alphabet: every string of length <= 3 over + - 0 x X 1 9 f g space _ (and some longer ones around the prefix), for the radices 0, 1, 2, 10, 16, 36, 37 - about 10000 cases. The function's own SSA decides which digit string and radix reach the numeric conversion (a hook that records them), with which sign, and when the answer is NaN; compared with the algorithm of the specification. A prefix test that needs one character too many (`parseInt(\"0x\")` is NaN, not 0), is case-sensitive, strips several signs, or is applied for radix 10 shows up here",
		Run: ruleSpecParseIntPrefix})
}

func ruleSpecParseIntPrefix(c *Ctx, r *R) {
	w := defineWorldFor(c)
	if w == nil {
		r.undecided("world", "-", "UNRESOLVED: the abstract model of SPEC-define-own is not available")
		return
	}
	m := w.m
	fn := c.Shape().boundSSA(c, "")["parseInt"]
	if fn == nil {
		if f := c.LookupFunc("", "builtinGlobalParseInt"); f != nil {
			fn = c.SSAFunc(f)
		}
	}
	tCall := c.LookupType("", "FunctionCall")
	if fn == nil || tCall == nil {
		r.undecided("anchor", "-", "UNRESOLVED: the function bound to parseInt / FunctionCall")
		return
	}
	cst := tCall.Underlying().(*types.Struct)
	cArgs := -1
	for i := 0; i < cst.NumFields(); i++ {
		if cst.Field(i).Name() == "ArgumentList" {
			cArgs = i
		}
	}
	var input string
	var radix int64
	var parsed []string
	result := ""
	digit := func(ch byte) int64 {
		switch {
		case '0' <= ch && ch <= '9':
			return int64(ch - '0')
		case 'a' <= ch && ch <= 'z':
			return int64(ch-'a') + 10
		case 'A' <= ch && ch <= 'Z':
			return int64(ch-'A') + 10
		}
		return 36
	}
	hooks := map[string]absHook{
		"(Value).string": func(in *absInterp, call *ssa.CallCommon, args []aval) (aval, bool) { return aStr(input), true },
		"strings.Trim": func(in *absInterp, call *ssa.CallCommon, args []aval) (aval, bool) {
			s, _ := args[0].(aStr)
			t := string(s)
			for len(t) > 0 && t[0] == ' ' {
				t = t[1:]
			}
			for len(t) > 0 && t[len(t)-1] == ' ' {
				t = t[:len(t)-1]
			}
			return aStr(t), true
		},
		"Trim":    nil,
		"toInt32": func(in *absInterp, call *ssa.CallCommon, args []aval) (aval, bool) { return aInt(radix), true },
		"digitValue": func(in *absInterp, call *ssa.CallCommon, args []aval) (aval, bool) {
			n, _ := args[0].(aInt)
			return aInt(digit(byte(n))), true
		},
		"NaNValue": func(in *absInterp, call *ssa.CallCommon, args []aval) (aval, bool) {
			result = "NaN"
			return m.mkValue(in, "NaN"), true
		},
		"int64Value": func(in *absInterp, call *ssa.CallCommon, args []aval) (aval, bool) {
			n, _ := args[0].(aInt)
			result = fmt.Sprintf("value*%d", int64(n)/7)
			return m.mkValue(in, "number"), true
		},
	}
	delete(hooks, "Trim")
	parse := func(in *absInterp, call *ssa.CallCommon, args []aval) (aval, bool) {
		s, _ := args[0].(aStr)
		b, _ := args[1].(aInt)
		parsed = append(parsed, fmt.Sprintf("%q base %d", string(s), int64(b)))
		if len(s) == 0 {
			return aTuple{aInt(0), aIface{dyn: types.Universe.Lookup("error").Type(), v: aAtom{"syntax error"}}}, true
		}
		return aTuple{aInt(7), aIface{}}, true
	}
	hooks["strconv.ParseInt"] = parse
	hooks["ParseInt"] = parse
	hooks["errors.Is"] = func(in *absInterp, call *ssa.CallCommon, args []aval) (aval, bool) { return aBool(false), true }
	hooks["Is"] = hooks["errors.Is"]
	in := newAbsInterp(hooks)
	// every string of length <= 3 over one representative per class of characters the algorithm distinguishes (signs, the
	// prefix letters, digits below 2 / 10 / 16 / 36, white space, a non-digit), plus longer strings around the prefix
	alphabet := []byte{'+', '-', '0', 'x', 'X', '1', '9', 'f', 'g', ' ', '_'}
	inputs := []string{"", "0X1f", "-0x1", "+0X9", "0x1g", "00x1", "-0X-1", " -7", "0x7 ", "  0x", "0xfg"}
	var gen func(prefix string, n int)
	gen = func(prefix string, n int) {
		if prefix != "" {
			inputs = append(inputs, prefix)
		}
		if n == 0 {
			return
		}
		for _, ch := range alphabet {
			gen(prefix+string(ch), n-1)
		}
	}
	gen("", 3)
	radices := []int64{0, 1, 2, 10, 16, 36, 37}
	n, bad, fail := 0, "", ""
	for _, input = range inputs {
		for _, radix = range radices {
			n++
			parsed, result = nil, ""
			call := in.zero(tCall).(aStruct)
			elems := []aval{m.mkValue(in, "text"), m.mkValue(in, "radix")}
			call.f[cArgs] = aSlice{arr: aRef{root: &acell{v: aArr{e: elems}, name: "args"}}, n: 2}
			_, pan, f := absRun(in, fn, []aval{call})
			if f != "" || pan != nil {
				fail = f + describeAvalOrNil(pan)
				continue
			}
			// ES5 15.1.2.2
			s := input
			for len(s) > 0 && s[0] == ' ' { // step 2: leading white space is skipped (trailing text just ends the digits)
				s = s[1:]
			}
			sign := int64(1)
			if len(s) > 0 && (s[0] == '+' || s[0] == '-') {
				if s[0] == '-' {
					sign = -1
				}
				s = s[1:]
			}
			R, strip := radix, true
			want := ""
			switch {
			case R != 0 && (R < 2 || R > 36):
				want = "NaN"
			case R != 0 && R != 16:
				strip = false
			case R == 0:
				R = 10
			}
			if want == "" {
				if strip && len(s) >= 2 && s[0] == '0' && (s[1] == 'x' || s[1] == 'X') {
					s = s[2:]
					R = 16
				}
				z := 0
				for z < len(s) && digit(s[z]) < R {
					z++
				}
				if z == 0 {
					want = "NaN"
				} else {
					want = fmt.Sprintf("%q base %d value*%d", s[:z], R, sign)
				}
			}
			got := result
			if result != "NaN" && len(parsed) > 0 {
				got = parsed[len(parsed)-1] + " " + result
			}
			if got != want && bad == "" {
				bad = fmt.Sprintf("parseInt(%q, %d): the function converts %s; ES5 15.1.2.2 converts %s", input, radix, orNothing(got), want)
			}
		}
	}
	site := c.Pos(fn.Pos())
	switch {
	case fail != "":
		r.undecided("parseInt", site, "UNDECIDED: the abstract evaluator does not model "+fail)
	case bad != "":
		r.bad("parseInt", site, "deviates from ES5: "+bad)
	default:
		r.ok("parseInt", site, fmt.Sprintf("%d cases agree with ES5", n))
	}
}

func orNothing(s string) string {
	if s == "" {
		return "(nothing)"
	}
	return s
}
