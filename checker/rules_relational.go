package main

import (
	"fmt"
	"go/ast"
	"go/constant"
	"go/token"
	"go/types"
	"golang.org/x/tools/go/ssa"
	"strings"
)

func init() {
	register(&Rule{ID: "SPEC-relational", Props: []string{"C05", "C01"}, Min: 14, SubsumedBy: "SPEC-comparison-eval",
		Doc: "S (ES5 §11.8.1-11.8.4, §11.8.5): each relational arm of calculateComparison performs the abstract comparison with the operands in the order the clause prescribes (< : x,y LeftFirst=true; > : y,x false; <= : y,x false; >= : x,y true) and maps its three outcomes as prescribed (< and >: only true -> true; <= and >=: only false -> true; undefined, i.e. a NaN operand, -> false in all four). The outcome mapping is evaluated at analysis time over the three-valued result, whatever the spelling (table lookup, ==, !=). Inside calculateLessThan the LeftFirst flag selects which operand is converted first",
		Run: ruleSpecRelational})
}

// finEval evaluates a boolean/enum expression in which some nodes (calls or identifiers) are bound to constants.
type finEval struct {
	c       *Ctx
	info    *types.Info
	bindN   map[ast.Node]constant.Value
	bindObj map[types.Object]constant.Value
	err     string
}

type compositeVal struct{ lit *ast.CompositeLit }

func (e *finEval) fail(format string, a ...interface{}) interface{} {
	if e.err == "" {
		e.err = fmt.Sprintf(format, a...)
	}
	return nil
}

// eval returns a constant.Value or a compositeVal.
func (e *finEval) eval(x ast.Expr) interface{} {
	x = unparen(x)
	if v, ok := e.bindN[x]; ok {
		return v
	}
	if tv, ok := e.info.Types[x]; ok && tv.Value != nil {
		return tv.Value
	}
	switch n := x.(type) {
	case *ast.Ident:
		obj := e.info.Uses[n]
		if v, ok := e.bindObj[obj]; ok {
			return v
		}
		if k, ok := obj.(*types.Const); ok {
			return k.Val()
		}
		if v, ok := obj.(*types.Var); ok {
			if init := e.c.VarInit(v); init != nil {
				if cl, ok := unparen(init).(*ast.CompositeLit); ok {
					return compositeVal{cl}
				}
			}
		}
		return e.fail("cannot evaluate identifier %s", n.Name)
	case *ast.CompositeLit:
		return compositeVal{n}
	case *ast.IndexExpr:
		base := e.eval(n.X)
		idx := e.eval(n.Index)
		cv, ok := base.(compositeVal)
		iv, ok2 := idx.(constant.Value)
		if !ok || !ok2 {
			return e.fail("cannot evaluate index expression")
		}
		info := e.c.InfoFor(cv.lit)
		pos := int64(0)
		for _, el := range cv.lit.Elts {
			if kv, ok := el.(*ast.KeyValueExpr); ok {
				if ktv, ok := info.Types[kv.Key]; ok && ktv.Value != nil {
					if constant.Compare(ktv.Value, token.EQL, iv) {
						return e.evalIn(info, kv.Value)
					}
					if k, isInt := constant.Int64Val(ktv.Value); isInt {
						pos = k + 1
					}
					continue
				}
				return e.fail("non-constant key in table literal")
			}
			if k, isInt := constant.Int64Val(iv); isInt && iv.Kind() == constant.Int && k == pos {
				return e.evalIn(info, el)
			}
			pos++
		}
		// missing map key: zero value
		if t, ok := info.Types[cv.lit]; ok {
			if m, isMap := t.Type.Underlying().(*types.Map); isMap {
				if b, isB := m.Elem().Underlying().(*types.Basic); isB && b.Info()&types.IsBoolean != 0 {
					return constant.MakeBool(false)
				}
			}
		}
		return e.fail("index not found in table literal")
	case *ast.UnaryExpr:
		if n.Op == token.NOT {
			if v, ok := e.eval(n.X).(constant.Value); ok && v.Kind() == constant.Bool {
				return constant.MakeBool(!constant.BoolVal(v))
			}
		}
		return e.fail("cannot evaluate unary %s", n.Op)
	case *ast.BinaryExpr:
		l, lok := e.eval(n.X).(constant.Value)
		r, rok := e.eval(n.Y).(constant.Value)
		if !lok || !rok {
			return e.fail("cannot evaluate operand of %s", n.Op)
		}
		switch n.Op {
		case token.LAND:
			return constant.MakeBool(constant.BoolVal(l) && constant.BoolVal(r))
		case token.LOR:
			return constant.MakeBool(constant.BoolVal(l) || constant.BoolVal(r))
		case token.EQL, token.NEQ, token.LSS, token.LEQ, token.GTR, token.GEQ:
			return constant.MakeBool(constant.Compare(l, n.Op, r))
		}
		return e.fail("cannot evaluate binary %s", n.Op)
	}
	return e.fail("cannot evaluate %T", x)
}

func (e *finEval) evalIn(info *types.Info, x ast.Expr) interface{} {
	saved := e.info
	e.info = info
	defer func() { e.info = saved }()
	return e.eval(x)
}

func ruleSpecRelational(c *Ctx, r *R) {
	var fd *ast.FuncDecl
	if n := c.LookupType("", "runtime"); n != nil {
		for i := 0; i < n.NumMethods(); i++ {
			if n.Method(i).Name() == "calculateComparison" {
				fd = c.Decl(n.Method(i))
			}
		}
	}
	ltFn := c.LookupFunc("", "calculateLessThan")
	if fd == nil || ltFn == nil {
		r.undecided("unresolved:calculateComparison", "-", "UNRESOLVED: calculateComparison / calculateLessThan not found")
		return
	}
	info := c.InfoFor(fd)
	enum := map[string]constant.Value{}
	for _, name := range []string{"lessThanTrue", "lessThanFalse", "lessThanUndefined"} {
		if k, ok := c.Otto().Types.Scope().Lookup(name).(*types.Const); ok {
			enum[name] = k.Val()
		}
	}
	if len(enum) != 3 {
		r.undecided("unresolved:lessThanResult", "-", "UNRESOLVED: the three lessThanResult constants were not found")
		return
	}
	// which parameter does a local name come from
	sig := info.Defs[fd.Name].Type().(*types.Signature)
	paramIdx := func(obj types.Object) int {
		for i := 0; i < sig.Params().Len(); i++ {
			if sig.Params().At(i) == obj {
				return i
			}
		}
		return -1
	}
	var originOf func(x ast.Expr, depth int) int
	originOf = func(x ast.Expr, depth int) int {
		found := -1
		ast.Inspect(x, func(n ast.Node) bool {
			id, ok := n.(*ast.Ident)
			if !ok || found >= 0 {
				return true
			}
			obj := info.Uses[id]
			if obj == nil {
				return true
			}
			if i := paramIdx(obj); i >= 0 {
				found = i
				return false
			}
			if depth < 3 {
				// local: its (single) defining assignment
				ast.Inspect(fd.Body, func(m ast.Node) bool {
					as, ok := m.(*ast.AssignStmt)
					if !ok || as.Tok != token.DEFINE || len(as.Lhs) != len(as.Rhs) {
						return true
					}
					for i, l := range as.Lhs {
						if lid, ok := l.(*ast.Ident); ok && info.Defs[lid] == obj && found < 0 {
							found = originOf(as.Rhs[i], depth+1)
						}
					}
					return true
				})
			}
			return true
		})
		return found
	}
	// parameter positions: (comparator, left, right)
	leftIdx, rightIdx := 1, 2
	type want struct {
		swapped   bool
		leftFirst bool
		onTrue    bool // outcome true -> ?
		onFalse   bool
		clause    string
	}
	spec := map[string]want{
		"LESS":             {false, true, true, false, "§11.8.1"},
		"GREATER":          {true, false, true, false, "§11.8.2"},
		"LESS_OR_EQUAL":    {true, false, false, true, "§11.8.3"},
		"GREATER_OR_EQUAL": {false, true, false, true, "§11.8.4"},
	}
	seen := map[string]bool{}
	ast.Inspect(fd.Body, func(n ast.Node) bool {
		cc, ok := n.(*ast.CaseClause)
		if !ok {
			return true
		}
		for _, e := range cc.List {
			sel, ok := unparen(e).(*ast.SelectorExpr)
			if !ok {
				continue
			}
			w, ok := spec[sel.Sel.Name]
			if !ok {
				continue
			}
			if k, isC := info.Uses[sel.Sel].(*types.Const); !isC || k.Pkg() == nil || !strings.HasSuffix(k.Pkg().Path(), "/token") {
				continue
			}
			op := sel.Sel.Name
			seen[op] = true
			site := c.Pos(cc.Pos())
			// the abstract-comparison call of this arm
			var call *ast.CallExpr
			for _, st := range cc.Body {
				ast.Inspect(st, func(m ast.Node) bool {
					if ce, ok := m.(*ast.CallExpr); ok {
						if id, ok := unparen(ce.Fun).(*ast.Ident); ok && info.Uses[id] == types.Object(ltFn) && call == nil {
							call = ce
						}
					}
					return true
				})
			}
			if call == nil || len(call.Args) != 3 {
				r.bad(op+":call", site, fmt.Sprintf("%s: the %s arm does not perform the abstract relational comparison (calculateLessThan)", w.clause, op))
				continue
			}
			a0, a1 := originOf(call.Args[0], 0), originOf(call.Args[1], 0)
			swapped := a0 == rightIdx && a1 == leftIdx
			straight := a0 == leftIdx && a1 == rightIdx
			if !swapped && !straight {
				r.undecided(op+":operands", site, "cannot tell which operand is passed first to calculateLessThan")
			} else {
				r.check(swapped == w.swapped, op+":operands", site, "operand order as prescribed", fmt.Sprintf("%s: the %s arm compares %s; the clause prescribes %s", w.clause, op, map[bool]string{true: "(right, left)", false: "(left, right)"}[swapped], map[bool]string{true: "(right, left)", false: "(left, right)"}[w.swapped]))
			}
			if tv, ok := info.Types[call.Args[2]]; ok && tv.Value != nil && tv.Value.Kind() == constant.Bool {
				lf := constant.BoolVal(tv.Value)
				r.check(lf == w.leftFirst, op+":leftFirst", site, fmt.Sprintf("LeftFirst=%v", lf), fmt.Sprintf("%s: the %s arm passes LeftFirst=%v, the clause prescribes %v: with two object operands valueOf/toString run in the wrong order and the wrong exception wins", w.clause, op, lf, w.leftFirst))
			} else {
				r.undecided(op+":leftFirst", site, "LeftFirst argument is not a constant")
			}
			// outcome mapping: the expression assigned in this arm that depends on the call
			var target ast.Expr
			bindObj := map[types.Object]bool{}
			for _, st := range cc.Body {
				as, ok := st.(*ast.AssignStmt)
				if !ok || len(as.Lhs) != 1 || len(as.Rhs) != 1 {
					continue
				}
				contains := false
				ast.Inspect(as.Rhs[0], func(m ast.Node) bool {
					if m == ast.Node(call) {
						contains = true
					}
					if id, ok := m.(*ast.Ident); ok && bindObj[info.Uses[id]] {
						contains = true
					}
					return true
				})
				if !contains {
					continue
				}
				if unparen(as.Rhs[0]) == ast.Expr(call) {
					// tmp := calculateLessThan(...)
					if id, ok := as.Lhs[0].(*ast.Ident); ok {
						if o := info.Defs[id]; o != nil {
							bindObj[o] = true
						} else if o := info.Uses[id]; o != nil {
							bindObj[o] = true
						}
					}
					continue
				}
				target = as.Rhs[0]
			}
			if target == nil {
				// no single expression (a switch over the outcome, early returns, ...): evaluate the whole function on the
				// finite domain instead - comparator fixed, calculateLessThan replaced by each of its three results
				got, why := relationalOutcomesByEvaluation(c, fd, ltFn, sel, enum)
				if got == nil {
					r.undecided(op+":outcome", site, "cannot find the expression that maps the comparison outcome to the result of the arm, and cannot evaluate the function: "+why)
					continue
				}
				wantMap := map[string]string{"lessThanTrue": fmt.Sprint(w.onTrue), "lessThanFalse": fmt.Sprint(w.onFalse), "lessThanUndefined": "false"}
				for _, name := range []string{"lessThanTrue", "lessThanFalse", "lessThanUndefined"} {
					key := op + ":outcome:" + name
					if got[name] == wantMap[name] {
						r.ok(key, site, "-> "+got[name]+" (by evaluation of the function)")
					} else {
						r.bad(key, site, fmt.Sprintf("%s: in the %s arm the comparison outcome %s yields %s, the clause prescribes %s (lessThanUndefined is the NaN / undefined case and must give false for all four operators)", w.clause, op, name, got[name], wantMap[name]))
					}
				}
				continue
			}
			got := map[string]string{}
			for name, val := range enum {
				ev := &finEval{c: c, info: info, bindN: map[ast.Node]constant.Value{call: val}, bindObj: map[types.Object]constant.Value{}}
				for o := range bindObj {
					ev.bindObj[o] = val
				}
				res, ok := ev.eval(target).(constant.Value)
				if !ok || res.Kind() != constant.Bool {
					got[name] = "?" + ev.err
				} else {
					got[name] = fmt.Sprint(constant.BoolVal(res))
				}
			}
			wantMap := map[string]string{"lessThanTrue": fmt.Sprint(w.onTrue), "lessThanFalse": fmt.Sprint(w.onFalse), "lessThanUndefined": "false"}
			for _, name := range []string{"lessThanTrue", "lessThanFalse", "lessThanUndefined"} {
				key := op + ":outcome:" + name
				switch {
				case strings.HasPrefix(got[name], "?"):
					r.undecided(key, site, "cannot evaluate the outcome mapping: "+strings.TrimPrefix(got[name], "?"))
				case got[name] == wantMap[name]:
					r.ok(key, site, "-> "+got[name])
				default:
					r.bad(key, site, fmt.Sprintf("%s: in the %s arm the comparison outcome %s yields %s, the clause prescribes %s (lessThanUndefined is the NaN / undefined case and must give false for all four operators)", w.clause, op, name, got[name], wantMap[name]))
				}
			}
		}
		return true
	})
	for op := range spec {
		if !seen[op] {
			r.bad(op+":arm", c.Pos(fd.Pos()), "calculateComparison has no arm for token."+op)
		}
	}
	// inside calculateLessThan: the flag selects which conversion comes first
	ltDecl := c.Decl(ltFn)
	if ltDecl == nil {
		return
	}
	linfo := c.InfoFor(ltDecl)
	lsig := linfo.Defs[ltDecl.Name].Type().(*types.Signature)
	if lsig.Params().Len() != 3 {
		r.undecided("lessThan:signature", c.Pos(ltDecl.Pos()), "calculateLessThan no longer takes (left, right, leftFirst)")
		return
	}
	flag := lsig.Params().At(2)
	found := false
	ast.Inspect(ltDecl.Body, func(n ast.Node) bool {
		iff, ok := n.(*ast.IfStmt)
		if !ok || found {
			return true
		}
		neg := false
		cond := unparen(iff.Cond)
		if u, ok := cond.(*ast.UnaryExpr); ok && u.Op == token.NOT {
			neg, cond = true, unparen(u.X)
		}
		id, ok := cond.(*ast.Ident)
		if !ok || linfo.Uses[id] != types.Object(flag) {
			return true
		}
		found = true
		order := func(body ast.Node) []int {
			var seq []int
			if body == nil {
				return nil
			}
			ast.Inspect(body, func(m ast.Node) bool {
				if ce, ok := m.(*ast.CallExpr); ok && len(ce.Args) >= 1 && len(ce.Args) <= 2 {
					if aid, ok := unparen(ce.Args[0]).(*ast.Ident); ok {
						for i := 0; i < 2; i++ {
							if linfo.Uses[aid] == types.Object(lsig.Params().At(i)) {
								seq = append(seq, i)
							}
						}
					}
				}
				return true
			})
			return seq
		}
		thenSeq, elseSeq := order(iff.Body), order(iff.Else)
		if neg {
			thenSeq, elseSeq = elseSeq, thenSeq
		}
		okThen := len(thenSeq) == 2 && thenSeq[0] == 0 && thenSeq[1] == 1
		okElse := len(elseSeq) == 2 && elseSeq[0] == 1 && elseSeq[1] == 0
		r.check(okThen, "lessThan:leftFirst=true", c.Pos(iff.Pos()), "left converted before right", "§11.8.5 step 1: with LeftFirst the left operand must be converted to a primitive before the right one")
		r.check(okElse, "lessThan:leftFirst=false", c.Pos(iff.Pos()), "right converted before left", "§11.8.5 step 2: without LeftFirst the right operand must be converted to a primitive before the left one")
		return true
	})
	if !found {
		r.bad("lessThan:flag", c.Pos(ltDecl.Pos()), "calculateLessThan does not branch on its LeftFirst parameter: the order of the two ToPrimitive conversions no longer depends on it")
	}
}

// relationalOutcomesByEvaluation runs calculateComparison in the abstract interpreter with the comparator fixed to the
// token constant sel names, two number operands, and calculateLessThan replaced by a stub returning each of its three
// results; returns outcome name -> "true"/"false".
func relationalOutcomesByEvaluation(c *Ctx, fd *ast.FuncDecl, ltFn *types.Func, sel *ast.SelectorExpr, enum map[string]constant.Value) (map[string]string, string) {
	w := defineWorldFor(c)
	info := c.InfoFor(fd)
	fobj, _ := info.Defs[fd.Name].(*types.Func)
	fn := c.SSAFunc(fobj)
	k, _ := info.Uses[sel.Sel].(*types.Const)
	if w == nil || fn == nil || k == nil {
		return nil, "anchors"
	}
	tok, _ := constant.Int64Val(k.Val())
	out := map[string]string{}
	for name, val := range enum {
		n, _ := constant.Int64Val(val)
		hooks := map[string]absHook{
			ssaFuncName(c.SSAFunc(ltFn)): func(in *absInterp, call *ssa.CallCommon, args []aval) (aval, bool) {
				return aInt(n), true
			},
		}
		in := newAbsInterp(hooks)
		ret, pan, fail := absRun(in, fn, []aval{aAtom{"rt"}, aInt(tok), w.m.mkValue(in, "n:1"), w.m.mkValue(in, "n:2")})
		if fail != "" {
			return nil, fail
		}
		if pan != nil {
			return nil, "the function panics"
		}
		b, ok := ret.(aBool)
		if !ok {
			return nil, fmt.Sprintf("result %T", ret)
		}
		out[name] = fmt.Sprint(bool(b))
	}
	return out, ""
}
