package main

import (
	"fmt"
	"go/ast"
	"go/constant"
	"go/token"
	"go/types"
	"sort"
	"strings"
)

func init() {
	register(&Rule{ID: "SPEC-abstract-equality", Props: []string{"C05"}, Min: 36, SubsumedBy: "SPEC-comparison-eval",
		Doc: "S (ES5 §11.9.3, the abstract equality comparison): the case analysis of `==` in calculateComparison is executed abstractly for every ordered pair of the six script-visible kinds. The case conditions are evaluated over the kind constants (whatever their spelling: ==, <=, &&, ||), the selected arm is interpreted (answer true / false, compare as numbers, compare as same kind, retry with ToNumber of a boolean operand, retry with ToPrimitive of an object operand, the primitive being any of the five primitive kinds), and the set of terminal outcomes reached is compared with the set the ten steps of §11.9.3 reach for that pair. Reordering the cases is harmless if the outcomes agree; a changed bound, a swapped operand or a missing step changes the outcome of some pair",
		Run: ruleSpecAbstractEquality})
	register(&Rule{ID: "SPEC-typeof", Props: []string{"C05", "C01"}, Min: 7,
		Doc: "S (ES5 §11.4.3 table 20): the typeof arm of the unary-operator evaluator maps each of the six kinds to the prescribed string (null -> \"object\"; an object -> \"function\" exactly when it is callable, else \"object\") and an unresolvable reference to \"undefined\" without throwing",
		Run: ruleSpecTypeof})
}

var es5Kinds = []string{"valueUndefined", "valueNull", "valueBoolean", "valueNumber", "valueString", "valueObject"}

// specAbstractEq: terminal outcomes of §11.9.3 for operand kinds (x, y).
func specAbstractEq(x, y string, depth int) map[string]bool {
	out := map[string]bool{}
	add := func(m map[string]bool) {
		for k := range m {
			out[k] = true
		}
	}
	prim := []string{"valueUndefined", "valueNull", "valueBoolean", "valueNumber", "valueString"}
	switch {
	case depth > 6:
		out["diverges"] = true
	case x == y: // step 1
		out["same:"+x] = true
	case (x == "valueNull" && y == "valueUndefined") || (x == "valueUndefined" && y == "valueNull"): // 2, 3
		out["true"] = true
	case (x == "valueNumber" && y == "valueString") || (x == "valueString" && y == "valueNumber"): // 4, 5
		out["numeric"] = true
	case x == "valueBoolean": // 6
		add(specAbstractEq("valueNumber", y, depth+1))
	case y == "valueBoolean": // 7
		add(specAbstractEq(x, "valueNumber", depth+1))
	case (x == "valueString" || x == "valueNumber") && y == "valueObject": // 8
		for _, p := range prim {
			add(specAbstractEq(x, p, depth+1))
		}
	case x == "valueObject" && (y == "valueString" || y == "valueNumber"): // 9
		for _, p := range prim {
			add(specAbstractEq(p, y, depth+1))
		}
	default: // 10
		out["false"] = true
	}
	return out
}

type eqArm struct {
	cond ast.Expr // nil: default
	body []ast.Stmt
}

func ruleSpecAbstractEquality(c *Ctx, r *R) {
	var fd *ast.FuncDecl
	if n := c.LookupType("", "runtime"); n != nil {
		for i := 0; i < n.NumMethods(); i++ {
			if n.Method(i).Name() == "calculateComparison" {
				fd = c.Decl(n.Method(i))
			}
		}
	}
	if fd == nil {
		r.undecided("unresolved:calculateComparison", "-", "UNRESOLVED: calculateComparison not found")
		return
	}
	info := c.InfoFor(fd)
	kindVal := map[string]constant.Value{}
	for _, k := range es5Kinds {
		if cobj, ok := c.Otto().Types.Scope().Lookup(k).(*types.Const); ok {
			kindVal[k] = cobj.Val()
		}
	}
	if len(kindVal) != 6 {
		r.undecided("unresolved:kinds", "-", "UNRESOLVED: kind constants")
		return
	}
	sig := info.Defs[fd.Name].Type().(*types.Signature)
	if sig.Params().Len() != 3 {
		r.undecided("unresolved:signature", c.Pos(fd.Pos()), "calculateComparison no longer takes (comparator, left, right)")
		return
	}
	// the EQUAL clause of the comparator switch and the tagless switch inside it
	var arms []eqArm
	var eqClause *ast.CaseClause
	ast.Inspect(fd.Body, func(n ast.Node) bool {
		cc, ok := n.(*ast.CaseClause)
		if !ok {
			return true
		}
		for _, e := range cc.List {
			if sel, ok := unparen(e).(*ast.SelectorExpr); ok && sel.Sel.Name == "EQUAL" {
				if k, isC := info.Uses[sel.Sel].(*types.Const); isC && k.Pkg() != nil && strings.HasSuffix(k.Pkg().Path(), "/token") {
					eqClause = cc
				}
			}
		}
		return true
	})
	if eqClause == nil {
		r.bad("arm:EQUAL", c.Pos(fd.Pos()), "calculateComparison has no arm for token.EQUAL")
		return
	}
	for _, st := range eqClause.Body {
		if sw, ok := st.(*ast.SwitchStmt); ok && sw.Tag == nil {
			for _, s := range sw.Body.List {
				cc := s.(*ast.CaseClause)
				if cc.List == nil {
					arms = append(arms, eqArm{nil, cc.Body})
					continue
				}
				// several expressions in one case are alternatives
				var cond ast.Expr
				for _, e := range cc.List {
					if cond == nil {
						cond = e
					} else {
						cond = &ast.BinaryExpr{X: cond, Op: token.LOR, Y: e}
					}
				}
				arms = append(arms, eqArm{cond, cc.Body})
			}
		}
	}
	if len(arms) == 0 {
		r.undecided("unresolved:EQUAL-switch", c.Pos(eqClause.Pos()), "UNRESOLVED: the EQUAL arm contains no tagless switch over the operand kinds (the case analysis was restructured)")
		return
	}
	// which local is the left / right operand
	operandOf := func(e ast.Expr) string { // "x" or "y": by the parameter the identifier derives from
		id, ok := unparen(e).(*ast.Ident)
		if !ok {
			return ""
		}
		obj := info.Uses[id]
		origin := -1
		for i := 1; i < 3; i++ {
			if sig.Params().At(i) == obj {
				origin = i
			}
		}
		if origin < 0 {
			ast.Inspect(fd.Body, func(m ast.Node) bool {
				as, ok := m.(*ast.AssignStmt)
				if !ok || as.Tok != token.DEFINE || len(as.Lhs) != len(as.Rhs) {
					return true
				}
				for i, l := range as.Lhs {
					if lid, ok := l.(*ast.Ident); ok && info.Defs[lid] == obj {
						ast.Inspect(as.Rhs[i], func(k ast.Node) bool {
							if rid, ok := k.(*ast.Ident); ok {
								for p := 1; p < 3; p++ {
									if info.Uses[rid] == types.Object(sig.Params().At(p)) {
										origin = p
									}
								}
							}
							return true
						})
					}
				}
				return true
			})
		}
		switch origin {
		case 1:
			return "x"
		case 2:
			return "y"
		}
		return ""
	}
	// evaluate a condition for concrete kinds
	var evalCond func(e ast.Expr, kx, ky string) (bool, string)
	evalCond = func(e ast.Expr, kx, ky string) (bool, string) {
		e = unparen(e)
		var operand func(e ast.Expr) (constant.Value, string)
		operand = func(e ast.Expr) (constant.Value, string) {
			e = unparen(e)
			if tv, ok := info.Types[e]; ok && tv.Value != nil {
				return tv.Value, ""
			}
			if sel, ok := e.(*ast.SelectorExpr); ok && sel.Sel.Name == "kind" {
				switch operandOf(sel.X) {
				case "x":
					return kindVal[kx], ""
				case "y":
					return kindVal[ky], ""
				}
			}
			return nil, "cannot evaluate " + types.ExprString(e)
		}
		switch n := e.(type) {
		case *ast.BinaryExpr:
			switch n.Op {
			case token.LAND, token.LOR:
				a, e1 := evalCond(n.X, kx, ky)
				b, e2 := evalCond(n.Y, kx, ky)
				if e1 != "" {
					return false, e1
				}
				if e2 != "" {
					return false, e2
				}
				if n.Op == token.LAND {
					return a && b, ""
				}
				return a || b, ""
			case token.EQL, token.NEQ, token.LSS, token.LEQ, token.GTR, token.GEQ:
				a, e1 := operand(n.X)
				b, e2 := operand(n.Y)
				if e1 != "" {
					return false, e1
				}
				if e2 != "" {
					return false, e2
				}
				return constant.Compare(a, n.Op, b), ""
			}
		case *ast.UnaryExpr:
			if n.Op == token.NOT {
				v, err := evalCond(n.X, kx, ky)
				return !v, err
			}
		}
		return false, "cannot evaluate condition " + types.ExprString(e)
	}
	// interpret an arm
	type action struct {
		kind string // true false numeric same retry panic unknown
		nx   []string
		ny   []string
	}
	prim := []string{"valueUndefined", "valueNull", "valueBoolean", "valueNumber", "valueString"}
	interpret := func(body []ast.Stmt, kx, ky string) action {
		for _, st := range body {
			switch s := st.(type) {
			case *ast.AssignStmt:
				if len(s.Lhs) != 1 || len(s.Rhs) != 1 {
					continue
				}
				lhs, _ := s.Lhs[0].(*ast.Ident)
				if lhs == nil {
					continue
				}
				rhs := unparen(s.Rhs[0])
				if tv, ok := info.Types[rhs]; ok && tv.Value != nil && tv.Value.Kind() == constant.Bool {
					if lhs.Name == "kindEqualKind" {
						if constant.BoolVal(tv.Value) {
							return action{kind: "same"}
						}
						continue
					}
					if constant.BoolVal(tv.Value) {
						return action{kind: "true"}
					}
					return action{kind: "false"}
				}
				if be, ok := rhs.(*ast.BinaryExpr); ok && be.Op == token.EQL {
					// x.float64() == y.float64()
					isNum := func(e ast.Expr) bool {
						ce, ok := unparen(e).(*ast.CallExpr)
						if !ok {
							return false
						}
						sel, ok := ce.Fun.(*ast.SelectorExpr)
						return ok && sel.Sel.Name == "float64"
					}
					if isNum(be.X) && isNum(be.Y) {
						return action{kind: "numeric"}
					}
				}
				if ce, ok := rhs.(*ast.CallExpr); ok {
					if sel, ok := ce.Fun.(*ast.SelectorExpr); ok && sel.Sel.Name == "calculateComparison" && len(ce.Args) == 3 {
						conv := func(e ast.Expr, cur string) ([]string, string) {
							e = unparen(e)
							if o := operandOf(e); o != "" {
								return []string{cur}, o
							}
							if call, ok := e.(*ast.CallExpr); ok && (len(call.Args) == 1 || (len(call.Args) == 2 && isIdentNamed(call.Fun, "toPrimitive"))) {
								fname := ""
								switch f := call.Fun.(type) {
								case *ast.Ident:
									fname = f.Name
								case *ast.SelectorExpr:
									fname = f.Sel.Name
								}
								switch fname {
								case "float64Value":
									// float64Value(x.float64())
									inner := unparen(call.Args[0])
									if ic, ok := inner.(*ast.CallExpr); ok {
										if isel, ok := ic.Fun.(*ast.SelectorExpr); ok && isel.Sel.Name == "float64" {
											return []string{"valueNumber"}, operandOf(isel.X)
										}
									}
								case "toPrimitiveValue", "toPrimitive", "toNumberPrimitive":
									return prim, operandOf(call.Args[0])
								}
							}
							return nil, ""
						}
						nx, ox := conv(ce.Args[1], kx)
						ny, oy := conv(ce.Args[2], ky)
						if nx == nil || ny == nil || ox != "x" || oy != "y" {
							return action{kind: "unknown"}
						}
						return action{kind: "retry", nx: nx, ny: ny}
					}
				}
			case *ast.ExprStmt:
				if ce, ok := s.X.(*ast.CallExpr); ok {
					if id, ok := ce.Fun.(*ast.Ident); ok && id.Name == "panic" {
						return action{kind: "panic"}
					}
				}
			}
		}
		return action{kind: "unknown"}
	}
	var implEq func(kx, ky string, depth int) (map[string]bool, string)
	implEq = func(kx, ky string, depth int) (map[string]bool, string) {
		out := map[string]bool{}
		if depth > 6 {
			out["diverges"] = true
			return out, ""
		}
		for _, arm := range arms {
			take := arm.cond == nil
			if arm.cond != nil {
				v, err := evalCond(arm.cond, kx, ky)
				if err != "" {
					return nil, err
				}
				take = v
			}
			if !take {
				continue
			}
			act := interpret(arm.body, kx, ky)
			switch act.kind {
			case "true", "false", "numeric", "panic":
				out[map[string]string{"true": "true", "false": "false", "numeric": "numeric", "panic": "host-panic"}[act.kind]] = true
			case "same":
				if kx != ky {
					out["same-kind-compare-of-different-kinds"] = true
				} else {
					out["same:"+kx] = true
				}
			case "retry":
				for _, a := range act.nx {
					for _, b := range act.ny {
						sub, err := implEq(a, b, depth+1)
						if err != "" {
							return nil, err
						}
						for k := range sub {
							out[k] = true
						}
					}
				}
			default:
				return nil, "cannot interpret the arm at " + c.Pos(arm.body[0].Pos())
			}
			return out, ""
		}
		out["no-arm"] = true
		return out, ""
	}
	short := func(k string) string { return strings.TrimPrefix(k, "value") }
	setStr := func(m map[string]bool) string {
		var ks []string
		for k := range m {
			ks = append(ks, strings.ReplaceAll(k, "value", ""))
		}
		sort.Strings(ks)
		return "{" + strings.Join(ks, ", ") + "}"
	}
	for _, kx := range es5Kinds {
		for _, ky := range es5Kinds {
			key := short(kx) + "==" + short(ky)
			got, err := implEq(kx, ky, 0)
			if err != "" {
				r.undecided(key, c.Pos(eqClause.Pos()), err)
				continue
			}
			want := specAbstractEq(kx, ky, 0)
			r.check(setStr(got) == setStr(want), key, c.Pos(eqClause.Pos()), "outcomes "+setStr(got), fmt.Sprintf("§11.9.3: for %s == %s the ten steps reach the outcomes %s; the implementation's case analysis reaches %s", short(kx), short(ky), setStr(want), setStr(got)))
		}
	}
}

func ruleSpecTypeof(c *Ctx, r *R) {
	want := map[string]string{"valueUndefined": "undefined", "valueNull": "object", "valueBoolean": "boolean", "valueNumber": "number", "valueString": "string"}
	var found bool
	for _, f := range c.Otto().Syntax {
		ast.Inspect(f, func(n ast.Node) bool {
			cc, ok := n.(*ast.CaseClause)
			if !ok || len(cc.List) != 1 {
				return true
			}
			sel, ok := unparen(cc.List[0]).(*ast.SelectorExpr)
			if !ok || sel.Sel.Name != "TYPEOF" {
				return true
			}
			info := c.Otto().TypesInfo
			// the clause that contains a switch over <x>.kind
			var sw *ast.SwitchStmt
			for _, st := range cc.Body {
				if s, ok := st.(*ast.SwitchStmt); ok && s.Tag != nil {
					if ts, ok := unparen(s.Tag).(*ast.SelectorExpr); ok && ts.Sel.Name == "kind" {
						sw = s
					}
				}
			}
			if sw == nil {
				return true
			}
			found = true
			got := map[string]*ast.CaseClause{}
			for _, st := range sw.Body.List {
				k := st.(*ast.CaseClause)
				for _, e := range k.List {
					if id, ok := unparen(e).(*ast.Ident); ok {
						got[id.Name] = k
					}
				}
			}
			retStrings := func(k *ast.CaseClause) []string {
				var out []string
				ast.Inspect(k, func(m ast.Node) bool {
					if rs, ok := m.(*ast.ReturnStmt); ok && len(rs.Results) == 1 {
						if ce, ok := unparen(rs.Results[0]).(*ast.CallExpr); ok && len(ce.Args) == 1 {
							if tv, ok := info.Types[ce.Args[0]]; ok && tv.Value != nil && tv.Value.Kind() == constant.String {
								out = append(out, constant.StringVal(tv.Value))
							}
						}
					}
					return true
				})
				return out
			}
			for kind, str := range want {
				k := got[kind]
				if k == nil {
					r.bad("typeof:"+kind, c.Pos(sw.Pos()), "§11.4.3: the typeof switch has no arm for "+kind)
					continue
				}
				rs := retStrings(k)
				r.check(len(rs) == 1 && rs[0] == str, "typeof:"+kind, c.Pos(k.Pos()), "\""+str+"\"", fmt.Sprintf("§11.4.3 table 20: typeof of a %s value must be %q; the arm returns %q", strings.TrimPrefix(kind, "value"), str, rs))
			}
			if k := got["valueObject"]; k == nil {
				r.bad("typeof:valueObject", c.Pos(sw.Pos()), "§11.4.3: the typeof switch has no arm for objects")
			} else {
				rs := retStrings(k)
				sort.Strings(rs)
				callable := false
				var fnUnderCall bool
				ast.Inspect(k, func(m ast.Node) bool {
					if iff, ok := m.(*ast.IfStmt); ok {
						ast.Inspect(iff.Cond, func(x ast.Node) bool {
							if s, ok := x.(*ast.SelectorExpr); ok && (s.Sel.Name == "isCall" || s.Sel.Name == "isCallable" || s.Sel.Name == "IsFunction") {
								callable = true
							}
							return true
						})
						if callable {
							for _, s := range retStringsOf(info, iff.Body) {
								if s == "function" {
									fnUnderCall = true
								}
							}
						}
					}
					return true
				})
				r.check(strings.Join(rs, ",") == "function,object" && callable && fnUnderCall, "typeof:valueObject", c.Pos(k.Pos()), "\"function\" when callable, else \"object\"", fmt.Sprintf("§11.4.3 table 20: typeof of an object is \"function\" exactly when it implements [[Call]], else \"object\"; the arm returns %q (callable test found: %v)", rs, callable))
			}
			// unresolvable reference -> "undefined"
			return true
		})
	}
	if !found {
		r.undecided("unresolved:typeof", "-", "UNRESOLVED: no `case token.TYPEOF` arm with a switch over the operand's kind")
		return
	}
	// the early arm: typeof of an unresolvable reference
	early := false
	for _, f := range c.Otto().Syntax {
		ast.Inspect(f, func(n ast.Node) bool {
			iff, ok := n.(*ast.IfStmt)
			if !ok {
				return true
			}
			mentionsInvalid, mentionsTypeof := false, false
			ast.Inspect(iff, func(x ast.Node) bool {
				if s, ok := x.(*ast.SelectorExpr); ok {
					if s.Sel.Name == "invalid" {
						mentionsInvalid = true
					}
					if s.Sel.Name == "TYPEOF" {
						mentionsTypeof = true
					}
				}
				return true
			})
			if mentionsInvalid && mentionsTypeof {
				for _, s := range retStringsOf(c.Otto().TypesInfo, iff.Body) {
					if s == "undefined" {
						early = true
					}
				}
			}
			return true
		})
	}
	r.check(early, "typeof:unresolvable", "cmpl_evaluate_expression.go", "an unresolvable reference gives \"undefined\"", "§11.4.3 step 2.a: typeof of an unresolvable reference must be \"undefined\" (no ReferenceError); no such early return exists")
}

func retStringsOf(info *types.Info, n ast.Node) []string {
	var out []string
	ast.Inspect(n, func(m ast.Node) bool {
		if rs, ok := m.(*ast.ReturnStmt); ok && len(rs.Results) == 1 {
			if ce, ok := unparen(rs.Results[0]).(*ast.CallExpr); ok && len(ce.Args) == 1 {
				if tv, ok := info.Types[ce.Args[0]]; ok && tv.Value != nil && tv.Value.Kind() == constant.String {
					out = append(out, constant.StringVal(tv.Value))
				}
			}
		}
		return true
	})
	return out
}

func isIdentNamed(e ast.Expr, name string) bool {
	id, ok := unparen(e).(*ast.Ident)
	return ok && id.Name == name
}
