package main

import (
	"sync"

	"golang.org/x/tools/go/ssa"
)

// Interprocedural helpers shared by the rules: a behaviour-preserving "extract helper" refactoring moves a fact (a
// constant, a freshly created object, a guard) from the function a rule looks at into its caller; these helpers let a
// rule ask the callers.

type callSiteIndex struct {
	sites map[*ssa.Function][]ssa.CallInstruction
	taken map[*ssa.Function]bool // the function's value is used other than as the callee of a static call
}

var (
	callSiteMu    sync.Mutex
	callSiteCache = map[*Ctx]*callSiteIndex{}
)

func (c *Ctx) callIndex() *callSiteIndex {
	callSiteMu.Lock()
	defer callSiteMu.Unlock()
	if ix, ok := callSiteCache[c]; ok {
		return ix
	}
	ix := &callSiteIndex{sites: map[*ssa.Function][]ssa.CallInstruction{}, taken: map[*ssa.Function]bool{}}
	for _, fn := range c.AllSrcFuncs("", "parser", "ast", "file", "token", "registry") {
		for _, b := range fn.Blocks {
			for _, ins := range b.Instrs {
				if ci, ok := ins.(ssa.CallInstruction); ok {
					if callee := ci.Common().StaticCallee(); callee != nil {
						ix.sites[callee] = append(ix.sites[callee], ci)
					}
				}
				for _, op := range ins.Operands(nil) {
					f, ok := (*op).(*ssa.Function)
					if !ok {
						continue
					}
					if ci, isCall := ins.(ssa.CallInstruction); isCall && ci.Common().Value == ssa.Value(f) {
						continue
					}
					if mc, isMC := ins.(*ssa.MakeClosure); isMC && mc.Fn == ssa.Value(f) {
						// a closure created and called in place is a static call too (StaticCallee resolves it)
						continue
					}
					ix.taken[f] = true
				}
			}
		}
	}
	callSiteCache[c] = ix
	return ix
}

// callSites: every static call of fn in the module; ok is false when fn may also be called in ways the index does not
// see (its value is stored or passed, it is exported, or it has no call at all).
func (c *Ctx) callSites(fn *ssa.Function) ([]ssa.CallInstruction, bool) {
	ix := c.callIndex()
	if fn == nil || ix.taken[fn] || len(ix.sites[fn]) == 0 {
		return nil, false
	}
	if obj := fn.Object(); obj != nil && obj.Exported() {
		return nil, false
	}
	return ix.sites[fn], true
}

// paramIndex: the index of p among the parameters of its function (-1 if it is not one).
func paramIndex(p *ssa.Parameter) int {
	for i, q := range p.Parent().Params {
		if q == p {
			return i
		}
	}
	return -1
}

// argAtAllCallSites: pred holds for the argument bound to parameter p at every static call site of p's function (and
// the function has no other way of being called). Arguments that are themselves parameters are followed (depth 3).
func (c *Ctx) argAtAllCallSites(p *ssa.Parameter, pred func(arg ssa.Value, site ssa.CallInstruction) bool, depth int) bool {
	if p == nil || depth > 3 {
		return false
	}
	idx := paramIndex(p)
	sites, ok := c.callSites(p.Parent())
	if !ok || idx < 0 {
		return false
	}
	for _, s := range sites {
		args := s.Common().Args
		if idx >= len(args) {
			return false
		}
		a := args[idx]
		if pred(a, s) {
			continue
		}
		if q, isParam := a.(*ssa.Parameter); isParam && c.argAtAllCallSites(q, pred, depth+1) {
			continue
		}
		return false
	}
	return true
}

// constArgsAtAllCallSites: the constants bound to parameter p over all call sites (nil, false if some site passes a
// non-constant).
func (c *Ctx) constArgsAtAllCallSites(p *ssa.Parameter) ([]*ssa.Const, bool) {
	var out []*ssa.Const
	ok := c.argAtAllCallSites(p, func(a ssa.Value, _ ssa.CallInstruction) bool {
		k, isK := a.(*ssa.Const)
		if isK {
			out = append(out, k)
		}
		return isK
	}, 0)
	if !ok {
		return nil, false
	}
	return out, true
}
