package main

import (
	"fmt"
	"go/constant"
	"go/types"
	"sort"

	"golang.org/x/tools/go/ssa"
)

func init() {
	register(&Rule{ID: "SPEC-comparison-eval", Props: []string{"C05", "C01"}, Min: 8,
		Doc: "E (exhaustive abstract evaluation): the function that implements the eight comparison operators - found by its signature, (token.Token, Value, Value) bool on the runtime - is run for every operator on every ordered pair of eleven operands that realise the case analysis of ES5 11.9.3 (abstract equality), 11.9.6 (strict equality) and 11.8.5 (abstract relational comparison): undefined, null, the numbers 0 and 1, the strings \"\", \"1\" and \"a\" (ToNumber: 0, 1, NaN), true, false, and two objects whose ToPrimitive is 1 and \"a\". ToNumber, ToString, ToPrimitive and the NaN test are hooks that answer from that table; everything else - which conversion is applied to which operand in which case, the order of the cases, the negations, how an undefined outcome of the relational algorithm is mapped - is the function's own SSA. The boolean it returns must be the one the three algorithms give. A rewrite of the function as a table of modes, as helpers per algorithm or as guard clauses is evaluated like the original",
		Run: ruleSpecComparisonEval})
}

type cmpOperand struct {
	name string
	kind string // undefined null number string boolean object
	num  int64  // for numbers; ToNumber for strings / booleans where defined
	nan  bool   // ToNumber is NaN
	str  string // for strings; ToString otherwise
	prim int    // for objects: index of the primitive operand ToPrimitive yields
}

var cmpOperands = []cmpOperand{
	{name: "undefined", kind: "undefined", nan: true, str: "undefined"},
	{name: "null", kind: "null", num: 0, str: "null"},
	{name: "0", kind: "number", num: 0, str: "0"},
	{name: "1", kind: "number", num: 1, str: "1"},
	{name: "NaN", kind: "number", nan: true, str: "NaN"},
	{name: `""`, kind: "string", num: 0, str: ""},
	{name: `"1"`, kind: "string", num: 1, str: "1"},
	{name: `"a"`, kind: "string", nan: true, str: "a"},
	{name: "true", kind: "boolean", num: 1, str: "true"},
	{name: "false", kind: "boolean", num: 0, str: "false"},
	{name: "{valueOf: 1}", kind: "object", prim: 3},
	{name: `{valueOf: "a"}`, kind: "object", prim: 7},
}

// ES5 on the table
func es5StrictEquals(x, y cmpOperand) bool {
	if x.kind != y.kind {
		return false
	}
	switch x.kind {
	case "undefined", "null":
		return true
	case "number":
		return !x.nan && !y.nan && x.num == y.num
	case "string":
		return x.str == y.str
	case "boolean":
		return x.num == y.num
	}
	return x.name == y.name
}

func es5Equals(x, y cmpOperand) bool {
	if x.kind == y.kind {
		return es5StrictEquals(x, y)
	}
	nullish := func(o cmpOperand) bool { return o.kind == "undefined" || o.kind == "null" }
	switch {
	case nullish(x) && nullish(y):
		return true
	case nullish(x) || nullish(y):
		return false
	case x.kind == "number" && y.kind == "string", x.kind == "string" && y.kind == "number":
		return !x.nan && !y.nan && x.num == y.num
	case x.kind == "boolean":
		return es5Equals(cmpOperand{kind: "number", num: x.num}, y)
	case y.kind == "boolean":
		return es5Equals(x, cmpOperand{kind: "number", num: y.num})
	case x.kind == "object":
		return es5Equals(cmpOperands[x.prim], y)
	case y.kind == "object":
		return es5Equals(x, cmpOperands[y.prim])
	}
	return false
}

// 11.8.5: "true", "false" or "undefined"
func es5LessThan(x, y cmpOperand) string {
	if x.kind == "object" {
		x = cmpOperands[x.prim]
	}
	if y.kind == "object" {
		y = cmpOperands[y.prim]
	}
	if x.kind == "string" && y.kind == "string" {
		return fmt.Sprint(x.str < y.str)
	}
	if x.nan || y.nan {
		return "undefined"
	}
	return fmt.Sprint(x.num < y.num)
}

func ruleSpecComparisonEval(c *Ctx, r *R) {
	w := defineWorldFor(c)
	if w == nil {
		r.undecided("world", "-", "UNRESOLVED: the abstract model of SPEC-define-own is not available")
		return
	}
	m := w.m
	var fn *ssa.Function
	for _, f := range c.AllSrcFuncs("") {
		if f.Parent() != nil || f.Signature.Recv() == nil || !typeIs(f.Signature.Recv().Type(), ottoPath, "runtime") || len(f.Params) != 4 || f.Signature.Results().Len() != 1 {
			continue
		}
		if typeStr(f.Params[1].Type()) == "token.Token" && typeStr(f.Params[2].Type()) == "Value" && typeStr(f.Params[3].Type()) == "Value" && typeStr(f.Signature.Results().At(0).Type()) == "bool" {
			fn = f
		}
	}
	if fn == nil {
		r.undecided("anchor", "-", "UNRESOLVED: the comparison implementation (method (token.Token, Value, Value) bool of the runtime)")
		return
	}
	tok := map[string]int64{}
	for _, name := range []string{"EQUAL", "NOT_EQUAL", "STRICT_EQUAL", "STRICT_NOT_EQUAL", "LESS", "GREATER", "LESS_OR_EQUAL", "GREATER_OR_EQUAL"} {
		k, ok := c.Pkg("token").Types.Scope().Lookup(name).(*types.Const)
		if !ok {
			r.undecided("anchor:token."+name, "-", "UNRESOLVED token."+name)
			return
		}
		tok[name], _ = constant.Int64Val(k.Val())
	}
	kindOf := map[string]int64{}
	for k, cn := range map[string]string{"undefined": "valueUndefined", "null": "valueNull", "number": "valueNumber", "string": "valueString", "boolean": "valueBoolean", "object": "valueObject"} {
		cst, ok := c.Otto().Types.Scope().Lookup(cn).(*types.Const)
		if !ok {
			r.undecided("anchor:"+cn, "-", "UNRESOLVED "+cn)
			return
		}
		kindOf[k], _ = constant.Int64Val(cst.Val())
	}
	var in *absInterp
	mk := func(o cmpOperand) aval {
		v := in.zero(m.tValue).(aStruct)
		v.f[m.valueFieldKind] = aInt(kindOf[o.kind])
		switch o.kind {
		case "number":
			if o.nan {
				v.f[m.valueFieldValue] = aIface{dyn: types.Typ[types.Float64], v: aNaN{}}
			} else {
				v.f[m.valueFieldValue] = aIface{dyn: types.Typ[types.Int64], v: aInt(o.num)}
			}
		case "string":
			v.f[m.valueFieldValue] = aIface{dyn: types.Typ[types.String], v: aStr(o.str)}
		case "boolean":
			v.f[m.valueFieldValue] = aIface{dyn: types.Typ[types.Bool], v: aBool(o.num == 1)}
		case "object":
			v.f[m.valueFieldValue] = aIface{dyn: m.tObjPtr, v: aAtom{o.name}}
		}
		return v
	}
	// which operand of the table a Value is
	which := func(v aval) (cmpOperand, bool) {
		s, ok := v.(aStruct)
		if !ok {
			return cmpOperand{}, false
		}
		k, _ := s.f[m.valueFieldKind].(aInt)
		pl, _ := s.f[m.valueFieldValue].(aIface)
		for _, o := range cmpOperands {
			if kindOf[o.kind] != int64(k) {
				continue
			}
			switch o.kind {
			case "undefined", "null":
				return o, true
			case "number":
				if _, isNaN := pl.v.(aNaN); isNaN && o.nan {
					return o, true
				}
				if n, ok := pl.v.(aInt); ok && !o.nan && int64(n) == o.num {
					return o, true
				}
			case "string":
				if t, ok := pl.v.(aStr); ok && string(t) == o.str {
					return o, true
				}
			case "boolean":
				if b, ok := pl.v.(aBool); ok && bool(b) == (o.num == 1) {
					return o, true
				}
			case "object":
				if a, ok := pl.v.(aAtom); ok && a.name == o.name {
					return o, true
				}
			}
		}
		return cmpOperand{}, false
	}
	nan := aNaN{}
	var primOrder []string // the operands ToPrimitive was applied to, in order
	hooks := map[string]absHook{
		"(Value).float64": func(_ *absInterp, call *ssa.CallCommon, args []aval) (aval, bool) {
			o, ok := which(args[0])
			if !ok || o.kind == "object" {
				in.fail("ToNumber of an operand outside the table (an object must go through ToPrimitive first)")
			}
			if o.nan {
				return nan, true
			}
			return aInt(o.num), true
		},
		"(Value).string": func(_ *absInterp, call *ssa.CallCommon, args []aval) (aval, bool) {
			o, ok := which(args[0])
			if !ok || o.kind == "object" {
				in.fail("ToString of an operand outside the table")
			}
			return aStr(o.str), true
		},
		"(Value).bool": func(_ *absInterp, call *ssa.CallCommon, args []aval) (aval, bool) {
			o, ok := which(args[0])
			if !ok || o.kind != "boolean" {
				in.fail("bool() of a non-boolean operand")
			}
			return aBool(o.num == 1), true
		},
		"(Value).object": func(_ *absInterp, call *ssa.CallCommon, args []aval) (aval, bool) {
			o, ok := which(args[0])
			if !ok || o.kind != "object" {
				return aNil{}, true
			}
			return aAtom{o.name}, true
		},
		"math.IsNaN": func(_ *absInterp, call *ssa.CallCommon, args []aval) (aval, bool) {
			_, isNaN := args[0].(aNaN)
			return aBool(isNaN), true
		},
		"math.IsInf": func(_ *absInterp, call *ssa.CallCommon, args []aval) (aval, bool) { return aBool(false), true },
		"float64Value": func(_ *absInterp, call *ssa.CallCommon, args []aval) (aval, bool) {
			if _, isNaN := args[0].(aNaN); isNaN {
				return mk(cmpOperand{kind: "number", nan: true}), true
			}
			n, ok := args[0].(aInt)
			if !ok {
				in.fail("float64Value of %T", args[0])
			}
			return mk(cmpOperand{kind: "number", num: int64(n)}), true
		},
		"hereBeDragons": func(_ *absInterp, call *ssa.CallCommon, args []aval) (aval, bool) {
			return aIface{dyn: types.Typ[types.String], v: aAtom{"dragons"}}, true
		},
	}
	// ToPrimitive, directly or through its wrappers
	for _, f := range c.AllSrcFuncs("") {
		if f.Parent() != nil || f.Signature.Recv() != nil || len(f.Params) == 0 || !typeIs(f.Params[0].Type(), ottoPath, "Value") {
			continue
		}
		isRoot := len(f.Params) == 2 && typeIs(f.Params[1].Type(), ottoPath, "defaultValueHint")
		if !isRoot && primHintOf(f, nil, 0) == "" {
			continue
		}
		hooks[ssaFuncName(f)] = func(_ *absInterp, call *ssa.CallCommon, args []aval) (aval, bool) {
			o, ok := which(args[0])
			if !ok {
				in.fail("ToPrimitive of an operand outside the table")
			}
			primOrder = append(primOrder, o.name)
			if o.kind == "object" {
				return mk(cmpOperands[o.prim]), true
			}
			return args[0], true
		}
	}
	in = newAbsInterp(hooks)
	ops := []string{"EQUAL", "NOT_EQUAL", "STRICT_EQUAL", "STRICT_NOT_EQUAL", "LESS", "GREATER", "LESS_OR_EQUAL", "GREATER_OR_EQUAL"}
	site := c.Pos(fn.Pos())
	for _, op := range ops {
		n, bad, fail := 0, "", ""
		for _, x := range cmpOperands {
			for _, y := range cmpOperands {
				n++
				primOrder = nil
				ret, pan, f := absRun(in, fn, []aval{aAtom{"rt"}, aInt(tok[op]), mk(x), mk(y)})
				if f != "" {
					fail = f
					continue
				}
				var want bool
				switch op {
				case "EQUAL":
					want = es5Equals(x, y)
				case "NOT_EQUAL":
					want = !es5Equals(x, y)
				case "STRICT_EQUAL":
					want = es5StrictEquals(x, y)
				case "STRICT_NOT_EQUAL":
					want = !es5StrictEquals(x, y)
				case "LESS":
					want = es5LessThan(x, y) == "true"
				case "GREATER":
					want = es5LessThan(y, x) == "true"
				case "LESS_OR_EQUAL":
					want = es5LessThan(y, x) == "false"
				case "GREATER_OR_EQUAL":
					want = es5LessThan(x, y) == "false"
				}
				// 11.8.1-4 with LeftFirst: whichever way round the abstract comparison is asked, the left operand of the
				// source expression is converted first (observable when both are objects)
				if f == "" && pan == nil && (op == "LESS" || op == "GREATER" || op == "LESS_OR_EQUAL" || op == "GREATER_OR_EQUAL") && x.name != y.name {
					if len(primOrder) != 2 || primOrder[0] != x.name || primOrder[1] != y.name {
						if bad == "" {
							bad = fmt.Sprintf("%s %s %s applies ToPrimitive to %v; ES5 11.8.1-4 (LeftFirst) converts the left operand %s first, then %s, each once", x.name, opSymbol(op), y.name, primOrder, x.name, y.name)
						}
					}
				}
				got, ok := ret.(aBool)
				if pan != nil || !ok || bool(got) != want {
					if bad == "" {
						how := fmt.Sprint(bool(got))
						if pan != nil {
							how = "a Go panic (" + describeAval(pan) + ")"
						} else if !ok {
							how = fmt.Sprintf("%T", ret)
						}
						bad = fmt.Sprintf("%s %s %s gives %s, ES5 gives %v", x.name, opSymbol(op), y.name, how, want)
					}
				}
			}
		}
		switch {
		case fail != "":
			r.undecided(op, site, "UNDECIDED: the abstract evaluator does not model "+fail)
		case bad != "":
			r.bad(op, site, "deviates from ES5 11.8 / 11.9: "+bad)
		default:
			r.ok(op, site, fmt.Sprintf("%d operand pairs agree with ES5", n))
		}
	}
	_ = sort.Strings
}

func opSymbol(op string) string {
	return map[string]string{"EQUAL": "==", "NOT_EQUAL": "!=", "STRICT_EQUAL": "===", "STRICT_NOT_EQUAL": "!==", "LESS": "<", "GREATER": ">", "LESS_OR_EQUAL": "<=", "GREATER_OR_EQUAL": ">="}[op]
}
