package main

import (
	"fmt"
	"strings"

	"golang.org/x/tools/go/ssa"
)

// EXT-call: third-party code reached from the library packages. Its panics are not script exceptions, so they escape
// every public entry point; and some of it is fed by the script itself (a `//# sourceMappingURL=data:` trailer is
// decoded from the last line of the source and handed to gopkg.in/sourcemap.v1, whose Consumer.Source indexes its
// tables with numbers taken from the map).

func init() {
	register(&Rule{ID: "EXT-call", Props: []string{"C02", "C19"}, Min: 4,
		Doc: "O (census of who calls third-party code): every static call from the library packages (otto, parser, file, ast, token, registry) into a module that is neither the standard library nor otto itself is one of: made in a function that defers a recover() (the panic cannot leave it), made to a function that defers a recover() itself (directly or through a one-statement delegation), or reviewed with the reason its arguments cannot make the callee panic. A new unprotected call - or the removal of the protection around Consumer.Source, which indexes tables with indices read from a source map the script can supply - is reported",
		Run: ruleExtCall})
}

var extCallReviewed = map[string]string{
	"gopkg.in/sourcemap.v1.Parse":                  "read (v1.0.5, 157+60 lines): json.Unmarshal, url.Parse and the VLQ decoder return errors; no index or assertion on decoded values happens at parse time (the unchecked indexing is in Consumer.Source)",
	"golang.org/x/text/language.MustParse":         "constant argument \"en-US\" at package initialisation",
	"golang.org/x/text/message.NewPrinter":         "argument is a Tag that language.Parse accepted or the constant default; no script text reaches it",
	"(*golang.org/x/text/message.Printer).Sprintf": "constant format \"%v\" and a number.Decimal of a Go float64/int64: no script text reaches it",
	"golang.org/x/text/number.Decimal":             "wraps a Go number in a formatter value; nothing is evaluated here",
}

func defersRecover(fn *ssa.Function) bool {
	if fn == nil {
		return false
	}
	for _, b := range fn.Blocks {
		for _, ins := range b.Instrs {
			d, ok := ins.(*ssa.Defer)
			if !ok {
				continue
			}
			var lit *ssa.Function
			switch v := d.Call.Value.(type) {
			case *ssa.MakeClosure:
				lit, _ = v.Fn.(*ssa.Function)
			case *ssa.Function:
				lit = v
			}
			if lit == nil {
				continue
			}
			for _, b2 := range lit.Blocks {
				for _, i2 := range b2.Instrs {
					if c, ok := i2.(*ssa.Call); ok {
						if bi, ok := c.Call.Value.(*ssa.Builtin); ok && bi.Name() == "recover" {
							return true
						}
					}
				}
			}
		}
	}
	return false
}

// delegatesTo: fn consists of one call whose results it returns.
func delegatesTo(fn *ssa.Function) *ssa.Function {
	if fn == nil || len(fn.Blocks) != 1 {
		return nil
	}
	var callee *ssa.Function
	n := 0
	for _, ins := range fn.Blocks[0].Instrs {
		switch x := ins.(type) {
		case *ssa.Call:
			n++
			callee = x.Call.StaticCallee()
		case *ssa.Extract, *ssa.Return, *ssa.UnOp, *ssa.DebugRef:
		default:
			return nil
		}
	}
	if n == 1 {
		return callee
	}
	return nil
}

func ruleExtCall(c *Ctx, r *R) {
	isThirdParty := func(f *ssa.Function) bool {
		if f == nil || f.Pkg == nil {
			return false
		}
		p := f.Pkg.Pkg.Path()
		if strings.HasPrefix(p, ottoPath) {
			return false
		}
		first := p
		if i := strings.Index(p, "/"); i >= 0 {
			first = p[:i]
		}
		return strings.Contains(first, ".")
	}
	ord := map[string]int{}
	n := 0
	for _, fn := range c.AllSrcFuncs("", "parser", "file", "ast", "token", "registry") {
		for _, b := range fn.Blocks {
			for _, ins := range b.Instrs {
				call, ok := ins.(ssa.CallInstruction)
				if !ok {
					continue
				}
				cal := call.Common().StaticCallee()
				if !isThirdParty(cal) {
					continue
				}
				n++
				if cal.Name() == "init" || strings.HasPrefix(cal.Name(), "init#") {
					continue // package initialisation order, not a call the code makes
				}
				name := cal.RelString(nil)
				base := ssaFuncName(fn) + "->" + name
				ord[base]++
				key := fmt.Sprintf("%s#%d", base, ord[base])
				site := c.Pos(instrPos(call))
				// the enclosing function (or the function literal's parents) recovers
				covered := false
				for f := fn; f != nil; f = f.Parent() {
					if defersRecover(f) {
						covered = true
					}
				}
				switch {
				case covered:
					r.ok(key, site, "made under a deferred recover() of the calling function")
				case defersRecover(cal) || defersRecover(delegatesTo(cal)):
					r.ok(key, site, "the callee defers a recover() itself")
				default:
					if why, ok := extCallReviewed[name]; ok {
						r.ok("reviewed:"+key, site, why)
						continue
					}
					r.bad(key, site, fmt.Sprintf("%s calls %s with no recover() around it, and the callee is not reviewed: a panic inside third-party code is not a script exception and escapes Run (gopkg.in/sourcemap.v1 Consumer.Source indexes its source/name tables with indices read from a source map that the script text can supply in a sourceMappingURL trailer)", ssaFuncName(fn), name))
				}
			}
		}
	}
	r.ok("census", "-", fmt.Sprintf("%d calls into third-party modules from the library packages", n))
}
