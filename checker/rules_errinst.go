package main

import (
	"fmt"
	"sort"
	"strings"

	"golang.org/x/tools/go/ssa"
)

func init() {
	register(&Rule{ID: "ERR-instance-own", Props: []string{"C14", "C19"}, Min: 7,
		Doc: "E (abstract evaluation of (*runtime).newError for each error class name): ES5 15.11.5 - Error instances have no special properties; `name` lives on the prototypes (15.11.4.2, 15.11.7.9) and is read through [[Get]], so that for-in over an error shows nothing built-in and a changed `Error.prototype.name` is seen through instances. The constructor helper is run with every ES5 class name as a constant; the properties it defines itself on the new object are recorded (the per-class helpers and the object constructor are hooks). For the seven ES5 names it defines none; for a custom name (the host API MakeCustomError) it defines `name` - the positive witness",
		Run: ruleErrInstanceOwn})
}

func ruleErrInstanceOwn(c *Ctx, r *R) {
	w := defineWorldFor(c)
	if w == nil {
		r.undecided("world", "-", "UNRESOLVED: the abstract model of SPEC-define-own is not available")
		return
	}
	m := w.m
	var fn *ssa.Function
	hooks := map[string]absHook{}
	var defined []string
	fresh := func(in *absInterp) aval {
		return aRef{root: &acell{v: in.zero(m.tObject), name: "err"}}
	}
	for _, f := range c.AllSrcFuncs("") {
		if f.Parent() != nil || f.Signature.Recv() == nil || !typeIs(f.Signature.Recv().Type(), ottoPath, "runtime") {
			continue
		}
		switch {
		case f.Name() == "newError":
			fn = f
		case strings.HasPrefix(f.Name(), "new") && strings.HasSuffix(f.Name(), "Error"), f.Name() == "newErrorObject":
			hooks[ssaFuncName(f)] = func(in *absInterp, call *ssa.CallCommon, args []aval) (aval, bool) {
				return fresh(in), true
			}
		}
	}
	if fn == nil {
		r.undecided("anchor", "-", "UNRESOLVED (*runtime).newError")
		return
	}
	hooks["(*object).defineProperty"] = func(in *absInterp, call *ssa.CallCommon, args []aval) (aval, bool) {
		if s, ok := args[1].(aStr); ok {
			defined = append(defined, string(s))
		} else {
			defined = append(defined, "?")
		}
		return aBool(true), true
	}
	hooks["stringValue"] = func(in *absInterp, call *ssa.CallCommon, args []aval) (aval, bool) {
		return m.mkValue(in, "text"), true
	}
	in := newAbsInterp(hooks)
	rtT := c.LookupType("", "runtime")
	if rtT == nil {
		r.undecided("anchor:runtime", "-", "UNRESOLVED type runtime")
		return
	}
	names := append([]string{}, es5ErrorNames...)
	names = append(names, "CustomError")
	for _, name := range names {
		defined = nil
		rt := aRef{root: &acell{v: in.zero(rtT), name: "rt"}}
		_, pan, fail := absRun(in, fn, []aval{rt, aStr(name), m.mkValue(in, "msg"), aInt(0)})
		key := "new " + name
		site := c.Pos(fn.Pos())
		switch {
		case fail != "":
			r.undecided(key, site, "UNDECIDED: the abstract evaluator does not model "+fail)
		case pan != nil:
			r.undecided(key, site, "UNDECIDED: newError panics in the model: "+describeAval(pan))
		case name == "CustomError":
			sort.Strings(defined)
			r.check(strings.Join(defined, ",") == "name", key, site, "a custom error gets its own `name` (host API)", fmt.Sprintf("a custom error name defines %v instead of exactly `name`", defined))
		default:
			r.check(len(defined) == 0, key, site, "no own property is defined by the constructor helper itself",
				fmt.Sprintf("constructing a %s defines the own properties %v on the instance: `Object.keys(new %s())` shows them, for-in over the error enumerates a built-in, and `%s.prototype.name = 'Foo'` is not seen through instances (ES5 15.11.5: Error instances have no special properties)", name, defined, name, name))
		}
	}
}
