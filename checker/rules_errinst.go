package main

import (
	"fmt"
	"sort"
	"strings"

	"golang.org/x/tools/go/ssa"
)

func init() {
	register(&Rule{ID: "ERR-instance-own", Props: []string{"C14", "C19"}, Min: 7,
		Doc: "E (abstract evaluation of (*runtime).newError for each error class name): ES5 15.11.5 - Error instances have no special properties; `name` lives on the prototypes (15.11.4.2, 15.11.7.9) and is read through [[Get]], so that for-in over an error shows nothing built-in and a changed `Error.prototype.name` is seen through instances. The constructor helper is run with every ES5 class name as a constant; the properties it defines itself on the new object are recorded (the per-class helpers and the object constructor are hooks). For the seven ES5 names it defines none; for a custom name (the host API MakeCustomError) it defines `name` - the positive witness",
		Run: ruleErrInstanceOwn})
}

func ruleErrInstanceOwn(c *Ctx, r *R) {
	w := defineWorldFor(c)
	if w == nil {
		r.undecided("world", "-", "UNRESOLVED: the abstract model of SPEC-define-own is not available")
		return
	}
	m := w.m
	var fn *ssa.Function
	hooks := map[string]absHook{}
	var defined []string
	fresh := func(in *absInterp) aval {
		return aRef{root: &acell{v: in.zero(m.tObject), name: "err"}}
	}
	for _, f := range c.AllSrcFuncs("") {
		if f.Parent() != nil || f.Signature.Recv() == nil || !typeIs(f.Signature.Recv().Type(), ottoPath, "runtime") {
			continue
		}
		switch {
		case f.Name() == "newError":
			fn = f
		case c.partOf(f, "(*runtime).newError", 0):
			// a step split out of newError itself: evaluated, not stubbed
		case strings.HasPrefix(f.Name(), "new") && strings.HasSuffix(f.Name(), "Error"), f.Name() == "newErrorObject":
			hooks[ssaFuncName(f)] = func(in *absInterp, call *ssa.CallCommon, args []aval) (aval, bool) {
				return fresh(in), true
			}
		}
	}
	if fn == nil {
		r.undecided("anchor", "-", "UNRESOLVED (*runtime).newError")
		return
	}
	hooks["(*object).defineProperty"] = func(in *absInterp, call *ssa.CallCommon, args []aval) (aval, bool) {
		if s, ok := args[1].(aStr); ok {
			defined = append(defined, string(s))
		} else {
			defined = append(defined, "?")
		}
		return aBool(true), true
	}
	hooks["stringValue"] = func(in *absInterp, call *ssa.CallCommon, args []aval) (aval, bool) {
		return m.mkValue(in, "text"), true
	}
	in := newAbsInterp(hooks)
	rtT := c.LookupType("", "runtime")
	if rtT == nil {
		r.undecided("anchor:runtime", "-", "UNRESOLVED type runtime")
		return
	}
	names := append([]string{}, es5ErrorNames...)
	names = append(names, "CustomError")
	for _, name := range names {
		defined = nil
		rt := aRef{root: &acell{v: in.zero(rtT), name: "rt"}}
		_, pan, fail := absRun(in, fn, []aval{rt, aStr(name), m.mkValue(in, "msg"), aInt(0)})
		key := "new " + name
		site := c.Pos(fn.Pos())
		switch {
		case fail != "":
			r.undecided(key, site, "UNDECIDED: the abstract evaluator does not model "+fail)
		case pan != nil:
			r.undecided(key, site, "UNDECIDED: newError panics in the model: "+describeAval(pan))
		case name == "CustomError":
			sort.Strings(defined)
			r.check(strings.Join(defined, ",") == "name", key, site, "a custom error gets its own `name` (host API)", fmt.Sprintf("a custom error name defines %v instead of exactly `name`", defined))
		default:
			r.check(len(defined) == 0, key, site, "no own property is defined by the constructor helper itself",
				fmt.Sprintf("constructing a %s defines the own properties %v on the instance: `Object.keys(new %s())` shows them, for-in over the error enumerates a built-in, and `%s.prototype.name = 'Foo'` is not seen through instances (ES5 15.11.5: Error instances have no special properties)", name, defined, name, name))
		}
	}
}

func init() {
	register(&Rule{ID: "THIS-passthrough", Props: []string{"C09", "C01"}, Min: 2,
		Doc: "P (ES5 15.3.4.3 step 8 / 15.3.4.4 step 4, and the NOTE after them: `the thisArg value is passed without modification as the this value`): in the functions bound to Function.prototype.call and .apply the this value handed to [[Call]] is the first argument itself - not a choice between it and the global object. The replacement of undefined by the global object belongs to the entry of a *script* function (10.4.3); done here it also reaches built-ins, so `Array.prototype.push.call(undefined, 1)` appends to the global object instead of throwing a TypeError",
		Run: ruleThisPassthrough})
}

func ruleThisPassthrough(c *Ctx, r *R) {
	fns := c.Shape().boundSSA(c, "Function.prototype")
	for _, name := range []string{"call", "apply"} {
		fn := fns[name]
		if fn == nil {
			r.undecided(name, "-", "UNRESOLVED: Function.prototype."+name)
			continue
		}
		n, bad := 0, ""
		for _, b := range fn.Blocks {
			for _, ins := range b.Instrs {
				call, ok := ins.(*ssa.Call)
				if !ok {
					continue
				}
				callee := call.Call.StaticCallee()
				if callee == nil || callee.Name() != "call" || callee.Signature.Recv() == nil || !typeIs(callee.Signature.Recv().Type(), ottoPath, "object") {
					continue
				}
				n++
				this := call.Call.Args[1]
				if ld, ok := this.(*ssa.UnOp); ok {
					if al, ok := ld.X.(*ssa.Alloc); ok {
						stores := 0
						for _, ref := range *al.Referrers() {
							if st, ok := ref.(*ssa.Store); ok && st.Addr == ssa.Value(al) {
								stores++
							}
						}
						if stores > 1 {
							bad = c.Pos(instrPos(call))
						}
					}
				}
				if _, isPhi := this.(*ssa.Phi); isPhi {
					bad = c.Pos(instrPos(call))
				}
			}
		}
		key := "Function.prototype." + name
		switch {
		case n == 0:
			r.undecided(key, c.Pos(fn.Pos()), "UNRESOLVED: no [[Call]] of the target in the function bound to "+key)
		case bad != "":
			r.bad(key, c.Pos(fn.Pos()), fmt.Sprintf("%s hands [[Call]] (at %s) a this value that is chosen between the caller's thisArg and something else (the global object when thisArg is undefined): `Array.prototype.push.call(undefined, 1)` pushes onto the global object; ES5 15.3.4.3/4 pass thisArg without modification, and the built-in then throws a TypeError from ToObject", key, bad))
		default:
			r.ok(key, c.Pos(fn.Pos()), "thisArg is passed to [[Call]] unmodified")
		}
	}
}
