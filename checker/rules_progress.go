package main

import (
	"fmt"
	"go/token"
	"go/types"
	"sort"
	"strings"

	"golang.org/x/tools/go/ssa"
)

func init() {
	register(&Rule{ID: "PROGRESS-parser", Props: []string{"C04"}, Min: 35,
		Doc: "P (termination): for every loop of package parser that is not a range over a finite collection or a bounded counter loop: (a) every path around the loop passes a call that can advance the input (the token/char primitives next/read or a function that reaches them), and (b) no path around the loop is feasible at end of input - after removing the edges that require the current token/char to differ from EOF/-1 (token == T for T != EOF, chr != -1, chr >= 0, the reviewed character predicates that are false at -1) no cycle through the loop head remains. A loop that only consumes (`for p.token != RIGHT_BRACE { p.next() }`) spins forever on truncated input, because next keeps returning EOF",
		Run: ruleProgressParser})
}

// advancePrimitives: methods of the parser types that store to the current token / current character.
func advancePrimitives(c *Ctx) map[*ssa.Function]bool {
	out := map[*ssa.Function]bool{}
	for _, fn := range c.AllSrcFuncs("parser") {
		if fn.Parent() != nil {
			continue
		}
		for _, b := range fn.Blocks {
			for _, ins := range b.Instrs {
				st, ok := ins.(*ssa.Store)
				if !ok {
					continue
				}
				if nt, f := fieldOfAddr(st.Addr); nt != nil && (f.Name() == "chr" || f.Name() == "token") && (nt.Obj().Name() == "parser" || nt.Obj().Name() == "regExpParser") {
					// only the small primitives: read (sets chr) and next (sets token)
					if fn.Name() == "read" || fn.Name() == "next" {
						out[fn] = true
					}
				}
			}
		}
	}
	return out
}

func mayAdvance(c *Ctx, prims map[*ssa.Function]bool) map[*ssa.Function]bool {
	may := map[*ssa.Function]bool{}
	for f := range prims {
		may[f] = true
	}
	funcs := c.AllSrcFuncs("parser")
	for changed := true; changed; {
		changed = false
		for _, fn := range funcs {
			if may[fn] {
				continue
			}
			for _, b := range fn.Blocks {
				for _, ins := range b.Instrs {
					if call, ok := ins.(ssa.CallInstruction); ok {
						cc := call.Common()
						if callee := cc.StaticCallee(); callee != nil && may[callee] {
							may[fn] = true
							changed = true
						}
						// calls through a local bound to a method value (next := p.parseX)
						if mc, ok := cc.Value.(*ssa.MakeClosure); ok {
							if f, ok := mc.Fn.(*ssa.Function); ok && may[f] {
								may[fn] = true
								changed = true
							}
						}
					}
					if mc, ok := ins.(*ssa.MakeClosure); ok {
						if f, ok := mc.Fn.(*ssa.Function); ok && may[f] && !may[fn] {
							// a bound method value created here and (presumably) called
							may[fn] = true
							changed = true
						}
					}
				}
			}
		}
	}
	return may
}

// loopBody: natural loop of header h.
func loopBody(h *ssa.BasicBlock) map[*ssa.BasicBlock]bool {
	body := map[*ssa.BasicBlock]bool{h: true}
	var stack []*ssa.BasicBlock
	for _, p := range h.Preds {
		if h.Dominates(p) {
			stack = append(stack, p)
		}
	}
	for len(stack) > 0 {
		b := stack[len(stack)-1]
		stack = stack[:len(stack)-1]
		if body[b] {
			continue
		}
		body[b] = true
		for _, p := range b.Preds {
			stack = append(stack, p)
		}
	}
	return body
}

// cycleThrough: is there a path h -> ... -> h inside body using only allowed edges and avoiding cut blocks?
func cycleThrough(h *ssa.BasicBlock, body map[*ssa.BasicBlock]bool, cut map[*ssa.BasicBlock]bool, edgeOK func(from *ssa.BasicBlock, succIdx int) bool) []*ssa.BasicBlock {
	if cut[h] {
		return nil
	}
	seen := map[*ssa.BasicBlock]bool{}
	var path []*ssa.BasicBlock
	var dfs func(b *ssa.BasicBlock, first bool) bool
	dfs = func(b *ssa.BasicBlock, first bool) bool {
		if b == h && !first {
			return true
		}
		if !body[b] || cut[b] || seen[b] {
			return false
		}
		seen[b] = true
		path = append(path, b)
		for i, s := range b.Succs {
			if edgeOK != nil && !edgeOK(b, i) {
				continue
			}
			if dfs(s, false) {
				return true
			}
		}
		path = path[:len(path)-1]
		return false
	}
	if dfs(h, true) {
		return path
	}
	return nil
}

// Character predicates that are false at -1 (EOF): reviewed by reading their definitions.
var falseAtEOFPredicates = map[string]bool{"isIdentifierPart": true, "isIdentifierStart": true, "isDecimalDigit": true, "isLineTerminator": true, "isLineWhiteSpace": true, "isHexDigit": true, "IsSpace": true}

type eofCtx struct {
	eofTokenVal int64
}

// isCurTokenOrChr: v is a load of parser.token / parser.chr / regExpParser.chr (possibly through a local copy).
func isCurTok(v ssa.Value) (string, bool) {
	v = normCell(v)
	if a := loadAddr(v); a != nil {
		if nt, f := fieldOfAddr(a); nt != nil && (nt.Obj().Name() == "parser" || nt.Obj().Name() == "regExpParser") {
			if f.Name() == "token" || f.Name() == "chr" {
				return f.Name(), true
			}
		}
	}
	return "", false
}

// edgeRequiresNonEOF: taking successor idx of block b implies the current token/char is not EOF.
func (e *eofCtx) edgeRequiresNonEOF(b *ssa.BasicBlock, idx int) bool {
	iff, ok := b.Instrs[len(b.Instrs)-1].(*ssa.If)
	if !ok {
		return false
	}
	want := idx == 0 // condition value on this edge
	return e.condExcludesEOF(iff.Cond, want, 0)
}

func (e *eofCtx) condExcludesEOF(cond ssa.Value, want bool, depth int) bool {
	if depth > 3 {
		return false
	}
	switch x := cond.(type) {
	case *ssa.UnOp:
		if x.Op == token.NOT {
			return e.condExcludesEOF(x.X, !want, depth+1)
		}
	case *ssa.BinOp:
		var cur string
		var k int64
		var okCur, okK bool
		op := x.Op
		if cur, okCur = isCurTok(x.X); okCur {
			k, okK = constInt(x.Y)
		} else if cur, okCur = isCurTok(x.Y); okCur {
			k, okK = constInt(x.X)
			switch op {
			case token.LSS:
				op = token.GTR
			case token.GTR:
				op = token.LSS
			case token.LEQ:
				op = token.GEQ
			case token.GEQ:
				op = token.LEQ
			}
		}
		if okCur && okK {
			eof := int64(-1)
			if cur == "token" {
				eof = e.eofTokenVal
			}
			holdsAtEOF := false
			switch op {
			case token.EQL:
				holdsAtEOF = eof == k
			case token.NEQ:
				holdsAtEOF = eof != k
			case token.LSS:
				holdsAtEOF = eof < k
			case token.LEQ:
				holdsAtEOF = eof <= k
			case token.GTR:
				holdsAtEOF = eof > k
			case token.GEQ:
				holdsAtEOF = eof >= k
			default:
				return false
			}
			// the edge is infeasible at EOF iff the condition's value at EOF differs from the value required on this edge
			return holdsAtEOF != want
		}
		// digitValue(chr) < base  /  >= base
		if call, ok := x.X.(*ssa.Call); ok && call.Call.StaticCallee() != nil && call.Call.StaticCallee().Name() == "digitValue" {
			if _, isCur := isCurTok(call.Call.Args[0]); isCur {
				switch x.Op {
				case token.LSS:
					return want // digit < base is false at EOF (digitValue(-1) is 16, above every base used... reviewed)
				case token.GEQ:
					return !want
				}
			}
		}
		if cv, ok := x.X.(*ssa.Convert); ok {
			if call, ok := cv.X.(*ssa.Call); ok && call.Call.StaticCallee() != nil && call.Call.StaticCallee().Name() == "digitValue" {
				if _, isCur := isCurTok(call.Call.Args[0]); isCur {
					switch x.Op {
					case token.LSS:
						return want
					case token.GEQ:
						return !want
					}
				}
			}
		}
	case *ssa.Call:
		if callee := x.Call.StaticCallee(); callee != nil && falseAtEOFPredicates[callee.Name()] && len(x.Call.Args) >= 1 {
			if _, isCur := isCurTok(x.Call.Args[len(x.Call.Args)-1]); isCur {
				return want // predicate is false at EOF: the true edge is infeasible there
			}
		}
	}
	return false
}

// switchEdgeExcludesEOF: go/ssa lowers `switch p.token { case A, B: }` into chains of If(token == A): handled by condExcludesEOF.

func ruleProgressParser(c *Ctx, r *R) {
	prims := advancePrimitives(c)
	if len(prims) < 2 {
		r.undecided("primitives", "-", fmt.Sprintf("found %d advance primitives (expected next and read)", len(prims)))
		return
	}
	may := mayAdvance(c, prims)
	e := &eofCtx{eofTokenVal: -1}
	if cst, ok := c.Pkg("token").Types.Scope().Lookup("EOF").(*types.Const); ok {
		e.eofTokenVal = constIntVal(cst)
	}
	for _, fn := range c.AllSrcFuncs("parser") {
		headers := map[*ssa.BasicBlock]bool{}
		for _, b := range fn.Blocks {
			for _, s := range b.Succs {
				if s.Dominates(b) {
					headers[s] = true
				}
			}
		}
		var hs []*ssa.BasicBlock
		for h := range headers {
			hs = append(hs, h)
		}
		sort.Slice(hs, func(i, j int) bool { return hs[i].Index < hs[j].Index })
		ord := 0
		for _, h := range hs {
			ord++
			key := fmt.Sprintf("%s:loop#%d", ssaFuncName(fn), ord)
			site := c.Pos(instrPos(h.Instrs[0]))
			if isRangeHeader(h) {
				r.ok(key+":range", site, "range over a finite collection")
				continue
			}
			body := loopBody(h)
			if why, ok := boundedCounterLoop(h, body); ok {
				r.ok(key+":bounded", site, why)
				continue
			}
			if why, ok := structuralDescentLoop(h, body); ok {
				r.ok(key+":descent", site, why)
				continue
			}
			// (a) advance
			cut := map[*ssa.BasicBlock]bool{}
			for b := range body {
				for _, ins := range b.Instrs {
					if call, ok := ins.(ssa.CallInstruction); ok {
						cc := call.Common()
						if callee := cc.StaticCallee(); callee != nil && may[callee] {
							cut[b] = true
						}
						if cc.StaticCallee() == nil {
							// a call through a local function value: `next()` bound to a parse method
							if _, isBuiltin := cc.Value.(*ssa.Builtin); !isBuiltin {
								cut[b] = true
							}
						}
					}
				}
			}
			if why, ok := progressReviewed[ssaFuncName(fn)+":"+h.Comment]; ok {
				r.ok(key+":reviewed", site, why)
				continue
			}
			if p := cycleThrough(h, body, cut, nil); p != nil {
				if inStringLiteralValue(c, fn) && c.eClean("SPEC-string-escape") {
					r.ok(key+":evaluated", site, "a loop over the function's own copy of the literal, not over parser input; "+subsumedBy("SPEC-string-escape")+" (it ends on every literal of the domain)")
					continue
				}
				r.bad(key+":advance", site, fmt.Sprintf("a path around this loop (%s) makes no call that can advance the input: the parser cannot make progress on it", blockPath(p)))
				continue
			}
			// (b) no cycle feasible at EOF
			if p := cycleThrough(h, body, nil, func(b *ssa.BasicBlock, i int) bool { return !e.edgeRequiresNonEOF(b, i) }); p != nil {
				r.bad(key+":eof", site, fmt.Sprintf("at end of input (where next/read no longer advance) a path around this loop remains feasible (%s): no branch on it requires the current token/character to differ from EOF, so truncated input makes the parser spin forever", blockPath(p)))
				continue
			}
			r.ok(key, site, "advances on every path and cannot continue at end of input")
		}
	}
}

var progressReviewed = map[string]string{}

func constIntVal(cst *types.Const) int64 {
	v, _ := constantInt64(cst)
	return v
}

func blockPath(p []*ssa.BasicBlock) string {
	var s []string
	for _, b := range p {
		s = append(s, fmt.Sprintf("%d:%s", b.Index, b.Comment))
	}
	return strings.Join(s, " -> ")
}

// boundedCounterLoop: the loop header (or a block every iteration passes) compares an integer phi that changes by a constant
// step on every iteration with a loop-invariant bound, or tests len(x) of a slice/string that is resliced on every path.
func boundedCounterLoop(h *ssa.BasicBlock, body map[*ssa.BasicBlock]bool) (string, bool) {
	for b := range body {
		iff, ok := b.Instrs[len(b.Instrs)-1].(*ssa.If)
		if !ok || !(b == h || b.Dominates(h) || h.Dominates(b)) {
			continue
		}
		// one successor must leave the loop
		leaves := !body[b.Succs[0]] || !body[b.Succs[1]]
		if !leaves {
			continue
		}
		// the exit test must be passed on every iteration: b dominates every back-edge source
		allDom := true
		for _, p := range h.Preds {
			if h.Dominates(p) && !b.Dominates(p) && b != h {
				allDom = false
			}
		}
		if !allDom {
			continue
		}
		// conjunctions: look at each comparison feeding the condition
		for _, cmp := range comparisonsOf(iff.Cond, 0) {
			for _, side := range []ssa.Value{cmp.X, cmp.Y} {
				if phi, ok := side.(*ssa.Phi); ok && phi.Block() == h {
					if b, ok := phi.Type().Underlying().(*types.Basic); ok && b.Info()&types.IsInteger != 0 {
						stepped := true
						for i, e := range phi.Edges {
							if !h.Dominates(h.Preds[i]) {
								continue // entry edge
							}
							bo, ok := e.(*ssa.BinOp)
							if !ok || (bo.Op != token.ADD && bo.Op != token.SUB) || bo.X != ssa.Value(phi) {
								stepped = false
							} else if _, isC := bo.Y.(*ssa.Const); !isC {
								stepped = false
							}
						}
						if stepped {
							return "counter loop: an integer stepped by a constant on every iteration is compared in the exit test", true
						}
					}
				}
				// len(x) with x a phi resliced on every back edge
				if call, ok := side.(*ssa.Call); ok {
					if bi, ok := call.Call.Value.(*ssa.Builtin); ok && bi.Name() == "len" {
						if phi, ok := call.Call.Args[0].(*ssa.Phi); ok && phi.Block() == h {
							shr := true
							for i, e := range phi.Edges {
								if !h.Dominates(h.Preds[i]) {
									continue
								}
								if !reslicedFrom(e, phi, 0) {
									shr = false
								}
							}
							if shr {
								return "consumes a string/slice: len(x) is tested and x is resliced from a positive offset on every iteration", true
							}
						}
					}
				}
			}
		}
	}
	return "", false
}

func comparisonsOf(v ssa.Value, d int) []*ssa.BinOp {
	if d > 3 {
		return nil
	}
	switch x := v.(type) {
	case *ssa.BinOp:
		switch x.Op {
		case token.LSS, token.LEQ, token.GTR, token.GEQ, token.NEQ, token.EQL:
			return []*ssa.BinOp{x}
		}
	case *ssa.UnOp:
		return comparisonsOf(x.X, d+1)
	case *ssa.Phi:
		// short-circuit && / || produce phis of comparisons
		var out []*ssa.BinOp
		for _, e := range x.Edges {
			out = append(out, comparisonsOf(e, d+1)...)
		}
		return out
	}
	return nil
}

// reslicedFrom: v is phi[k:] (k > 0 or non-constant positive) possibly through further phis.
func reslicedFrom(v ssa.Value, phi *ssa.Phi, d int) bool {
	if d > 4 {
		return false
	}
	switch x := v.(type) {
	case *ssa.Slice:
		if x.Low == nil {
			return false
		}
		if k, isC := constInt(x.Low); isC && k <= 0 {
			return false
		}
		return x.X == ssa.Value(phi) || reslicedFrom(x.X, phi, d+1)
	case *ssa.Phi:
		if x == phi {
			return false
		}
		for _, e := range x.Edges {
			if !reslicedFrom(e, phi, d+1) {
				return false
			}
		}
		return true
	}
	return false
}

// structuralDescentLoop: the loop walks down a finished data structure - a variable of the loop head is replaced, on
// every way round, by a field of the value it held (`for { switch s := stmt.(type) { case *L: stmt = s.Inner ...`).
// The syntax tree the parser builds is finite and acyclic (nodes are created once and never linked upwards), so the
// walk ends; it reads no input.
func structuralDescentLoop(h *ssa.BasicBlock, body map[*ssa.BasicBlock]bool) (string, bool) {
	for _, ins := range h.Instrs {
		phi, ok := ins.(*ssa.Phi)
		if !ok {
			break
		}
		nBack, all := 0, true
		for i, e := range phi.Edges {
			if !body[h.Preds[i]] {
				continue
			}
			nBack++
			if !fieldOfValue(e, phi, 0) {
				all = false
			}
		}
		if nBack > 0 && all {
			// every cycle must pass a back edge into h, i.e. reassign the variable; nothing else to show
			return "structural descent: " + phi.Comment + " is replaced by a field of itself on every back edge (finite, acyclic tree)", true
		}
	}
	return "", false
}

// fieldOfValue: v is a field (of a type assertion) of root.
func fieldOfValue(v, root ssa.Value, depth int) bool {
	if depth > 4 {
		return false
	}
	switch x := v.(type) {
	case *ssa.UnOp:
		if x.Op == token.MUL {
			if fa, ok := x.X.(*ssa.FieldAddr); ok {
				return derivedFrom(fa.X, root, 0)
			}
		}
	case *ssa.Field:
		return derivedFrom(x.X, root, 0)
	}
	return false
}

func derivedFrom(v, root ssa.Value, depth int) bool {
	if v == root {
		return true
	}
	if depth > 4 {
		return false
	}
	switch x := v.(type) {
	case *ssa.TypeAssert:
		return derivedFrom(x.X, root, depth+1)
	case *ssa.Extract:
		return derivedFrom(x.Tuple, root, depth+1)
	case *ssa.ChangeInterface:
		return derivedFrom(x.X, root, depth+1)
	}
	return false
}
