package main

import (
	"fmt"
	"go/ast"
	"go/constant"
	"go/token"
	"go/types"
	"sort"
	"strings"

	"golang.org/x/tools/go/ssa"
)

func init() {
	register(&Rule{ID: "DATE-setters", Props: []string{"C12"}, Min: 40,
		Doc: "S (ES5 §15.9.5.28-41): for each of the fourteen Date.prototype.set* methods the table gives the ordered list of time fields its arguments stand for (setHours: hour, min, sec, ms ...). Checked per method: the argument limit passed to the common prologue is the length of that list; the local/UTC flag agrees with the method's name; and - by executing the method's branch structure for every argument count k = 1..n (conditions on len(value) are evaluated, fallthrough is followed) - exactly the first k fields are assigned, each from the argument of its position. A forgotten field in one arm of the switch (the call with exactly three arguments ignores the minutes) or a field taken from the wrong position is reported for that k",
		Run: ruleDateSetters})
	register(&Rule{ID: "DATE-zone", Props: []string{"C12"}, Min: 17,
		Doc: "T (sibling agreement, ES5 §15.9.5.10-25): every Date.prototype getter bound under a name containing UTC reads the time value without converting it to local time, and every getter without UTC in its name converts with Local() before reading a calendar field; a getter cross-wired to the other zone differs only when the host zone has a non-zero offset (for minutes and seconds only with a non-whole-hour offset), which the test machines' UTC zone never shows",
		Run: ruleDateZone})
}

type setterSpec struct {
	fields []string
	clause string
}

var dateSetterSpec = map[string]setterSpec{
	"setMilliseconds": {[]string{"millisecond"}, "§15.9.5.28"},
	"setSeconds":      {[]string{"second", "millisecond"}, "§15.9.5.30"},
	"setMinutes":      {[]string{"minute", "second", "millisecond"}, "§15.9.5.32"},
	"setHours":        {[]string{"hour", "minute", "second", "millisecond"}, "§15.9.5.34"},
	"setDate":         {[]string{"day"}, "§15.9.5.36"},
	"setMonth":        {[]string{"month", "day"}, "§15.9.5.38"},
	"setFullYear":     {[]string{"year", "month", "day"}, "§15.9.5.40"},
}

// execSetter: runs stmts for len(value) == k; returns field -> argument index assigned, or an error text.
func execSetter(info *types.Info, stmts []ast.Stmt, k int, valueObj, timeObj types.Object, out map[string]int) string {
	var evalInt func(e ast.Expr) (int64, bool)
	evalInt = func(e ast.Expr) (int64, bool) {
		e = unparen(e)
		if tv, ok := info.Types[e]; ok && tv.Value != nil {
			v, exact := constant.Int64Val(constant.ToInt(tv.Value))
			return v, exact
		}
		if ce, ok := e.(*ast.CallExpr); ok && len(ce.Args) == 1 {
			if id, ok := ce.Fun.(*ast.Ident); ok && id.Name == "len" {
				if aid, ok := unparen(ce.Args[0]).(*ast.Ident); ok && info.Uses[aid] == valueObj {
					return int64(k), true
				}
			}
		}
		return 0, false
	}
	var evalBool func(e ast.Expr) (bool, bool)
	evalBool = func(e ast.Expr) (bool, bool) {
		e = unparen(e)
		switch n := e.(type) {
		case *ast.BinaryExpr:
			switch n.Op {
			case token.LAND, token.LOR:
				a, ok1 := evalBool(n.X)
				b, ok2 := evalBool(n.Y)
				if !ok1 || !ok2 {
					return false, false
				}
				if n.Op == token.LAND {
					return a && b, true
				}
				return a || b, true
			case token.EQL, token.NEQ, token.LSS, token.LEQ, token.GTR, token.GEQ:
				a, ok1 := evalInt(n.X)
				b, ok2 := evalInt(n.Y)
				if !ok1 || !ok2 {
					return false, false
				}
				return constant.Compare(constant.MakeInt64(a), n.Op, constant.MakeInt64(b)), true
			}
		case *ast.UnaryExpr:
			if n.Op == token.NOT {
				v, ok := evalBool(n.X)
				return !v, ok
			}
		}
		return false, false
	}
	endsInFallthrough := func(body []ast.Stmt) bool {
		if len(body) == 0 {
			return false
		}
		b, ok := body[len(body)-1].(*ast.BranchStmt)
		return ok && b.Tok == token.FALLTHROUGH
	}
	var exec func(stmts []ast.Stmt) string
	exec = func(stmts []ast.Stmt) string {
		for _, st := range stmts {
			switch s := st.(type) {
			case *ast.AssignStmt:
				for i, l := range s.Lhs {
					sel, ok := unparen(l).(*ast.SelectorExpr)
					if !ok {
						continue
					}
					id, ok := unparen(sel.X).(*ast.Ident)
					if !ok || info.Uses[id] != timeObj {
						continue
					}
					if i >= len(s.Rhs) {
						return "unsupported assignment form"
					}
					ix, ok := unparen(s.Rhs[i]).(*ast.IndexExpr)
					if !ok {
						return "field " + sel.Sel.Name + " is assigned from something other than value[i]"
					}
					if vid, ok := unparen(ix.X).(*ast.Ident); !ok || info.Uses[vid] != valueObj {
						return "field " + sel.Sel.Name + " is assigned from something other than value[i]"
					}
					pos, ok := evalInt(ix.Index)
					if !ok {
						return "non-constant argument index"
					}
					if pos >= int64(k) {
						return fmt.Sprintf("value[%d] is read although only %d argument(s) were passed (index out of range)", pos, k)
					}
					out[sel.Sel.Name] = int(pos)
				}
			case *ast.IfStmt:
				if s.Init != nil {
					return "if with an init statement"
				}
				v, ok := evalBool(s.Cond)
				if !ok {
					// a condition that does not involve the argument count: must not contain field assignments
					if assignsField(info, s, timeObj) {
						return "a field assignment depends on a condition the analysis cannot evaluate"
					}
					continue
				}
				if v {
					if e := exec(s.Body.List); e != "" {
						return e
					}
				} else if s.Else != nil {
					switch el := s.Else.(type) {
					case *ast.BlockStmt:
						if e := exec(el.List); e != "" {
							return e
						}
					case *ast.IfStmt:
						if e := exec([]ast.Stmt{el}); e != "" {
							return e
						}
					}
				}
			case *ast.SwitchStmt:
				if s.Init != nil {
					return "switch with an init statement"
				}
				clauses := s.Body.List
				start := -1
				def := -1
				for i, c := range clauses {
					cc := c.(*ast.CaseClause)
					if cc.List == nil {
						def = i
						continue
					}
					for _, e := range cc.List {
						var hit, ok bool
						if s.Tag == nil {
							hit, ok = evalBool(e)
						} else {
							a, ok1 := evalInt(s.Tag)
							b, ok2 := evalInt(e)
							hit, ok = a == b, ok1 && ok2
						}
						if !ok {
							if assignsField(info, s, timeObj) {
								return "a field assignment depends on a switch the analysis cannot evaluate"
							}
							hit = false
						}
						if hit && start < 0 {
							start = i
						}
					}
					if start >= 0 {
						break
					}
				}
				if start < 0 {
					start = def
				}
				for i := start; i >= 0 && i < len(clauses); i++ {
					body := clauses[i].(*ast.CaseClause).Body
					if e := exec(body); e != "" {
						return e
					}
					if !endsInFallthrough(body) {
						break
					}
				}
			case *ast.BlockStmt:
				if e := exec(s.List); e != "" {
					return e
				}
			case *ast.BranchStmt, *ast.ExprStmt, *ast.ReturnStmt, *ast.DeclStmt:
			default:
				if assignsField(info, st, timeObj) {
					return fmt.Sprintf("a field assignment inside a %T", st)
				}
			}
		}
		return ""
	}
	return exec(stmts)
}

func assignsField(info *types.Info, n ast.Node, timeObj types.Object) bool {
	found := false
	ast.Inspect(n, func(m ast.Node) bool {
		if as, ok := m.(*ast.AssignStmt); ok {
			for _, l := range as.Lhs {
				if sel, ok := unparen(l).(*ast.SelectorExpr); ok {
					if id, ok := unparen(sel.X).(*ast.Ident); ok && info.Uses[id] == timeObj {
						found = true
					}
				}
			}
		}
		return true
	})
	return found
}

func ruleDateSetters(c *Ctx, r *R) {
	bound := c.Shape().BoundOn("Date.prototype")
	var names []string
	for n := range bound {
		if strings.HasPrefix(n, "set") && n != "setTime" {
			names = append(names, n)
		}
	}
	sort.Strings(names)
	if len(names) < 14 {
		r.undecided("unresolved:setters", "-", fmt.Sprintf("only %d Date.prototype.set* methods are bound (15 expected)", len(names)))
	}
	for _, name := range names {
		fd := c.Decl(bound[name])
		if fd == nil || fd.Body == nil {
			r.undecided("unresolved:"+name, "-", "no declaration for the function bound as Date.prototype."+name)
			continue
		}
		info := c.InfoFor(fd)
		base := strings.Replace(name, "UTC", "", 1)
		utc := strings.Contains(name, "UTC")
		site := c.Pos(fd.Pos())
		// the prologue call: <obj, date, ecmaTime, value> := helper(call, limit, local)
		var limit int64 = -1
		var local, localOK bool
		var valueObj, timeObj types.Object
		var rest []ast.Stmt
		for i, st := range fd.Body.List {
			as, ok := st.(*ast.AssignStmt)
			if !ok || len(as.Lhs) != 4 || len(as.Rhs) != 1 {
				continue
			}
			ce, ok := as.Rhs[0].(*ast.CallExpr)
			if !ok || len(ce.Args) != 3 {
				continue
			}
			if tv, ok := info.Types[ce.Args[1]]; ok && tv.Value != nil {
				limit, _ = constant.Int64Val(constant.ToInt(tv.Value))
			}
			if tv, ok := info.Types[ce.Args[2]]; ok && tv.Value != nil && tv.Value.Kind() == constant.Bool {
				local, localOK = constant.BoolVal(tv.Value), true
			}
			if id, ok := as.Lhs[2].(*ast.Ident); ok {
				timeObj = info.Defs[id]
			}
			if id, ok := as.Lhs[3].(*ast.Ident); ok {
				valueObj = info.Defs[id]
			}
			rest = fd.Body.List[i+1:]
			break
		}
		if limit < 0 || !localOK || valueObj == nil || timeObj == nil {
			r.undecided("unresolved:"+name+":prologue", site, "UNRESOLVED: the common prologue call (call, argument limit, local flag) was not found in "+fd.Name.Name)
			continue
		}
		r.check(local == !utc, name+":zone", site, map[bool]string{true: "local time", false: "UTC"}[local], fmt.Sprintf("Date.prototype.%s works on %s time fields: the flag passed to the prologue selects the other zone", name, map[bool]string{true: "UTC", false: "local"}[utc]))
		sp, ok := dateSetterSpec[base]
		if !ok {
			if base == "setYear" {
				r.check(limit == 1, name+":limit", site, "one argument", "§B.2.5 setYear takes one argument")
			}
			continue
		}
		r.check(limit == int64(len(sp.fields)), name+":limit", site, fmt.Sprintf("%d argument(s)", limit), fmt.Sprintf("%s: Date.prototype.%s takes up to %d arguments (%s); the prologue is told %d", sp.clause, name, len(sp.fields), strings.Join(sp.fields, ", "), limit))
		for k := 1; k <= len(sp.fields); k++ {
			got := map[string]int{}
			key := fmt.Sprintf("%s:args=%d", name, k)
			if err := execSetter(info, rest, k, valueObj, timeObj, got); err != "" {
				r.bad(key, site, fmt.Sprintf("%s: Date.prototype.%s called with %d argument(s): %s", sp.clause, name, k, err))
				continue
			}
			var diffs []string
			for i := 0; i < k; i++ {
				if pos, ok := got[sp.fields[i]]; !ok {
					diffs = append(diffs, fmt.Sprintf("%s (argument %d) is not assigned", sp.fields[i], i))
				} else if pos != i {
					diffs = append(diffs, fmt.Sprintf("%s is taken from argument %d instead of %d", sp.fields[i], pos, i))
				}
			}
			for f := range got {
				idx := -1
				for i, sf := range sp.fields {
					if sf == f {
						idx = i
					}
				}
				if idx < 0 || idx >= k {
					diffs = append(diffs, fmt.Sprintf("%s is assigned although it is not among the first %d fields", f, k))
				}
			}
			sort.Strings(diffs)
			r.check(len(diffs) == 0, key, site, "assigns "+strings.Join(sp.fields[:k], ", "), fmt.Sprintf("%s: Date.prototype.%s called with %d argument(s) must set exactly %s from its arguments in that order: %s", sp.clause, name, k, strings.Join(sp.fields[:k], ", "), strings.Join(diffs, "; ")))
		}
	}
}

func ruleDateZone(c *Ctx, r *R) {
	s := c.Shape()
	fns := s.boundSSA(c, "Date.prototype")
	var names []string
	for n := range fns {
		if strings.HasPrefix(n, "get") && n != "getTime" && n != "getTimezoneOffset" {
			names = append(names, n)
		}
	}
	sort.Strings(names)
	for _, name := range names {
		fn := fns[name]
		nLocal := 0
		for _, ci := range staticCallsIn(fn, "Local") {
			if callee := ci.Common().StaticCallee(); callee != nil && callee.Pkg != nil && callee.Pkg.Pkg.Path() == "time" {
				nLocal++
			}
		}
		utc := strings.Contains(name, "UTC")
		if utc {
			r.check(nLocal == 0, name, c.Pos(fn.Pos()), "reads the UTC time value", fmt.Sprintf("Date.prototype.%s converts the time value with Local(): a UTC getter must report the field in UTC (§15.9.5)", name))
		} else {
			r.check(nLocal > 0, name, c.Pos(fn.Pos()), "converts to local time", fmt.Sprintf("Date.prototype.%s never converts the time value with Local(): a local-time getter must report LocalTime(t) (§15.9.5); the results agree only while the host zone is UTC", name))
		}
	}
}

func init() {
	register(&Rule{ID: "DATE-repr", Props: []string{"C12"}, Min: 2,
		Doc: "P (representation invariant): a dateObject keeps one time value in four fields - time, epoch, value and the isNaN flag that every accessor branches on (DATE-nan). Every method of *dateObject that writes one of them writes all four on every path to its return: a setter that updates the epoch but leaves isNaN as it was turns an invalid date into a date that still reads as invalid (`d = new Date(NaN); d.setTime(0); d.getTime()` is NaN) - or the reverse",
		Run: ruleDateRepr})
}

func ruleDateRepr(c *Ctx, r *R) {
	dt := c.LookupType("", "dateObject")
	if dt == nil {
		r.undecided("unresolved:dateObject", "-", "UNRESOLVED: type dateObject")
		return
	}
	st, ok := dt.Underlying().(*types.Struct)
	if !ok {
		return
	}
	var fields []string
	for i := 0; i < st.NumFields(); i++ {
		fields = append(fields, st.Field(i).Name())
	}
	sort.Strings(fields)
	for _, fn := range c.AllSrcFuncs("") {
		if fn.Parent() != nil || fn.Signature.Recv() == nil || !typeIs(fn.Signature.Recv().Type(), ottoPath, "dateObject") {
			continue
		}
		if _, isPtr := fn.Signature.Recv().Type().(*types.Pointer); !isPtr {
			continue
		}
		storesIn := func(b *ssa.BasicBlock) map[string]bool {
			out := map[string]bool{}
			for _, ins := range b.Instrs {
				switch x := ins.(type) {
				case *ssa.Store:
					if nt, f := fieldOfAddr(x.Addr); nt != nil && nt.Obj().Name() == "dateObject" {
						if fa := x.Addr.(*ssa.FieldAddr); fa.X == ssa.Value(fn.Params[0]) {
							out[f.Name()] = true
						}
					}
				case *ssa.Call:
					// delegation to another method of the same receiver that itself writes all fields is credited below
					if callee := x.Call.StaticCallee(); callee != nil && callee.Signature.Recv() != nil && typeIs(callee.Signature.Recv().Type(), ottoPath, "dateObject") && len(x.Call.Args) > 0 && x.Call.Args[0] == ssa.Value(fn.Params[0]) {
						out["call:"+callee.Name()] = true
					}
				}
			}
			return out
		}
		writes := false
		for _, b := range fn.Blocks {
			if len(storesIn(b)) > 0 {
				writes = true
			}
		}
		if !writes {
			continue
		}
		// must-store sets: intersection over predecessors
		must := map[*ssa.BasicBlock]map[string]bool{}
		all := map[string]bool{}
		for _, f := range fields {
			all[f] = true
		}
		for _, b := range fn.Blocks {
			must[b] = nil // nil = top (all)
		}
		changed := true
		for changed {
			changed = false
			for _, b := range fn.Blocks {
				var in map[string]bool
				if b == fn.Blocks[0] {
					in = map[string]bool{}
				} else {
					first := true
					for _, p := range b.Preds {
						if must[p] == nil {
							continue // top
						}
						if first {
							in = map[string]bool{}
							for k := range must[p] {
								in[k] = true
							}
							first = false
						} else {
							for k := range in {
								if !must[p][k] {
									delete(in, k)
								}
							}
						}
					}
					if first {
						continue // all preds still top
					}
				}
				for k := range storesIn(b) {
					in[k] = true
				}
				if must[b] == nil || len(must[b]) != len(in) {
					must[b] = in
					changed = true
				}
			}
		}
		for _, b := range fn.Blocks {
			ret, ok := b.Instrs[len(b.Instrs)-1].(*ssa.Return)
			if !ok {
				continue
			}
			got := must[b]
			delegated := false
			for k := range got {
				if strings.HasPrefix(k, "call:") {
					delegated = true // e.g. SetTime -> Set: the callee's own obligation covers the fields
				}
			}
			var missing []string
			if !delegated {
				for _, f := range fields {
					if !got[f] {
						missing = append(missing, f)
					}
				}
			}
			key := ssaFuncName(fn)
			r.check(len(missing) == 0, key, c.Pos(instrPos(ret)), "all representation fields written on this path", fmt.Sprintf("%s writes the time value but on the path to this return leaves %s as they were: the four fields of a dateObject describe one value and the accessors branch on isNaN, so a date changed through this path reports its old validity", key, strings.Join(missing, ", ")))
		}
	}
}

func init() {
	register(&Rule{ID: "DATE-twodigit", Props: []string{"C12"}, Min: 1,
		Doc: "P (ES5 15.9.3.1 step 8, 15.9.4.3 step 8): the two-digit-year window is `0 <= ToInteger(y) <= 99`. In every function of package otto that adds the constant 1900 to a year, the comparisons that guard the addition (with the constants 0 and 99) are made on a value that went through math.Trunc / math.Floor-of-positive / an integer conversion - not on the raw float, for which 99.9 and -0.9 fall outside the window (`Date.UTC(99.9, 0)` is the year 0099)",
		Run: ruleDateTwoDigit})
}

func ruleDateTwoDigit(c *Ctx, r *R) {
	n := 0
	for _, fn := range c.AllSrcFuncs("") {
		adds := false
		for _, b := range fn.Blocks {
			for _, ins := range b.Instrs {
				if bo, ok := ins.(*ssa.BinOp); ok && bo.Op == token.ADD {
					for _, o := range []ssa.Value{bo.X, bo.Y} {
						if k, ok := o.(*ssa.Const); ok && k.Value != nil && k.Value.ExactString() == "1900" {
							adds = true
						}
					}
				}
			}
		}
		if !adds {
			continue
		}
		integral := func(v ssa.Value) bool {
			for i := 0; i < 4; i++ {
				switch y := v.(type) {
				case *ssa.Call:
					if callee := y.Call.StaticCallee(); callee != nil && callee.Pkg != nil && callee.Pkg.Pkg.Path() == "math" && (callee.Name() == "Trunc" || callee.Name() == "Floor") {
						return true
					}
					return false
				case *ssa.Convert:
					if bt, ok := y.Type().Underlying().(*types.Basic); ok && bt.Info()&types.IsInteger != 0 {
						return true
					}
					v = y.X
					continue
				case *ssa.Phi:
					return false
				}
				break
			}
			if bt, ok := v.Type().Underlying().(*types.Basic); ok && bt.Info()&types.IsInteger != 0 {
				return true
			}
			return false
		}
		for _, b := range fn.Blocks {
			iff, ok := b.Instrs[len(b.Instrs)-1].(*ssa.If)
			if !ok {
				continue
			}
			bo, ok := iff.Cond.(*ssa.BinOp)
			if !ok {
				continue
			}
			k, isK := bo.Y.(*ssa.Const)
			if !isK || k.Value == nil || k.Value.ExactString() != "99" {
				continue
			}
			n++
			r.check(integral(bo.X), "window:"+ssaFuncName(fn), c.Pos(instrPos(iff)), "the year compared with 99 is an integral value (ToInteger applied)",
				ssaFuncName(fn)+" tests the two-digit-year window on the raw year: for 99 < y < 100 and -1 < y < 0 the test fails although ToInteger(y) is inside 0..99, so `Date.UTC(99.9, 0)` is the year 0099 instead of 1999 (ES5 15.9.4.3 step 8)")
		}
	}
	if n == 0 {
		r.undecided("sites", "-", "UNRESOLVED: no comparison with 99 in a function that adds 1900")
	}
}

func init() {
	register(&Rule{ID: "DATE-revive", Props: []string{"C12"}, Min: 2,
		Doc: "T (ES5 15.9.5.40 / 15.9.5.41 step 1: `if this time value is NaN, let t be +0`): setFullYear and setUTCFullYear are the setters that bring an invalid date back. The function bound to each of the two names (or a helper it calls first) tests the date's isNaN flag and, on the NaN side, sets the time value 0 (a call of the date's Set with the constant 0); every other setter leaves through the shared NaN exit",
		Run: ruleDateRevive})
}

func ruleDateRevive(c *Ctx, r *R) {
	fns := c.Shape().boundSSA(c, "Date.prototype")
	revives := func(fn *ssa.Function) bool {
		if fn == nil {
			return false
		}
		for _, b := range fn.Blocks {
			iff, ok := b.Instrs[len(b.Instrs)-1].(*ssa.If)
			if !ok {
				continue
			}
			a := loadAddr(iff.Cond)
			if a == nil || !isFieldAddr(a, "dateObject", "isNaN") {
				continue
			}
			for _, ins := range b.Succs[0].Instrs {
				if call, ok := ins.(*ssa.Call); ok {
					if callee := call.Call.StaticCallee(); callee != nil && callee.Name() == "Set" && len(call.Call.Args) == 2 {
						if k, ok := call.Call.Args[1].(*ssa.Const); ok && k.Value != nil && (k.Value.ExactString() == "0") {
							return true
						}
					}
				}
			}
		}
		return false
	}
	for _, name := range []string{"setFullYear", "setUTCFullYear"} {
		fn := fns[name]
		if fn == nil {
			r.undecided(name, "-", "UNRESOLVED: Date.prototype."+name)
			continue
		}
		ok := revives(fn)
		if !ok && len(fn.Blocks) > 0 {
			for _, b := range fn.Blocks {
				for _, ins := range b.Instrs {
					if call, isCall := ins.(*ssa.Call); isCall {
						if callee := call.Call.StaticCallee(); callee != nil && callee.Pkg == fn.Pkg && revives(callee) {
							ok = true
						}
					}
				}
			}
		}
		r.check(ok, name, c.Pos(fn.Pos()), "an invalid date is restarted from the time value +0", "Date.prototype."+name+" leaves an invalid date invalid: `new Date(NaN)."+name+"(2000)` is NaN; ES5 15.9.5.40/41 step 1 restarts from t = +0 (the result is 946684800000 for the UTC variant)")
	}
}
