package main

import (
	"fmt"
	"go/constant"
	"go/token"
	"go/types"
	"sort"
	"strings"

	"golang.org/x/tools/go/ssa"
)

// COMPLETION-consume: which statements consume which abrupt completions (ES5 12.6-12.12).

func init() {
	register(&Rule{ID: "COMPLETION-consume", Props: []string{"C01"}, Min: 6,
		Doc: "T+E: an iteration statement consumes the `break` and `continue` completions that target it (ES5 12.6.1-4); a switch statement (12.11) and a block under a label (12.12) consume only `break` - a `continue` inside a switch belongs to the enclosing loop. Every evaluator of a statement hands its completion to a helper that decides; each helper is evaluated abstractly for the three completion types with a matching label, and the evaluator's kind (loop: its function evaluates a for / for-in / while / do-while node; other: switch, block) must agree with what its helper consumes",
		Run: ruleCompletionConsume})
}

func ruleCompletionConsume(c *Ctx, r *R) {
	tResult := c.LookupType("", "result")
	tValue := c.LookupType("", "Value")
	if tResult == nil || tValue == nil {
		r.undecided("unresolved:types", "-", "UNRESOLVED: result / Value")
		return
	}
	kinds := map[string]int64{}
	for _, name := range []string{"resultReturn", "resultBreak", "resultContinue"} {
		k, ok := c.Otto().Types.Scope().Lookup(name).(*types.Const)
		if !ok {
			r.undecided("unresolved:"+name, "-", "UNRESOLVED: constant "+name)
			return
		}
		v, _ := constantInt64(k)
		kinds[name] = v
	}
	kindName := func(v int64) string {
		for n, k := range kinds {
			if k == v {
				return n
			}
		}
		return fmt.Sprint(v)
	}
	rst := tResult.Underlying().(*types.Struct)
	vst := tValue.Underlying().(*types.Struct)
	fieldIdx := func(st *types.Struct, name string) int {
		for i := 0; i < st.NumFields(); i++ {
			if st.Field(i).Name() == name {
				return i
			}
		}
		return -1
	}
	rKind, rTarget := fieldIdx(rst, "kind"), fieldIdx(rst, "target")
	vValue := fieldIdx(vst, "value")
	if rKind < 0 || rTarget < 0 || vValue < 0 {
		r.undecided("unresolved:fields", "-", "UNRESOLVED: fields of result / Value")
		return
	}
	in := newAbsInterp(map[string]absHook{})
	// what a helper answers for a completion of kind k whose target is among the labels
	consumes := map[*ssa.Function]map[string]string{}
	evalHelper := func(h *ssa.Function) (map[string]string, string) {
		if m, ok := consumes[h]; ok {
			return m, ""
		}
		out := map[string]string{}
		for name, k := range kinds {
			res := in.zero(tResult).(aStruct)
			res.f[rKind], res.f[rTarget] = aInt(k), aStr("L")
			v := in.zero(tValue).(aStruct)
			v.f[vValue] = aIface{dyn: tResult, v: res}
			labels := aSlice{arr: aRef{root: &acell{v: aArr{e: []aval{aStr(""), aStr("L")}}, name: "labels"}}, n: 2}
			ret, pan, fail := absRun(in, h, []aval{v, labels})
			if fail != "" || pan != nil {
				return nil, fmt.Sprintf("cannot evaluate %s: %s%v", h.Name(), fail, pan)
			}
			n, _ := ret.(aInt)
			out[name] = kindName(int64(n))
		}
		consumes[h] = out
		return out, ""
	}
	loopNodes := []string{"nodeForStatement", "nodeForInStatement", "nodeWhileStatement", "nodeDoWhileStatement"}
	n := 0
	for _, fn := range c.AllSrcFuncs("") {
		owner := fn
		for owner.Parent() != nil {
			owner = owner.Parent()
		}
		// an evaluator of statements: a method of *runtime with a statement-node parameter (resolved by type, not by name)
		stmtParam := false
		for _, p := range owner.Params {
			if nt := derefNamed(p.Type()); nt != nil && nt.Obj().Pkg() != nil && nt.Obj().Pkg().Path() == ottoPath &&
				strings.HasPrefix(nt.Obj().Name(), "node") && strings.HasSuffix(nt.Obj().Name(), "Statement") {
				stmtParam = true
			}
		}
		if !stmtParam {
			continue
		}
		isLoop := false
		for _, p := range owner.Params {
			for _, ln := range loopNodes {
				if typeIs(p.Type(), ottoPath, ln) {
					isLoop = true
				}
			}
		}
		ord := 0
		for _, b := range fn.Blocks {
			for _, ins := range b.Instrs {
				call, ok := ins.(*ssa.Call)
				if !ok {
					continue
				}
				h := call.Call.StaticCallee()
				if h == nil || h.Signature.Recv() == nil || !typeIs(h.Signature.Recv().Type(), ottoPath, "Value") || h.Signature.Results().Len() != 1 {
					continue
				}
				if nt, ok := h.Signature.Results().At(0).Type().(*types.Named); !ok || nt.Obj().Name() != "resultKind" {
					continue
				}
				n++
				ord++
				key := fmt.Sprintf("%s#%d", ssaFuncName(owner), ord)
				site := c.Pos(instrPos(call))
				m, why := evalHelper(h)
				if why != "" {
					r.undecided(key, site, "UNDECIDED: "+why)
					continue
				}
				var desc []string
				for _, k := range []string{"resultBreak", "resultContinue", "resultReturn"} {
					desc = append(desc, k+"->"+m[k])
				}
				sort.Strings(desc)
				breakOK := m["resultBreak"] == "resultBreak"
				contConsumed := m["resultContinue"] == "resultContinue"
				switch {
				case !breakOK:
					r.bad(key, site, fmt.Sprintf("%s decides its completion with %s, which does not consume a `break` aimed at this statement (%v)", ssaFuncName(owner), h.Name(), desc))
				case isLoop && !contConsumed:
					r.bad(key, site, fmt.Sprintf("%s evaluates an iteration statement but decides its completion with %s, which does not consume `continue` (%v): `continue` would leave the loop", ssaFuncName(owner), h.Name(), desc))
				case !isLoop && contConsumed:
					r.bad(key, site, fmt.Sprintf("%s evaluates a switch / block but decides its completion with %s, which consumes `continue` (%v): a `continue` inside a switch (or a labelled block) inside a loop is swallowed there instead of continuing the loop (ES5 12.11: `for(...){ switch(i){ case 1: continue; } after() }` runs after() for i = 1)", ssaFuncName(owner), h.Name(), desc))
				default:
					r.ok(key, site, fmt.Sprintf("%s: %v", h.Name(), desc))
				}
			}
		}
	}
	// decisions written out in the evaluator itself (the helper inlined): the completion record is taken out of the
	// Value with an assertion to `result` and its kind compared with the constants. The kinds compared are the kinds
	// that can be consumed there: a loop must look at break and continue, a switch / block at break only.
	for _, fn := range c.AllSrcFuncs("") {
		owner := fn
		for owner.Parent() != nil {
			owner = owner.Parent()
		}
		stmtParam, isLoop := false, false
		for _, p := range owner.Params {
			if nt := derefNamed(p.Type()); nt != nil && nt.Obj().Pkg() != nil && nt.Obj().Pkg().Path() == ottoPath &&
				strings.HasPrefix(nt.Obj().Name(), "node") && strings.HasSuffix(nt.Obj().Name(), "Statement") {
				stmtParam = true
			}
			for _, ln := range loopNodes {
				if typeIs(p.Type(), ottoPath, ln) {
					isLoop = true
				}
			}
		}
		if !stmtParam {
			continue
		}
		ord := 0
		for _, b := range fn.Blocks {
			for _, ins := range b.Instrs {
				ta, ok := ins.(*ssa.TypeAssert)
				if !ok || !types.Identical(ta.AssertedType, tResult) || valueOfPayload(ta.X) == nil {
					continue
				}
				var rec ssa.Value = ta
				if ta.CommaOk {
					rec = nil
					for _, ref := range *ta.Referrers() {
						if ex, ok := ref.(*ssa.Extract); ok && ex.Index == 0 {
							rec = ex
						}
					}
				}
				if rec == nil {
					continue
				}
				compared := map[string]bool{}
				// reads of the kind field: directly, or through the local the record is kept in
				var kindReads []ssa.Value
				for _, ref := range *rec.Referrers() {
					switch y := ref.(type) {
					case *ssa.Field:
						if y.Field == rKind {
							kindReads = append(kindReads, y)
						}
					case *ssa.Store:
						if al, ok := y.Addr.(*ssa.Alloc); ok && y.Val == rec {
							for _, r2 := range *al.Referrers() {
								if fa, ok := r2.(*ssa.FieldAddr); ok && fa.Field == rKind {
									for _, r3 := range *fa.Referrers() {
										if ld, ok := r3.(*ssa.UnOp); ok && ld.Op == token.MUL {
											kindReads = append(kindReads, ld)
										}
									}
								}
							}
						}
					}
				}
				for _, fl := range kindReads {
					for _, r2 := range *fl.Referrers() {
						if bo, ok := r2.(*ssa.BinOp); ok && (bo.Op == token.EQL || bo.Op == token.NEQ) {
							for _, side := range []ssa.Value{bo.X, bo.Y} {
								if k, isK := constInt(side); isK {
									compared[kindName(k)] = true
								}
							}
						}
					}
				}
				if len(compared) == 0 {
					continue
				}
				n++
				ord++
				key := fmt.Sprintf("%s:inline#%d", ssaFuncName(owner), ord)
				site := c.Pos(instrPos(ta))
				switch {
				case !compared["resultBreak"]:
					r.bad(key, site, fmt.Sprintf("%s looks at the kind of its completion (%v) but not for a `break` aimed at this statement", ssaFuncName(owner), sortedKeys(compared)))
				case isLoop && !compared["resultContinue"]:
					r.bad(key, site, fmt.Sprintf("%s evaluates an iteration statement but never tests its completion for `continue` (%v): `continue` would leave the loop", ssaFuncName(owner), sortedKeys(compared)))
				case !isLoop && compared["resultContinue"]:
					r.bad(key, site, fmt.Sprintf("%s evaluates a switch / block but tests its completion for `continue` (%v): a `continue` inside a switch (or a labelled block) inside a loop belongs to the loop (ES5 12.11)", ssaFuncName(owner), sortedKeys(compared)))
				default:
					r.ok(key, site, fmt.Sprintf("decided in place: kinds tested %v", sortedKeys(compared)))
				}
			}
		}
	}
	if n < 6 {
		r.undecided("unresolved:sites", "-", fmt.Sprintf("UNRESOLVED: %d completion decisions found (blocks, switch and four loops expected)", n))
	}
}

// SPEC-default-value: [[DefaultValue]] (ES5 8.12.8), evaluated abstractly: the order of the property lookups and calls.

func init() {
	register(&Rule{ID: "SPEC-default-value", Props: []string{"C05", "C01"}, Min: 1,
		Doc: "E (abstract evaluation): ES5 8.12.8 - with hint String: Get toString, call it if callable, return the result if primitive; then Get valueOf, call, return; else TypeError; with hint Number the two names swapped; with no hint Number unless the object is a Date. Lookups and calls are observable (accessors, methods replaced by the first call), so their *sequence* is part of the result: the second name is looked up only after the first method has been called. (*object).DefaultValue is evaluated for the three hints x Date or not x each method callable or not x each result primitive or object, with the property lookup and the call replaced by recorders, and the recorded sequence and the outcome are compared with the algorithm",
		Run: ruleSpecDefaultValue})
}

func ruleSpecDefaultValue(c *Ctx, r *R) {
	w := defineWorldFor(c)
	if w == nil {
		r.undecided("unresolved:world", "-", "UNRESOLVED: abstract model")
		return
	}
	m := w.m
	var fn *ssa.Function
	for _, f := range c.AllSrcFuncs("") {
		if ssaFuncName(f) == "(*object).DefaultValue" {
			fn = f
		}
	}
	if fn == nil {
		r.undecided("unresolved:DefaultValue", "-", "UNRESOLVED: (*object).DefaultValue")
		return
	}
	hints := map[string]int64{}
	for _, name := range []string{"defaultValueNoHint", "defaultValueHintString", "defaultValueHintNumber"} {
		k, ok := c.Otto().Types.Scope().Lookup(name).(*types.Const)
		if !ok {
			r.undecided("unresolved:"+name, "-", "UNRESOLVED: constant "+name)
			return
		}
		v, _ := constantInt64(k)
		hints[name] = v
	}
	dateClass, ok := c.Otto().Types.Scope().Lookup("classDateName").(*types.Const)
	if !ok {
		r.undecided("unresolved:classDateName", "-", "UNRESOLVED: classDateName")
		return
	}
	dateName := strings.Trim(dateClass.Val().ExactString(), `"`)
	ost := m.tObject.Underlying().(*types.Struct)
	fClass, fObjValue := -1, -1
	for i := 0; i < ost.NumFields(); i++ {
		switch ost.Field(i).Name() {
		case "class":
			fClass = i
		case "value":
			fObjValue = i
		}
	}
	// every [[Class]] the package names: a wrapper object (Number, Boolean, String) carries its primitive as payload, and
	// 8.12.8 makes no exception for it - valueOf / toString are looked up and called like on any object
	var classes []string
	for _, nme := range c.Otto().Types.Scope().Names() {
		if k, ok := c.Otto().Types.Scope().Lookup(nme).(*types.Const); ok && strings.HasPrefix(nme, "class") && strings.HasSuffix(nme, "Name") && k.Val().Kind() == constant.String {
			classes = append(classes, constant.StringVal(k.Val()))
		}
	}
	sort.Strings(classes)
	if len(classes) < 6 {
		r.undecided("unresolved:classes", "-", fmt.Sprintf("UNRESOLVED: only %d class name constants found", len(classes)))
		return
	}
	var trace []string
	callable := map[string]bool{}
	primitive := map[string]bool{}
	hooks := map[string]absHook{
		"(*object).get": func(in *absInterp, call *ssa.CallCommon, args []aval) (aval, bool) {
			name := string(args[1].(aStr))
			trace = append(trace, "get "+name)
			if callable[name] {
				return m.mkValue(in, "fn:"+name), true
			}
			return m.mkValue(in, "undefined"), true
		},
		"(Value).isCallable": func(in *absInterp, call *ssa.CallCommon, args []aval) (aval, bool) {
			return aBool(strings.HasPrefix(m.valueAtom(args[0]), "fn:")), true
		},
		"(Value).object": func(in *absInterp, call *ssa.CallCommon, args []aval) (aval, bool) {
			a := m.valueAtom(args[0])
			if strings.HasPrefix(a, "fn:") {
				return aAtom{a}, true
			}
			return aNil{}, true
		},
		"(*object).call": func(in *absInterp, call *ssa.CallCommon, args []aval) (aval, bool) {
			name := strings.TrimPrefix(describeAval(args[0]), "fn:")
			trace = append(trace, "call "+name)
			if primitive[name] {
				return m.mkValue(in, "prim:"+name), true
			}
			return m.mkValue(in, "fn:result-object"), true
		},
		"(*runtime).panicTypeError": func(in *absInterp, call *ssa.CallCommon, args []aval) (aval, bool) {
			return aAtom{"TypeError"}, true
		},
		"objectValue": nil,
	}
	delete(hooks, "objectValue")
	in := newAbsInterp(hooks)
	n := 0
	bad := ""
	fail := ""
	for hname, hv := range hints {
		for _, cls := range classes {
			isDate := cls == dateName
			for mask := 0; mask < 16; mask++ {
				callable["toString"], primitive["toString"] = mask&1 != 0, mask&2 != 0
				callable["valueOf"], primitive["valueOf"] = mask&4 != 0, mask&8 != 0
				n++
				// expected
				order := []string{"valueOf", "toString"}
				if hname == "defaultValueHintString" || (hname == "defaultValueNoHint" && isDate) {
					order = []string{"toString", "valueOf"}
				}
				var want []string
				wantRes := "TypeError"
				for _, name := range order {
					want = append(want, "get "+name)
					if callable[name] {
						want = append(want, "call "+name)
						if primitive[name] {
							wantRes = "prim:" + name
							break
						}
					}
				}
				obj := in.zero(m.tObject).(aStruct)
				obj.f[fClass] = aStr(cls)
				if fObjValue >= 0 {
					obj.f[fObjValue] = aIface{dyn: m.tValue, v: m.mkValue(in, "prim:payload")}
				}
				obj.f[w.fRt] = aAtom{"rt"}
				trace = nil
				ret, pan, f := absRun(in, fn, []aval{aRef{root: &acell{v: obj, name: "o"}}, aInt(hv)})
				if f != "" {
					fail = f
					continue
				}
				gotRes := ""
				if pan != nil {
					if isTypeErrorPanic(pan) {
						gotRes = "TypeError"
					} else {
						gotRes = "host panic " + describeAval(pan)
					}
				} else {
					gotRes = m.valueAtom(ret)
				}
				if strings.Join(trace, ", ") != strings.Join(want, ", ") || gotRes != wantRes {
					if bad == "" {
						bad = fmt.Sprintf("hint %s, class %s (Date=%v), toString callable=%v primitive=%v, valueOf callable=%v primitive=%v: observed [%s] -> %s; ES5 8.12.8 requires [%s] -> %s", strings.TrimPrefix(hname, "defaultValue"), cls, isDate, callable["toString"], primitive["toString"], callable["valueOf"], primitive["valueOf"], strings.Join(trace, ", "), gotRes, strings.Join(want, ", "), wantRes)
					}
				}
			}
		}
	}
	site := c.Pos(fn.Pos())
	switch {
	case fail != "":
		r.undecided("8.12.8", site, "UNDECIDED: the abstract evaluator does not model "+fail)
	case bad != "":
		r.bad("8.12.8", site, "[[DefaultValue]] deviates from ES5: "+bad+" (a valueOf that replaces toString, or accessor methods, make the order visible)")
	default:
		r.ok("8.12.8", site, fmt.Sprintf("%d cases agree with ES5", n))
	}
	if n < 90 {
		r.undecided("coverage", site, fmt.Sprintf("UNDECIDED: only %d cases evaluated", n))
	}
}

// PLUS-toprimitive: the addition operator converts both operands with ToPrimitive (no hint) before it looks at their types.

func init() {
	register(&Rule{ID: "PLUS-toprimitive", Props: []string{"C05"}, Min: 2,
		Doc: "P (dataflow): ES5 11.6.1 steps 5-7 - `+` applies ToPrimitive without a hint to both operands and only then decides between concatenation and addition; an operand converted with ToString directly is converted with hint String (`\"\" + {valueOf: function(){ return 1 }}` must be \"1\"). In the arm of the binary-operator evaluator that handles token.PLUS every ToString / ToNumber conversion (string(), float64()) is applied to a value that came out of toPrimitiveValue, and both operands reach toPrimitiveValue",
		Run: rulePlusToPrimitive})
}

func rulePlusToPrimitive(c *Ctx, r *R) {
	var fn *ssa.Function
	for _, f := range c.AllSrcFuncs("") {
		if f.Name() == "calculateBinaryExpression" && f.Parent() == nil {
			fn = f
		}
	}
	if fn == nil {
		r.undecided("unresolved:calculateBinaryExpression", "-", "UNRESOLVED: calculateBinaryExpression")
		return
	}
	plus, ok := c.Pkg("token").Types.Scope().Lookup("PLUS").(*types.Const)
	if !ok {
		r.undecided("unresolved:token.PLUS", "-", "UNRESOLVED: token.PLUS")
		return
	}
	plusVal, _ := constantInt64(plus)
	// the PLUS arm: blocks dominated by the true successor of `operator == PLUS`
	var arm *ssa.BasicBlock
	for _, b := range fn.Blocks {
		iff, ok := b.Instrs[len(b.Instrs)-1].(*ssa.If)
		if !ok {
			continue
		}
		bo, ok := iff.Cond.(*ssa.BinOp)
		if !ok || bo.Op != token.EQL {
			continue
		}
		if k, ok := constInt(bo.Y); ok && k == plusVal {
			if _, isParam := bo.X.(*ssa.Parameter); isParam {
				arm = b.Succs[0]
			}
		}
	}
	if arm == nil {
		r.undecided("unresolved:plus-arm", c.Pos(fn.Pos()), "UNRESOLVED: no `operator == token.PLUS` branch in calculateBinaryExpression")
		return
	}
	fromToPrimitive := func(v ssa.Value) bool {
		seen := map[ssa.Value]bool{}
		var walk func(v ssa.Value) bool
		walk = func(v ssa.Value) bool {
			if seen[v] {
				return true
			}
			seen[v] = true
			switch x := v.(type) {
			case *ssa.Call:
				return toPrimitiveHint(&x.Call) == "none"
			case *ssa.Phi:
				for _, e := range x.Edges {
					if !walk(e) {
						return false
					}
				}
				return true
			}
			return false
		}
		return walk(v)
	}
	n, prims := 0, 0
	for _, b := range fn.Blocks {
		if !(b == arm || arm.Dominates(b)) {
			continue
		}
		for _, ins := range b.Instrs {
			call, ok := ins.(*ssa.Call)
			if !ok || call.Call.StaticCallee() == nil {
				continue
			}
			name := call.Call.StaticCallee().Name()
			if toPrimitiveHint(&call.Call) == "none" {
				prims++
			}
			if call.Call.StaticCallee().Signature.Recv() == nil || !typeIs(call.Call.StaticCallee().Signature.Recv().Type(), ottoPath, "Value") {
				continue
			}
			if name != "string" && name != "float64" && name != "String" && name != "number" {
				continue
			}
			n++
			r.check(fromToPrimitive(call.Call.Args[0]), fmt.Sprintf("plus:%s#%d", name, n), c.Pos(instrPos(call)), "applied to the result of ToPrimitive",
				fmt.Sprintf("the `+` arm applies %s() to an operand that did not go through ToPrimitive without a hint: the conversion then runs with hint String / Number instead of no hint (`\"x\" + {valueOf: function(){ return 42 }}` gives \"x[object Object]\" instead of \"x42\")", name))
		}
	}
	r.check(prims >= 2, "plus:both-operands", c.Pos(fn.Pos()), "both operands are converted with ToPrimitive", fmt.Sprintf("the `+` arm calls ToPrimitive without a hint %d time(s): ES5 11.6.1 converts both operands", prims))
	if n == 0 {
		r.undecided("unresolved:conversions", c.Pos(fn.Pos()), "UNRESOLVED: no conversion call in the `+` arm")
	}
}
