package main

import (
	"errors"
	"fmt"
	"math/big"
	"strconv"

	"golang.org/x/tools/go/ssa"
)

func init() {
	register(&Rule{ID: "SPEC-number-literal", Props: []string{"C03", "C06"}, Min: 1,
		Doc: "E (exhaustive abstract evaluation over a table of literals; ES5 7.8.3 and Annex B.1.1: the mathematical value of a NumericLiteral): the function of package parser that computes the value of a numeric literal - found by signature: func(string) (interface{}, error) that calls strconv.ParseFloat - is run by the abstract interpreter on decimal integers, legacy octal (`010` is 8, `0777` is 511; `08` and `09` are decimal), hexadecimal in both spellings (`0x10`, `0X10`, upper and lower digits), hexadecimal beyond 2^63 in both spellings (the integer arithmetic of the fallback is compared modulo 2^64), and decimal / exponent forms (handed to strconv.ParseFloat unchanged, whose answer is the result, range errors included). strconv is the real library (its answers computed by the checker's own process), errors.Is compares with the real sentinels. Every literal must be accepted with the value the specification gives",
		Run: ruleSpecNumberLiteral})
}

func ruleSpecNumberLiteral(c *Ctx, r *R) {
	var fn *ssa.Function
	for _, f := range c.AllSrcFuncs("parser") {
		if f.Parent() != nil || f.Signature.Recv() != nil || len(f.Params) != 1 || f.Signature.Results().Len() != 2 {
			continue
		}
		if typeStr(f.Params[0].Type()) != "string" || typeStr(f.Signature.Results().At(1).Type()) != "error" {
			continue
		}
		if t := typeStr(f.Signature.Results().At(0).Type()); t != "interface{}" && t != "any" {
			continue
		}
		calls := false
		for _, b := range f.Blocks {
			for _, ins := range b.Instrs {
				if call, ok := ins.(*ssa.Call); ok {
					if cal := call.Call.StaticCallee(); cal != nil && cal.Pkg != nil && cal.Pkg.Pkg.Path() == "strconv" && cal.Name() == "ParseFloat" {
						calls = true
					}
				}
			}
		}
		if calls {
			if fn != nil {
				r.undecided("anchor", "-", "UNRESOLVED: more than one func(string) (interface{}, error) of package parser calls strconv.ParseFloat")
				return
			}
			fn = f
		}
	}
	if fn == nil {
		r.undecided("anchor", "-", "UNRESOLVED: no func(string) (interface{}, error) of package parser calls strconv.ParseFloat (the value of a numeric literal)")
		return
	}
	errAtom := func(call *ssa.CallCommon, idx int, err error) aval {
		if err == nil {
			return aNil{}
		}
		kind := "syntax"
		if errors.Is(err, strconv.ErrRange) {
			kind = "range"
		}
		return aIface{dyn: call.Signature().Results().At(idx).Type(), v: aAtom{"strconv " + kind + " error"}}
	}
	var floatAsked []string
	hooks := map[string]absHook{
		"strconv.ParseInt": func(in *absInterp, call *ssa.CallCommon, args []aval) (aval, bool) {
			s, ok1 := args[0].(aStr)
			base, ok2 := args[1].(aInt)
			bits, ok3 := args[2].(aInt)
			if !ok1 || !ok2 || !ok3 {
				return nil, false
			}
			n, err := strconv.ParseInt(string(s), int(base), int(bits))
			return aTuple{aInt(n), errAtom(call, 1, err)}, true
		},
		"strconv.ParseUint": func(in *absInterp, call *ssa.CallCommon, args []aval) (aval, bool) {
			s, ok1 := args[0].(aStr)
			base, ok2 := args[1].(aInt)
			bits, ok3 := args[2].(aInt)
			if !ok1 || !ok2 || !ok3 {
				return nil, false
			}
			n, err := strconv.ParseUint(string(s), int(base), int(bits))
			return aTuple{aInt(int64(n)), errAtom(call, 1, err)}, true
		},
		"strconv.Atoi": func(in *absInterp, call *ssa.CallCommon, args []aval) (aval, bool) {
			s, ok := args[0].(aStr)
			if !ok {
				return nil, false
			}
			n, err := strconv.Atoi(string(s))
			return aTuple{aInt(int64(n)), errAtom(call, 1, err)}, true
		},
		"strconv.ParseFloat": func(in *absInterp, call *ssa.CallCommon, args []aval) (aval, bool) {
			s, ok := args[0].(aStr)
			if !ok {
				return nil, false
			}
			floatAsked = append(floatAsked, string(s))
			_, err := strconv.ParseFloat(string(s), 64)
			return aTuple{aAtom{"ParseFloat(" + string(s) + ")"}, errAtom(call, 1, err)}, true
		},
		"errors.Is": func(in *absInterp, call *ssa.CallCommon, args []aval) (aval, bool) {
			e, ok1 := args[0].(aIface)
			t, ok2 := args[1].(aIface)
			if !ok1 || !ok2 {
				return aBool(false), true
			}
			ea, _ := e.v.(aAtom)
			ta, _ := t.v.(aAtom)
			return aBool((ea.name == "strconv range error" && ta.name == "strconv.ErrRange") || (ea.name == "strconv syntax error" && ta.name == "strconv.ErrSyntax")), true
		},
		"fmt.Errorf": func(in *absInterp, call *ssa.CallCommon, args []aval) (aval, bool) {
			return aIface{dyn: call.Signature().Results().At(0).Type(), v: aAtom{"error"}}, true
		},
		"errors.New": func(in *absInterp, call *ssa.CallCommon, args []aval) (aval, bool) {
			return aIface{dyn: call.Signature().Results().At(0).Type(), v: aAtom{"error"}}, true
		},
	}
	in := newAbsInterp(hooks)
	in.intFloats = true // the hexadecimal fallback accumulates digits in a float64: value*16 + digit
	if sp := c.Prog.ImportedPackage("strconv"); sp != nil {
		for _, name := range []string{"ErrRange", "ErrSyntax"} {
			if g, ok := sp.Members[name].(*ssa.Global); ok {
				in.globals[g] = &acell{v: aIface{dyn: g.Type(), v: aAtom{"strconv." + name}}, name: name}
			}
		}
	}
	type probe struct {
		lit  string
		kind string // "int": the value; "mod": the value modulo 2^64; "float": strconv.ParseFloat's answer for the same text
		want string // decimal digits of the mathematical value (int, mod)
	}
	probes := []probe{
		{"0", "int", "0"}, {"1", "int", "1"}, {"42", "int", "42"}, {"10", "int", "10"}, {"9007199254740992", "int", "9007199254740992"},
		{"010", "int", "8"}, {"0777", "int", "511"}, {"00", "int", "0"}, {"07", "int", "7"}, {"0123456701234567", "int", "5744368105847"},
		{"0x10", "int", "16"}, {"0X10", "int", "16"}, {"0xff", "int", "255"}, {"0XFF", "int", "255"}, {"0xAbCdEf", "int", "11259375"}, {"0X0", "int", "0"},
		{"0x7fffffffffffffff", "int", "9223372036854775807"}, {"0X7FFFFFFFFFFFFFFF", "int", "9223372036854775807"},
		{"0x8000000000000000", "mod", "9223372036854775808"}, {"0X8000000000000000", "mod", "9223372036854775808"},
		{"0xFFFFFFFFFFFFFFFF", "mod", "18446744073709551615"}, {"0X10000000000000000", "mod", "18446744073709551616"}, {"0x123456789abcdef01", "mod", "20988295479420645121"},
		{"9007199254740993", "dbl", "9007199254740993"}, {"1234567890123456789", "dbl", "1234567890123456789"}, {"0x20000000000001", "dbl", "9007199254740993"}, {"0400000000000000001", "dbl", "9007199254740993"},
		{"08", "float", ""}, {"09", "float", ""}, {"089", "float", ""}, {"1.5", "float", ""}, {".5", "float", ""}, {"5.", "float", ""}, {"1e3", "float", ""}, {"1E3", "float", ""}, {"1e-2", "float", ""},
		{"0.0", "float", ""}, {"5e-324", "float", ""}, {"123456789012345678901", "float", ""}, {"9223372036854775808", "float", ""}, {"1e400", "float", ""}, {"0.1e1", "float", ""},
	}
	mod64 := new(big.Int).Lsh(big.NewInt(1), 64)
	n, bad, fail := 0, "", ""
	for _, p := range probes {
		n++
		floatAsked = nil
		ret, pan, f := absRun(in, fn, []aval{aStr(p.lit)})
		if f != "" {
			fail = f
			continue
		}
		how := ""
		switch {
		case pan != nil:
			how = "a Go panic (" + describeAval(pan) + ")"
		default:
			tup, ok := ret.(aTuple)
			if !ok || len(tup) != 2 {
				how = "an unexpected result shape"
				break
			}
			_, isNil := tup[1].(aNil)
			if iface, ok := tup[1].(aIface); ok && iface.dyn == nil {
				isNil = true
			}
			if !isNil {
				how = "rejected (an error is returned)"
				break
			}
			val, _ := tup[0].(aIface)
			switch p.kind {
			case "dbl":
				// an integer beyond 2^53: the value is a Number - carried as a float64 (the conversion rounds it), not as an
				// int64 that keeps digits the Number does not have
				a, isAtom := val.v.(aAtom)
				got, isInt := val.v.(aInt)
				want, _ := new(big.Int).SetString(p.want, 10)
				switch {
				case isAtom && a.name == "ParseFloat("+p.lit+")" && p.lit[0] != '0':
				case isInt && val.dyn != nil && typeStr(val.dyn) == "float64" && new(big.Int).SetInt64(int64(got)).Cmp(want) == 0:
				case isInt && new(big.Int).SetInt64(int64(got)).Cmp(want) == 0:
					how = fmt.Sprintf("the int64 %d, which keeps digits the Number does not have", int64(got))
					if f, err := strconv.ParseFloat(want.String(), 64); err == nil {
						how = fmt.Sprintf("the int64 %d, which keeps digits the Number does not have: the value of the literal is the double %s", int64(got), strconv.FormatFloat(f, 'f', -1, 64))
					}
				default:
					how = "an unexpected value (" + describeAval(val.v) + ")"
				}
			case "int", "mod":
				got, ok := val.v.(aInt)
				if !ok {
					how = "a value that is not computed from the digits (" + describeAval(val.v) + ")"
					if a, isAtom := val.v.(aAtom); isAtom && p.kind == "int" {
						// ParseFloat of the same text is right for a decimal literal (not for octal / hex)
						want, _ := new(big.Int).SetString(p.want, 10)
						if f, err := strconv.ParseFloat(p.lit, 64); err == nil && a.name == "ParseFloat("+p.lit+")" {
							if bf, _ := new(big.Float).SetInt(want).Float64(); bf == f {
								how = ""
							}
						}
					}
					break
				}
				want, _ := new(big.Int).SetString(p.want, 10)
				g := new(big.Int).SetInt64(int64(got))
				if p.kind == "mod" {
					want = new(big.Int).Mod(want, mod64)
					g = new(big.Int).Mod(g, mod64)
				}
				if g.Cmp(want) != 0 {
					how = fmt.Sprintf("%d", int64(got))
				}
			case "float":
				a, ok := val.v.(aAtom)
				if !ok || a.name != "ParseFloat("+p.lit+")" {
					how = "something else than strconv.ParseFloat's answer for the literal (" + describeAval(val.v) + ")"
					// an integer result is right when it is the value (`08` computed as 8)
					if g, isInt := val.v.(aInt); isInt {
						if f, err := strconv.ParseFloat(p.lit, 64); err == nil && f == float64(int64(g)) && float64(int64(f)) == f {
							how = ""
						}
					}
				}
			}
		}
		if how != "" && bad == "" {
			want := p.want
			switch p.kind {
			case "dbl":
				want = "a Number, i.e. the double nearest to " + p.want + " (7.8.3: rounded to a value of the Number type)"
			case "float":
				want = "the value of the decimal literal (strconv.ParseFloat of the same text)"
			case "mod":
				want += " (compared modulo 2^64)"
			}
			bad = fmt.Sprintf("the numeric literal %s gives %s; ES5 7.8.3 / B.1.1 give %s", p.lit, how, want)
		}
	}
	site := c.Pos(fn.Pos())
	switch {
	case fail != "":
		r.undecided("value", site, "UNDECIDED: the abstract evaluator does not model "+fail)
	case bad != "":
		r.bad("value", site, "deviates from the specification: "+bad)
	default:
		r.ok("value", site, fmt.Sprintf("%d numeric literals agree with ES5 7.8.3 / B.1.1", n))
	}
	r.note("literals", n)
}
