package main

import (
	"fmt"
	"go/token"
	"go/types"
	"strings"

	"golang.org/x/tools/go/ssa"
)

func init() {
	register(&Rule{ID: "JSON-parse", Props: []string{"C11"}, Min: 8,
		Doc: "T+P: JSON.parse hands the ToString of its argument to the JSON decoder unmodified (any trimming or rewriting changes the accepted language), maps a decoder error to SyntaxError on the error branch, and its value walker has a case for every dynamic type encoding/json produces for an interface{} target (nil, bool, float64, string, []interface{}, map[string]interface{})",
		Run: ruleJSONParse})
	register(&Rule{ID: "JSON-stringify", Props: []string{"C11"}, Min: 4,
		Doc: "P: in the stringify walker, the push of an object onto the cycle stack is dominated by the membership loop over that stack whose hit raises TypeError, and is followed - before anything that can panic - by a deferred pop (an exception from toJSON/getters must not leave the object on the stack); every store to the gap is bounded to 10 (slice to 10 under len > 10, or a count clamped to 0..10)",
		Run: ruleJSONStringify})
	register(&Rule{ID: "FRESH-put", Props: []string{"C11", "C07"}, Min: 1,
		Doc: "G (census): [[Put]] (8.12.5) asks [[CanPut]] up the prototype chain, calls an inherited setter and gives up on an inherited read-only property; ES5 never uses it to give a property to an object it has just created (object and array literals, the results of Array / String / Object built-ins, the JSON wrapper objects of 15.12.2 step 3 and 15.12.3 step 9-10 all use [[DefineOwnProperty]]). Every call of (*object).put in package otto whose receiver is an object created in the same function (the result of one of the runtime's new* constructors) is reported: `Object.defineProperty(Object.prototype, '', {set: f})` would otherwise hijack JSON.stringify and JSON.parse(text, reviver). Positive witness: the census counts the put calls it classified",
		Run: ruleFreshPut})
}

func ruleFreshPut(c *Ctx, r *R) {
	nPut, nFresh := 0, 0
	for _, fn := range c.AllSrcFuncs("") {
		ord := 0
		for _, b := range fn.Blocks {
			for _, ins := range b.Instrs {
				call, ok := ins.(*ssa.Call)
				if !ok {
					continue
				}
				callee := call.Call.StaticCallee()
				if callee == nil || callee.Name() != "put" || callee.Signature.Recv() == nil || !typeIs(callee.Signature.Recv().Type(), ottoPath, "object") {
					continue
				}
				nPut++
				recv := normCell(call.Call.Args[0])
				mk, ok := recv.(*ssa.Call)
				if !ok {
					continue
				}
				mc := mk.Call.StaticCallee()
				if mc == nil || !strings.HasPrefix(mc.Name(), "new") || mc.Signature.Results().Len() != 1 {
					continue
				}
				if pt, ok := mc.Signature.Results().At(0).Type().(*types.Pointer); !ok || !typeIs(pt.Elem(), ottoPath, "object") {
					continue
				}
				nFresh++
				ord++
				key := fmt.Sprintf("%s:put-on-%s#%d", ssaFuncName(fn), mc.Name(), ord)
				r.bad(key, c.Pos(instrPos(call)), fmt.Sprintf("%s gives a property to the object it has just made with %s by [[Put]]: a setter or read-only property of that name inherited from Object.prototype intercepts it (`Object.defineProperty(Object.prototype, '', {set: function(){}}); JSON.stringify(1)` is undefined); ES5 creates such properties with [[DefineOwnProperty]]", ssaFuncName(fn), mc.Name()))
			}
		}
	}
	r.check(nPut >= 5, "census", "-", fmt.Sprintf("%d calls of (*object).put classified, %d on freshly made objects", nPut, nFresh), fmt.Sprintf("only %d calls of (*object).put found: the census no longer sees the [[Put]] entry point", nPut))
}

func jsonBuiltins(c *Ctx) map[string]*ssa.Function {
	return c.Shape().boundSSA(c, "JSON")
}

func ruleJSONParse(c *Ctx, r *R) {
	fn := jsonBuiltins(c)["parse"]
	if fn == nil {
		r.undecided("anchor", "-", "UNRESOLVED JSON.parse")
		return
	}
	var unm *ssa.Call
	for _, b := range fn.Blocks {
		for _, ins := range b.Instrs {
			if call, ok := ins.(*ssa.Call); ok {
				if cl := call.Call.StaticCallee(); cl != nil && cl.Pkg != nil && cl.Pkg.Pkg.Path() == "encoding/json" && cl.Name() == "Unmarshal" {
					unm = call
				}
			}
		}
	}
	if unm == nil {
		r.undecided("decoder", c.Pos(fn.Pos()), "JSON.parse does not call json.Unmarshal: the rule's model of the decoder no longer applies")
		return
	}
	site := c.Pos(instrPos(unm))
	// input unmodified
	okIn := false
	why := "the decoder input is not the direct []byte conversion of ToString(argument 0)"
	if cv, ok := unm.Call.Args[0].(*ssa.Convert); ok {
		if sc, ok := cv.X.(*ssa.Call); ok && sc.Call.StaticCallee() != nil && sc.Call.StaticCallee().Name() == "string" && sc.Call.StaticCallee().Signature.Recv() != nil {
			if ac, ok := sc.Call.Args[0].(*ssa.Call); ok && ac.Call.StaticCallee() != nil && ac.Call.StaticCallee().Name() == "Argument" {
				if k, isC := constInt(ac.Call.Args[1]); isC && k == 0 {
					okIn = true
				}
			}
		} else {
			why = fmt.Sprintf("the text passes through %s before it reaches the decoder", describeValue(cv.X))
		}
	}
	r.check(okIn, "input-unmodified", site, "json.Unmarshal([]byte(ToString(arg0)))", "JSON.parse must accept exactly the JSON grammar: "+why+" (e.g. trimming Unicode white space makes texts with a leading NBSP or U+2028 parse instead of throwing SyntaxError)")
	// error mapping
	okErr := false
	for _, ref := range *unm.Referrers() {
		bo, ok := ref.(*ssa.BinOp)
		if !ok || bo.Op != token.NEQ || !isNilConst(bo.Y) {
			continue
		}
		for _, r2 := range *bo.Referrers() {
			if iff, ok := r2.(*ssa.If); ok && blockPanicsWith(iff.Block().Succs[0], "panicSyntaxError") {
				okErr = true
			}
		}
	}
	r.check(okErr, "error-to-SyntaxError", site, "err != nil => panic(SyntaxError)", "a decoder error is not turned into a SyntaxError on the error branch")
	// 15.12.2 step 4: with a callable reviver the result is always Walk(root, ""), whatever was parsed - a scalar root is
	// revived too. The call of the reviving walker (the callee that takes the holder object and a name) does not hang on
	// a test of the parsed value
	for _, b := range fn.Blocks {
		for _, ins := range b.Instrs {
			call, ok := ins.(*ssa.Call)
			if !ok {
				continue
			}
			cl := call.Call.StaticCallee()
			if cl == nil || cl.Pkg != fn.Pkg || cl.Blocks == nil || len(cl.Params) < 3 || cl.Signature.Recv() != nil {
				continue
			}
			holder, name := false, false
			for _, p := range cl.Params {
				holder = holder || typeStr(p.Type()) == "*object"
				name = name || typeStr(p.Type()) == "string"
			}
			if !holder || !name {
				continue
			}
			// values computed from the decoded text: results of the calls that take the decoded root (or derive from them)
			fromParsed := func(v ssa.Value) bool {
				seen := map[ssa.Value]bool{}
				var walk func(v ssa.Value, d int) bool
				walk = func(v ssa.Value, d int) bool {
					if d > 6 || seen[v] {
						return false
					}
					seen[v] = true
					switch x := v.(type) {
					case *ssa.Call:
						if c2 := x.Call.StaticCallee(); c2 != nil && c2.Pkg == fn.Pkg && c2 != cl {
							for _, a := range x.Call.Args {
								if u, ok := a.(*ssa.UnOp); ok {
									if al, ok := u.X.(*ssa.Alloc); ok && len(unm.Call.Args) > 1 {
										if mi, ok := unm.Call.Args[1].(*ssa.MakeInterface); ok && mi.X == ssa.Value(al) {
											return true
										}
									}
								}
							}
						}
						for _, a := range x.Call.Args {
							if walk(a, d+1) {
								return true
							}
						}
					case *ssa.Extract:
						return walk(x.Tuple, d+1)
					case *ssa.Phi:
						for _, e := range x.Edges {
							if walk(e, d+1) {
								return true
							}
						}
					case *ssa.BinOp:
						return walk(x.X, d+1) || walk(x.Y, d+1)
					case *ssa.UnOp:
						return walk(x.X, d+1)
					case *ssa.Field:
						return walk(x.X, d+1)
					case *ssa.FieldAddr:
						return walk(x.X, d+1)
					case *ssa.TypeAssert:
						return walk(x.X, d+1)
					case *ssa.MakeInterface:
						return walk(x.X, d+1)
					case *ssa.Alloc:
						// a struct local kept in memory: what is stored into it
						if x.Referrers() != nil {
							for _, ref := range *x.Referrers() {
								if st, ok := ref.(*ssa.Store); ok && st.Addr == ssa.Value(x) && walk(st.Val, d+1) {
									return true
								}
							}
						}
					}
					return false
				}
				return walk(v, 0)
			}
			bad := ""
			for _, d := range fn.Blocks {
				iff, ok := d.Instrs[len(d.Instrs)-1].(*ssa.If)
				if !ok || d == b || !d.Dominates(b) {
					continue
				}
				// only tests that decide whether the call is reached at all
				if reaches(d.Succs[0], b, map[*ssa.BasicBlock]bool{d: true}) && reaches(d.Succs[1], b, map[*ssa.BasicBlock]bool{d: true}) {
					continue
				}
				if fromParsed(iff.Cond) {
					bad = c.Pos(instrPos(iff))
				}
			}
			r.check(bad == "", "revive-whatever-was-parsed", c.Pos(instrPos(call)), "the reviving walk does not depend on a test of the parsed value",
				"JSON.parse calls the reviving walk only when a test of the parsed value holds (at "+bad+"): ES5 15.12.2 step 4 applies the reviver to the root whatever it is - JSON.parse('1', function(k, v){ return v + 1 }) is 2, a scalar root is revived like any other")
		}
	}
	// walker exhaustiveness
	want := []string{"nil", "bool", "string", "float64", "[]interface{}", "map[string]interface{}"}
	// the walker: the function that receives the decoded root (the variable whose address went to Unmarshal)
	var walker *ssa.Function
	if mi, ok := unm.Call.Args[1].(*ssa.MakeInterface); ok {
		if root, ok := mi.X.(*ssa.Alloc); ok {
			for _, ref := range *root.Referrers() {
				ld, ok := ref.(*ssa.UnOp)
				if !ok {
					continue
				}
				for _, r2 := range *ld.Referrers() {
					if call, ok := r2.(*ssa.Call); ok && call.Call.StaticCallee() != nil {
						walker = call.Call.StaticCallee()
					}
				}
			}
		}
	}
	var sw *tswitch
	for _, s := range c.typeSwitches("") {
		if walker == nil || s.tagType == nil || typeStr(s.tagType) != "interface{}" {
			continue
		}
		if obj, ok := c.Otto().TypesInfo.Defs[s.fn.Name].(*types.Func); ok && c.Prog.FuncValue(obj) == walker {
			if sw == nil || len(s.cases) > len(sw.cases) {
				sw = s
			}
		}
	}
	if sw == nil {
		r.undecided("walker", site, "UNRESOLVED: no type switch over the decoded interface{} value in a function JSON.parse calls")
		return
	}
	has := map[string]bool{}
	for _, tc := range sw.cases {
		for _, t := range tc.types {
			if b, ok := t.(*types.Basic); ok && b.Kind() == types.UntypedNil {
				has["nil"] = true
			} else {
				has[typeStr(t)] = true
			}
		}
	}
	for _, w := range want {
		r.check(has[w], "walker-case:"+w, c.Pos(sw.stmt.Pos()), "handled", fmt.Sprintf("the JSON value walker has no case for %s, a dynamic type encoding/json produces: such values are silently dropped from the parsed result", w))
	}
	// 15.12.2: the members of a parsed object are created as by an object literal ([[DefineOwnProperty]]), never assigned
	// with [[Put]], which would consult setters and read-only properties inherited from Object.prototype
	puts, defines := "", 0
	for _, b := range walker.Blocks {
		for _, ins := range b.Instrs {
			call, ok := ins.(*ssa.Call)
			if !ok || call.Call.StaticCallee() == nil || call.Call.StaticCallee().Signature.Recv() == nil {
				continue
			}
			switch call.Call.StaticCallee().Name() {
			case "put":
				puts = c.Pos(instrPos(call))
			case "defineProperty", "defineOwnProperty":
				defines++
			}
		}
	}
	// 15.12.2 / 9.3.1: a JSON number is a Number value - the decoded float64, sign of zero included. A conversion of it to
	// an integer type inside the walker (a "compact representation" for whole numbers) loses -0: 1/JSON.parse("-0") is -Infinity
	narrowed := ""
	for _, b := range walker.Blocks {
		for _, ins := range b.Instrs {
			if cv, ok := ins.(*ssa.Convert); ok {
				fb, okf := cv.X.Type().Underlying().(*types.Basic)
				tb, okt := cv.Type().Underlying().(*types.Basic)
				if okf && okt && fb.Info()&types.IsFloat != 0 && tb.Info()&types.IsInteger != 0 {
					narrowed = c.Pos(instrPos(cv))
				}
			}
		}
	}
	r.check(narrowed == "", "walker-number", c.Pos(walker.Pos()), "numbers are handed over as the float64 the decoder produced",
		"the JSON value walker converts a decoded number to an integer type ("+narrowed+"): the sign of zero is lost (`1/JSON.parse(\"-0\")` is +Infinity, ES5 15.12.2 with 9.3.1 gives -Infinity)")
	r.check(puts == "" && defines > 0, "walker-members", c.Pos(walker.Pos()), "object members are created with [[DefineOwnProperty]]",
		"the JSON value walker assigns object members with [[Put]] ("+puts+"): a setter or a read-only property of that name on Object.prototype swallows the member (`Object.defineProperty(Object.prototype, 'x', {set: f}); JSON.parse('{\"x\":1}').hasOwnProperty('x')` is false); ES5 15.12.2 creates them like an object literal does")
}

func describeValue(v ssa.Value) string {
	if call, ok := v.(*ssa.Call); ok {
		if cl := call.Call.StaticCallee(); cl != nil {
			if cl.Pkg != nil {
				return cl.Pkg.Pkg.Name() + "." + cl.Name()
			}
			return cl.Name()
		}
	}
	return fmt.Sprintf("a %T", v)
}

func ruleJSONStringify(c *Ctx, r *R) {
	top := jsonBuiltins(c)["stringify"]
	if top == nil {
		r.undecided("anchor", "-", "UNRESOLVED JSON.stringify")
		return
	}
	// functions involved: stringify and the walker(s) it calls that take the same context type
	var fns []*ssa.Function
	fns = append(fns, top)
	for _, b := range top.Blocks {
		for _, ins := range b.Instrs {
			if call, ok := ins.(*ssa.Call); ok {
				if cl := call.Call.StaticCallee(); cl != nil && cl.Pkg == top.Pkg && cl.Blocks != nil && cl.Signature.Recv() == nil {
					for _, p := range cl.Params {
						if n := derefNamed(p.Type()); n != nil && n.Obj().Name() == "builtinJSONStringifyContext" {
							fns = append(fns, cl)
						}
					}
				}
			}
		}
	}
	pushes, gaps := 0, 0
	for _, fn := range fns {
		for _, b := range fn.Blocks {
			for _, ins := range b.Instrs {
				st, ok := ins.(*ssa.Store)
				if !ok {
					continue
				}
				nt, f := fieldOfAddr(st.Addr)
				if nt == nil || nt.Obj().Name() != "builtinJSONStringifyContext" {
					continue
				}
				site := c.Pos(instrPos(ins))
				switch f.Name() {
				case "stack":
					call, isCall := st.Val.(*ssa.Call)
					if !isCall {
						continue // initial literal / reslice in the deferred pop
					}
					if bi, ok := call.Call.Value.(*ssa.Builtin); !ok || bi.Name() != "append" {
						continue
					}
					if fn.Parent() != nil {
						continue
					}
					pushes++
					// (i) deferred pop before anything can panic
					res := mustReachBefore(ins, func(i ssa.Instruction) bool {
						d, ok := i.(*ssa.Defer)
						if !ok {
							return false
						}
						cl := closureOf(&d.Call)
						if cl == nil {
							return false
						}
						for _, cb := range cl.Blocks {
							for _, ci := range cb.Instrs {
								if s2, ok := ci.(*ssa.Store); ok {
									if n2, f2 := fieldOfAddr(s2.Addr); n2 != nil && f2.Name() == "stack" {
										if _, isSlice := s2.Val.(*ssa.Slice); isSlice {
											return true
										}
									}
								}
							}
						}
						return false
					}, mayPanic)
					r.check(res.ok, "push-pop:"+ssaFuncName(fn), site, "push followed by a deferred pop before anything can panic",
						fmt.Sprintf("an object is pushed onto the cycle stack but a path reaches %s at %s before a deferred pop is registered: when toJSON, a getter or the replacer throws (or simply on some return path), the object stays on the stack and a later acyclic value is reported as circular", describeInstr(res.witness), c.Pos(instrPos(res.witness))))
					// (ii) dominated by the membership loop with TypeError
					r.check(cycleTestDominates(fn, st), "cycle-test:"+ssaFuncName(fn), site, "membership test over the stack (TypeError on a hit) dominates the push", "the push onto the cycle stack is not preceded by the membership loop that throws TypeError: a cyclic structure recurses until the Go stack overflows")
				case "propertyList":
					// ES5 15.12.3 step 4.b: an array replacer always yields a PropertyList, possibly empty (`JSON.stringify(o, [])`
					// is `{}`). Where the serialiser tells "no replacer array" from "an array" by a nil test, the list stored
					// for an array must not be nil: built with make or a literal, not grown by append from a nil slice
					nilTested := false
					for _, f2 := range fns {
						for _, b2 := range f2.Blocks {
							for _, i2 := range b2.Instrs {
								if bo, ok := i2.(*ssa.BinOp); ok && (bo.Op == token.EQL || bo.Op == token.NEQ) {
									for _, pair := range [][2]ssa.Value{{bo.X, bo.Y}, {bo.Y, bo.X}} {
										if k, ok := pair[1].(*ssa.Const); ok && k.IsNil() {
											if u, ok := pair[0].(*ssa.UnOp); ok {
												if n3, f3 := fieldOfAddr(u.X); n3 != nil && f3.Name() == "propertyList" {
													nilTested = true
												}
											}
										}
									}
								}
							}
						}
					}
					if nilTested {
						r.check(!mayBeNilSlice(st.Val, 0), "replacer-list-nonnil:"+ssaFuncName(fn), site, "the property list stored for an array replacer is made (never nil)",
							"the property list of an array replacer can be nil here (it is grown with append from a nil slice), and the serialiser takes a nil list for `no replacer array`: with an empty array, or one whose elements are all skipped, every property is serialised - JSON.stringify({a:1}, []) must be `{}` (ES5 15.12.3 step 4.b, JO step 5)")
					}
				case "gap":
					gaps++
					ok, how := gapBounded(fn, st)
					r.check(ok, "gap-bound:"+ssaFuncName(fn)+":"+how, site, how, "the gap (indentation) is stored without being limited to 10 characters / spaces (ES5 §15.12.3 steps 6-8): "+how)
				}
			}
		}
	}
	// ES5 §15.12.3 Str steps 2-3: toJSON is applied first, the replacer function sees its result
	for _, fn := range fns {
		if fn == top {
			continue
		}
		var toJSONGet, replCall ssa.Instruction
		for _, b := range fn.Blocks {
			for _, ins := range b.Instrs {
				call, ok := ins.(*ssa.Call)
				if !ok {
					continue
				}
				callee := call.Call.StaticCallee()
				if callee == nil {
					continue
				}
				if callee.Name() == "get" && len(call.Call.Args) == 2 {
					if k, ok := call.Call.Args[1].(*ssa.Const); ok {
						if str, isStr := constStringVal(k); isStr && str == "toJSON" {
							toJSONGet = call
						}
					}
				}
				if callee.Name() == "call" && len(call.Call.Args) > 0 {
					a := loadAddr(call.Call.Args[0])
					if a != nil {
						if inner := loadAddr(a); inner != nil {
							a = inner // the field holds a *Value
						}
					}
					if a != nil {
						if nt, f := fieldOfAddr(a); nt != nil && nt.Obj().Name() == "builtinJSONStringifyContext" && f.Name() == "replacerFunction" {
							replCall = call
						}
					} else if fld, ok := call.Call.Args[0].(*ssa.Field); ok {
						if st, ok := fld.X.Type().Underlying().(*types.Struct); ok && st.Field(fld.Field).Name() == "replacerFunction" {
							replCall = call
						}
					}
				}
			}
		}
		if toJSONGet == nil && replCall == nil {
			continue
		}
		if toJSONGet == nil || replCall == nil {
			r.undecided("str-order:"+ssaFuncName(fn), c.Pos(fn.Pos()), fmt.Sprintf("UNRESOLVED: toJSON lookup found=%v, replacer call found=%v in the stringify walker", toJSONGet != nil, replCall != nil))
			continue
		}
		// §15.12.3 Str step 3 (replacer) before step 4 (a Number / String / Boolean object is replaced by its primitive)
		var unbox ssa.Instruction
		for _, b := range fn.Blocks {
			for _, ins := range b.Instrs {
				bo, ok := ins.(*ssa.BinOp)
				if !ok || bo.Op != token.EQL {
					continue
				}
				k, ok := bo.Y.(*ssa.Const)
				if !ok {
					continue
				}
				str, isStr := constStringVal(k)
				if !isStr || (str != "Number" && str != "String" && str != "Boolean") {
					continue
				}
				if a := loadAddr(bo.X); a != nil && isFieldAddr(a, "object", "class") && unbox == nil {
					unbox = bo
				}
			}
		}
		if unbox == nil {
			r.undecided("unbox-order:"+ssaFuncName(fn), c.Pos(fn.Pos()), "UNRESOLVED: the stringify walker has no test of the value's class for Number / String / Boolean (Str step 4)")
		} else {
			r.check(!reachesInstr(unbox, replCall), "unbox-order:"+ssaFuncName(fn), c.Pos(instrPos(unbox)), "wrapper objects are unboxed after the replacer function has been called", "§15.12.3 Str steps 3-4: a Number / String / Boolean object is replaced by its primitive before the replacer function is called: the replacer is handed the primitive instead of the object, and a wrapper object the replacer returns is serialised as an object (`JSON.stringify({a:1}, function(k, v){ return k === 'a' ? new Number(5) : v })` gives {\"a\":{}} instead of {\"a\":5})")
		}
		r.check(!reachesInstr(replCall, toJSONGet), "str-order:"+ssaFuncName(fn), c.Pos(instrPos(replCall)), "toJSON is applied before the replacer function is called", "§15.12.3 Str steps 2-3: the replacer function is called before the value's toJSON method is looked up: the replacer sees the raw object instead of its toJSON result, and toJSON is then applied to whatever the replacer returned")
	}
	if pushes == 0 {
		r.undecided("push", c.Pos(top.Pos()), "no push onto the cycle stack found")
	}
	if gaps == 0 {
		r.undecided("gap", c.Pos(top.Pos()), "no store to the gap found")
	}
}

// cycleTestDominates: a range loop over the stack field, whose body compares two *object values and panics with TypeError
// on equality, has its header dominating the push.
func cycleTestDominates(fn *ssa.Function, push *ssa.Store) bool {
	// the library form: slices.Contains(<stack>, obj) on whose true side a TypeError is raised
	for _, b := range fn.Blocks {
		iff, ok := b.Instrs[len(b.Instrs)-1].(*ssa.If)
		if !ok {
			continue
		}
		call, ok := iff.Cond.(*ssa.Call)
		if !ok || call.Call.StaticCallee() == nil || len(call.Call.Args) != 2 {
			continue
		}
		lib := call.Call.StaticCallee()
		if o := lib.Origin(); o != nil {
			lib = o // the generic function an instantiation was made from
		}
		if lib.Pkg == nil || lib.Pkg.Pkg.Path() != "slices" || !strings.HasPrefix(lib.Name(), "Contains") {
			continue
		}
		if a := loadAddr(call.Call.Args[0]); a != nil {
			if _, f := fieldOfAddr(a); f == nil || f.Name() != "stack" {
				continue
			}
		} else if fl, ok := call.Call.Args[0].(*ssa.Field); !ok || fl.X.Type().Underlying().(*types.Struct).Field(fl.Field).Name() != "stack" {
			continue
		}
		if blockPanicsWith(b.Succs[0], "panicTypeError") && b.Dominates(push.Block()) {
			return true
		}
	}
	for _, b := range fn.Blocks {
		iff, ok := b.Instrs[len(b.Instrs)-1].(*ssa.If)
		if !ok {
			continue
		}
		bo, ok := iff.Cond.(*ssa.BinOp)
		if !ok || bo.Op != token.EQL || typeStr(bo.X.Type()) != "*object" {
			continue
		}
		if !blockPanicsWith(b.Succs[0], "panicTypeError") {
			continue
		}
		// enclosing range loop header over the stack
		for _, h := range fn.Blocks {
			if !isRangeHeader(h) || !h.Dominates(b) || !h.Dominates(push.Block()) {
				continue
			}
			if s := rangeLenOperand(h); s != nil {
				if a := loadAddr(s); a != nil {
					if _, f := fieldOfAddr(a); f != nil && f.Name() == "stack" {
						return true
					}
				}
			}
		}
	}
	return false
}

// derivesFromString: v is s itself, []rune(s), or utf16.Encode of such (a re-encoding of the same text).
func derivesFromString(v, s ssa.Value, d int) bool {
	if v == s {
		return true
	}
	if d > 3 {
		return false
	}
	switch y := v.(type) {
	case *ssa.Convert:
		return derivesFromString(y.X, s, d+1)
	case *ssa.Call:
		if cl := y.Call.StaticCallee(); cl != nil && cl.Pkg != nil && cl.Pkg.Pkg.Path() == "unicode/utf16" && cl.Name() == "Encode" {
			return derivesFromString(y.Call.Args[0], s, d+1)
		}
	}
	return false
}

func gapBounded(fn *ssa.Function, st *ssa.Store) (bool, string) {
	return gapValueBounded(fn, st.Val, st, 0)
}

// gapValueBounded: val (stored or returned at `at` in fn) is a text of at most 10 characters / code units.
func gapValueBounded(fn *ssa.Function, val ssa.Value, at ssa.Instruction, depth int) (bool, string) {
	if k, ok := val.(*ssa.Const); ok {
		if str, isStr := constStringVal(k); isStr && len(str) <= 10 {
			return true, "a constant of at most 10 characters"
		}
	}
	switch v := val.(type) {
	case *ssa.Convert:
		// string(utf16.Decode(units[0:k])) / string(runes[0:k]) with k <= 10
		inner := v.X
		if call, ok := inner.(*ssa.Call); ok {
			if cl := call.Call.StaticCallee(); cl != nil && cl.Pkg != nil && cl.Pkg.Pkg.Path() == "unicode/utf16" && cl.Name() == "Decode" {
				inner = call.Call.Args[0]
			}
		}
		if sl, ok := inner.(*ssa.Slice); ok {
			if k, isC := constInt(sl.High); isC && k <= 10 {
				return true, "built from at most 10 code units / characters"
			}
		}
	case *ssa.Slice:
		if bt, ok := v.X.Type().Underlying().(*types.Basic); ok && bt.Info()&types.IsString != 0 {
			return false, "the Go string is sliced at a byte offset: the limit of 15.12.3 step 7 is 10 characters (code units), so a non-ASCII space string is cut short or inside a character (`JSON.stringify([1], null, 'ääääääääääää')` indents with 5 characters)"
		}
		if k, isC := constInt(v.High); isC && k <= 10 {
			return true, "sliced to at most 10 characters"
		}
		return false, "sliced with a non-constant or larger bound"
	case *ssa.Call:
		if cl := v.Call.StaticCallee(); cl != nil && cl.Name() == "Repeat" && len(v.Call.Args) == 2 {
			n := v.Call.Args[1]
			if cv, ok := n.(*ssa.Convert); ok {
				n = cv.X
			}
			// min(max(x, 0), 10) / max(min(x, 10), 0) with the builtins
			if isClampBuiltin(n, 0) {
				return true, "space count clamped to 0..10 (min / max builtins)"
			}
			if phi, ok := n.(*ssa.Phi); ok {
				has10, has0 := false, false
				for _, e := range phi.Edges {
					if k, isC := constInt(e); isC {
						if k == 10 {
							has10 = true
						}
						if k == 0 {
							has0 = true
						}
					}
				}
				if has10 && has0 {
					return true, "space count clamped to 0..10"
				}
			}
			return false, "space count is not clamped to 0..10"
		}
	}
	// the unsliced string: must be under len(value) <= 10 (in code units, or in bytes - a code unit takes at least one
	// byte), written as `len > 10` on the other side or `len <= 10` on this one
	for _, b := range fn.Blocks {
		iff, ok := b.Instrs[len(b.Instrs)-1].(*ssa.If)
		if !ok {
			continue
		}
		bo, ok := iff.Cond.(*ssa.BinOp)
		if !ok {
			continue
		}
		k, isC := constInt(bo.Y)
		if !isC {
			continue
		}
		side := -1 // successor on which len <= 10 holds
		switch {
		case bo.Op == token.GTR && k == 10, bo.Op == token.GEQ && k == 11:
			side = 1
		case bo.Op == token.LEQ && k <= 10, bo.Op == token.LSS && k <= 11:
			side = 0
		}
		if side < 0 {
			continue
		}
		if call, ok := bo.X.(*ssa.Call); ok {
			if bi, ok := call.Call.Value.(*ssa.Builtin); ok && bi.Name() == "len" && derivesFromString(call.Call.Args[0], val, 0) {
				succ := b.Succs[side]
				if len(succ.Preds) == 1 && (succ.Dominates(at.Block()) || succ == at.Block()) {
					return true, "whole string, stored only when len <= 10"
				}
			}
		}
	}
	if call, ok := val.(*ssa.Call); ok && depth < 2 {
		// computed by a function of the module: every value it returns must be bounded
		if callee := call.Call.StaticCallee(); callee != nil && len(callee.Blocks) > 0 && callee.Pkg == fn.Pkg && callee.Signature.Results().Len() == 1 {
			n := 0
			for _, b := range callee.Blocks {
				if ret, ok := b.Instrs[len(b.Instrs)-1].(*ssa.Return); ok {
					n++
					if ok2, how := gapValueBounded(callee, ret.Results[0], ret, depth+1); !ok2 {
						return false, how + " (returned by " + callee.Name() + ")"
					}
				}
			}
			if n > 0 {
				return true, "every value returned by " + callee.Name() + " is bounded"
			}
		}
	}
	return false, "stored value has no visible bound"
}

// isClampBuiltin: v is min(max(x, 0), 10) or max(min(x, 10), 0) in any argument order.
func isClampBuiltin(v ssa.Value, depth int) bool {
	call, ok := v.(*ssa.Call)
	if !ok {
		return false
	}
	bi, ok := call.Call.Value.(*ssa.Builtin)
	if !ok || (bi.Name() != "min" && bi.Name() != "max") || len(call.Call.Args) != 2 {
		return false
	}
	wantConst, innerName, innerConst := int64(10), "max", int64(0)
	if bi.Name() == "max" {
		wantConst, innerName, innerConst = 0, "min", 10
	}
	for i := 0; i < 2; i++ {
		k, isK := constInt(call.Call.Args[i])
		if !isK || k != wantConst {
			continue
		}
		inner, ok := call.Call.Args[1-i].(*ssa.Call)
		if !ok {
			continue
		}
		ib, ok := inner.Call.Value.(*ssa.Builtin)
		if !ok || ib.Name() != innerName || len(inner.Call.Args) != 2 {
			continue
		}
		for j := 0; j < 2; j++ {
			if k2, isK2 := constInt(inner.Call.Args[j]); isK2 && k2 == innerConst {
				return true
			}
		}
	}
	return false
}

// mayBeNilSlice: the slice value can be the nil slice: a nil constant, an append to such, a merge that includes one.
func mayBeNilSlice(v ssa.Value, depth int) bool {
	if depth > 6 {
		return false
	}
	switch x := v.(type) {
	case *ssa.Const:
		return x.IsNil()
	case *ssa.Phi:
		for _, e := range x.Edges {
			if e != ssa.Value(x) && mayBeNilSlice(e, depth+1) {
				return true
			}
		}
	case *ssa.Call:
		if bi, ok := x.Call.Value.(*ssa.Builtin); ok && bi.Name() == "append" && len(x.Call.Args) > 0 {
			// append(nil) with nothing appended is nil; inside a loop the first operand is a merge with the initial value
			return mayBeNilSlice(x.Call.Args[0], depth+1)
		}
	case *ssa.Slice:
		return mayBeNilSlice(x.X, depth+1)
	case *ssa.UnOp:
		if al, ok := x.X.(*ssa.Alloc); ok && al.Referrers() != nil {
			for _, ref := range *al.Referrers() {
				if st, ok := ref.(*ssa.Store); ok && st.Addr == ssa.Value(al) && mayBeNilSlice(st.Val, depth+1) {
					return true
				}
			}
			// a declared slice variable that is never initialised starts as nil
			stored := false
			for _, ref := range *al.Referrers() {
				if st, ok := ref.(*ssa.Store); ok && st.Addr == ssa.Value(al) {
					stored = true
				}
			}
			return !stored
		}
	}
	return false
}
