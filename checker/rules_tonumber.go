package main

import (
	"errors"
	"fmt"
	"go/types"
	"regexp"
	"strconv"
	"strings"

	"golang.org/x/tools/go/ssa"
)

func init() {
	register(&Rule{ID: "SPEC-tonumber-string", Props: []string{"C05", "C06"}, Min: 1,
		Doc: "E (exhaustive abstract evaluation over a table of texts; ES5 9.3.1 ToNumber applied to the String type): the function of package otto that converts text to a Number - found by signature: func(string) float64 that calls strconv.ParseFloat - is run by the abstract interpreter on 60 texts: the empty and the white-space-only string (0), StrDecimalLiterals in every form with surrounding white space and line terminators (the result must be strconv.ParseFloat's answer for exactly the trimmed text - an integer parser is accepted for a decimal integer that is not a spelling of negative zero), `-0` (must stay a float: -0), Infinity with and without sign, hexadecimal in both spellings (the integer value), a decimal with a leading zero (`010` is 10, not 8), out-of-range exponents (ParseFloat's range error is not an error), and texts that are not StringNumericLiterals but that Go's parsers accept (`inf`, `nan`, `infinity`, `1_0`, `0x1p4`, `0b11`, `0o17`, `+0x10`) or that are simply malformed (NaN). The package's regular expressions are the real ones (compiled from the constant patterns), strconv and strings.Trim are the real library",
		Run: ruleSpecToNumberString})
}

// toNumberStringFunc: the function of package otto that converts text to a Number: func(string) float64 calling
// strconv.ParseFloat (nil when there is none or more than one).
func toNumberStringFunc(c *Ctx) *ssa.Function {
	// candidates: func(string) float64 from which strconv.ParseFloat is reached directly or through package functions
	// (two levels); the conversion is the candidate no other candidate calls (its helpers are candidates too when they
	// have the same signature)
	var reachesPF func(f *ssa.Function, d int) bool
	reachesPF = func(f *ssa.Function, d int) bool {
		for _, b := range f.Blocks {
			for _, ins := range b.Instrs {
				call, ok := ins.(*ssa.Call)
				if !ok {
					continue
				}
				cal := call.Call.StaticCallee()
				if cal == nil || cal.Pkg == nil {
					continue
				}
				if cal.Pkg.Pkg.Path() == "strconv" && cal.Name() == "ParseFloat" {
					return true
				}
				if d < 2 && cal.Pkg == f.Pkg && cal.Blocks != nil && cal != f && reachesPF(cal, d+1) {
					return true
				}
			}
		}
		return false
	}
	var cands []*ssa.Function
	for _, f := range c.AllSrcFuncs("") {
		if f.Parent() != nil || f.Signature.Recv() != nil || len(f.Params) != 1 || f.Signature.Results().Len() != 1 {
			continue
		}
		if typeStr(f.Params[0].Type()) != "string" || typeStr(f.Signature.Results().At(0).Type()) != "float64" {
			continue
		}
		if reachesPF(f, 0) {
			cands = append(cands, f)
		}
	}
	var roots []*ssa.Function
	for _, f := range cands {
		called := false
		for _, g := range cands {
			if g == f {
				continue
			}
			for _, b := range g.Blocks {
				for _, ins := range b.Instrs {
					if call, ok := ins.(*ssa.Call); ok && call.Call.StaticCallee() == f {
						called = true
					}
				}
			}
		}
		if !called {
			roots = append(roots, f)
		}
	}
	if len(roots) != 1 {
		return nil
	}
	return roots[0]
}

func ruleSpecToNumberString(c *Ctx, r *R) {
	fn := toNumberStringFunc(c)
	if fn == nil {
		r.undecided("anchor", "-", "UNRESOLVED: not exactly one func(string) float64 of package otto converts text through strconv.ParseFloat (ToNumber of a string)")
		return
	}
	errAtom := func(call *ssa.CallCommon, idx int, err error) aval {
		if err == nil {
			return aNil{}
		}
		kind := "syntax"
		if errors.Is(err, strconv.ErrRange) {
			kind = "range"
		}
		return aIface{dyn: call.Signature().Results().At(idx).Type(), v: aAtom{"strconv " + kind + " error"}}
	}
	str := func(v aval) (string, bool) { s, ok := v.(aStr); return string(s), ok }
	num := func(v aval) (int64, bool) { n, ok := v.(aInt); return int64(n), ok }
	hooks := map[string]absHook{
		"strings.Trim": func(in *absInterp, call *ssa.CallCommon, args []aval) (aval, bool) {
			a, ok1 := str(args[0])
			b, ok2 := str(args[1])
			if !ok1 || !ok2 {
				return nil, false
			}
			return aStr(strings.Trim(a, b)), true
		},
		"strings.TrimSpace": func(in *absInterp, call *ssa.CallCommon, args []aval) (aval, bool) {
			a, ok := str(args[0])
			return aStr(strings.TrimSpace(a)), ok
		},
		"regexp.(*Regexp).MatchString": func(in *absInterp, call *ssa.CallCommon, args []aval) (aval, bool) {
			a, ok := args[0].(aAtom)
			s, ok2 := str(args[1])
			if !ok || !ok2 || !strings.HasPrefix(a.name, "regexp:") {
				return nil, false
			}
			re, err := regexp.Compile(strings.TrimPrefix(a.name, "regexp:"))
			if err != nil {
				return nil, false
			}
			return aBool(re.MatchString(s)), true
		},
		"strconv.ParseInt": func(in *absInterp, call *ssa.CallCommon, args []aval) (aval, bool) {
			s, ok1 := str(args[0])
			base, ok2 := num(args[1])
			bits, ok3 := num(args[2])
			if !ok1 || !ok2 || !ok3 {
				return nil, false
			}
			n, err := strconv.ParseInt(s, int(base), int(bits))
			return aTuple{aInt(n), errAtom(call, 1, err)}, true
		},
		"strconv.Atoi": func(in *absInterp, call *ssa.CallCommon, args []aval) (aval, bool) {
			s, ok := str(args[0])
			if !ok {
				return nil, false
			}
			n, err := strconv.Atoi(s)
			return aTuple{aInt(int64(n)), errAtom(call, 1, err)}, true
		},
		"strconv.ParseFloat": func(in *absInterp, call *ssa.CallCommon, args []aval) (aval, bool) {
			s, ok := str(args[0])
			if !ok {
				return nil, false
			}
			_, err := strconv.ParseFloat(s, 64)
			return aTuple{aAtom{"ParseFloat(" + s + ")"}, errAtom(call, 1, err)}, true
		},
		"errors.Is": func(in *absInterp, call *ssa.CallCommon, args []aval) (aval, bool) {
			e, ok1 := args[0].(aIface)
			t, ok2 := args[1].(aIface)
			if !ok1 || !ok2 {
				return aBool(false), true
			}
			ea, _ := e.v.(aAtom)
			ta, _ := t.v.(aAtom)
			return aBool((ea.name == "strconv range error" && ta.name == "strconv.ErrRange") || (ea.name == "strconv syntax error" && ta.name == "strconv.ErrSyntax")), true
		},
		"math.NaN": func(in *absInterp, call *ssa.CallCommon, args []aval) (aval, bool) { return aNaN{}, true },
		"math.Inf": func(in *absInterp, call *ssa.CallCommon, args []aval) (aval, bool) {
			if n, ok := num(args[0]); ok && n < 0 {
				return aAtom{"-Inf"}, true
			}
			return aAtom{"+Inf"}, true
		},
	}
	in := newAbsInterp(hooks)
	in.intFloats = true
	if sp := c.Prog.ImportedPackage("strconv"); sp != nil {
		for _, name := range []string{"ErrRange", "ErrSyntax"} {
			if g, ok := sp.Members[name].(*ssa.Global); ok {
				in.globals[g] = &acell{v: aIface{dyn: g.Type(), v: aAtom{"strconv." + name}}, name: name}
			}
		}
	}
	// the package's regular expressions, by their constant patterns
	if op := c.SSAPkgs[ottoPath]; op != nil {
		for _, mem := range op.Members {
			g, ok := mem.(*ssa.Global)
			if !ok || g.Object() == nil {
				continue
			}
			pt, ok := g.Type().(*types.Pointer)
			if !ok || typeStr(pt.Elem()) != "*regexp.Regexp" {
				continue
			}
			if pat, ok := regexpVarPattern(c, g.Object()); ok {
				in.globals[g] = &acell{v: aAtom{"regexp:" + pat}, name: g.Name()}
			}
		}
	}
	type probe struct{ text, want string } // want: "0", "nan", "pf" (ParseFloat of the trimmed text), "int:<n>"
	ws := "\t \u00a0\ufeff\n\r\u2028\u2029\v\f"
	probes := []probe{
		{"", "0"}, {" ", "0"}, {ws, "0"}, {"\n", "0"},
		{"0", "pf"}, {"7", "pf"}, {"12", "pf"}, {" 12 ", "pf"}, {ws + "12" + ws, "pf"}, {"\n12\n", "pf"}, {"007", "pf"}, {"010", "pf"}, {"0777", "pf"}, {"08", "pf"},
		{"5.", "pf"}, {".5", "pf"}, {"5.5", "pf"}, {"5e3", "pf"}, {"5E3", "pf"}, {"5.e3", "pf"}, {".5e-3", "pf"}, {"5e+3", "pf"}, {"+1", "pf"}, {"-1", "pf"}, {"+.5", "pf"}, {"-5.", "pf"},
		{"-0", "pf"}, {"-00", "pf"}, {" -0 ", "pf"}, {"-0.0", "pf"}, {"+0", "pf"}, {"1e400", "pf"}, {"-1e400", "pf"}, {"1e-400", "pf"}, {"123456789012345678901234567890", "pf"}, {"9007199254740993", "pf"},
		{"Infinity", "pf"}, {"+Infinity", "pf"}, {"-Infinity", "pf"}, {" Infinity ", "pf"},
		{"0x1F", "int:31"}, {"0X1f", "int:31"}, {"0xaB", "int:171"}, {"0X0", "int:0"}, {" 0x10 ", "int:16"},
		{"inf", "nan"}, {"Inf", "nan"}, {"+inf", "nan"}, {"infinity", "nan"}, {"INFINITY", "nan"}, {"nan", "nan"}, {"NaN", "nan"}, {"1_0", "nan"}, {"0x1p4", "nan"}, {"0b11", "nan"}, {"0o17", "nan"}, {"+0x10", "nan"}, {"-0x10", "nan"},
		{"0x", "nan"}, {"0xG", "nan"}, {"1e", "nan"}, {"abc", "nan"}, {"12px", "nan"}, {"- 1", "nan"}, {"+-1", "nan"}, {"1,5", "nan"}, {"1 2", "nan"}, {".", "nan"}, {"e5", "nan"}, {"0x1.8", "nan"},
	}
	es5ws := "\t\n\v\f\r \u00a0\u1680\u180e\u2000\u2001\u2002\u2003\u2004\u2005\u2006\u2007\u2008\u2009\u200a\u2028\u2029\u202f\u205f\u3000\ufeff"
	n, bad, fail := 0, "", ""
	for _, p := range probes {
		n++
		ret, pan, f := absRun(in, fn, []aval{aStr(p.text)})
		if f != "" {
			fail = f
			continue
		}
		trimmed := strings.Trim(p.text, es5ws)
		how := ""
		switch {
		case pan != nil:
			how = "a Go panic (" + describeAval(pan) + ")"
		default:
			atom, isAtom := ret.(aAtom)
			ival, isInt := ret.(aInt)
			_, isNaN := ret.(aNaN)
			switch {
			case p.want == "0":
				if !(isInt && ival == 0) {
					how = describeToNumber(ret)
				}
			case p.want == "nan":
				if !isNaN {
					how = describeToNumber(ret)
				}
			case p.want == "pf":
				okPF := isAtom && atom.name == "ParseFloat("+trimmed+")"
				// an integer parser for a plain decimal integer that is not negative zero
				if isInt {
					if v, err := strconv.ParseFloat(trimmed, 64); err == nil && v == float64(int64(ival)) && !(ival == 0 && strings.Contains(trimmed, "-")) && float64(int64(v)) == v && v < 9007199254740992 && v > -9007199254740992 {
						okPF = true
					}
				}
				// an infinity written out
				if isAtom && (atom.name == "+Inf" || atom.name == "-Inf") {
					if v, _ := strconv.ParseFloat(trimmed, 64); (atom.name == "+Inf" && v > 1e308) || (atom.name == "-Inf" && v < -1e308) {
						okPF = true
					}
				}
				if !okPF {
					how = describeToNumber(ret)
				}
			case strings.HasPrefix(p.want, "int:"):
				var want int64
				fmt.Sscanf(p.want, "int:%d", &want)
				if !(isInt && int64(ival) == want) {
					how = describeToNumber(ret)
				}
			}
		}
		if how != "" && bad == "" {
			want := p.want
			switch {
			case p.want == "pf":
				v, _ := strconv.ParseFloat(trimmed, 64)
				want = strconv.FormatFloat(v, 'g', -1, 64) + " (the value of the StrDecimalLiteral " + strconv.Quote(trimmed) + ")"
				if strings.HasPrefix(trimmed, "-0") && v == 0 {
					want = "-0 (negative zero)"
				}
			case p.want == "nan":
				want = "NaN (not a StringNumericLiteral)"
			case strings.HasPrefix(p.want, "int:"):
				want = strings.TrimPrefix(p.want, "int:")
			}
			bad = fmt.Sprintf("Number(%s) gives %s; ES5 9.3.1 gives %s", strconv.QuoteToASCII(p.text), how, want)
		}
	}
	site := c.Pos(fn.Pos())
	switch {
	case fail != "":
		r.undecided("value", site, "UNDECIDED: the abstract evaluator does not model "+fail)
	case bad != "":
		r.bad("value", site, "deviates from the specification: "+bad)
	default:
		r.ok("value", site, fmt.Sprintf("%d texts agree with ES5 9.3.1", n))
	}
	r.note("texts", n)
}

func describeToNumber(v aval) string {
	switch x := v.(type) {
	case aNaN:
		return "NaN"
	case aInt:
		return fmt.Sprintf("the integer %d (no sign of zero, every digit kept)", int64(x))
	case aAtom:
		if strings.HasPrefix(x.name, "ParseFloat(") {
			s := strings.TrimSuffix(strings.TrimPrefix(x.name, "ParseFloat("), ")")
			if f, err := strconv.ParseFloat(s, 64); err == nil || errors.Is(err, strconv.ErrRange) {
				return fmt.Sprintf("strconv.ParseFloat(%s) = %s", strconv.QuoteToASCII(s), strconv.FormatFloat(f, 'g', -1, 64))
			}
			return fmt.Sprintf("strconv.ParseFloat(%s), an error", strconv.QuoteToASCII(s))
		}
		return x.name
	}
	return describeAval(v)
}
