package main

import (
	"fmt"
	"go/ast"
	"go/types"

	"golang.org/x/tools/go/ssa"
)

func init() {
	register(&Rule{ID: "TYPED-nil", Props: []string{"C02", "C04"}, Min: 1,
		Doc: "G (census): a possibly-nil pointer converted to an interface of the module (a stasher, a compiled node, an ast.Node, an error) yields a non-nil interface holding a nil pointer; every `x != nil` guard written against that interface then passes and the first method call dereferences nil - a host crash. Every conversion pointer -> interface in the core packages whose operand is the constant nil pointer, a phi with a nil edge, or the result of a function that can return nil must be justified (the operand is tested for nil on that path) or reviewed",
		Run: ruleTypedNil})
}

var typedNilReviewed = map[string]string{}

func ruleTypedNil(c *Ctx, r *R) {
	n := 0
	for _, suffix := range []string{"", "parser", "ast"} {
		for _, fn := range c.AllSrcFuncs(suffix) {
			ord := map[string]int{}
			for _, b := range fn.Blocks {
				for _, ins := range b.Instrs {
					mi, ok := ins.(*ssa.MakeInterface)
					if !ok {
						continue
					}
					if _, isPtr := mi.X.Type().Underlying().(*types.Pointer); !isPtr {
						continue
					}
					// only interfaces with methods (not interface{}): those get nil-tested and called
					it, ok := mi.Type().Underlying().(*types.Interface)
					if !ok || it.NumMethods() == 0 {
						continue
					}
					why := ""
					switch x := mi.X.(type) {
					case *ssa.Const:
						if x.Value == nil {
							why = "the constant nil pointer"
						}
					case *ssa.Phi:
						for _, e := range x.Edges {
							if isNilConst(e) {
								why = "a value that is nil on one incoming path"
							}
						}
					case *ssa.Call:
						if callee := x.Call.StaticCallee(); callee != nil && mayReturnNil(callee) {
							why = "the result of " + ssaFuncName(callee) + ", which can return nil"
						}
					}
					if why == "" {
						continue
					}
					n++
					base := fmt.Sprintf("%s:%s->%s", ssaFuncName(fn), typeStr(mi.X.Type()), typeStr(mi.Type()))
					ord[base]++
					key := fmt.Sprintf("%s#%d", base, ord[base])
					site := c.Pos(instrPos(mi))
					// justified: a dominating nil test of the operand whose non-nil side dominates the conversion
					if nonNilAt(fn, mi.X, mi) {
						r.ok(key, site, "the operand is tested non-nil on this path")
						continue
					}
					if rv, ok := typedNilReviewed[base]; ok {
						r.ok("reviewed:"+key, site, rv)
						continue
					}
					r.bad(key, site, fmt.Sprintf("%s converts %s to the interface %s: the result is a non-nil interface holding a nil pointer, which passes every `!= nil` guard and crashes on the first method call", ssaFuncName(fn), why, typeStr(mi.Type())))
				}
			}
		}
	}
	r.ok("census", "-", fmt.Sprintf("%d possibly-nil pointer to interface conversions examined", n))
}

// nonNilAt: some If on `v != nil` / `v == nil` dominates use on its non-nil side.
func nonNilAt(fn *ssa.Function, v ssa.Value, use ssa.Instruction) bool {
	for _, b := range fn.Blocks {
		iff, ok := b.Instrs[len(b.Instrs)-1].(*ssa.If)
		if !ok {
			continue
		}
		cmp, ok := iff.Cond.(*ssa.BinOp)
		if !ok {
			continue
		}
		var other ssa.Value
		if isNilConst(cmp.Y) {
			other = cmp.X
		} else if isNilConst(cmp.X) {
			other = cmp.Y
		}
		if other == nil || !sameSSA(other, v, 0) {
			continue
		}
		side := 0
		if cmp.Op.String() == "==" {
			side = 1
		}
		if s := b.Succs[side]; len(s.Preds) == 1 && s.Dominates(use.Block()) {
			return true
		}
	}
	return false
}

func init() {
	register(&Rule{ID: "NIL-funcfield", Props: []string{"C02"}, Min: 3,
		Doc: "G (contradiction rule): a function-typed field of a struct of package otto that some composite literal leaves unset (or sets to nil) is nil for the values built there; calling through that field panics with a nil dereference. Every call through such a field must be dominated by a nil test of the field (as object.construct does for nativeFunctionObject.construct before `new f`): a second caller without the test (a bound function's [[Construct]] forwarding to a native target) is a host crash a script reaches with `new (parseInt.bind())`",
		Run: ruleNilFuncField})
}

func ruleNilFuncField(c *Ctx, r *R) {
	p := c.Otto()
	info := p.TypesInfo
	// fields of function type that some literal leaves nil
	mayBeNil := map[*types.Var]string{}
	for _, f := range p.Syntax {
		ast.Inspect(f, func(n ast.Node) bool {
			cl, ok := n.(*ast.CompositeLit)
			if !ok {
				return true
			}
			nt := derefNamed(info.TypeOf(cl))
			if nt == nil || nt.Obj().Pkg() == nil || nt.Obj().Pkg().Path() != ottoPath {
				return true
			}
			st, ok := nt.Underlying().(*types.Struct)
			if !ok {
				return true
			}
			set := map[string]bool{}
			positional := false
			for i, el := range cl.Elts {
				if kv, ok := el.(*ast.KeyValueExpr); ok {
					if id, ok := kv.Key.(*ast.Ident); ok {
						if tv, ok := info.Types[kv.Value]; !ok || !tv.IsNil() {
							set[id.Name] = true
						}
					}
				} else {
					positional = true
					if i < st.NumFields() {
						if tv, ok := info.Types[el]; !ok || !tv.IsNil() {
							set[st.Field(i).Name()] = true
						}
					}
				}
			}
			_ = positional
			for i := 0; i < st.NumFields(); i++ {
				fld := st.Field(i)
				if _, isFunc := fld.Type().Underlying().(*types.Signature); !isFunc {
					continue
				}
				if !set[fld.Name()] {
					if _, seen := mayBeNil[fld]; !seen {
						mayBeNil[fld] = c.Pos(cl.Pos())
					}
				}
			}
			return true
		})
	}
	n := 0
	for _, fn := range c.AllSrcFuncs("") {
		ord := map[string]int{}
		for _, b := range fn.Blocks {
			for _, ins := range b.Instrs {
				ci, ok := ins.(ssa.CallInstruction)
				if !ok {
					continue
				}
				cc := ci.Common()
				if cc.IsInvoke() || cc.StaticCallee() != nil {
					continue
				}
				var fld *types.Var
				var owner *types.Named
				switch v := cc.Value.(type) {
				case *ssa.Field:
					if st, ok := v.X.Type().Underlying().(*types.Struct); ok {
						fld = st.Field(v.Field)
						owner, _ = v.X.Type().(*types.Named)
					}
				case *ssa.UnOp:
					if fa, ok := v.X.(*ssa.FieldAddr); ok {
						owner, fld = fieldOfAddr(fa)
					}
				}
				if fld == nil {
					continue
				}
				where, nilable := mayBeNil[fld]
				if !nilable {
					continue
				}
				n++
				oname := "?"
				if owner != nil {
					oname = owner.Obj().Name()
				}
				base := fmt.Sprintf("%s:%s.%s", ssaFuncName(fn), oname, fld.Name())
				ord[base]++
				key := fmt.Sprintf("%s#%d", base, ord[base])
				site := c.Pos(instrPos(ins))
				if nonNilAt(fn, cc.Value, ins) {
					r.ok(key, site, "the field is tested for nil before the call")
					continue
				}
				if why, ok := nilFuncFieldReviewed[base]; ok {
					r.ok("reviewed:"+key, site, why)
					continue
				}
				r.bad(key, site, fmt.Sprintf("%s calls through the function field %s.%s without a nil test, but the literal at %s leaves that field unset: for values built there the call is a nil dereference in the host", ssaFuncName(fn), oname, fld.Name(), where))
			}
		}
	}
	r.ok("census", "-", fmt.Sprintf("%d calls through possibly-nil function fields examined", n))
}

var nilFuncFieldReviewed = map[string]string{}

func init() {
	register(&Rule{ID: "CLONE-nil", Props: []string{"C17", "C02"}, Min: 5,
		Doc: "G (contradiction rule): (*cloner).object dereferences its argument (in.objectClass.clone). Most callers test the field they pass for nil first (out.prototype != nil ...); a caller that passes a pointer field which is only conditionally set - the arguments object of a function environment is not created when a parameter is named `arguments` - makes Otto.Copy() dereference nil. Every call passes a value that is tested non-nil on that path, an intrinsic of the `global` table (all assigned: SHAPE-order), a parameter of the clone function (the caller's obligation), or is reviewed",
		Run: ruleCloneNil})
}

func ruleCloneNil(c *Ctx, r *R) {
	var target *ssa.Function
	for _, fn := range c.AllSrcFuncs("") {
		if fn.Name() == "object" && fn.Signature.Recv() != nil && isClonerType(fn.Signature.Recv().Type()) {
			target = fn
		}
	}
	if target == nil {
		r.undecided("unresolved:cloner.object", "-", "UNRESOLVED: (*cloner).object not found")
		return
	}
	for _, fn := range c.AllSrcFuncs("") {
		ord := map[string]int{}
		for _, b := range fn.Blocks {
			for _, ins := range b.Instrs {
				call, ok := ins.(*ssa.Call)
				if !ok || call.Call.StaticCallee() != target || len(call.Call.Args) < 2 {
					continue
				}
				arg := call.Call.Args[1]
				desc := "?"
				okArg := false
				why := ""
				switch x := arg.(type) {
				case *ssa.Parameter:
					okArg, desc, why = true, "parameter "+x.Name(), "the clone function's own parameter: its caller's obligation"
				default:
					if a := loadAddr(arg); a != nil {
						if nt, f := fieldOfAddr(a); nt != nil {
							desc = nt.Obj().Name() + "." + f.Name()
							if nt.Obj().Name() == "global" {
								okArg, why = true, "intrinsic of the global table (every field assigned: SHAPE-order)"
							}
						}
					}
					if f, ok := arg.(*ssa.Field); ok {
						if st, ok := f.X.Type().Underlying().(*types.Struct); ok {
							desc = typeStr(f.X.Type()) + "." + st.Field(f.Field).Name()
						}
					}
					if ex, ok := arg.(*ssa.Extract); ok {
						desc = "tuple element"
						if ta, ok := ex.Tuple.(*ssa.TypeAssert); ok {
							desc = "(" + typeStr(ta.X.Type()) + ").(" + typeStr(ta.AssertedType) + ")"
						}
					}
				}
				base := fmt.Sprintf("%s:%s", ssaFuncName(fn), desc)
				ord[base]++
				key := fmt.Sprintf("%s#%d", base, ord[base])
				site := c.Pos(instrPos(call))
				if okArg {
					r.ok(key, site, why)
					continue
				}
				if nonNilAt(fn, arg, call) {
					r.ok(key, site, "tested non-nil on this path")
					continue
				}
				if rv, ok := cloneNilFieldReviewed[desc]; ok {
					r.ok("reviewed:"+key, site, rv)
					continue
				}
				r.bad(key, site, fmt.Sprintf("%s passes %s to (*cloner).object without a nil test, and (*cloner).object dereferences its argument: when that pointer is nil Otto.Copy() panics in the host", ssaFuncName(fn), desc))
			}
		}
	}
}

// cloneNilFieldReviewed: fields whose writers were read; the key is the struct field passed.
var cloneNilFieldReviewed = map[string]string{
	"runtime.globalObject":      "assigned unconditionally by newContext (global.go) before any script can run, and by (*runtime).clone itself; never reassigned",
	"runtime.eval":              "assigned unconditionally by newContext from the freshly built global object; never reassigned (GUARD-assert covers the assertion there)",
	"objectStash.object":        "both constructors ((*runtime).newObjectStash, (*objectStash).clone) store the object they were given; with-statements and the global stash pass a ToObject result, which is never nil",
	"bindFunctionObject.target": "both literals (newBoundFunctionObject, objectClone) set target; bind() throws a TypeError unless `this` is a function object before building one",
	"object.prototype":          "objectClone: `*out = *in` immediately precedes the test of out.prototype, so the tested pointer is in.prototype",
	"(interface{}).(*object)":   "a Value whose payload is a typed-nil *object is excluded by TYPED-nil (no nilable *object reaches objectValue)",
}
