package main

import (
	"fmt"
	"go/types"

	"golang.org/x/tools/go/ssa"
)

func init() {
	register(&Rule{ID: "TYPED-nil", Props: []string{"C02", "C04"}, Min: 1,
		Doc: "G (census): a possibly-nil pointer converted to an interface of the module (a stasher, a compiled node, an ast.Node, an error) yields a non-nil interface holding a nil pointer; every `x != nil` guard written against that interface then passes and the first method call dereferences nil - a host crash. Every conversion pointer -> interface in the core packages whose operand is the constant nil pointer, a phi with a nil edge, or the result of a function that can return nil must be justified (the operand is tested for nil on that path) or reviewed",
		Run: ruleTypedNil})
}

var typedNilReviewed = map[string]string{}

func ruleTypedNil(c *Ctx, r *R) {
	n := 0
	for _, suffix := range []string{"", "parser", "ast"} {
		for _, fn := range c.AllSrcFuncs(suffix) {
			ord := map[string]int{}
			for _, b := range fn.Blocks {
				for _, ins := range b.Instrs {
					mi, ok := ins.(*ssa.MakeInterface)
					if !ok {
						continue
					}
					if _, isPtr := mi.X.Type().Underlying().(*types.Pointer); !isPtr {
						continue
					}
					// only interfaces with methods (not interface{}): those get nil-tested and called
					it, ok := mi.Type().Underlying().(*types.Interface)
					if !ok || it.NumMethods() == 0 {
						continue
					}
					why := ""
					switch x := mi.X.(type) {
					case *ssa.Const:
						if x.Value == nil {
							why = "the constant nil pointer"
						}
					case *ssa.Phi:
						for _, e := range x.Edges {
							if isNilConst(e) {
								why = "a value that is nil on one incoming path"
							}
						}
					case *ssa.Call:
						if callee := x.Call.StaticCallee(); callee != nil && mayReturnNil(callee) {
							why = "the result of " + ssaFuncName(callee) + ", which can return nil"
						}
					}
					if why == "" {
						continue
					}
					n++
					base := fmt.Sprintf("%s:%s->%s", ssaFuncName(fn), typeStr(mi.X.Type()), typeStr(mi.Type()))
					ord[base]++
					key := fmt.Sprintf("%s#%d", base, ord[base])
					site := c.Pos(instrPos(mi))
					// justified: a dominating nil test of the operand whose non-nil side dominates the conversion
					if nonNilAt(fn, mi.X, mi) {
						r.ok(key, site, "the operand is tested non-nil on this path")
						continue
					}
					if rv, ok := typedNilReviewed[base]; ok {
						r.ok("reviewed:"+key, site, rv)
						continue
					}
					r.bad(key, site, fmt.Sprintf("%s converts %s to the interface %s: the result is a non-nil interface holding a nil pointer, which passes every `!= nil` guard and crashes on the first method call", ssaFuncName(fn), why, typeStr(mi.Type())))
				}
			}
		}
	}
	r.ok("census", "-", fmt.Sprintf("%d possibly-nil pointer to interface conversions examined", n))
}

// nonNilAt: some If on `v != nil` / `v == nil` dominates use on its non-nil side.
func nonNilAt(fn *ssa.Function, v ssa.Value, use ssa.Instruction) bool {
	for _, b := range fn.Blocks {
		iff, ok := b.Instrs[len(b.Instrs)-1].(*ssa.If)
		if !ok {
			continue
		}
		cmp, ok := iff.Cond.(*ssa.BinOp)
		if !ok {
			continue
		}
		var other ssa.Value
		if isNilConst(cmp.Y) {
			other = cmp.X
		} else if isNilConst(cmp.X) {
			other = cmp.Y
		}
		if other == nil || !sameSSA(other, v, 0) {
			continue
		}
		side := 0
		if cmp.Op.String() == "==" {
			side = 1
		}
		if s := b.Succs[side]; len(s.Preds) == 1 && s.Dominates(use.Block()) {
			return true
		}
	}
	return false
}
