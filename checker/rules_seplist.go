package main

import (
	"fmt"
	"go/constant"
	"go/token"
	"go/types"

	"golang.org/x/tools/go/ssa"
)

func init() {
	register(&Rule{ID: "SEP-list", Props: []string{"C04"}, Min: 5,
		Doc: "P (path search with the current token as state): in the parser, between two elements appended to a comma-separated list (a slice of ast.Expression, ast.Property or *ast.Identifier: array elements, object properties, arguments, parameters, declarations, the comma operator) every path passes a comma: either the edge on which p.token was compared equal to token.COMMA, or a call expect(token.COMMA). The search starts after each append, follows the control flow, decides comparisons of p.token with a constant when the token is known from an earlier comparison (so `if p.token != CLOSE { expect(COMMA) }` followed by the loop test on CLOSE leaves the loop), forgets the token at every call, and reports a path that reaches an append of an element again. Otherwise `{a: 1 b: 2}` parses",
		Run: ruleSepList})
}

func ruleSepList(c *Ctx, r *R) {
	tokPkg := c.Pkg("token")
	if tokPkg == nil {
		r.undecided("token", "-", "UNRESOLVED package token")
		return
	}
	cobj, _ := tokPkg.Types.Scope().Lookup("COMMA").(*types.Const)
	if cobj == nil {
		r.undecided("token.COMMA", "-", "UNRESOLVED token.COMMA")
		return
	}
	comma, _ := constant.Int64Val(cobj.Val())
	tokName := func(v int64) string {
		for _, n := range tokPkg.Types.Scope().Names() {
			if k, ok := tokPkg.Types.Scope().Lookup(n).(*types.Const); ok && typeIs(k.Type(), ottoPath+"/token", "Token") {
				if x, ok := constant.Int64Val(k.Val()); ok && x == v {
					return n
				}
			}
		}
		return fmt.Sprint(v)
	}
	isListElem := func(t types.Type) bool {
		sl, ok := t.Underlying().(*types.Slice)
		if !ok {
			return false
		}
		e := sl.Elem()
		if typeIs(e, ottoPath+"/ast", "Expression") || typeIs(e, ottoPath+"/ast", "Property") {
			return true
		}
		if p, ok := e.(*types.Pointer); ok && typeIs(p.Elem(), ottoPath+"/ast", "Identifier") {
			return true
		}
		return false
	}
	// the comparison `p.token OP const` of an If: returns the constant, the operator and the index of the load
	tokenCmp := func(b *ssa.BasicBlock) (k int64, op token.Token, loadIdx int, ok bool) {
		iff, isIf := b.Instrs[len(b.Instrs)-1].(*ssa.If)
		if !isIf {
			return
		}
		bo, isBo := iff.Cond.(*ssa.BinOp)
		if !isBo || (bo.Op != token.EQL && bo.Op != token.NEQ) {
			return
		}
		a := loadAddr(bo.X)
		if a == nil || !isFieldAddr(a, "parser", "token") {
			return
		}
		kv, isK := constInt(bo.Y)
		if !isK {
			return
		}
		loadIdx = -1
		for i, ins := range b.Instrs {
			if v, isV := ins.(ssa.Value); isV && v == bo.X {
				loadIdx = i
			}
		}
		return kv, bo.Op, loadIdx, true
	}
	isRealCall := func(ins ssa.Instruction) (*ssa.Call, bool) {
		call, ok := ins.(*ssa.Call)
		if !ok {
			return nil, false
		}
		if _, isB := call.Call.Value.(*ssa.Builtin); isB {
			return nil, false
		}
		return call, true
	}
	expectsComma := func(call *ssa.Call) bool {
		callee := call.Call.StaticCallee()
		if callee == nil || callee.Name() != "expect" {
			return false
		}
		for _, a := range call.Call.Args {
			if k, ok := constInt(a); ok && k == comma && typeIs(a.Type(), ottoPath+"/token", "Token") {
				return true
			}
		}
		return false
	}
	nLists := 0
	for _, fn := range c.AllSrcFuncs("parser") {
		// element appends
		type elem struct {
			b   *ssa.BasicBlock
			idx int
			ins ssa.Instruction
		}
		var elems []elem
		isElemBlock := map[*ssa.BasicBlock]bool{}
		for _, b := range fn.Blocks {
			for i, ins := range b.Instrs {
				call, ok := ins.(*ssa.Call)
				if !ok {
					continue
				}
				if bi, ok := call.Call.Value.(*ssa.Builtin); ok && bi.Name() == "append" && isListElem(call.Type()) {
					elems = append(elems, elem{b, i, ins})
					isElemBlock[b] = true
				}
			}
		}
		if len(elems) == 0 {
			continue
		}
		// a block reached only over comma edges holds an element that follows its separator
		cutEdge := func(from, to *ssa.BasicBlock) bool {
			k, op, _, ok := tokenCmp(from)
			if !ok || k != comma {
				return false
			}
			if op == token.EQL {
				return from.Succs[0] == to
			}
			return from.Succs[1] == to
		}
		ord := 0
		for _, e := range elems {
			// only lists: the append sits in a cycle
			inCycle := false
			{
				seen := map[*ssa.BasicBlock]bool{}
				var dfs func(b *ssa.BasicBlock)
				dfs = func(b *ssa.BasicBlock) {
					for _, s := range b.Succs {
						if s == e.b {
							inCycle = true
						}
						if !seen[s] {
							seen[s] = true
							dfs(s)
						}
					}
				}
				dfs(e.b)
			}
			if !inCycle {
				continue
			}
			ord++
			nLists++
			key := fmt.Sprintf("%s:append#%d", ssaFuncName(fn), ord)
			site := c.Pos(instrPos(e.ins))
			type state struct {
				b     *ssa.BasicBlock
				known int64
			}
			seen := map[state]bool{}
			var badPath []string
			var walk func(b *ssa.BasicBlock, from int, known int64, path []string) bool
			walk = func(b *ssa.BasicBlock, from int, known int64, path []string) bool {
				if from == 0 {
					st := state{b, known}
					if seen[st] {
						return false
					}
					seen[st] = true
				}
				path = append(path, fmt.Sprintf("%d(%s)", b.Index, b.Comment))
				callAfter := -1
				for i := from; i < len(b.Instrs); i++ {
					ins := b.Instrs[i]
					if call, ok := isRealCall(ins); ok {
						if expectsComma(call) {
							return false // separator demanded
						}
						known = -1
						callAfter = i
					}
					if cl, ok := ins.(*ssa.Call); ok {
						if bi, ok := cl.Call.Value.(*ssa.Builtin); ok && bi.Name() == "append" && isListElem(cl.Type()) {
							badPath = append([]string{}, path...)
							return true
						}
					}
				}
				k, op, loadIdx, isCmp := tokenCmp(b)
				if isCmp && loadIdx > callAfter {
					eqSucc, neSucc := b.Succs[0], b.Succs[1]
					if op == token.NEQ {
						eqSucc, neSucc = b.Succs[1], b.Succs[0]
					}
					if known >= 0 {
						if known == k {
							if k == comma {
								return false
							}
							return walk(eqSucc, 0, known, path)
						}
						return walk(neSucc, 0, known, path)
					}
					// unknown token: the equal side learns it; the comma side is a separator
					if k != comma {
						if walk(eqSucc, 0, k, path) {
							return true
						}
					}
					return walk(neSucc, 0, -1, path)
				}
				for _, s := range b.Succs {
					if cutEdge(b, s) {
						continue
					}
					if walk(s, 0, known, path) {
						return true
					}
				}
				return false
			}
			// an elision: the block is entered only over comma edges and builds its element without parsing
			// anything - the element is the comma itself, and what follows it needs no further separator
			elision := false
			for d := e.b; d != nil; d = d.Idom() {
				all := len(d.Preds) > 0
				for _, p := range d.Preds {
					if !cutEdge(p, d) {
						all = false
					}
				}
				if all {
					elision = true
					break
				}
			}
			if elision {
				elision = false
				if elemsV, known := variadicElems(e.ins.(*ssa.Call).Call.Args[1]); known && len(elemsV) == 1 {
					v := elemsV[0]
					for {
						if mi, ok := v.(*ssa.MakeInterface); ok {
							v = mi.X
							continue
						}
						break
					}
					if al, ok := v.(*ssa.Alloc); ok && al.Heap {
						elision = true // a node built in place, not the result of parsing anything
					}
				}
			}
			if elision {
				r.ok(key, site, "elision: this element is built, without parsing anything, on the edge where p.token == COMMA - it stands for the comma itself")
				continue
			}
			if walk(e.b, e.idx+1, -1, nil) {
				r.bad(key, site, fmt.Sprintf("%s: after this element the parser can reach the next element of the list without having seen a comma (blocks %v): two elements with nothing between them are accepted, e.g. `{a: 1 b: 2}` (ES5 11.1.4, 11.1.5, 11.2, 12.2, 13 all separate list elements with `,`; token.COMMA = %s)", ssaFuncName(fn), badPath, tokName(comma)))
			} else {
				r.ok(key, site, "every path from this element to the next one passes `p.token == COMMA` or expect(COMMA), or leaves the loop")
			}
		}
	}
	r.note("lists", nLists)
}

func init() {
	register(&Rule{ID: "SEP-trailing", Props: []string{"C04"}, Min: 2,
		Doc: "P (path search with the current token as state, positive and negative knowledge): in a comma-separated list that is closed by a right parenthesis (the function appends ast.Expression / *ast.Identifier elements in a loop and calls expect(RIGHT_PARENTHESIS): Arguments, FormalParameterList), a comma that has been consumed is followed by another element: no path leads from the comma edge to the closing expect without passing an element append or an error report. ES5 11.2 / 13 have no trailing comma there - `f(a,)` and `function f(a,){}` are syntax errors (array and object literals, where 11.1.4 / 11.1.5 allow it, close with other tokens and are not examined)",
		Run: ruleSepTrailing})
}

func ruleSepTrailing(c *Ctx, r *R) {
	tokPkg := c.Pkg("token")
	if tokPkg == nil {
		r.undecided("token", "-", "UNRESOLVED package token")
		return
	}
	tokVal := func(name string) int64 {
		if k, ok := tokPkg.Types.Scope().Lookup(name).(*types.Const); ok {
			v, _ := constant.Int64Val(k.Val())
			return v
		}
		return -1
	}
	comma, closer := tokVal("COMMA"), tokVal("RIGHT_PARENTHESIS")
	if comma < 0 || closer < 0 {
		r.undecided("tokens", "-", "UNRESOLVED token.COMMA / token.RIGHT_PARENTHESIS")
		return
	}
	isListElem := func(t types.Type) bool {
		sl, ok := t.Underlying().(*types.Slice)
		if !ok {
			return false
		}
		e := sl.Elem()
		if typeIs(e, ottoPath+"/ast", "Expression") {
			return true
		}
		if p, ok := e.(*types.Pointer); ok && typeIs(p.Elem(), ottoPath+"/ast", "Identifier") {
			return true
		}
		return false
	}
	tokenCmp := func(b *ssa.BasicBlock) (k int64, op token.Token, loadIdx int, ok bool) {
		iff, isIf := b.Instrs[len(b.Instrs)-1].(*ssa.If)
		if !isIf {
			return
		}
		bo, isBo := iff.Cond.(*ssa.BinOp)
		if !isBo || (bo.Op != token.EQL && bo.Op != token.NEQ) {
			return
		}
		a := loadAddr(bo.X)
		if a == nil || !isFieldAddr(a, "parser", "token") {
			return
		}
		kv, isK := constInt(bo.Y)
		if !isK {
			return
		}
		loadIdx = -1
		for i, ins := range b.Instrs {
			if v, isV := ins.(ssa.Value); isV && v == bo.X {
				loadIdx = i
			}
		}
		return kv, bo.Op, loadIdx, true
	}
	expects := func(ins ssa.Instruction, tok int64) bool {
		call, ok := ins.(*ssa.Call)
		if !ok {
			return false
		}
		callee := call.Call.StaticCallee()
		if callee == nil || callee.Name() != "expect" {
			return false
		}
		for _, a := range call.Call.Args {
			if k, ok := constInt(a); ok && k == tok && typeIs(a.Type(), ottoPath+"/token", "Token") {
				return true
			}
		}
		return false
	}
	isError := func(ins ssa.Instruction) bool {
		call, ok := ins.(*ssa.Call)
		if !ok || call.Call.StaticCallee() == nil {
			return false
		}
		switch call.Call.StaticCallee().Name() {
		case "error", "errorUnexpected", "errorUnexpectedToken":
			return true
		}
		return false
	}
	n := 0
	for _, fn := range c.AllSrcFuncs("parser") {
		hasElem, hasCloser := false, false
		for _, b := range fn.Blocks {
			for _, ins := range b.Instrs {
				if call, ok := ins.(*ssa.Call); ok {
					if bi, ok := call.Call.Value.(*ssa.Builtin); ok && bi.Name() == "append" && isListElem(call.Type()) {
						hasElem = true
					}
				}
				if expects(ins, closer) {
					hasCloser = true
				}
			}
		}
		if !hasElem || !hasCloser {
			continue
		}
		// comma edges
		type state struct {
			b          *ssa.BasicBlock
			known, not int64
		}
		ord := 0
		type startPt struct {
			b    *ssa.BasicBlock
			from int
			at   ssa.Instruction
		}
		var starts []startPt
		for _, cb := range fn.Blocks {
			if k, op, _, ok := tokenCmp(cb); ok && k == comma {
				st := cb.Succs[0]
				if op == token.NEQ {
					st = cb.Succs[1]
				}
				starts = append(starts, startPt{st, 0, cb.Instrs[len(cb.Instrs)-1]})
			}
			for i, ins := range cb.Instrs {
				if expects(ins, comma) {
					starts = append(starts, startPt{cb, i + 1, ins})
				}
			}
		}
		for _, sp := range starts {
			n++
			ord++
			key := fmt.Sprintf("%s:comma#%d", ssaFuncName(fn), ord)
			seen := map[state]bool{}
			var witness string
			var walk func(b *ssa.BasicBlock, from int, known, not int64) bool
			walk = func(b *ssa.BasicBlock, from int, known, not int64) bool {
				if from == 0 {
					st := state{b, known, not}
					if seen[st] {
						return false
					}
					seen[st] = true
				}
				callAfter := -1
				for i := from; i < len(b.Instrs); i++ {
					ins := b.Instrs[i]
					if isError(ins) {
						return false
					}
					if expects(ins, closer) {
						if (known >= 0 && known != closer) || not == closer {
							return false // the token is known not to be the closer: expect reports the error
						}
						witness = c.Pos(instrPos(ins))
						return true
					}
					if call, ok := ins.(*ssa.Call); ok {
						if bi, isB := call.Call.Value.(*ssa.Builtin); isB {
							if bi.Name() == "append" && isListElem(call.Type()) {
								return false // an element follows the comma
							}
							continue
						}
						if cal := call.Call.StaticCallee(); cal != nil && cal.Name() == "expect" {
							return false // a token is demanded (an element's first token, or an error is reported)
						}
						if cal := call.Call.StaticCallee(); cal != nil && cal.Name() != "next" && cal.Signature.Results().Len() > 0 && cal.Signature.Recv() != nil && typeStr(cal.Signature.Recv().Type()) == "*parser" {
							return false // something is parsed: an element (or what stands for one)
						}
						if cal := call.Call.StaticCallee(); cal != nil && cal.Name() == "next" {
							known, not = -1, -1
							callAfter = i
						}
					}
					if _, isRet := ins.(*ssa.Return); isRet {
						return false
					}
				}
				k, op, loadIdx, isCmp := tokenCmp(b)
				if isCmp && loadIdx > callAfter {
					eqSucc, neSucc := b.Succs[0], b.Succs[1]
					if op == token.NEQ {
						eqSucc, neSucc = b.Succs[1], b.Succs[0]
					}
					switch {
					case known >= 0 && known == k:
						return walk(eqSucc, 0, known, -1)
					case known >= 0:
						return walk(neSucc, 0, known, -1)
					case not == k:
						return walk(neSucc, 0, -1, not)
					}
					if walk(eqSucc, 0, k, -1) {
						return true
					}
					return walk(neSucc, 0, -1, k)
				}
				for _, s := range b.Succs {
					if walk(s, 0, known, not) {
						return true
					}
				}
				return false
			}
			// on the comma edge the token is the comma until next() is called; after expect(COMMA) it is unknown
			known := comma
			if sp.from > 0 {
				known = -1
			}
			bad := walk(sp.b, sp.from, known, -1)
			r.check(!bad, key, c.Pos(instrPos(sp.at)), "after a consumed comma an element or an error follows before the closing parenthesis is accepted",
				fmt.Sprintf("%s: after a comma has been consumed the parser can reach expect(RIGHT_PARENTHESIS) at %s without parsing another element and without reporting an error: a trailing comma is accepted - `f(a,)` / `function f(a,){}` parse, ES5 11.2 and 13 have no such production", ssaFuncName(fn), witness))
		}
	}
	r.note("comma_edges", n)
}
