package main

import (
	"fmt"
	"go/constant"
	"go/token"
	"go/types"

	"golang.org/x/tools/go/ssa"
)

func init() {
	register(&Rule{ID: "SEP-list", Props: []string{"C04"}, Min: 5,
		Doc: "P (path search with the current token as state): in the parser, between two elements appended to a comma-separated list (a slice of ast.Expression, ast.Property or *ast.Identifier: array elements, object properties, arguments, parameters, declarations, the comma operator) every path passes a comma: either the edge on which p.token was compared equal to token.COMMA, or a call expect(token.COMMA). The search starts after each append, follows the control flow, decides comparisons of p.token with a constant when the token is known from an earlier comparison (so `if p.token != CLOSE { expect(COMMA) }` followed by the loop test on CLOSE leaves the loop), forgets the token at every call, and reports a path that reaches an append of an element again. Otherwise `{a: 1 b: 2}` parses",
		Run: ruleSepList})
}

func ruleSepList(c *Ctx, r *R) {
	tokPkg := c.Pkg("token")
	if tokPkg == nil {
		r.undecided("token", "-", "UNRESOLVED package token")
		return
	}
	cobj, _ := tokPkg.Types.Scope().Lookup("COMMA").(*types.Const)
	if cobj == nil {
		r.undecided("token.COMMA", "-", "UNRESOLVED token.COMMA")
		return
	}
	comma, _ := constant.Int64Val(cobj.Val())
	tokName := func(v int64) string {
		for _, n := range tokPkg.Types.Scope().Names() {
			if k, ok := tokPkg.Types.Scope().Lookup(n).(*types.Const); ok && typeIs(k.Type(), ottoPath+"/token", "Token") {
				if x, ok := constant.Int64Val(k.Val()); ok && x == v {
					return n
				}
			}
		}
		return fmt.Sprint(v)
	}
	isListElem := func(t types.Type) bool {
		sl, ok := t.Underlying().(*types.Slice)
		if !ok {
			return false
		}
		e := sl.Elem()
		if typeIs(e, ottoPath+"/ast", "Expression") || typeIs(e, ottoPath+"/ast", "Property") {
			return true
		}
		if p, ok := e.(*types.Pointer); ok && typeIs(p.Elem(), ottoPath+"/ast", "Identifier") {
			return true
		}
		return false
	}
	// the comparison `p.token OP const` of an If: returns the constant, the operator and the index of the load
	tokenCmp := func(b *ssa.BasicBlock) (k int64, op token.Token, loadIdx int, ok bool) {
		iff, isIf := b.Instrs[len(b.Instrs)-1].(*ssa.If)
		if !isIf {
			return
		}
		bo, isBo := iff.Cond.(*ssa.BinOp)
		if !isBo || (bo.Op != token.EQL && bo.Op != token.NEQ) {
			return
		}
		a := loadAddr(bo.X)
		if a == nil || !isFieldAddr(a, "parser", "token") {
			return
		}
		kv, isK := constInt(bo.Y)
		if !isK {
			return
		}
		loadIdx = -1
		for i, ins := range b.Instrs {
			if v, isV := ins.(ssa.Value); isV && v == bo.X {
				loadIdx = i
			}
		}
		return kv, bo.Op, loadIdx, true
	}
	isRealCall := func(ins ssa.Instruction) (*ssa.Call, bool) {
		call, ok := ins.(*ssa.Call)
		if !ok {
			return nil, false
		}
		if _, isB := call.Call.Value.(*ssa.Builtin); isB {
			return nil, false
		}
		return call, true
	}
	expectsComma := func(call *ssa.Call) bool {
		callee := call.Call.StaticCallee()
		if callee == nil || callee.Name() != "expect" {
			return false
		}
		for _, a := range call.Call.Args {
			if k, ok := constInt(a); ok && k == comma && typeIs(a.Type(), ottoPath+"/token", "Token") {
				return true
			}
		}
		return false
	}
	nLists := 0
	for _, fn := range c.AllSrcFuncs("parser") {
		// element appends
		type elem struct {
			b   *ssa.BasicBlock
			idx int
			ins ssa.Instruction
		}
		var elems []elem
		isElemBlock := map[*ssa.BasicBlock]bool{}
		for _, b := range fn.Blocks {
			for i, ins := range b.Instrs {
				call, ok := ins.(*ssa.Call)
				if !ok {
					continue
				}
				if bi, ok := call.Call.Value.(*ssa.Builtin); ok && bi.Name() == "append" && isListElem(call.Type()) {
					elems = append(elems, elem{b, i, ins})
					isElemBlock[b] = true
				}
			}
		}
		if len(elems) == 0 {
			continue
		}
		// a block reached only over comma edges holds an element that follows its separator
		cutEdge := func(from, to *ssa.BasicBlock) bool {
			k, op, _, ok := tokenCmp(from)
			if !ok || k != comma {
				return false
			}
			if op == token.EQL {
				return from.Succs[0] == to
			}
			return from.Succs[1] == to
		}
		ord := 0
		for _, e := range elems {
			// only lists: the append sits in a cycle
			inCycle := false
			{
				seen := map[*ssa.BasicBlock]bool{}
				var dfs func(b *ssa.BasicBlock)
				dfs = func(b *ssa.BasicBlock) {
					for _, s := range b.Succs {
						if s == e.b {
							inCycle = true
						}
						if !seen[s] {
							seen[s] = true
							dfs(s)
						}
					}
				}
				dfs(e.b)
			}
			if !inCycle {
				continue
			}
			ord++
			nLists++
			key := fmt.Sprintf("%s:append#%d", ssaFuncName(fn), ord)
			site := c.Pos(instrPos(e.ins))
			type state struct {
				b     *ssa.BasicBlock
				known int64
			}
			seen := map[state]bool{}
			var badPath []string
			var walk func(b *ssa.BasicBlock, from int, known int64, path []string) bool
			walk = func(b *ssa.BasicBlock, from int, known int64, path []string) bool {
				if from == 0 {
					st := state{b, known}
					if seen[st] {
						return false
					}
					seen[st] = true
				}
				path = append(path, fmt.Sprintf("%d(%s)", b.Index, b.Comment))
				callAfter := -1
				for i := from; i < len(b.Instrs); i++ {
					ins := b.Instrs[i]
					if call, ok := isRealCall(ins); ok {
						if expectsComma(call) {
							return false // separator demanded
						}
						known = -1
						callAfter = i
					}
					if cl, ok := ins.(*ssa.Call); ok {
						if bi, ok := cl.Call.Value.(*ssa.Builtin); ok && bi.Name() == "append" && isListElem(cl.Type()) {
							badPath = append([]string{}, path...)
							return true
						}
					}
				}
				k, op, loadIdx, isCmp := tokenCmp(b)
				if isCmp && loadIdx > callAfter {
					eqSucc, neSucc := b.Succs[0], b.Succs[1]
					if op == token.NEQ {
						eqSucc, neSucc = b.Succs[1], b.Succs[0]
					}
					if known >= 0 {
						if known == k {
							if k == comma {
								return false
							}
							return walk(eqSucc, 0, known, path)
						}
						return walk(neSucc, 0, known, path)
					}
					// unknown token: the equal side learns it; the comma side is a separator
					if k != comma {
						if walk(eqSucc, 0, k, path) {
							return true
						}
					}
					return walk(neSucc, 0, -1, path)
				}
				for _, s := range b.Succs {
					if cutEdge(b, s) {
						continue
					}
					if walk(s, 0, known, path) {
						return true
					}
				}
				return false
			}
			// an elision: the block is entered only over comma edges and builds its element without parsing
			// anything - the element is the comma itself, and what follows it needs no further separator
			elision := false
			for d := e.b; d != nil; d = d.Idom() {
				all := len(d.Preds) > 0
				for _, p := range d.Preds {
					if !cutEdge(p, d) {
						all = false
					}
				}
				if all {
					elision = true
					break
				}
			}
			if elision {
				elision = false
				if elemsV, known := variadicElems(e.ins.(*ssa.Call).Call.Args[1]); known && len(elemsV) == 1 {
					v := elemsV[0]
					for {
						if mi, ok := v.(*ssa.MakeInterface); ok {
							v = mi.X
							continue
						}
						break
					}
					if al, ok := v.(*ssa.Alloc); ok && al.Heap {
						elision = true // a node built in place, not the result of parsing anything
					}
				}
			}
			if elision {
				r.ok(key, site, "elision: this element is built, without parsing anything, on the edge where p.token == COMMA - it stands for the comma itself")
				continue
			}
			if walk(e.b, e.idx+1, -1, nil) {
				r.bad(key, site, fmt.Sprintf("%s: after this element the parser can reach the next element of the list without having seen a comma (blocks %v): two elements with nothing between them are accepted, e.g. `{a: 1 b: 2}` (ES5 11.1.4, 11.1.5, 11.2, 12.2, 13 all separate list elements with `,`; token.COMMA = %s)", ssaFuncName(fn), badPath, tokName(comma)))
			} else {
				r.ok(key, site, "every path from this element to the next one passes `p.token == COMMA` or expect(COMMA), or leaves the loop")
			}
		}
	}
	r.note("lists", nLists)
}
