package main

import (
	"fmt"
	"go/token"

	"golang.org/x/tools/go/ssa"
)

func init() {
	register(&Rule{ID: "ITER-proptable", Props: []string{"C07", "C01"}, Min: 2,
		Doc: "P/O (ES5 §12.6.4: a property deleted before it is visited is not visited, every other property is visited once): a loop that ranges over object.propertyOrder and calls out from its body (the `each` callback runs the for-in body, a reviver, an Object.keys consumer - arbitrary script that may delete properties) is exposed to the writers of that slice. Go's range fixes the length and the backing array when the loop starts, so (1) no writer may overwrite elements of the existing backing array in place (an append onto a prefix sub-slice, a copy, an element store): that shifts names under the running loop, which then skips a live property and visits the last one twice; and (2) the loop must look each name up in object.property again and skip names that are gone. A loop over a private copy is not exposed",
		Run: ruleIterPropTable})
}

// fromPropertyOrder: v is (derived by slicing from) a load of object.propertyOrder.
func fromPropertyOrder(v ssa.Value, depth int) bool {
	if v == nil || depth > 4 {
		return false
	}
	if a := loadAddr(v); a != nil && isFieldAddr(a, "object", "propertyOrder") {
		return true
	}
	if sl, ok := v.(*ssa.Slice); ok {
		return fromPropertyOrder(sl.X, depth+1)
	}
	return false
}

func ruleIterPropTable(c *Ctx, r *R) {
	type loop struct {
		fn     *ssa.Function
		header *ssa.BasicBlock
		calls  []ssa.Instruction
	}
	var exposed []loop
	for _, fn := range c.AllSrcFuncs("") {
		for _, h := range fn.Blocks {
			if !isRangeHeader(h) {
				continue
			}
			s := rangeLenOperand(h)
			if s == nil || !fromPropertyOrder(s, 0) {
				continue
			}
			// blocks of the loop: dominated by the header and able to reach it again
			var calls []ssa.Instruction
			for _, b := range fn.Blocks {
				if !h.Dominates(b) || b == h || !reaches(b, h, map[*ssa.BasicBlock]bool{}) {
					continue
				}
				for _, ins := range b.Instrs {
					ci, ok := ins.(ssa.CallInstruction)
					if !ok {
						continue
					}
					cc := ci.Common()
					if _, isBuiltin := cc.Value.(*ssa.Builtin); isBuiltin {
						continue
					}
					switch cc.Value.(type) {
					case *ssa.Parameter, *ssa.FreeVar:
						if !cc.IsInvoke() && isFuncType(cc.Value.Type()) {
							calls = append(calls, ins) // the enumeration callback: runs script
						}
					}
				}
			}
			if len(calls) > 0 {
				exposed = append(exposed, loop{fn, h, calls})
			}
		}
	}
	if len(exposed) == 0 {
		r.undecided("unresolved:enumeration-loop", "-", "UNRESOLVED: no loop ranging over object.propertyOrder calls a callback (the enumeration primitive was not found)")
		return
	}
	// (2) re-validation inside each exposed loop
	for _, l := range exposed {
		key := "revalidate:" + ssaFuncName(l.fn)
		okAll := true
		for _, call := range l.calls {
			found := false
			for _, b := range l.fn.Blocks {
				if !l.header.Dominates(b) {
					continue
				}
				for _, ins := range b.Instrs {
					lk, ok := ins.(*ssa.Lookup)
					if !ok || !lk.CommaOk {
						continue
					}
					if a := loadAddr(lk.X); a == nil || !isFieldAddr(a, "object", "property") {
						continue
					}
					// an If on the ok result whose true side dominates the call
					for _, ref := range *lk.Referrers() {
						ex, ok := ref.(*ssa.Extract)
						if !ok || ex.Index != 1 {
							continue
						}
						for _, r2 := range *ex.Referrers() {
							if iff, ok := r2.(*ssa.If); ok {
								if t := iff.Block().Succs[0]; len(t.Preds) == 1 && t.Dominates(call.Block()) {
									found = true
								}
							}
						}
					}
				}
			}
			if !found {
				okAll = false
			}
		}
		r.check(okAll, key, c.Pos(instrPos(l.calls[0])), "each name is looked up again in object.property and skipped when it is gone", fmt.Sprintf("%s ranges over object.propertyOrder and calls out for each name without checking that the name is still a property (a comma-ok lookup in object.property): a property deleted by the loop body before it is reached is still visited (§12.6.4), or - with an in-place writer - a stale tail element is visited a second time", ssaFuncName(l.fn)))
	}
	// (1) in-place writers
	n := 0
	for _, fn := range c.AllSrcFuncs("") {
		for _, b := range fn.Blocks {
			for _, ins := range b.Instrs {
				bad := ""
				switch x := ins.(type) {
				case *ssa.Call:
					bi, ok := x.Call.Value.(*ssa.Builtin)
					if !ok {
						continue
					}
					switch bi.Name() {
					case "append":
						if sl, ok := x.Call.Args[0].(*ssa.Slice); ok && fromPropertyOrder(sl, 0) && (sl.High != nil || sl.Low != nil) {
							bad = "appends onto a sub-slice of object.propertyOrder, overwriting the elements behind it in the shared backing array"
						}
					case "copy":
						if fromPropertyOrder(x.Call.Args[0], 0) && !freshlyMade(fn, x.Call.Args[0], x) {
							bad = "copies into object.propertyOrder in place"
						}
					}
				case *ssa.Store:
					if ia, ok := x.Addr.(*ssa.IndexAddr); ok && fromPropertyOrder(ia.X, 0) {
						bad = "stores an element of object.propertyOrder in place"
					}
				}
				if bad == "" {
					continue
				}
				n++
				r.bad("inplace:"+ssaFuncName(fn), c.Pos(instrPos(ins)), fmt.Sprintf("%s %s while %s ranges over that slice and runs script for each name: after a delete inside a for-in body the next live property is skipped and the last one is visited twice (`for (k in o) delete o[k]` leaves every other property; deleting an unvisited property makes the last one appear twice)", ssaFuncName(fn), bad, ssaFuncName(exposed[0].fn)))
			}
		}
	}
	if n == 0 {
		r.ok("inplace:none", "-", "no writer modifies the backing array of object.propertyOrder in place")
	}
	_ = token.ADD
}

// freshlyMade: v is a load of a field that this function has just set to a new make([]T, n) (the store dominates use).
func freshlyMade(fn *ssa.Function, v ssa.Value, use ssa.Instruction) bool {
	a := loadAddr(v)
	if a == nil {
		return false
	}
	for _, b := range fn.Blocks {
		for _, ins := range b.Instrs {
			st, ok := ins.(*ssa.Store)
			if !ok || !sameSSA(st.Addr, a, 0) {
				continue
			}
			if _, isMake := st.Val.(*ssa.MakeSlice); isMake && dominatesInstr(st, use) {
				return true
			}
		}
	}
	return false
}
