package main

import (
	"fmt"
	"go/types"
	"sort"

	"golang.org/x/tools/go/ssa"
)

// SPEC-integrity: Object.freeze / seal / preventExtensions / isFrozen / isSealed / isExtensible (ES5 15.2.3.8-13),
// evaluated abstractly on objects with two properties in reachable representations.

func init() {
	register(&Rule{ID: "SPEC-integrity", Props: []string{"C07"}, Min: 6,
		Doc: "S (abstract evaluation over a finite domain): the six integrity built-ins are evaluated on an ordinary object, extensible or not, holding property x in each representation reachable by Object.defineProperty and property y absent / a plain data property / a non-configurable accessor. freeze makes every data property read-only and every property non-configurable and the object non-extensible, seal the last two, preventExtensions the last one, each leaving everything else (values, getters, enumerability, order) as it was; isFrozen / isSealed / isExtensible answer exactly the conjunction 15.2.3.11-13 define (an accessor property has no [[Writable]] to consult)",
		Run: ruleSpecIntegrity})
}

func ruleSpecIntegrity(c *Ctx, r *R) {
	w := defineWorldFor(c)
	if w == nil {
		r.undecided("unresolved:world", "-", "UNRESOLVED: SPEC-define-own could not set up the abstract model")
		return
	}
	m, in := w.m, w.in
	fns := map[string]*ssa.Function{}
	for _, fn := range c.AllSrcFuncs("") {
		switch fn.Name() {
		case "builtinObjectFreeze", "builtinObjectSeal", "builtinObjectPreventExtensions", "builtinObjectIsFrozen", "builtinObjectIsSealed", "builtinObjectIsExtensible":
			fns[fn.Name()] = fn
		}
	}
	tCall := c.LookupType("", "FunctionCall")
	if len(fns) != 6 || tCall == nil {
		r.undecided("unresolved:builtins", "-", fmt.Sprintf("UNRESOLVED: %d of the six integrity built-ins / FunctionCall", len(fns)))
		return
	}
	classTable, why := classTableOf(c, in, "classObject")
	if why != "" {
		r.undecided("unresolved:classObject", "-", "UNRESOLVED: "+why)
		return
	}
	ost := m.tObject.Underlying().(*types.Struct)
	field := func(st *types.Struct, name string) int {
		for i := 0; i < st.NumFields(); i++ {
			if st.Field(i).Name() == name {
				return i
			}
		}
		return -1
	}
	fClass, fOrder := field(ost, "objectClass"), field(ost, "propertyOrder")
	cst := tCall.Underlying().(*types.Struct)
	cRuntime, cArgs := field(cst, "runtime"), field(cst, "ArgumentList")
	if fClass < 0 || fOrder < 0 || cRuntime < 0 || cArgs < 0 {
		r.undecided("unresolved:fields", "-", "UNRESOLVED: fields of object / FunctionCall")
		return
	}
	hooks := w.hooks
	prevObject := hooks["(Value).object"]
	hooks["(Value).object"] = func(in *absInterp, call *ssa.CallCommon, args []aval) (aval, bool) {
		if s, ok := args[0].(aStruct); ok {
			if i, ok := s.f[m.valueFieldValue].(aIface); ok {
				if ref, ok := i.v.(aRef); ok {
					return ref, true
				}
			}
		}
		return prevObject(in, call, args)
	}
	defer func() { hooks["(Value).object"] = prevObject }()

	type propSel struct {
		name string
		sp   *storedProp
	}
	mk := func(props []propSel, extensible bool) *acell {
		obj := in.zero(m.tObject).(aStruct)
		pm := newAMap()
		var order []aval
		for _, p := range props {
			if p.sp == nil {
				continue
			}
			pv := in.zero(m.tProperty).(aStruct)
			pv.f[0], pv.f[1] = deepCopy(p.sp.value), aInt(p.sp.mode)
			pm.m[p.name] = pv
			order = append(order, aStr(p.name))
		}
		obj.f[w.fProp], obj.f[w.fExt], obj.f[w.fRt] = pm, aBool(extensible), aAtom{"rt"}
		obj.f[fClass] = classTable
		obj.f[fOrder] = aSlice{arr: aRef{root: &acell{v: aArr{e: order}, name: "order"}}, n: len(order)}
		return &acell{v: obj, name: "obj"}
	}
	read := func(cell *acell, name string) (pdState, string) {
		pm := cell.v.(aStruct).f[w.fProp].(aMap)
		pv, ok := pm.m[name]
		if !ok {
			return pdState{kind: "absent"}, ""
		}
		ps := pv.(aStruct)
		return w.decode(&storedProp{value: ps.f[0], mode: int64(ps.f[1].(aInt))})
	}
	mkCall := func(cell *acell) aval {
		fc := in.zero(tCall).(aStruct)
		v := in.zero(m.tValue).(aStruct)
		v.f[m.valueFieldKind] = aInt(m.kObject)
		v.f[m.valueFieldValue] = aIface{dyn: m.tObjPtr, v: aRef{root: cell}}
		fc.f[cRuntime] = aAtom{"rt"}
		fc.f[cArgs] = aSlice{arr: aRef{root: &acell{v: aArr{e: []aval{v}}, name: "args"}}, n: 1}
		return fc
	}

	var keys []string
	for k := range w.states {
		keys = append(keys, k)
	}
	sort.Strings(keys)
	// representatives for y
	var yAbsent, yData, yAcc *storedProp
	for _, k := range keys {
		sp := w.states[k]
		if sp == nil {
			continue
		}
		st, why := w.decode(sp)
		if why != "" {
			continue
		}
		if st.kind == "data" && st.w && st.e && st.c && st.v == "V1" && yData == nil {
			yData = sp
		}
		if st.kind == "accessor" && !st.c && st.g == "fn:G0" && yAcc == nil {
			yAcc = sp
		}
	}
	ys := []*storedProp{yAbsent, yData, yAcc}
	type stat struct {
		cases int
		bad   []string
		fail  string
	}
	stats := map[string]*stat{}
	get := func(cat string) *stat {
		if stats[cat] == nil {
			stats[cat] = &stat{}
		}
		return stats[cat]
	}
	frozenProp := func(p pdState) bool {
		if p.kind == "absent" {
			return true
		}
		return !p.c && (p.kind != "data" || !p.w)
	}
	sealedProp := func(p pdState) bool { return p.kind == "absent" || !p.c }
	n := 0
	for _, k := range keys {
		x := w.states[k]
		xSt, why := w.decode(x)
		if why != "" {
			continue
		}
		for _, y := range ys {
			ySt, _ := w.decode(y)
			for _, ext := range []bool{true, false} {
				for name, fn := range fns {
					n++
					st := get(name)
					st.cases++
					cell := mk([]propSel{{"x", x}, {"y", y}}, ext)
					ret, pan, fail := absRun(in, fn, []aval{mkCall(cell)})
					desc := fmt.Sprintf("%s on {x: %s, y: %s}, extensible=%v", name[len("builtinObject"):], xSt, ySt, ext)
					if fail != "" {
						if st.fail == "" {
							st.fail = fail + " [" + desc + "]"
						}
						continue
					}
					if pan != nil {
						st.bad = append(st.bad, desc+" panics ("+describeAval(pan)+")")
						continue
					}
					gx, why1 := read(cell, "x")
					gy, why2 := read(cell, "y")
					if why1 != "" || why2 != "" {
						st.bad = append(st.bad, desc+" leaves a property that cannot be read back: "+why1+why2)
						continue
					}
					gext := bool(cell.v.(aStruct).f[w.fExt].(aBool))
					wx, wy, wext := xSt, ySt, ext
					wantRet := ""
					switch name {
					case "builtinObjectFreeze":
						for _, p := range []*pdState{&wx, &wy} {
							if p.kind == "absent" {
								continue
							}
							p.c = false
							if p.kind == "data" {
								p.w = false
							}
						}
						wext = false
					case "builtinObjectSeal":
						for _, p := range []*pdState{&wx, &wy} {
							if p.kind != "absent" {
								p.c = false
							}
						}
						wext = false
					case "builtinObjectPreventExtensions":
						wext = false
					case "builtinObjectIsFrozen":
						wantRet = fmt.Sprint(!ext && frozenProp(xSt) && frozenProp(ySt))
					case "builtinObjectIsSealed":
						wantRet = fmt.Sprint(!ext && sealedProp(xSt) && sealedProp(ySt))
					case "builtinObjectIsExtensible":
						wantRet = fmt.Sprint(ext)
					}
					if gx != wx || gy != wy || gext != wext {
						st.bad = append(st.bad, fmt.Sprintf("%s -> {x: %s, y: %s} extensible=%v; ES5 requires {x: %s, y: %s} extensible=%v", desc, gx, gy, gext, wx, wy, wext))
						continue
					}
					if wantRet != "" {
						if got := m.valueAtom(ret); got != wantRet {
							st.bad = append(st.bad, fmt.Sprintf("%s returns %s; ES5 requires %s", desc, got, wantRet))
						}
					}
				}
			}
		}
	}
	var cats []string
	for k := range stats {
		cats = append(cats, k)
	}
	sort.Strings(cats)
	for _, cat := range cats {
		st := stats[cat]
		site := c.Pos(fns[cat].Pos())
		key := "Object." + cat[len("builtinObject"):]
		switch {
		case st.fail != "":
			r.undecided(key, site, "UNDECIDED: the abstract evaluator does not model "+st.fail)
		case len(st.bad) > 0:
			r.bad(key, site, fmt.Sprintf("%d of %d cases deviate from ES5; first: %s", len(st.bad), st.cases, st.bad[0]))
		default:
			r.ok(key, site, fmt.Sprintf("%d cases agree with ES5", st.cases))
		}
	}
	r.ok("coverage", "-", fmt.Sprintf("%d cases", n))
	if n < 500 {
		r.undecided("coverage-low", "-", fmt.Sprintf("UNDECIDED: only %d cases", n))
	}
}

func init() {
	register(&Rule{ID: "ORDER-define-properties", Props: []string{"C07"}, Min: 1,
		Doc: "P (ordering): ES5 15.2.3.7 builds the whole list of descriptors (ToPropertyDescriptor of every enumerable own property of Properties, step 5) before it defines the first one (step 6): a malformed later descriptor throws with the object untouched. In the function bound to Object.defineProperties no call of defineOwnProperty can be followed by a call of toPropertyDescriptor: the two are not in the same callback handed to enumerate, and no CFG path leads from the former to the latter",
		Run: ruleOrderDefineProperties})
}

func ruleOrderDefineProperties(c *Ctx, r *R) {
	var fn *ssa.Function
	for _, f := range c.AllSrcFuncs("") {
		if f.Name() == "builtinObjectDefineProperties" && f.Parent() == nil {
			fn = f
		}
	}
	if fn == nil {
		r.undecided("unresolved:builtinObjectDefineProperties", "-", "UNRESOLVED: builtinObjectDefineProperties")
		return
	}
	isConv := func(i ssa.Instruction) bool {
		call, ok := i.(ssa.CallInstruction)
		return ok && call.Common().StaticCallee() != nil && call.Common().StaticCallee().Name() == "toPropertyDescriptor"
	}
	isDef := func(i ssa.Instruction) bool {
		call, ok := i.(ssa.CallInstruction)
		if !ok || call.Common().StaticCallee() == nil {
			return false
		}
		n := call.Common().StaticCallee().Name()
		return n == "defineOwnProperty" || n == "defineProperty" || n == "objectDefineOwnProperty"
	}
	convs, defs := 0, 0
	bad := ""
	for _, f := range withAnon(fn) {
		var cs, ds []ssa.Instruction
		for _, b := range f.Blocks {
			for _, ins := range b.Instrs {
				if isConv(ins) {
					cs = append(cs, ins)
				}
				if isDef(ins) {
					ds = append(ds, ins)
				}
			}
		}
		convs += len(cs)
		defs += len(ds)
		if len(cs) == 0 || len(ds) == 0 {
			continue
		}
		if f.Parent() != nil {
			bad = fmt.Sprintf("the callback %s both converts a descriptor and defines a property: it runs once per property, so the first properties are defined before a later descriptor is converted", ssaFuncName(f))
			continue
		}
		for _, d := range ds {
			for _, cv := range cs {
				if reachesInstr(d, cv) {
					bad = fmt.Sprintf("a conversion at %s is reachable after the definition at %s", c.Pos(instrPos(cv)), c.Pos(instrPos(d)))
				}
			}
		}
	}
	if convs == 0 || defs == 0 {
		r.undecided("unresolved:calls", c.Pos(fn.Pos()), fmt.Sprintf("UNRESOLVED: %d conversions and %d definitions found in Object.defineProperties", convs, defs))
		return
	}
	r.check(bad == "", "convert-all-then-define", c.Pos(fn.Pos()), "every toPropertyDescriptor call precedes every defineOwnProperty call",
		"Object.defineProperties interleaves conversion and definition ("+bad+"): `Object.defineProperties(o, {a:{value:1}, b:{get:f, value:2}})` throws TypeError for b after a has been defined (15.2.3.7 requires o untouched)")
}
