package main

import (
	"fmt"
	"go/types"

	"golang.org/x/tools/go/ssa"
)

func init() {
	register(&Rule{ID: "DEFINE-guards", Props: []string{"C07"}, Min: 6,
		Doc: "P+O: the primitive that adds a key to an object's property table is called only from [[DefineOwnProperty]], and the call that can create a new key is dominated by the test of the extensible flag; the primitive that removes a key is called only from [[Delete]] under a dominating configurable() test; the extensible flag is cleared only by functions bound to Object.preventExtensions / seal / freeze and is never set to true on an existing object - so at every writer a non-extensible object never gains a property and a non-configurable one is never deleted",
		Run: ruleDefineGuards})
}

func ruleDefineGuards(c *Ctx, r *R) {
	write := c.SSAFunc(c.LookupFunc("", "object.writeProperty"))
	del := c.SSAFunc(c.LookupFunc("", "object.deleteProperty"))
	if write == nil {
		r.undecided("anchors", "-", "UNRESOLVED (*object).writeProperty")
		return
	}
	// del may be nil: the removal is then written out where it is used (delete sites below)
	cf := computeClassFacts(c)
	// which functions are the generic [[DefineOwnProperty]] / [[Delete]]: the ones installed in those slots of classObject
	defineImpl, deleteImpl := map[*ssa.Function]bool{}, map[*ssa.Function]bool{}
	for _, fn := range c.AllSrcFuncs("") {
		for _, b := range fn.Blocks {
			for _, ins := range b.Instrs {
				if st, ok := ins.(*ssa.Store); ok {
					if nt, f := fieldOfAddr(st.Addr); nt != nil && nt.Obj().Name() == "objectClass" {
						if impl, ok := st.Val.(*ssa.Function); ok {
							switch f.Name() {
							case "defineOwnProperty":
								defineImpl[impl] = true
							case "delete":
								deleteImpl[impl] = true
							}
						}
					}
				}
			}
		}
	}
	_ = cf
	for _, fn := range c.AllSrcFuncs("") {
		for _, b := range fn.Blocks {
			for _, ins := range b.Instrs {
				call, ok := ins.(*ssa.Call)
				if !ok {
					continue
				}
				callee := call.Call.StaticCallee()
				site := c.Pos(instrPos(ins))
				// a removal from the property table written out in place (not inside the removing primitive itself)
				if bi, isB := call.Call.Value.(*ssa.Builtin); isB && bi.Name() == "delete" && fn != del && len(call.Call.Args) == 2 {
					if ld, ok := call.Call.Args[0].(*ssa.UnOp); ok && isFieldAddr(ld.X, "object", "property") {
						key := "deleter-call:" + ssaFuncName(fn)
						if (!deleteImpl[fn] || !dominatedByMethodTrue(fn, call, "configurable")) && c.partOf(fn, "objectDelete", 0) && c.eClean("SPEC-put-delete") {
							r.ok(key, site, subsumedBy("SPEC-put-delete"))
							continue
						}
						if !deleteImpl[fn] {
							r.bad(key, site, fmt.Sprintf("%s removes a property from an object's table directly; only the function installed as [[Delete]] may (ES5 8.12.7)", ssaFuncName(fn)))
							continue
						}
						r.check(dominatedByMethodTrue(fn, call, "configurable"), key, site, "dominated by prop.configurable()", "the removal from the property table is reachable without a dominating prop.configurable() == true test: a non-configurable property can be deleted")
					}
					continue
				}
				if callee == nil {
					continue
				}
				switch callee {
				case write:
					key := "writer-call:" + ssaFuncName(fn)
					if !defineImpl[fn] && c.partOf(fn, "objectDefineOwnProperty", 0) && c.eClean("SPEC-define-own") {
						r.ok(key, site, subsumedBy("SPEC-define-own"))
						continue
					}
					if !defineImpl[fn] {
						r.bad(key, site, fmt.Sprintf("%s adds a property to an object's table directly; only the function installed as [[DefineOwnProperty]] may, because it is the one that checks extensibility and attribute compatibility (ES5 8.12.9)", ssaFuncName(fn)))
						continue
					}
					// is this call in the "property does not exist" region? (dominated by the !exists side of readProperty's result)
					// requirement: every call of writeProperty is either dominated by a successful `exists` test or by the extensible test
					okExt := dominatedByFieldTest(fn, call, "object", "extensible", true)
					okExists := dominatedByExistsTrue(fn, call)
					if !(okExt || okExists) && c.partOf(fn, "objectDefineOwnProperty", 0) && c.eClean("SPEC-define-own") {
						r.ok(key, site, subsumedBy("SPEC-define-own"))
						continue
					}
					r.check(okExt || okExists, key, site, "dominated by the extensible test (new key) or by exists == true (update)", "writeProperty is reachable for a key that does not exist yet without passing the test of obj.extensible: a non-extensible (sealed, frozen) object can gain a property")
				case del:
					key := "deleter-call:" + ssaFuncName(fn)
					if (!deleteImpl[fn] || !dominatedByMethodTrue(fn, call, "configurable")) && c.partOf(fn, "objectDelete", 0) && c.eClean("SPEC-put-delete") {
						r.ok(key, site, subsumedBy("SPEC-put-delete"))
						continue
					}
					if !deleteImpl[fn] {
						r.bad(key, site, fmt.Sprintf("%s removes a property from an object's table directly; only the function installed as [[Delete]] may (ES5 8.12.7)", ssaFuncName(fn)))
						continue
					}
					r.check(dominatedByMethodTrue(fn, call, "configurable"), key, site, "dominated by prop.configurable()", "deleteProperty is reachable without a dominating prop.configurable() == true test: a non-configurable property can be deleted")
				}
			}
		}
	}
	// extensible writers
	s := c.Shape()
	allowed := map[*types.Func]string{}
	for name, f := range s.BoundOn("Object") {
		switch name {
		case "preventExtensions", "seal", "freeze":
			allowed[f] = "Object." + name
		}
	}
	nInit := 0
	defer func() { r.note("extensible_initialisations_of_fresh_objects", nInit) }()
	for _, fn := range c.AllSrcFuncs("") {
		for _, b := range fn.Blocks {
			for _, ins := range b.Instrs {
				st, ok := ins.(*ssa.Store)
				if !ok || !isFieldAddr(st.Addr, "object", "extensible") {
					continue
				}
				site := c.Pos(instrPos(ins))
				fa := st.Addr.(*ssa.FieldAddr)
				if _, fresh := fa.X.(*ssa.Alloc); fresh {
					nInit++
					continue
				}
				v, isC := st.Val.(*ssa.Const)
				root := fn
				for root.Parent() != nil {
					root = root.Parent()
				}
				obj, _ := root.Object().(*types.Func)
				if isC && v.Value != nil && v.Value.String() == "false" {
					_, ok := allowed[obj]
					r.check(ok, "extensible-clear:"+ssaFuncName(fn), site, "cleared by "+allowed[obj], fmt.Sprintf("%s clears the extensible flag; only Object.preventExtensions / seal / freeze do so in ES5", ssaFuncName(fn)))
				} else {
					r.bad("extensible-set:"+ssaFuncName(fn), site, "the extensible flag of an existing object is assigned something other than the constant false: ES5 8.6.2 - once false it may never become true again")
				}
			}
		}
	}
}

// dominatedByFieldTest: call is dominated by an If on load(<type>.<field>) whose `want` side dominates it, or whose other side never reaches it.
func dominatedByFieldTest(fn *ssa.Function, use ssa.Instruction, typeName, field string, want bool) bool {
	for _, b := range fn.Blocks {
		iff, ok := b.Instrs[len(b.Instrs)-1].(*ssa.If)
		if !ok {
			continue
		}
		cond, neg := normBool(iff.Cond)
		a := loadAddr(cond)
		if a == nil || !isFieldAddr(a, typeName, field) {
			continue
		}
		trueSucc, falseSucc := b.Succs[0], b.Succs[1]
		if neg {
			trueSucc, falseSucc = falseSucc, trueSucc
		}
		wantSucc, other := trueSucc, falseSucc
		if !want {
			wantSucc, other = falseSucc, trueSucc
		}
		if len(wantSucc.Preds) == 1 && wantSucc.Dominates(use.Block()) {
			return true
		}
		if b.Dominates(use.Block()) && !reaches(other, use.Block(), map[*ssa.BasicBlock]bool{b: true}) {
			return true
		}
	}
	return false
}

// dominatedByExistsTrue: the call is reachable only when the second result of a preceding readProperty-like lookup (a comma-ok
// bool extracted from a call) was true: i.e. the `!exists` side of that test does not reach it.
func dominatedByExistsTrue(fn *ssa.Function, use ssa.Instruction) bool {
	for _, b := range fn.Blocks {
		iff, ok := b.Instrs[len(b.Instrs)-1].(*ssa.If)
		if !ok {
			continue
		}
		ex, ok := iff.Cond.(*ssa.Extract)
		if !ok || ex.Index != 1 {
			continue
		}
		call, ok := ex.Tuple.(*ssa.Call)
		if !ok || call.Call.StaticCallee() == nil || call.Call.StaticCallee().Name() != "readProperty" {
			continue
		}
		// true side = exists
		if b.Dominates(use.Block()) && !reaches(b.Succs[1], use.Block(), map[*ssa.BasicBlock]bool{b: true}) {
			return true
		}
	}
	return false
}

// dominatedByMethodTrue: dominated by the true side of an If on a call of method `name`.
func dominatedByMethodTrue(fn *ssa.Function, use ssa.Instruction, name string) bool {
	for _, b := range fn.Blocks {
		iff, ok := b.Instrs[len(b.Instrs)-1].(*ssa.If)
		if !ok {
			continue
		}
		call, ok := iff.Cond.(*ssa.Call)
		if !ok || call.Call.StaticCallee() == nil || call.Call.StaticCallee().Name() != name {
			continue
		}
		if len(b.Succs[0].Preds) == 1 && b.Succs[0].Dominates(use.Block()) {
			return true
		}
	}
	return false
}
