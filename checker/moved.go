package main

import (
	"strings"
)

// A reviewed line or a known finding is written for one construct in one named function. When the function is renamed,
// inlined or split, the same construct turns up under another name and the old name is gone from the program. The two
// keys then differ in exactly one segment - the old one names no function any more, the new one names a function that
// exists. movedKey finds such an entry; it never transfers an entry whose function still exists (that entry is in use or
// stale for another reason) unless the new function is a helper that only the recorded function calls (the construct was
// split out of it), so a second, new violation of the same shape elsewhere is still reported.

// funcNameSet: every name under which a source function can appear in a key (the rendered name and the bare name).
func (c *Ctx) funcNameSet() map[string]bool {
	if c.funcNames != nil {
		return c.funcNames
	}
	c.funcNames = map[string]bool{}
	for _, fn := range c.AllSrcFuncs("", "parser", "ast", "file", "token", "registry") {
		c.funcNames[ssaFuncName(fn)] = true
		c.funcNames[fn.Name()] = true
	}
	return c.funcNames
}

func keySegments(k string) []string {
	return strings.FieldsFunc(k, func(r rune) bool { return r == ':' || r == '|' })
}

// stripOrdinal removes a trailing "#n" (the ordinal of a construct within its function).
func stripOrdinal(s string) string {
	if i := strings.LastIndex(s, "#"); i >= 0 {
		digits := s[i+1:]
		if digits != "" && strings.Trim(digits, "0123456789") == "" {
			return s[:i]
		}
	}
	return s
}

// movedMatch: old and cur are the same key but for one segment, which in old names a function that no longer exists
// and in cur one that does. The result is 2 when the other segments are identical, 1 when they agree up to the ordinals
// of constructs within the function, 0 otherwise.
func (c *Ctx) movedMatch(old, cur string) int {
	a, b := keySegments(old), keySegments(cur)
	if len(a) != len(b) || len(a) < 2 {
		return 0
	}
	names := c.funcNameSet()
	diff, exact := -1, true
	for i := range a {
		if a[i] == b[i] {
			continue
		}
		if stripOrdinal(a[i]) == stripOrdinal(b[i]) {
			exact = false
			continue
		}
		if diff >= 0 {
			return 0
		}
		diff = i
	}
	if diff < 0 {
		return 0
	}
	oldSeg, newSeg := stripOrdinal(a[diff]), stripOrdinal(b[diff])
	if !names[newSeg] {
		return 0
	}
	if names[oldSeg] {
		// the recorded function still exists: the construct may have been split out of it into a helper that only it calls
		helper := false
		for _, fn := range c.AllSrcFuncs("", "parser", "ast", "file", "token", "registry") {
			if (ssaFuncName(fn) == newSeg || fn.Name() == newSeg) && ssaFuncName(fn) != oldSeg && c.partOf(fn, oldSeg, 0) {
				helper = true
			}
		}
		if !helper {
			return 0
		}
	}
	if exact && a[diff][len(oldSeg):] == b[diff][len(newSeg):] {
		return 2
	}
	return 1
}

// reviewedLookup: table[key], or the entry of the table written for the same construct in a function that has since
// disappeared.
func reviewedLookup(table map[string]string, key string) (string, bool) {
	if why, ok := table[key]; ok {
		return why, true
	}
	// how an error value is built (fmt.Errorf, errors.New) is not part of the construct's identity
	if alt := strings.Replace(key, "|error(New)|", "|error(Errorf)|", 1); alt != key {
		if why, ok := table[alt]; ok {
			return why, true
		}
	}
	if alt := strings.Replace(key, "|error(Errorf)|", "|error(New)|", 1); alt != key {
		if why, ok := table[alt]; ok {
			return why, true
		}
	}
	if curCtx == nil {
		return "", false
	}
	found, best, n := "", 0, 0
	for old, why := range table {
		sc := curCtx.movedMatch(old, key)
		if sc == 0 || sc < best {
			continue
		}
		if sc > best {
			best, n = sc, 0
		}
		found = why + " [entry written for " + old + ", a function that no longer exists: the construct was moved]"
		n++
	}
	if n == 1 {
		return found, true
	}
	return "", false
}
