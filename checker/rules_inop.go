package main

import (
	"fmt"
	"go/ast"
	"go/token"
	"go/types"
)

func init() {
	register(&Rule{ID: "SPEC-in-object", Props: []string{"C05", "C19", "C01"}, Min: 2,
		Doc: "G (ES5 11.8.6 step 5 and 11.8.7 step 5: `If Type(rval) is not Object, throw a TypeError exception`): in the binary-operator implementation the arms of `in` and `instanceof` test the right operand for being an object (IsObject / kind == valueObject) and raise a TypeError on the other side, before anything is done with it - they do not coerce it with ToObject as a member access would. `'length' in 'abc'` is a TypeError, not true",
		Run: ruleSpecInObject})
}

func ruleSpecInObject(c *Ctx, r *R) {
	// the implementation: the *runtime method (token.Token, Value, Value) Value (as in ORDER-coerce)
	var fd *ast.FuncDecl
	info := c.Otto().TypesInfo
	for _, f := range c.Otto().Syntax {
		for _, d := range f.Decls {
			x, ok := d.(*ast.FuncDecl)
			if !ok || x.Recv == nil || x.Body == nil {
				continue
			}
			fn, _ := info.Defs[x.Name].(*types.Func)
			if fn == nil {
				continue
			}
			sig := fn.Type().(*types.Signature)
			if sig.Params().Len() == 3 && sig.Results().Len() == 1 && typeStr(sig.Params().At(0).Type()) == "token.Token" && typeStr(sig.Params().At(1).Type()) == "Value" && typeStr(sig.Params().At(2).Type()) == "Value" && typeStr(sig.Results().At(0).Type()) == "Value" {
				fd = x
			}
		}
	}
	if fd == nil {
		r.undecided("impl", "-", "UNRESOLVED binary operator implementation (method (token.Token, Value, Value) Value)")
		return
	}
	found := map[string]bool{}
	ast.Inspect(fd.Body, func(n ast.Node) bool {
		cc, ok := n.(*ast.CaseClause)
		if !ok {
			return true
		}
		for _, e := range cc.List {
			sel, ok := unparen(e).(*ast.SelectorExpr)
			if !ok || (sel.Sel.Name != "IN" && sel.Sel.Name != "INSTANCEOF") {
				continue
			}
			if k, isC := info.Uses[sel.Sel].(*types.Const); !isC || k.Pkg() == nil || k.Pkg().Name() != "token" {
				continue
			}
			op := map[string]string{"IN": "in", "INSTANCEOF": "instanceof"}[sel.Sel.Name]
			found[op] = true
			site := c.Pos(cc.Pos())
			// an if whose condition tests IsObject (negated) or kind != valueObject and whose body panics with a TypeError
			tested := false
			coerces := ""
			for _, st := range cc.Body {
				ast.Inspect(st, func(m ast.Node) bool {
					switch y := m.(type) {
					case *ast.IfStmt:
						isTest := false
						ast.Inspect(y.Cond, func(q ast.Node) bool {
							if ce, ok := q.(*ast.CallExpr); ok {
								if s2, ok := unparen(ce.Fun).(*ast.SelectorExpr); ok && s2.Sel.Name == "IsObject" {
									isTest = true
								}
							}
							if id, ok := q.(*ast.Ident); ok && id.Name == "valueObject" {
								isTest = true
							}
							return true
						})
						if !isTest {
							return true
						}
						// which side raises?
						raises := func(b ast.Node) bool {
							if b == nil {
								return false
							}
							r := false
							ast.Inspect(b, func(q ast.Node) bool {
								if ce, ok := q.(*ast.CallExpr); ok {
									if s2, ok := unparen(ce.Fun).(*ast.SelectorExpr); ok && s2.Sel.Name == "panicTypeError" {
										r = true
									}
								}
								return true
							})
							return r
						}
						if raises(y.Body) || raises(y.Else) {
							tested = true
						}
					case *ast.CallExpr:
						name := ""
						switch f := unparen(y.Fun).(type) {
						case *ast.SelectorExpr:
							name = f.Sel.Name
						case *ast.Ident:
							name = f.Name
						}
						if name == "toObject" || name == "objectCoerce" {
							coerces = name
						}
					}
					return true
				})
			}
			switch {
			case coerces != "":
				r.bad(op, site, fmt.Sprintf("the `%s` arm converts its right operand with %s: ES5 11.8.6 / 11.8.7 step 5 throws a TypeError for anything that is not an object (`'length' %s 'abc'`), only null and undefined fail ToObject", op, coerces, op))
			case !tested:
				r.bad(op, site, fmt.Sprintf("the `%s` arm has no test of the right operand for being an object that raises a TypeError on the other side (ES5 11.8.6 / 11.8.7 step 5)", op))
			default:
				r.ok(op, site, "right operand tested for Object, TypeError otherwise")
			}
		}
		return true
	})
	for _, op := range []string{"in", "instanceof"} {
		if !found[op] {
			r.undecided(op, c.Pos(fd.Pos()), "UNRESOLVED: no arm for token."+map[string]string{"in": "IN", "instanceof": "INSTANCEOF"}[op]+" in the binary operator implementation")
		}
	}
	_ = token.ADD
}
