package main

import (
	"fmt"
	"go/constant"
	"go/token"
	"go/types"
	"sort"
	"strings"

	"golang.org/x/tools/go/ssa"
)

// Rules about the text of the errors the interpreter raises itself (C19):
//
//	ERR-message    every raise passes a description (non-empty message)
//	FORMAT-const   data is never used as a printf format
//	ERR-is-target  errors.Is is not handed the address of a fresh local (always false; errors.As was meant)

func init() {
	register(&Rule{ID: "ERR-message", Props: []string{"C19"}, Min: 100,
		Doc: "S: C19 requires every error the interpreter raises itself to carry a non-empty message. All of them are built by newError, which takes the description as the first element of its variadic list (after removing a trailing `at` position). The family of raisers is computed from the code (newError plus every function that forwards its own variadic list to a member); every call from outside the family passes a description that is not the empty constant",
		Run: ruleErrMessage})
	register(&Rule{ID: "FORMAT-const", Props: []string{"C19"}, Min: 100,
		Doc: "G: the description of an error is a printf format (newError -> ottoError.describe -> fmt.Sprintf; (*parser).error -> fmt.Sprintf). A call that passes run-time text (an error's Error(), a script-controlled string) as the format with no arguments garbles every '%' in it (`eval(\"var a = %;\")` reports `%!(MISSING)`). The printf-like family is computed from the code (fmt's formatters, every function forwarding a format parameter and its variadic list to a member, and the newError family whose format is the first variadic element); at every call the format is a constant, or arguments are supplied",
		Run: ruleFormatConst})
	register(&Rule{ID: "ERR-pattern-class", Props: []string{"C19", "C12"}, Min: 2,
		Doc: "G (sibling agreement): a pattern that is not a regular expression is a SyntaxError (ES5 15.10.4.1), whichever of the two compilers rejects it. In every function of package otto that compiles a script-supplied pattern, the failure branch of each compiler call (parser.TransformRegExp, regexp.Compile: the region dominated by `err != nil` for the error it returned) raises through the SyntaxError constructor; a TypeError there is allowed only beside it, for the valid-but-unsupported patterns (lookahead, backreference) that the transformer reports with a non-empty result. `new RegExp(\"(\")` must be catchable as a SyntaxError like the literal `/(/`",
		Run: ruleErrPatternClass})
	register(&Rule{ID: "ERR-is-target", Props: []string{"C19"}, Min: 3,
		Doc: "G: errors.Is compares with == (no error type of the module defines an Is method), so a target that is the address of a fresh local can never match and the branch it guards is dead: parseThrow's ReferenceError branch for `invalid left-hand side in assignment` hangs on such a test, so eval(\"42 = 42\") raises a SyntaxError. Every errors.Is target is a package-level sentinel or a value that can be identical to the error; errors.As targets are addresses",
		Run: ruleErrIsTarget})
}

// variadicElems returns the values stored in the variadic slice built at a call site.
// known=false when the slice is forwarded or built in a way we do not follow.
func variadicElems(arg ssa.Value) (elems []ssa.Value, known bool) {
	switch x := arg.(type) {
	case *ssa.Const:
		if x.Value == nil {
			return nil, true
		}
	case *ssa.Slice:
		al, ok := x.X.(*ssa.Alloc)
		if !ok {
			return nil, false
		}
		pt, ok := al.Type().Underlying().(*types.Pointer)
		if !ok {
			return nil, false
		}
		arr, ok := pt.Elem().Underlying().(*types.Array)
		if !ok {
			return nil, false
		}
		out := make([]ssa.Value, arr.Len())
		for _, ref := range *al.Referrers() {
			ia, ok := ref.(*ssa.IndexAddr)
			if !ok {
				continue
			}
			idx, ok := constInt(ia.Index)
			if !ok || idx < 0 || idx >= arr.Len() {
				return nil, false
			}
			for _, r2 := range *ia.Referrers() {
				if st, ok := r2.(*ssa.Store); ok && st.Addr == ia {
					out[idx] = st.Val
				}
			}
		}
		for _, v := range out {
			if v == nil {
				return nil, false
			}
		}
		return out, true
	}
	return nil, false
}

func unwrapIface(v ssa.Value) ssa.Value {
	for {
		switch x := v.(type) {
		case *ssa.MakeInterface:
			v = x.X
		case *ssa.ChangeType:
			v = x.X
		default:
			return v
		}
	}
}

func isAtType(t types.Type) bool { return typeIs(t, ottoPath, "at") }

// constString reports whether v is a compile-time constant string (or a phi of such).
func constString(v ssa.Value, seen map[ssa.Value]bool) (string, bool) {
	if seen[v] {
		return "", true
	}
	seen[v] = true
	switch x := v.(type) {
	case *ssa.Const:
		if x.Value != nil && x.Value.Kind() == constant.String {
			return constant.StringVal(x.Value), true
		}
	case *ssa.Phi:
		s := ""
		for _, e := range x.Edges {
			es, ok := constString(e, seen)
			if !ok {
				return "", false
			}
			if es != "" {
				s = es
			}
		}
		return s, true
	}
	return "", false
}

var errMessageReviewed = map[string]string{
	"(*runtime).newErrorObject": "the script-facing constructors: `new Error()` without an argument has no own message (ES5 15.11.2.1); the branch is taken only when the message Value is undefined, and the interpreter's own raises go through panicXError with a description",
}

// raiserFamily: newError (variadic index = last param) plus every function forwarding its own variadic parameter to one.
func raiserFamily(c *Ctx) map[*ssa.Function]bool {
	fam := map[*ssa.Function]bool{}
	for _, fn := range c.AllSrcFuncs("") {
		if fn.Name() == "newError" && fn.Signature.Recv() == nil && fn.Signature.Variadic() {
			fam[fn] = true
		}
	}
	for changed := true; changed; {
		changed = false
		for _, fn := range c.AllSrcFuncs("") {
			if fam[fn] || !fn.Signature.Variadic() || len(fn.Params) == 0 {
				continue
			}
			vp := fn.Params[len(fn.Params)-1]
			for _, b := range fn.Blocks {
				for _, ins := range b.Instrs {
					call, ok := ins.(ssa.CallInstruction)
					if !ok {
						continue
					}
					cal := call.Common().StaticCallee()
					if cal == nil || !fam[cal] {
						continue
					}
					args := call.Common().Args
					if len(args) > 0 && args[len(args)-1] == ssa.Value(vp) {
						fam[fn] = true
						changed = true
					}
				}
			}
		}
	}
	return fam
}

type raiseSite struct {
	fn     *ssa.Function
	call   ssa.CallInstruction
	callee *ssa.Function
	elems  []ssa.Value // without the trailing at
	known  bool
}

func raiseSites(c *Ctx) ([]raiseSite, map[*ssa.Function]bool) {
	fam := raiserFamily(c)
	var out []raiseSite
	for _, fn := range c.AllSrcFuncs("") {
		for _, b := range fn.Blocks {
			for _, ins := range b.Instrs {
				call, ok := ins.(ssa.CallInstruction)
				if !ok {
					continue
				}
				cal := call.Common().StaticCallee()
				if cal == nil || !fam[cal] {
					continue
				}
				args := call.Common().Args
				last := args[len(args)-1]
				if fam[fn] && len(fn.Params) > 0 && last == ssa.Value(fn.Params[len(fn.Params)-1]) {
					continue // the family's own forwarding call
				}
				elems, known := variadicElems(last)
				if known && len(elems) > 0 && isAtType(unwrapIface(elems[len(elems)-1]).Type()) {
					elems = elems[:len(elems)-1]
				}
				out = append(out, raiseSite{fn, call, cal, elems, known})
			}
		}
	}
	return out, fam
}

func ruleErrMessage(c *Ctx, r *R) {
	sites, fam := raiseSites(c)
	if len(fam) < 5 {
		r.undecided("unresolved:family", "-", fmt.Sprintf("UNRESOLVED: raiser family has %d members (newError and the panicXError wrappers expected)", len(fam)))
		return
	}
	ord := map[string]int{}
	for _, s := range sites {
		base := fmt.Sprintf("%s->%s", ssaFuncName(s.fn), s.callee.Name())
		site := c.Pos(instrPos(s.call))
		if !s.known {
			ord[base+":dynamic"]++
			r.undecided(fmt.Sprintf("%s:dynamic#%d", base, ord[base+":dynamic"]), site, "UNDECIDED: the argument list of this raise is not built at the call site")
			continue
		}
		if why, ok := errMessageReviewed[ssaFuncName(s.fn)]; ok && len(s.elems) == 0 {
			ord[base+":reviewed"]++
			r.ok(fmt.Sprintf("reviewed:%s#%d", base, ord[base+":reviewed"]), site, why)
			continue
		}
		if len(s.elems) == 0 {
			ord[base+":nomessage"]++
			r.bad(fmt.Sprintf("%s:nomessage#%d", base, ord[base+":nomessage"]), site,
				fmt.Sprintf("%s raises through %s without a description: the error object's message is undefined and Run reports the bare class name, where C19 requires a non-empty message", ssaFuncName(s.fn), s.callee.Name()))
			continue
		}
		d := unwrapIface(s.elems[0])
		if str, ok := constString(d, map[ssa.Value]bool{}); ok && str == "" {
			ord[base+":empty"]++
			r.bad(fmt.Sprintf("%s:empty#%d", base, ord[base+":empty"]), site, fmt.Sprintf("%s raises through %s with the empty string as description", ssaFuncName(s.fn), s.callee.Name()))
			continue
		}
		if b, ok := d.Type().Underlying().(*types.Basic); !ok || b.Info()&types.IsString == 0 {
			ord[base+":nonstring"]++
			r.bad(fmt.Sprintf("%s:nonstring#%d", base, ord[base+":nonstring"]), site, fmt.Sprintf("%s passes a %s as the description; newError asserts in[0].(string) and panics in the host", ssaFuncName(s.fn), typeStr(d.Type())))
			continue
		}
		ord[base]++
		r.ok(fmt.Sprintf("%s#%d", base, ord[base]), site, "description supplied")
	}
}

// lenGuarded reports whether `use` executes only when len(v) > 0: a dominating branch on len(v) compared with 0.
func lenGuarded(fn *ssa.Function, v ssa.Value, use ssa.Instruction) bool {
	for _, b := range fn.Blocks {
		iff, ok := b.Instrs[len(b.Instrs)-1].(*ssa.If)
		if !ok {
			continue
		}
		cmp, ok := iff.Cond.(*ssa.BinOp)
		if !ok {
			continue
		}
		isLen := func(x ssa.Value) bool {
			c, ok := x.(*ssa.Call)
			if !ok {
				return false
			}
			bi, ok := c.Call.Value.(*ssa.Builtin)
			return ok && bi.Name() == "len" && len(c.Call.Args) == 1 && c.Call.Args[0] == v
		}
		zero := func(x ssa.Value) bool { n, ok := constInt(x); return ok && n == 0 }
		side := -1
		switch {
		case isLen(cmp.X) && zero(cmp.Y):
			switch cmp.Op.String() {
			case ">", "!=":
				side = 0
			case "==", "<=":
				side = 1
			}
		case zero(cmp.X) && isLen(cmp.Y):
			switch cmp.Op.String() {
			case "<", "!=":
				side = 0
			case "==", ">=":
				side = 1
			}
		}
		if side < 0 {
			continue
		}
		if s := b.Succs[side]; len(s.Preds) == 1 && s.Dominates(use.Block()) {
			return true
		}
	}
	return false
}

// formatSafeEmpty computes, for the printf-like functions of the module, whether a call with an empty argument list
// leaves the format unformatted: every formatter call inside that receives the function's variadic list is guarded by
// len(list) > 0 or goes to a function that is itself safe.
func formatSafeEmpty(c *Ctx, fam map[*ssa.Function]int, raisers map[*ssa.Function]bool) map[*ssa.Function]bool {
	safe := map[*ssa.Function]bool{}
	isFormatter := func(f *ssa.Function) bool {
		if f == nil {
			return false
		}
		if _, ok := fam[f]; ok {
			return true
		}
		if raisers[f] {
			return true
		}
		if f.Pkg != nil && f.Pkg.Pkg.Path() == "fmt" {
			switch f.Name() {
			case "Sprintf", "Errorf", "Printf", "Fprintf":
				return true
			}
		}
		return false
	}
	members := []*ssa.Function{}
	for f := range fam {
		members = append(members, f)
	}
	for f := range raisers {
		if _, ok := fam[f]; !ok {
			members = append(members, f)
		}
	}
	for changed := true; changed; {
		changed = false
		for _, fn := range members {
			if safe[fn] {
				continue
			}
			ok, n := true, 0
			for _, b := range fn.Blocks {
				for _, ins := range b.Instrs {
					call, isCall := ins.(ssa.CallInstruction)
					if !isCall {
						continue
					}
					cal := call.Common().StaticCallee()
					if !isFormatter(cal) || !takesArgList(cal) {
						continue
					}
					args := call.Common().Args
					list := args[len(args)-1]
					if _, built := list.(*ssa.Slice); built {
						if _, isAlloc := list.(*ssa.Slice).X.(*ssa.Alloc); isAlloc {
							continue // a list built here: this function's own message, judged as a site
						}
					}
					if cst, isC := list.(*ssa.Const); isC && cst.Value == nil {
						continue
					}
					n++
					if safe[cal] || lenGuarded(fn, list, call) {
						continue
					}
					ok = false
				}
			}
			if ok && n > 0 {
				safe[fn] = true
				changed = true
			}
		}
	}
	return safe
}

// takesArgList: the last parameter is an argument list - variadic, or a plain []interface{} (a helper that is handed the
// list of its variadic caller).
func takesArgList(fn *ssa.Function) bool {
	if fn.Signature.Variadic() {
		return true
	}
	ps := fn.Signature.Params()
	if ps.Len() == 0 {
		return false
	}
	sl, ok := ps.At(ps.Len() - 1).Type().Underlying().(*types.Slice)
	if !ok {
		return false
	}
	it, ok := sl.Elem().Underlying().(*types.Interface)
	return ok && it.Empty()
}

// sameLenCopyOf: v is a slice made with the length of the parameter list p (`args := make([]interface{}, len(in))`, filled
// from it element by element): empty exactly when p is, and formatted with the same format.
func sameLenCopyOf(v ssa.Value, p *ssa.Parameter) bool {
	if sl, ok := v.(*ssa.Slice); ok && sl.Low == nil && sl.High == nil {
		v = sl.X
	}
	mk, ok := v.(*ssa.MakeSlice)
	if !ok {
		return false
	}
	call, ok := mk.Len.(*ssa.Call)
	if !ok {
		return false
	}
	bi, ok := call.Call.Value.(*ssa.Builtin)
	return ok && bi.Name() == "len" && len(call.Call.Args) == 1 && call.Call.Args[0] == ssa.Value(p)
}

// printfFamily maps a function to the index of its format parameter (the variadic list is the last parameter).
func printfFamily(c *Ctx) map[*ssa.Function]int {
	fam := map[*ssa.Function]int{}
	isFmtSeed := func(f *ssa.Function) (int, bool) {
		if f == nil || f.Pkg == nil || f.Pkg.Pkg.Path() != "fmt" {
			return 0, false
		}
		switch f.Name() {
		case "Sprintf", "Errorf", "Printf":
			return 0, true
		case "Fprintf", "Appendf":
			return 1, true
		}
		return 0, false
	}
	for changed := true; changed; {
		changed = false
		for _, fn := range c.AllSrcFuncs("", "parser", "file", "ast", "token") {
			if _, in := fam[fn]; in || !takesArgList(fn) || len(fn.Params) < 2 {
				continue
			}
			vp := fn.Params[len(fn.Params)-1]
			for _, b := range fn.Blocks {
				for _, ins := range b.Instrs {
					call, ok := ins.(ssa.CallInstruction)
					if !ok {
						continue
					}
					cal := call.Common().StaticCallee()
					fi, ok := isFmtSeed(cal)
					if !ok {
						if cal == nil {
							continue
						}
						if fi, ok = fam[cal]; !ok {
							continue
						}
					}
					args := call.Common().Args
					if len(args) == 0 || (args[len(args)-1] != ssa.Value(vp) && !sameLenCopyOf(args[len(args)-1], vp)) || fi >= len(args) {
						continue
					}
					for pi, p := range fn.Params {
						if args[fi] == ssa.Value(p) {
							fam[fn] = pi
							changed = true
						}
					}
				}
			}
		}
	}
	return fam
}

func ruleFormatConst(c *Ctx, r *R) {
	ord := map[string]int{}
	fam := printfFamily(c)
	sites, raisers := raiseSites(c)
	safe := formatSafeEmpty(c, fam, raisers)
	report := func(fn *ssa.Function, call ssa.CallInstruction, callee *ssa.Function, format ssa.Value, nargs int, known bool) {
		calleeName := callee.Name()
		if callee.Pkg != nil && callee.Pkg.Pkg.Path() == "fmt" {
			calleeName = "fmt." + calleeName
		}
		base := fmt.Sprintf("%s->%s", ssaFuncName(fn), calleeName)
		site := c.Pos(instrPos(call))
		if _, ok := constString(format, map[ssa.Value]bool{}); ok {
			ord[base]++
			r.ok(fmt.Sprintf("%s#%d", base, ord[base]), site, "constant format")
			return
		}
		if !known || nargs > 0 {
			ord[base+":dynamic"]++
			r.ok(fmt.Sprintf("%s:dynamic#%d", base, ord[base+":dynamic"]), site, "computed format used with arguments: a deliberate format, not data")
			return
		}
		if safe[callee] {
			ord[base+":text"]++
			r.ok(fmt.Sprintf("%s:text#%d", base, ord[base+":text"]), site, "run-time text with no arguments: "+calleeName+" formats only when arguments are present (len guard on every path to the formatter)")
			return
		}
		ord[base+":data"]++
		r.bad(fmt.Sprintf("%s:data#%d", base, ord[base+":data"]), site,
			fmt.Sprintf("%s passes run-time text as the printf format of %s with no arguments: every '%%' in it is interpreted as a verb and the reported message is garbled (\"%%!(MISSING)\"/\"%%!v(NOVERB)\"); pass \"%%s\" and the text", ssaFuncName(fn), calleeName))
	}
	// the newError family: format is the first variadic element
	for _, s := range sites {
		if !s.known || len(s.elems) == 0 {
			continue
		}
		report(s.fn, s.call, s.callee, unwrapIface(s.elems[0]), len(s.elems)-1, true)
	}
	// ordinary printf-like functions
	names := []string{}
	for f := range fam {
		names = append(names, ssaFuncName(f))
	}
	sort.Strings(names)
	safeNames := []string{}
	for f := range safe {
		safeNames = append(safeNames, ssaFuncName(f))
	}
	sort.Strings(safeNames)
	r.ok("family", "-", fmt.Sprintf("printf-like functions of the module (format parameter forwarded to fmt): %v; of these and the raisers, text-safe without arguments: %v", names, safeNames))
	for _, fn := range c.AllSrcFuncs("", "parser", "file", "ast", "token") {
		for _, b := range fn.Blocks {
			for _, ins := range b.Instrs {
				call, ok := ins.(ssa.CallInstruction)
				if !ok {
					continue
				}
				cal := call.Common().StaticCallee()
				if cal == nil {
					continue
				}
				fi := -1
				if i, ok := fam[cal]; ok {
					fi = i
				} else if cal.Pkg != nil && cal.Pkg.Pkg.Path() == "fmt" {
					switch cal.Name() {
					case "Sprintf", "Errorf", "Printf":
						fi = 0
					case "Fprintf":
						fi = 1
					}
				}
				if fi < 0 {
					continue
				}
				args := call.Common().Args
				if fi >= len(args) {
					continue
				}
				// a family member forwarding its own format parameter is the family's plumbing
				if _, ok := fam[fn]; ok {
					if p, isP := args[fi].(*ssa.Parameter); isP && p == fn.Params[fam[fn]] {
						continue
					}
				}
				elems, known := variadicElems(args[len(args)-1])
				report(fn, call, cal, args[fi], len(elems), known)
			}
		}
	}
}

func ruleErrIsTarget(c *Ctx, r *R) {
	// no error type of the module defines Is: checked so that == is the comparison errors.Is performs
	for _, p := range c.Pkgs {
		if !strings.HasPrefix(p.PkgPath, ottoPath) {
			continue
		}
		sc := p.Types.Scope()
		for _, n := range sc.Names() {
			tn, ok := sc.Lookup(n).(*types.TypeName)
			if !ok {
				continue
			}
			for _, t := range []types.Type{tn.Type(), types.NewPointer(tn.Type())} {
				ms := types.NewMethodSet(t)
				if sel := ms.Lookup(p.Types, "Is"); sel != nil {
					r.undecided("is-method:"+tn.Name(), c.Pos(sel.Obj().Pos()), "UNDECIDED: type "+tn.Name()+" defines an Is method; errors.Is is no longer plain identity and this rule must be revisited")
				}
			}
		}
	}
	ord := map[string]int{}
	for _, fn := range c.AllSrcFuncs("", "parser", "file", "ast", "token") {
		for _, b := range fn.Blocks {
			for _, ins := range b.Instrs {
				call, ok := ins.(ssa.CallInstruction)
				if !ok {
					continue
				}
				cal := call.Common().StaticCallee()
				if cal == nil || cal.Pkg == nil || cal.Pkg.Pkg.Path() != "errors" || (cal.Name() != "Is" && cal.Name() != "As") {
					continue
				}
				tgt := unwrapIface(call.Common().Args[1])
				base := fmt.Sprintf("%s:errors.%s", ssaFuncName(fn), cal.Name())
				ord[base]++
				key := fmt.Sprintf("%s#%d", base, ord[base])
				site := c.Pos(instrPos(call))
				_, isLocalAddr := tgt.(*ssa.Alloc)
				switch {
				case cal.Name() == "Is" && isLocalAddr:
					r.bad(key, site, fmt.Sprintf("%s tests errors.Is(err, &local): the address of a fresh local is identical to no error, so the guarded branch is dead (errors.As was meant). In parseThrow this is the branch that raises ReferenceError for an invalid assignment target and that strips the position prefix from SyntaxError messages", ssaFuncName(fn)))
				case cal.Name() == "As" && !isLocalAddr:
					if _, isPtr := tgt.Type().Underlying().(*types.Pointer); !isPtr {
						r.bad(key, site, "errors.As target is not a pointer: errors.As panics")
					} else {
						r.ok(key, site, "errors.As with a pointer target")
					}
				default:
					r.ok(key, site, "target can be identical to the error (sentinel or value) / address for As")
				}
			}
		}
	}
}

func ruleErrPatternClass(c *Ctx, r *R) {
	n := 0
	for _, fn := range c.AllSrcFuncs("") {
		ord := 0
		for _, b := range fn.Blocks {
			for _, ins := range b.Instrs {
				call, ok := ins.(*ssa.Call)
				if !ok {
					continue
				}
				callee := call.Call.StaticCallee()
				if callee == nil || callee.Pkg == nil {
					continue
				}
				name := callee.Pkg.Pkg.Path() + "." + callee.Name()
				if name != ottoPath+"/parser.TransformRegExp" && name != "regexp.Compile" {
					continue
				}
				// the pattern must not be a constant (module-internal helper patterns)
				if _, isConst := call.Call.Args[0].(*ssa.Const); isConst {
					continue
				}
				// a literal string quoted with regexp.QuoteMeta is not a pattern
				if qc, ok := call.Call.Args[0].(*ssa.Call); ok {
					if q := qc.Call.StaticCallee(); q != nil && q.Pkg != nil && q.Pkg.Pkg.Path() == "regexp" && q.Name() == "QuoteMeta" {
						continue
					}
				}
				ord++
				n++
				key := fmt.Sprintf("%s:%s#%d", ssaFuncName(fn), callee.Name(), ord)
				site := c.Pos(instrPos(call))
				// err = extract #1; region dominated by the true edge of err != nil
				var region []*ssa.BasicBlock
				for _, ref := range *call.Referrers() {
					ex, ok := ref.(*ssa.Extract)
					if !ok || ex.Index != 1 {
						continue
					}
					for _, r2 := range *ex.Referrers() {
						bo, ok := r2.(*ssa.BinOp)
						if !ok || !isNilConst(bo.Y) {
							continue
						}
						for _, r3 := range *bo.Referrers() {
							iff, ok := r3.(*ssa.If)
							if !ok {
								continue
							}
							succ := iff.Block().Succs[0]
							if bo.Op == token.EQL {
								succ = iff.Block().Succs[1]
							}
							for _, bb := range fn.Blocks {
								if succ.Dominates(bb) && len(succ.Preds) == 1 {
									region = append(region, bb)
								}
							}
						}
					}
				}
				if len(region) == 0 {
					r.bad(key, site, fmt.Sprintf("%s: the error of %s is not tested with `err != nil`: an invalid pattern is not reported", ssaFuncName(fn), callee.Name()))
					continue
				}
				var ctors []string
				syntax := false
				for _, bb := range region {
					for _, i2 := range bb.Instrs {
						if c2, ok := i2.(*ssa.Call); ok {
							if ce := c2.Call.StaticCallee(); ce != nil && strings.HasPrefix(ce.Name(), "panic") && strings.HasSuffix(ce.Name(), "Error") {
								ctors = append(ctors, ce.Name())
								if ce.Name() == "panicSyntaxError" {
									syntax = true
								}
							}
						}
					}
				}
				if syntax {
					r.ok(key, site, fmt.Sprintf("the failure branch raises through panicSyntaxError (constructors used there: %v)", ctors))
				} else {
					r.bad(key, site, fmt.Sprintf("%s: when %s rejects the pattern the failure branch raises only %v: `new RegExp(\"(\")` is not a SyntaxError (ES5 15.10.4.1), although the literal `/(/` and patterns rejected by the other compiler are", ssaFuncName(fn), callee.Name(), ctors))
				}
			}
		}
	}
	r.note("compiler-calls", n)
}
