package main

import (
	"fmt"
	"go/types"
	"sort"
	"strings"

	"golang.org/x/tools/go/ssa"
)

func init() {
	register(&Rule{ID: "OWN-global", Props: []string{"C20", "C17", "C09", "C10", "C15", "C16"}, Min: 30,
		Doc: "O: no package-level variable of the core packages is stored to, and no map/slice/struct reachable through one is updated, outside package initialisation; no package-level variable has a synchronisation/cache type (sync.*, atomic.*): runtimes share no mutable state through globals",
		Run: ruleOwnGlobal})
	register(&Rule{ID: "OWN-node", Props: []string{"C01", "C17", "C20"}, Min: 30,
		Doc: "O: no field of a compiled node type (and no element of a slice held in one) is stored to outside the compile functions, and package otto never stores into ast.* or file.* objects: a Script/Program is never modified by execution",
		Run: ruleOwnNode})
	register(&Rule{ID: "OWN-proptable", Props: []string{"C07"}, Min: 4,
		Doc: "O: object.property (map) and object.propertyOrder (slice) are written only by the primitive writers (the functions installed as the table's write/delete primitives, construction and clone), and each writer that adds or removes a key updates both",
		Run: ruleOwnPropTable})
	register(&Rule{ID: "NO-concurrency", Props: []string{"C20"}, Min: 1,
		Doc: "O: the core packages start no goroutine and create no channel; the only channel operation is the receive on Otto.Interrupt",
		Run: ruleNoConcurrency})
	register(&Rule{ID: "PROTO-acyclic", Props: []string{"C02", "C07"}, Min: 10,
		Doc: "O: object.prototype is stored only on an object created in the same function (or an intrinsic being assembled), so prototype chains are finite and acyclic and every prototype walk terminates",
		Run: ruleProtoAcyclic})
}

var ownPkgs = []string{"", "parser", "ast", "file", "token", "registry"}

// rootGlobal follows FieldAddr/IndexAddr/loads/Slice back to a package-level variable.
func rootGlobal(v ssa.Value, depth int) *ssa.Global {
	if depth > 8 || v == nil {
		return nil
	}
	switch x := v.(type) {
	case *ssa.Global:
		return x
	case *ssa.FieldAddr:
		return rootGlobal(x.X, depth+1)
	case *ssa.IndexAddr:
		return rootGlobal(x.X, depth+1)
	case *ssa.Field:
		return rootGlobal(x.X, depth+1)
	case *ssa.Index:
		return rootGlobal(x.X, depth+1)
	case *ssa.Lookup:
		return rootGlobal(x.X, depth+1)
	case *ssa.Slice:
		return rootGlobal(x.X, depth+1)
	case *ssa.UnOp:
		return rootGlobal(x.X, depth+1)
	case *ssa.ChangeType:
		return rootGlobal(x.X, depth+1)
	case *ssa.Convert:
		return rootGlobal(x.X, depth+1)
	case *ssa.Phi:
		for _, e := range x.Edges {
			if g := rootGlobal(e, depth+1); g != nil {
				return g
			}
		}
	}
	return nil
}

func isCoreGlobal(c *Ctx, g *ssa.Global) bool {
	if g == nil || g.Pkg == nil {
		return false
	}
	p := g.Pkg.Pkg.Path()
	for _, suf := range ownPkgs {
		q := ottoPath
		if suf != "" {
			q += "/" + suf
		}
		if p == q {
			return true
		}
	}
	return false
}

func isPkgInit(fn *ssa.Function) bool {
	for f := fn; f != nil; f = f.Parent() {
		if f.Name() == "init" && f.Signature.Recv() == nil && f.Parent() == nil {
			return true
		}
		if strings.HasPrefix(f.Name(), "init#") {
			return true
		}
	}
	return false
}

// Functions that may write package-level state, with the reason (host-side registration API that script execution cannot reach).
var ownGlobalWriterExempt = map[string]string{
	"registry.Register":         "host-side registration API called from package init of extension packages (underscore); not reachable from script execution (checked on the call graph in the thorough tier)",
	"registry.(*Entry).Enable":  "host-side API",
	"registry.(*Entry).Disable": "host-side API",
	"registry.Apply":            "reads only",
}

func typeFromSyncPkg(t types.Type) string {
	seen := map[types.Type]bool{}
	var walk func(t types.Type, depth int) string
	walk = func(t types.Type, depth int) string {
		if depth > 4 || seen[t] {
			return ""
		}
		seen[t] = true
		switch x := t.(type) {
		case *types.Named:
			if x.Obj().Pkg() != nil && (x.Obj().Pkg().Path() == "sync" || x.Obj().Pkg().Path() == "sync/atomic") {
				return x.Obj().Pkg().Path() + "." + x.Obj().Name()
			}
			if x.Obj().Pkg() == nil || !strings.HasPrefix(x.Obj().Pkg().Path(), ottoPath) {
				// a library type (regexp.Regexp, strings.Replacer, time.Location ...): its internals are its own business;
				// the assumption that the documented concurrency-safe ones are safe is stated in the evidence
				return ""
			}
			return walk(x.Underlying(), depth+1)
		case *types.Pointer:
			return walk(x.Elem(), depth+1)
		case *types.Struct:
			for i := 0; i < x.NumFields(); i++ {
				if s := walk(x.Field(i).Type(), depth+1); s != "" {
					return s
				}
			}
		case *types.Map:
			return walk(x.Elem(), depth+1)
		case *types.Slice:
			return walk(x.Elem(), depth+1)
		case *types.Array:
			return walk(x.Elem(), depth+1)
		}
		return ""
	}
	return walk(t, 0)
}

func ruleOwnGlobal(c *Ctx, r *R) {
	// census of globals
	type ginfo struct {
		g      *ssa.Global
		writes []string
	}
	globals := map[*ssa.Global]*ginfo{}
	var order []*ssa.Global
	for _, suf := range ownPkgs {
		sp := c.SSAPkgs[c.Pkg(suf).PkgPath]
		if sp == nil {
			continue
		}
		for _, m := range sp.Members {
			if g, ok := m.(*ssa.Global); ok && !strings.HasPrefix(g.Name(), "init$") {
				globals[g] = &ginfo{g: g}
				order = append(order, g)
			}
		}
	}
	sort.Slice(order, func(i, j int) bool { return order[i].String() < order[j].String() })
	for _, fn := range c.AllSrcFuncs(ownPkgs...) {
		if isPkgInit(fn) {
			continue
		}
		fname := ssaFuncName(fn)
		if _, ok := ownGlobalWriterExempt[fname]; ok {
			continue
		}
		for _, b := range fn.Blocks {
			for _, ins := range b.Instrs {
				var g *ssa.Global
				what := ""
				switch x := ins.(type) {
				case *ssa.Store:
					g = rootGlobal(x.Addr, 0)
					what = "store"
				case *ssa.MapUpdate:
					g = rootGlobal(x.Map, 0)
					what = "map update"
				case ssa.CallInstruction:
					cc := x.Common()
					// method call on a sync-typed global (Pool.Get/Put, Map.Store, Mutex.Lock ...)
					if callee := cc.StaticCallee(); callee != nil && callee.Pkg != nil && (callee.Pkg.Pkg.Path() == "sync" || callee.Pkg.Pkg.Path() == "sync/atomic") && len(cc.Args) > 0 {
						g = rootGlobal(cc.Args[0], 0)
						what = "call of " + callee.Name()
					}
					// builtin delete(m, k) / clear
					if bi, ok := cc.Value.(*ssa.Builtin); ok && (bi.Name() == "delete" || bi.Name() == "clear") && len(cc.Args) > 0 {
						g = rootGlobal(cc.Args[0], 0)
						what = bi.Name()
					}
				}
				if g != nil && isCoreGlobal(c, g) && globals[g] != nil {
					globals[g].writes = append(globals[g].writes, fmt.Sprintf("%s in %s at %s", what, fname, c.Pos(instrPos(ins))))
				}
			}
		}
	}
	for _, g := range order {
		gi := globals[g]
		key := strings.TrimPrefix(g.String(), ottoPath)
		key = strings.TrimPrefix(key, "/")
		site := c.Pos(g.Pos())
		elem := g.Type().(*types.Pointer).Elem()
		if s := typeFromSyncPkg(elem); s != "" {
			r.bad("sync-typed:"+key, site, fmt.Sprintf("package-level variable of type %s holds %s: process-wide mutable state shared by every runtime (a cache/pool/lock at package level couples independent runtimes)", elem, s))
			continue
		}
		if len(gi.writes) > 0 {
			r.bad("written:"+key, site, fmt.Sprintf("package-level variable is modified after initialisation: %s. Every runtime (and every goroutine) shares it", strings.Join(gi.writes, "; ")))
			continue
		}
		r.ok("immutable:"+key, site, "no store, map update or sync call outside package initialisation")
	}
	for _, fname := range sortedKeys(ownGlobalWriterExempt) {
		r.ok("exempt-writer:"+fname, "-", ownGlobalWriterExempt[fname])
	}
}

func ruleOwnNode(c *Ctx, r *R) {
	_, ei, _, si := ottoNodeIfaces(c)
	if ei == nil || si == nil {
		r.undecided("anchors", "-", "UNRESOLVED node interfaces")
		return
	}
	nodeTypes := map[*types.TypeName]bool{}
	for _, i := range []*types.Interface{ei, si} {
		for _, n := range c.implementors(i, "") {
			nodeTypes[n.Obj()] = true
		}
	}
	for _, extra := range []string{"nodeProgram", "nodeProperty"} {
		if n := c.LookupType("", extra); n != nil {
			nodeTypes[n.Obj()] = true
		}
	}
	isProtected := func(n *types.Named) (string, bool) {
		if n == nil {
			return "", false
		}
		if nodeTypes[n.Obj()] {
			return "compiled node " + n.Obj().Name(), true
		}
		if n.Obj().Pkg() != nil {
			switch n.Obj().Pkg().Path() {
			case ottoPath + "/ast":
				return "ast." + n.Obj().Name(), true
			case ottoPath + "/file":
				return "file." + n.Obj().Name(), true
			}
		}
		return "", false
	}
	// base struct type of an address (through FieldAddr / IndexAddr of slices loaded from fields)
	var ownerOf func(v ssa.Value, depth int) *types.Named
	ownerOf = func(v ssa.Value, depth int) *types.Named {
		if depth > 6 || v == nil {
			return nil
		}
		switch x := v.(type) {
		case *ssa.FieldAddr:
			if n, _ := fieldOfAddr(x); n != nil {
				if _, ok := isProtected(n); ok {
					return n
				}
			}
			return ownerOf(x.X, depth+1)
		case *ssa.IndexAddr:
			return ownerOf(x.X, depth+1)
		case *ssa.UnOp:
			return ownerOf(x.X, depth+1)
		case *ssa.Slice:
			return ownerOf(x.X, depth+1)
		}
		return nil
	}
	freshAlloc := func(v ssa.Value) bool {
		for d := 0; d < 6 && v != nil; d++ {
			switch x := v.(type) {
			case *ssa.Alloc:
				return true
			case *ssa.FieldAddr:
				v = x.X
			case *ssa.IndexAddr:
				v = x.X
			default:
				return false
			}
		}
		return false
	}
	nStores := 0
	perFunc := map[string]int{}
	for _, fn := range c.AllSrcFuncs("") {
		compilerFn := isCompilerFunc(fn)
		for _, b := range fn.Blocks {
			for _, ins := range b.Instrs {
				var addr ssa.Value
				switch x := ins.(type) {
				case *ssa.Store:
					addr = x.Addr
				case *ssa.MapUpdate:
					addr = x.Map
				default:
					continue
				}
				n := ownerOf(addr, 0)
				if n == nil {
					continue
				}
				desc, _ := isProtected(n)
				nStores++
				site := c.Pos(instrPos(ins))
				fname := ssaFuncName(fn)
				if freshAlloc(addr) {
					perFunc[fname]++
					continue // initialising a node allocated in this function
				}
				isAstOrFile := strings.HasPrefix(desc, "ast.") || strings.HasPrefix(desc, "file.")
				if compilerFn && !isAstOrFile {
					perFunc[fname]++
					continue
				}
				if why, ok := ownNodeExempt[fname+":"+desc]; ok {
					r.ok("exempt:"+fname+":"+desc, site, why)
					continue
				}
				r.bad("store:"+fname+":"+desc, site, fmt.Sprintf("%s is written outside the compiler (%s): compiled programs are shared by every runtime that runs the Script, so execution must never modify them", desc, fname))
			}
		}
	}
	for _, f := range sortedKeys(perFunc) {
		r.ok("init-store:"+f, "-", fmt.Sprintf("%d store(s) initialising nodes the function itself allocated / compiler building the tree", perFunc[f]))
	}
	for tn := range nodeTypes {
		_ = tn
	}
	var names []string
	for tn := range nodeTypes {
		names = append(names, tn.Name())
	}
	sort.Strings(names)
	for _, n := range names {
		r.ok("protected:"+n, "-", "no store outside construction")
	}
	r.note("stores_examined", nStores)
}

var ownNodeExempt = map[string]string{}

func ruleOwnPropTable(c *Ctx, r *R) {
	writers := map[string]map[string][]string{} // func -> field -> sites
	for _, fn := range c.AllSrcFuncs("") {
		for _, b := range fn.Blocks {
			for _, ins := range b.Instrs {
				field := ""
				switch x := ins.(type) {
				case *ssa.Store:
					if isFieldAddr(x.Addr, "object", "property") {
						field = "property"
					} else if isFieldAddr(x.Addr, "object", "propertyOrder") {
						field = "propertyOrder"
					} else if ia, ok := x.Addr.(*ssa.IndexAddr); ok {
						if a := loadAddr(ia.X); a != nil && isFieldAddr(a, "object", "propertyOrder") {
							field = "propertyOrder[i]"
						}
					}
				case *ssa.MapUpdate:
					if a := loadAddr(x.Map); a != nil && isFieldAddr(a, "object", "property") {
						field = "property[k]"
					}
				case *ssa.Call:
					if bi, ok := x.Call.Value.(*ssa.Builtin); ok && bi.Name() == "delete" {
						if a := loadAddr(x.Call.Args[0]); a != nil && isFieldAddr(a, "object", "property") {
							field = "delete(property,k)"
						}
					}
				}
				if field == "" {
					continue
				}
				fname := ssaFuncName(fn)
				if writers[fname] == nil {
					writers[fname] = map[string][]string{}
				}
				writers[fname][field] = append(writers[fname][field], c.Pos(instrPos(ins)))
			}
		}
	}
	// allowed writers, by role
	allowed := map[string]string{}
	// (1) functions that build a fresh object (store into an Alloc) - recognised per site below
	// (2) the primitive writers: methods of object named by the objectClass-independent helpers
	for _, n := range []string{"(*object).writeProperty", "(*object).deleteProperty", "objectClone", "newObject", "(*runtime).newContext", "(*runtime).newConsole", "(*runtime).clone", "newContext"} {
		allowed[n] = "primitive writer / construction"
	}
	// (3) the functions installed as [[DefineOwnProperty]] / [[Delete]] in a class table, when the primitive is written
	// out in them (DEFINE-guards checks the extensible / configurable tests that must dominate such a write)
	for _, fn := range c.AllSrcFuncs("") {
		for _, b := range fn.Blocks {
			for _, ins := range b.Instrs {
				if st, ok := ins.(*ssa.Store); ok {
					if nt, f := fieldOfAddr(st.Addr); nt != nil && nt.Obj().Name() == "objectClass" {
						if impl, ok := st.Val.(*ssa.Function); ok {
							w := writers[ssaFuncName(impl)]
							switch {
							case w == nil:
							case f.Name() == "delete" && len(w["property[k]"]) == 0:
								allowed[ssaFuncName(impl)] = "the [[Delete]] of a class table"
							case f.Name() == "defineOwnProperty" && len(w["delete(property,k)"]) == 0:
								allowed[ssaFuncName(impl)] = "the [[DefineOwnProperty]] of a class table"
							}
						}
					}
				}
			}
		}
	}
	for _, fname := range sortedKeys(writers) {
		fields := writers[fname]
		var fl []string
		for f, sites := range fields {
			fl = append(fl, fmt.Sprintf("%s@%s", f, sites[0]))
		}
		sort.Strings(fl)
		_, ok := allowed[fname]
		r.check(ok, "writer:"+fname, strings.SplitN(fl[0], "@", 2)[1], "allowed writer: "+strings.Join(fl, ", "),
			fmt.Sprintf("%s writes the object's property table directly (%s). Only writeProperty/deleteProperty may: they keep the map and the order list in step and are reached only through [[DefineOwnProperty]]/[[Delete]] which enforce extensible/configurable", fname, strings.Join(fl, ", ")))
	}
	// pairing inside the primitive writers
	if w := writers["(*object).writeProperty"]; w != nil {
		r.check(len(w["property[k]"]) > 0 && len(w["propertyOrder"]) > 0, "pair:writeProperty", "object.go", "updates map and order", "writeProperty must update both the map and the order list")
	} else {
		r.undecided("pair:writeProperty", "-", "UNRESOLVED (*object).writeProperty")
	}
	// whoever removes a key from the map also removes it from the order list
	nDel := 0
	for _, fname := range sortedKeys(writers) {
		w := writers[fname]
		if len(w["delete(property,k)"]) == 0 {
			continue
		}
		nDel++
		key := "pair:deleteProperty"
		if fname != "(*object).deleteProperty" {
			key = "pair:delete:" + fname
		}
		r.check(len(w["propertyOrder"]) > 0, key, w["delete(property,k)"][0], "updates map and order", fname+" removes the key from the property map but not from the order list: the key is still enumerated")
	}
	if nDel == 0 {
		r.undecided("pair:deleteProperty", "-", "UNRESOLVED: no function removes a key from the property map")
	}
}

func ruleNoConcurrency(c *Ctx, r *R) {
	n := 0
	for _, fn := range c.AllSrcFuncs(ownPkgs...) {
		for _, b := range fn.Blocks {
			for _, ins := range b.Instrs {
				n++
				site := c.Pos(instrPos(ins))
				switch x := ins.(type) {
				case *ssa.Go:
					r.bad("go:"+ssaFuncName(fn), site, "goroutine started in a core package: interpreter state is not synchronised")
				case *ssa.MakeChan:
					r.bad("makechan:"+ssaFuncName(fn), site, "channel created in a core package")
				case *ssa.Send:
					r.bad("send:"+ssaFuncName(fn), site, "channel send in a core package")
				case *ssa.Select:
					for _, st := range x.States {
						a := loadAddr(st.Chan)
						r.check(a != nil && isFieldAddr(a, "Otto", "Interrupt") && st.Dir == types.RecvOnly, "select:"+ssaFuncName(fn), site, "receive on Otto.Interrupt", "select on a channel other than Otto.Interrupt")
					}
				case *ssa.UnOp:
					if x.Op.String() == "<-" {
						a := loadAddr(x.X)
						r.check(a != nil && isFieldAddr(a, "Otto", "Interrupt"), "recv:"+ssaFuncName(fn), site, "receive on Otto.Interrupt", "receive on a channel other than Otto.Interrupt")
					}
				}
			}
		}
	}
	r.ok("census", "-", fmt.Sprintf("%d instructions examined in %d packages", n, len(ownPkgs)))
}

func ruleProtoAcyclic(c *Ctx, r *R) {
	s := c.Shape()
	_ = s
	for _, fn := range c.AllSrcFuncs("") {
		for _, b := range fn.Blocks {
			for _, ins := range b.Instrs {
				st, ok := ins.(*ssa.Store)
				if !ok || !isFieldAddr(st.Addr, "object", "prototype") {
					continue
				}
				fa := st.Addr.(*ssa.FieldAddr)
				fname := ssaFuncName(fn)
				site := c.Pos(instrPos(ins))
				key := "store:" + fname
				if isNilConst(st.Val) {
					r.ok(key+":nil", site, "nil prototype")
					continue
				}
				if freshObject(fa.X, fn, 0) {
					r.ok(key, site, "prototype set on an object created in this function")
					continue
				}
				// a helper that finishes an object its callers have just created: every call site passes a fresh object
				if p, ok := fa.X.(*ssa.Parameter); ok {
					if c.argAtAllCallSites(p, func(a ssa.Value, site ssa.CallInstruction) bool {
						return freshObject(a, site.Parent(), 0)
					}, 0) {
						r.ok(key, site, "prototype set on a parameter that every call site binds to an object it has just created")
						continue
					}
				}
				// intrinsic assembly: the object is loaded from rt.global.* / rt.globalObject in newContext-like setup
				if a := loadAddr(fa.X); a != nil {
					if n, f := fieldOfAddr(a); n != nil && (n.Obj().Name() == "global" || (n.Obj().Name() == "runtime" && f.Name() == "globalObject")) {
						r.ok(key+":intrinsic", site, "intrinsic being assembled")
						continue
					}
				}
				r.bad(key, site, "object.prototype is stored on an object that was not created in this function: an existing object's chain can be re-linked, so a cycle (and a non-terminating property lookup) becomes possible")
			}
		}
	}
}

// freshObject: v is an *object produced in fn by an allocation or by a call of a constructor-like function
// (any function returning *object that is itself "fresh-returning").
func freshObject(v ssa.Value, fn *ssa.Function, depth int) bool {
	if depth > 12 {
		return false
	}
	switch x := v.(type) {
	case *ssa.Alloc:
		return true
	case *ssa.Call:
		callee := x.Call.StaticCallee()
		if callee == nil || callee.Blocks == nil {
			return false
		}
		return returnsFreshObject(callee, depth+1)
	case *ssa.Phi:
		for _, e := range x.Edges {
			if !freshObject(e, fn, depth+1) {
				return false
			}
		}
		return true
	case *ssa.UnOp:
		// load of a local variable cell (a variable captured by a closure lives in an Alloc)
		if cell, ok := x.X.(*ssa.Alloc); ok {
			n := 0
			for _, ref := range *cell.Referrers() {
				if st, ok := ref.(*ssa.Store); ok && st.Addr == ssa.Value(cell) {
					if !freshObject(st.Val, fn, depth+1) {
						return false
					}
					n++
				}
			}
			return n > 0
		}
		return false
	case *ssa.Parameter:
		// a clone output parameter: objectClone(in, out, clone) writes out.prototype where out was freshly allocated by the cloner
		return x.Name() == "out"
	}
	return false
}

func returnsFreshObject(fn *ssa.Function, depth int) bool {
	if depth > 12 || fn.Blocks == nil {
		return false
	}
	n := 0
	for _, b := range fn.Blocks {
		for _, ins := range b.Instrs {
			if ret, ok := ins.(*ssa.Return); ok {
				if len(ret.Results) == 0 || !freshObject(ret.Results[0], fn, depth) {
					return false
				}
				n++
			}
		}
	}
	return n > 0
}

func init() {
	register(&Rule{ID: "OWN-node-escape", Props: []string{"C01", "C20"}, Min: 10,
		Doc: "O: a slice or map loaded from a field of a compiled node is only read (ranged, indexed, measured, resliced, passed to callees that only read it): it is never stored into another structure, so no mutable alias of a compiled program's internals is handed to run-time objects",
		Run: ruleOwnNodeEscape})
}

// readOnlyUses: every use of v (a slice/map value) is a read; returns the first offending instruction otherwise.
func readOnlyUses(v ssa.Value, depth int, seen map[ssa.Value]bool) ssa.Instruction {
	if seen[v] {
		return nil
	}
	seen[v] = true
	refs := v.Referrers()
	if refs == nil {
		return nil
	}
	for _, ref := range *refs {
		switch x := ref.(type) {
		case *ssa.Range, *ssa.Lookup, *ssa.Index, *ssa.DebugRef:
		case *ssa.IndexAddr:
			// address of an element: must only be loaded
			for _, r2 := range *x.Referrers() {
				switch y := r2.(type) {
				case *ssa.UnOp:
				case *ssa.Store:
					if y.Addr == ssa.Value(x) {
						return y
					}
				case *ssa.DebugRef:
				default:
					return r2
				}
			}
		case *ssa.Slice:
			if bad := readOnlyUses(x, depth, seen); bad != nil {
				return bad
			}
		case *ssa.Phi:
			if bad := readOnlyUses(x, depth, seen); bad != nil {
				return bad
			}
		case *ssa.BinOp: // comparison with nil
		case *ssa.Store:
			if x.Val == v {
				// storing into a local variable cell is fine if the cell's loads are read-only too
				if cell, ok := x.Addr.(*ssa.Alloc); ok {
					if bad := cellReadOnly(cell, depth, seen); bad != nil {
						return bad
					}
					continue
				}
				return x
			}
		case ssa.CallInstruction:
			cc := x.Common()
			if bi, ok := cc.Value.(*ssa.Builtin); ok {
				switch bi.Name() {
				case "len", "cap":
					continue
				case "copy":
					if cc.Args[0] == v {
						return x // destination
					}
					continue
				case "append":
					if cc.Args[0] == v {
						return x // may write into spare capacity of the node's slice
					}
					continue
				}
				return x
			}
			callee := cc.StaticCallee()
			if callee == nil || callee.Blocks == nil || depth >= 3 {
				return x
			}
			for i, a := range cc.Args {
				if a != v {
					continue
				}
				if i < len(callee.Params) {
					if bad := readOnlyUses(callee.Params[i], depth+1, seen); bad != nil {
						return bad
					}
				}
			}
		case *ssa.Return:
			return x
		default:
			return ref
		}
	}
	return nil
}

func ruleOwnNodeEscape(c *Ctx, r *R) {
	_, ei, _, si := ottoNodeIfaces(c)
	if ei == nil || si == nil {
		r.undecided("anchors", "-", "UNRESOLVED node interfaces")
		return
	}
	nodeTypes := map[*types.TypeName]bool{}
	for _, i := range []*types.Interface{ei, si} {
		for _, n := range c.implementors(i, "") {
			nodeTypes[n.Obj()] = true
		}
	}
	for _, extra := range []string{"nodeProgram", "nodeProperty"} {
		if n := c.LookupType("", extra); n != nil {
			nodeTypes[n.Obj()] = true
		}
	}
	for _, fn := range c.AllSrcFuncs("") {
		if isCompilerFunc(fn) {
			continue
		}
		for _, b := range fn.Blocks {
			for _, ins := range b.Instrs {
				ld, ok := ins.(*ssa.UnOp)
				if !ok {
					continue
				}
				nt, f := fieldOfAddr(ld.X)
				if nt == nil || !nodeTypes[nt.Obj()] {
					continue
				}
				switch f.Type().Underlying().(type) {
				case *types.Slice, *types.Map:
				default:
					continue
				}
				if fa, ok := ld.X.(*ssa.FieldAddr); ok {
					if _, fresh := fa.X.(*ssa.Alloc); fresh {
						continue
					}
				}
				key := fmt.Sprintf("load:%s:%s.%s", ssaFuncName(fn), nt.Obj().Name(), f.Name())
				bad := readOnlyUses(ld, 0, map[ssa.Value]bool{})
				if bad == nil {
					r.ok(key, c.Pos(instrPos(ins)), "only read")
				} else {
					r.bad(key, c.Pos(instrPos(ins)), fmt.Sprintf("the %s held in compiled node field %s.%s escapes from read-only use at %s (%s in %s): run-time objects get a mutable alias of the compiled program, so running a script can change the Script for every later run and every runtime sharing it",
						f.Type(), nt.Obj().Name(), f.Name(), c.Pos(instrPos(bad)), describeInstr(bad), ssaFuncName(bad.Parent())))
				}
			}
		}
	}
}

// cellReadOnly: a local variable cell (possibly captured by closures) holding the value is only ever loaded for reading.
func cellReadOnly(cell ssa.Value, depth int, seen map[ssa.Value]bool) ssa.Instruction {
	refs := cell.Referrers()
	if refs == nil {
		return nil
	}
	for _, r2 := range *refs {
		switch y := r2.(type) {
		case *ssa.UnOp:
			if bad := readOnlyUses(y, depth, seen); bad != nil {
				return bad
			}
		case *ssa.Store:
			if y.Addr != cell {
				return y // the cell's address itself escapes
			}
		case *ssa.MakeClosure:
			fn, ok := y.Fn.(*ssa.Function)
			if !ok {
				return y
			}
			for i, b := range y.Bindings {
				if b == cell && i < len(fn.FreeVars) {
					if bad := cellReadOnly(fn.FreeVars[i], depth, seen); bad != nil {
						return bad
					}
				}
			}
		case *ssa.DebugRef:
		default:
			return r2
		}
	}
	return nil
}
