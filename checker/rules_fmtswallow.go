package main

import (
	"fmt"
	"go/types"
	"sort"

	"golang.org/x/tools/go/ssa"
)

func init() {
	register(&Rule{ID: "FMT-swallow", Props: []string{"C18"}, Min: 1,
		Doc: "G (interrupts are not swallowed by the formatter): package fmt recovers a panic raised by the String / Error / Format method of an operand and prints `%!v(PANIC=String method: ...)` instead. A value whose String method runs script code (Value: [[DefaultValue]] calls toString / valueOf) must therefore never be an operand of a fmt formatter: a function received on Otto.Interrupt that panics while that toString runs would be turned into message text and the script would go on (`(0,o)()` with o.toString = function(){ for(;;){} } formats `%v is not a function`). The types concerned are computed (named types of the module with a String / Error / GoString / Format method from which a call of a function object is reachable); the formatters are fmt's, plus every function that forwards its own variadic list to one unchanged. A function that copies the list and converts those operands itself (a type assertion on each element) ends the chain: what is passed to it is fine",
		Run: ruleFmtSwallow})
}

// scriptStringerTypes: named types of package otto with a fmt-visible method from which (*object).call is reachable over
// static callees and closures.
func scriptStringerTypes(c *Ctx) map[string]bool {
	out := map[string]bool{}
	p := c.Otto()
	if p == nil {
		return out
	}
	reach := func(start *ssa.Function) bool {
		seen := map[*ssa.Function]bool{start: true}
		queue := []*ssa.Function{start}
		for len(queue) > 0 && len(seen) < 6000 {
			fn := queue[0]
			queue = queue[1:]
			if fn.Name() == "call" && fn.Signature.Recv() != nil && typeStr(fn.Signature.Recv().Type()) == "*object" {
				return true
			}
			for _, b := range fn.Blocks {
				for _, ins := range b.Instrs {
					var next []*ssa.Function
					switch x := ins.(type) {
					case ssa.CallInstruction:
						if cal := x.Common().StaticCallee(); cal != nil {
							next = append(next, cal)
						}
					case *ssa.MakeClosure:
						if f, ok := x.Fn.(*ssa.Function); ok {
							next = append(next, f)
						}
					}
					for _, f := range next {
						if !seen[f] && f.Pkg != nil && f.Pkg.Pkg.Path() == ottoPath {
							seen[f] = true
							queue = append(queue, f)
						}
					}
				}
			}
		}
		return false
	}
	scope := p.Types.Scope()
	for _, name := range scope.Names() {
		tn, ok := scope.Lookup(name).(*types.TypeName)
		if !ok || tn.IsAlias() {
			continue
		}
		named, ok := tn.Type().(*types.Named)
		if !ok {
			continue
		}
		for _, recv := range []types.Type{named, types.NewPointer(named)} {
			ms := c.Prog.MethodSets.MethodSet(recv)
			for _, m := range []string{"String", "Error", "GoString", "Format"} {
				sel := ms.Lookup(p.Types, m)
				if sel == nil {
					sel = ms.Lookup(nil, m)
				}
				if sel == nil {
					continue
				}
				fn := c.Prog.MethodValue(sel)
				if fn != nil && reach(fn) {
					out[name] = true
				}
			}
		}
	}
	return out
}

func ruleFmtSwallow(c *Ctx, r *R) {
	stringers := scriptStringerTypes(c)
	if !stringers["Value"] {
		r.undecided("unresolved:stringers", "-", "UNRESOLVED: Value.String is not found to reach a call of a function object (the set of types the rule is about could not be computed)")
		return
	}
	var names []string
	for n := range stringers {
		names = append(names, n)
	}
	sort.Strings(names)
	r.note("types_whose_String_runs_script", names)
	isStringer := func(v ssa.Value) string {
		t := unwrapIface(v).Type()
		if n := derefNamed(t); n != nil && n.Obj().Pkg() != nil && n.Obj().Pkg().Path() == ottoPath && stringers[n.Obj().Name()] {
			return n.Obj().Name()
		}
		return ""
	}
	isFmt := func(f *ssa.Function) bool {
		if f == nil || f.Pkg == nil || f.Pkg.Pkg.Path() != "fmt" || !f.Signature.Variadic() {
			return false
		}
		switch f.Name() {
		case "Sprintf", "Sprint", "Sprintln", "Errorf", "Printf", "Print", "Println", "Fprintf", "Fprint", "Fprintln", "Appendf", "Append", "Appendln":
			return true
		}
		return false
	}
	variadicOf := func(fn *ssa.Function) *ssa.Parameter {
		if !fn.Signature.Variadic() || len(fn.Params) == 0 {
			return nil
		}
		return fn.Params[len(fn.Params)-1]
	}
	// derives: v is the parameter, a slice of it, or a merge of such
	var derives func(v ssa.Value, p *ssa.Parameter, d int) bool
	derives = func(v ssa.Value, p *ssa.Parameter, d int) bool {
		if p == nil || d > 6 {
			return false
		}
		switch x := v.(type) {
		case *ssa.Parameter:
			return x == p
		case *ssa.Slice:
			return derives(x.X, p, d+1)
		case *ssa.Phi:
			for _, e := range x.Edges {
				if derives(e, p, d+1) {
					return true
				}
			}
		}
		return false
	}
	funcs := c.AllSrcFuncs("")
	// handled: for every function whose variadic list ends up in a formatter, the stringer types that are converted on
	// the way. A sanitiser (asserts element types and hands a list it built itself to fmt) handles what it asserts; a
	// function that forwards its own list unchanged handles what all its targets handle; fmt itself handles nothing.
	handled := map[*ssa.Function]map[string]bool{}
	nSan := 0
	for _, fn := range funcs {
		vp := variadicOf(fn)
		if vp == nil {
			continue
		}
		callsFmt, forwardsRaw := false, false
		asserted := map[string]bool{}
		for _, b := range fn.Blocks {
			for _, ins := range b.Instrs {
				switch x := ins.(type) {
				case ssa.CallInstruction:
					if isFmt(x.Common().StaticCallee()) && len(x.Common().Args) > 0 {
						callsFmt = true
						if derives(x.Common().Args[len(x.Common().Args)-1], vp, 0) {
							forwardsRaw = true
						}
					}
				case *ssa.TypeAssert:
					if n := derefNamed(x.AssertedType); n != nil && n.Obj().Pkg() != nil && n.Obj().Pkg().Path() == ottoPath && stringers[n.Obj().Name()] {
						asserted[n.Obj().Name()] = true
					}
				}
			}
		}
		if callsFmt && !forwardsRaw && len(asserted) > 0 {
			handled[fn] = asserted
			nSan++
			var conv []string
			for n := range asserted {
				conv = append(conv, n)
			}
			sort.Strings(conv)
			r.ok("sanitiser:"+ssaFuncName(fn), c.Pos(fn.Pos()), fmt.Sprintf("builds the list it formats itself and converts the operands of type %v first", conv))
		}
	}
	isTarget := func(f *ssa.Function) bool {
		if isFmt(f) {
			return true
		}
		_, ok := handled[f]
		return ok
	}
	for changed := true; changed; {
		changed = false
		for _, fn := range funcs {
			vp := variadicOf(fn)
			if vp == nil {
				continue
			}
			if _, done := handled[fn]; done {
				continue
			}
			var acc map[string]bool
			found := false
			for _, b := range fn.Blocks {
				for _, ins := range b.Instrs {
					call, ok := ins.(ssa.CallInstruction)
					if !ok {
						continue
					}
					cal := call.Common().StaticCallee()
					if cal == nil || !isTarget(cal) || len(call.Common().Args) == 0 || !derives(call.Common().Args[len(call.Common().Args)-1], vp, 0) {
						continue
					}
					h := handled[cal] // nil for fmt
					if !found {
						acc = map[string]bool{}
						for k := range h {
							acc[k] = true
						}
						found = true
					} else {
						for k := range acc {
							if !h[k] {
								delete(acc, k)
							}
						}
					}
				}
			}
			if found {
				handled[fn] = acc
				changed = true
			}
		}
	}
	r.note("functions_whose_list_reaches_fmt", len(handled))
	r.note("sanitisers", nSan)
	// every call of a formatter or of such a function with a list built at the call site
	ord := map[string]int{}
	nSites, nConverted := 0, 0
	for _, fn := range funcs {
		vp := variadicOf(fn)
		for _, b := range fn.Blocks {
			for _, ins := range b.Instrs {
				call, ok := ins.(ssa.CallInstruction)
				if !ok {
					continue
				}
				cal := call.Common().StaticCallee()
				if cal == nil || !isTarget(cal) || len(call.Common().Args) == 0 {
					continue
				}
				last := call.Common().Args[len(call.Common().Args)-1]
				if derives(last, vp, 0) {
					continue // the forwarding call itself
				}
				elems, known := variadicElems(last)
				if !known {
					continue
				}
				nSites++
				for _, e := range elems {
					t := isStringer(e)
					if t == "" {
						continue
					}
					if handled[cal][t] {
						nConverted++
						continue
					}
					base := fmt.Sprintf("%s->%s:%s", ssaFuncName(fn), cal.Name(), t)
					ord[base]++
					key := fmt.Sprintf("%s#%d", base, ord[base])
					if onlyPanicText(call) {
						r.ok("go-panic:"+key, c.Pos(instrPos(call)), "the formatted text is only the operand of a Go panic (an internal-invariant failure, not an error a script receives): the host is already failing there, and whether the arm can be reached is PANIC-foreign's obligation")
						continue
					}
					r.bad(key, c.Pos(instrPos(call)),
						fmt.Sprintf("%s passes a %s to %s, which hands it to package fmt: fmt calls its String method - script code for an object with a toString - and recovers any panic raised there, so a function received on Otto.Interrupt that panics at that moment becomes the text `%%!v(PANIC=String method: ...)` and the script continues instead of Run unwinding with the panic", ssaFuncName(fn), t, cal.Name()))
				}
			}
		}
	}
	r.note("formatter_call_sites", nSites)
	r.note("operands_converted_by_a_sanitiser", nConverted)
}

// onlyPanicText: the result of the formatter call is used for nothing but the operand of panic(...).
func onlyPanicText(call ssa.CallInstruction) bool {
	v, ok := call.(ssa.Value)
	if !ok || v.Referrers() == nil || len(*v.Referrers()) == 0 {
		return false
	}
	// a text or a plain error: what the raisers of script errors return (an exception) is panicked too, but is caught
	// by the script's try statement and by Run
	if t := typeStr(v.Type()); t != "string" && t != "error" {
		return false
	}
	var only func(v ssa.Value, d int) bool
	only = func(v ssa.Value, d int) bool {
		if d > 3 || v.Referrers() == nil || len(*v.Referrers()) == 0 {
			return false
		}
		for _, ref := range *v.Referrers() {
			switch x := ref.(type) {
			case *ssa.Panic:
			case *ssa.MakeInterface:
				if !only(x, d+1) {
					return false
				}
			case *ssa.DebugRef:
			default:
				return false
			}
		}
		return true
	}
	return only(v, 0)
}
