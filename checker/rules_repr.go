package main

import (
	"fmt"
	"go/token"
	"go/types"
	"strings"

	"golang.org/x/tools/go/ssa"
)

func init() {
	register(&Rule{ID: "REPR-string16", Props: []string{"C15", "C16", "C09"}, Min: 6,
		Doc: "G (representation census, dataflow over Value.kind and payload type tests): a string Value has two representations - a Go string, or the []uint16 code units that String.fromCharCode and the URI decoders produce - and only the accessors that switch over both (string(), export(), ...) may look at the payload. Every read of the field Value.value that leaves the function as a bare interface (argument of a call, element of an argument list, operand of reflect.ValueOf / json.Marshal / fmt, stored or returned) instead of being type-asserted must sit where the value cannot be a string (the kinds Value.kind can have at that point, computed by a forward dataflow over `kind == K` tests and switch arms, exclude valueString) or where the payload is known not to be []uint16 (false side of a `.([]uint16)` assertion, true side of an assertion to another type). Otherwise `m.x = String.fromCharCode(72, 105)` stores []uint16{72, 105} into a Go map[string]interface{} and the script reads back an array",
		Run: ruleReprString16})
}

const reprMay16 = uint32(1 << 31)

func ruleReprString16(c *Ctx, r *R) {
	vt := c.LookupType("", "Value")
	if vt == nil {
		r.undecided("Value", "-", "UNRESOLVED type Value")
		return
	}
	st := vt.Underlying().(*types.Struct)
	kindIdx, valIdx := -1, -1
	for i := 0; i < st.NumFields(); i++ {
		switch st.Field(i).Name() {
		case "kind":
			kindIdx = i
		case "value":
			valIdx = i
		}
	}
	vs := c.Otto().Types.Scope().Lookup("valueString")
	if kindIdx < 0 || valIdx < 0 || vs == nil {
		r.undecided("fields", "-", "UNRESOLVED Value.kind / Value.value / valueString")
		return
	}
	strKind := constIntVal(vs.(*types.Const))
	allKinds := uint32(1<<9-1) | reprMay16

	// fieldRead: v reads field idx of a Value; returns the root (the struct value or its cell)
	fieldRead := func(v ssa.Value, idx int) ssa.Value {
		switch y := v.(type) {
		case *ssa.Field:
			if y.Field == idx && types.Identical(y.X.Type(), vt) {
				return y.X
			}
		case *ssa.UnOp:
			if y.Op != token.MUL {
				return nil
			}
			if fa, ok := y.X.(*ssa.FieldAddr); ok && fa.Field == idx {
				if pt, ok := fa.X.Type().Underlying().(*types.Pointer); ok && types.Identical(pt.Elem(), vt) {
					return fa.X
				}
			}
		}
		return nil
	}
	type facts map[ssa.Value]uint32
	get := func(f facts, k ssa.Value) uint32 {
		if v, ok := f[k]; ok {
			return v
		}
		return allKinds
	}
	nReads := 0
	for _, fn := range c.AllSrcFuncs("") {
		// payload reads that escape
		type esc struct {
			read ssa.Value
			root ssa.Value
			use  ssa.Instruction
			how  string
		}
		var escs []esc
		for _, b := range fn.Blocks {
			for _, ins := range b.Instrs {
				v, ok := ins.(ssa.Value)
				if !ok {
					continue
				}
				root := fieldRead(v, valIdx)
				if root == nil {
					continue
				}
				for _, ref := range *v.Referrers() {
					how := ""
					switch u := ref.(type) {
					case *ssa.TypeAssert:
						continue
					case *ssa.BinOp:
						continue // comparison with nil / another payload
					case *ssa.Call:
						if u.Call.Value == v {
							continue
						}
						how = "argument of " + calleeName(u)
					case *ssa.Store:
						if u.Val != v {
							continue
						}
						how = "stored"
						if ia, ok := u.Addr.(*ssa.IndexAddr); ok {
							// element of a variadic argument list
							if al, ok := ia.X.(*ssa.Alloc); ok {
								for _, r2 := range *al.Referrers() {
									if sl, ok := r2.(*ssa.Slice); ok {
										for _, r3 := range *sl.Referrers() {
											if cl, ok := r3.(*ssa.Call); ok {
												how = "argument of " + calleeName(cl)
											}
										}
									}
								}
							}
						}
						if fa, ok := u.Addr.(*ssa.FieldAddr); ok {
							// copying a Value field by field (v2.value = v.value) keeps the representation with its kind
							if pt, ok := fa.X.Type().Underlying().(*types.Pointer); ok && types.Identical(pt.Elem(), vt) && fa.Field == valIdx {
								continue
							}
						}
					case *ssa.Return:
						how = "returned"
					case *ssa.MakeInterface, *ssa.ChangeInterface:
						how = "converted"
					case *ssa.Phi:
						how = "merged"
					case *ssa.Defer, *ssa.Go:
						how = "argument of a deferred call"
					default:
						continue
					}
					escs = append(escs, esc{v, root, ref, how})
				}
			}
		}
		if len(escs) == 0 {
			continue
		}
		// forward dataflow: kinds the root can have + may-be-[]uint16
		in := map[*ssa.BasicBlock]facts{fn.Blocks[0]: {}}
		work := []*ssa.BasicBlock{fn.Blocks[0]}
		refine := func(cond ssa.Value, f facts, branch bool) facts {
			out := facts{}
			for k, v := range f {
				out[k] = v
			}
			switch y := cond.(type) {
			case *ssa.BinOp:
				if y.Op != token.EQL && y.Op != token.NEQ {
					return out
				}
				root := fieldRead(y.X, kindIdx)
				k, isK := constInt(y.Y)
				if root == nil || !isK {
					return out
				}
				eq := (y.Op == token.EQL) == branch
				cur := get(f, root)
				if eq {
					cur &= (1 << uint(k)) | reprMay16
				} else {
					cur &^= 1 << uint(k)
				}
				if cur&(1<<uint(strKind)) == 0 {
					cur &^= reprMay16
				}
				out[root] = cur
			case *ssa.Extract:
				ta, ok := y.Tuple.(*ssa.TypeAssert)
				if !ok || !ta.CommaOk || y.Index != 1 {
					return out
				}
				root := fieldRead(ta.X, valIdx)
				if root == nil {
					return out
				}
				is16 := false
				if sl, ok := ta.AssertedType.Underlying().(*types.Slice); ok {
					if bt, ok := sl.Elem().Underlying().(*types.Basic); ok && bt.Kind() == types.Uint16 {
						is16 = true
					}
				}
				_, isIface := ta.AssertedType.Underlying().(*types.Interface)
				cur := get(f, root)
				switch {
				case is16 && !branch:
					cur &^= reprMay16
				case !is16 && !isIface && branch:
					cur &^= reprMay16
				}
				out[root] = cur
			}
			return out
		}
		for len(work) > 0 {
			b := work[0]
			work = work[1:]
			f := in[b]
			last := b.Instrs[len(b.Instrs)-1]
			for i, s := range b.Succs {
				out := f
				if iff, ok := last.(*ssa.If); ok {
					out = refine(iff.Cond, f, i == 0)
				}
				cur, seen := in[s]
				if !seen {
					cp := facts{}
					for k, v := range out {
						cp[k] = v
					}
					in[s] = cp
					work = append(work, s)
					continue
				}
				changed := false
				for k, v := range cur {
					nv := v | get(out, k)
					if nv != v {
						cur[k] = nv
						changed = true
					}
				}
				if changed {
					work = append(work, s)
				}
			}
		}
		ord := map[string]int{}
		for _, e := range escs {
			nReads++
			base := ssaFuncName(fn) + ":" + e.how
			ord[base]++
			key := fmt.Sprintf("%s#%d", base, ord[base])
			site := c.Pos(instrPos(e.use))
			f := in[e.use.Block()]
			if f == nil {
				r.ok(key, site, "unreachable")
				continue
			}
			cur := get(f, e.root)
			switch {
			case cur&(1<<uint(strKind)) == 0:
				r.ok(key, site, "the value cannot be a string here (kind tested)")
			case cur&reprMay16 == 0:
				r.ok(key, site, "the payload is known not to be []uint16 here (type tested)")
			case isMessageSink(e.how):
				r.ok(key, site, "formatted into the text of an error message only (a []uint16 would print as numbers; nothing is converted or stored)")
			default:
				if why, ok := reprReviewed[strings.SplitN(key, "#", 2)[0]]; ok {
					r.ok("reviewed:"+key, site, why)
					continue
				}
				r.bad(key, site, fmt.Sprintf("%s: the payload of a Value that can be a string is %s without a test of its representation: for a string made of code units (`String.fromCharCode(72, 105)`, decodeURI results) it is a []uint16, which the receiver takes for a slice of numbers - `m.x = String.fromCharCode(72, 105)` stores []uint16{72, 105} in a Go map[string]interface{}; use string() / export(), which decode both representations", ssaFuncName(fn), e.how))
			}
		}
	}
	r.note("escaping-payload-reads", nReads)
}

// reprReviewed: escapes of a possibly-string payload that are harmless, one reason each.
var reprReviewed = map[string]string{
	"builtinNumberToLocaleString:argument of golang.org/x/text/number.Decimal": "the Value is primitiveValue() of the object thisClassObject(classNumberName) returned: the [[PrimitiveValue]] of a Number object, which newNumber stores from a number Value; never a string",
}

// isMessageSink: the payload becomes part of a diagnostic text (fmt, the runtime's panic*Error constructors).
func isMessageSink(how string) bool {
	if !strings.HasPrefix(how, "argument of ") {
		return false
	}
	callee := strings.TrimPrefix(how, "argument of ")
	if strings.HasPrefix(callee, "fmt.") {
		return true
	}
	for _, n := range []string{"panicTypeError", "panicRangeError", "panicSyntaxError", "panicReferenceError", "panicURIError", "newError"} {
		if strings.HasSuffix(callee, n) {
			return true
		}
	}
	return false
}
