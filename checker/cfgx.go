package main

import (
	"go/constant"
	"go/token"
	"go/types"

	"golang.org/x/tools/go/ssa"
)

// mayPanic: the instruction set that can raise a Go panic (or run arbitrary code that can),
// used by all PAIR rules. Loads/stores through pointers derived from the receiver are not
// included (assumption: receivers are non-nil at these sites).
func mayPanic(ins ssa.Instruction) bool {
	switch x := ins.(type) {
	case *ssa.Call:
		if b, ok := x.Call.Value.(*ssa.Builtin); ok {
			return b.Name() == "panic"
		}
		return true
	case *ssa.Panic, *ssa.Send, *ssa.Go:
		return true
	case *ssa.TypeAssert:
		return !x.CommaOk
	case *ssa.Index:
		_, isConst := x.Index.(*ssa.Const)
		return !isConst
	case *ssa.IndexAddr:
		_, isConst := x.Index.(*ssa.Const)
		return !isConst
	case *ssa.Lookup:
		return false // map lookup never panics; string index may
	case *ssa.Slice:
		return x.Low != nil || x.High != nil
	case *ssa.BinOp:
		if x.Op == token.QUO || x.Op == token.REM {
			if b, ok := x.X.Type().Underlying().(*types.Basic); ok && b.Info()&types.IsInteger != 0 {
				_, isConst := x.Y.(*ssa.Const)
				return !isConst
			}
		}
	}
	return false
}

// staticCallee of a call/defer/go common.
func staticCalleeOf(cc *ssa.CallCommon) *ssa.Function {
	if f := cc.StaticCallee(); f != nil {
		return f
	}
	return nil
}

// closureOf returns the function literal invoked by a call common whose value is a MakeClosure or a *Function.
func closureOf(cc *ssa.CallCommon) *ssa.Function {
	switch v := cc.Value.(type) {
	case *ssa.MakeClosure:
		if f, ok := v.Fn.(*ssa.Function); ok {
			return f
		}
	case *ssa.Function:
		return v
	}
	return nil
}

// callsTo counts static calls to target inside fn (not descending into nested closures).
func callsTo(fn *ssa.Function, target *ssa.Function) int {
	n := 0
	for _, b := range fn.Blocks {
		for _, ins := range b.Instrs {
			if c, ok := ins.(ssa.CallInstruction); ok {
				if c.Common().StaticCallee() == target {
					n++
				}
			}
		}
	}
	return n
}

type fwdResult struct {
	ok      bool
	witness ssa.Instruction // the first offending instruction on some path
}

// mustReachBefore walks forward from the instruction after `from`; on every path the predicate `good`
// must hold for some instruction before any instruction for which `bad` holds and before the function returns.
func mustReachBefore(from ssa.Instruction, good, bad func(ssa.Instruction) bool) fwdResult {
	b := from.Block()
	idx := -1
	for i, ins := range b.Instrs {
		if ins == from {
			idx = i
		}
	}
	seen := map[*ssa.BasicBlock]bool{}
	var walk func(b *ssa.BasicBlock, start int) fwdResult
	walk = func(b *ssa.BasicBlock, start int) fwdResult {
		for i := start; i < len(b.Instrs); i++ {
			ins := b.Instrs[i]
			if good(ins) {
				return fwdResult{ok: true}
			}
			if bad(ins) {
				return fwdResult{ok: false, witness: ins}
			}
			switch ins.(type) {
			case *ssa.Return, *ssa.Panic:
				return fwdResult{ok: false, witness: ins}
			}
		}
		for _, s := range b.Succs {
			if seen[s] {
				continue
			}
			seen[s] = true
			if r := walk(s, 0); !r.ok {
				return r
			}
		}
		return fwdResult{ok: true}
	}
	return walk(b, idx+1)
}

// fieldAddrOf: v is &x.f for a field named name of a struct type named typeName in package otto.
func isFieldAddr(v ssa.Value, typeName, field string) bool {
	fa, ok := v.(*ssa.FieldAddr)
	if !ok {
		return false
	}
	pt, ok := fa.X.Type().Underlying().(*types.Pointer)
	if !ok {
		return false
	}
	n, ok := pt.Elem().(*types.Named)
	if !ok || n.Obj().Name() != typeName {
		return false
	}
	st, ok := n.Underlying().(*types.Struct)
	if !ok {
		return false
	}
	return st.Field(fa.Field).Name() == field
}

func fieldOfAddr(v ssa.Value) (*types.Named, *types.Var) {
	fa, ok := v.(*ssa.FieldAddr)
	if !ok {
		return nil, nil
	}
	pt, ok := fa.X.Type().Underlying().(*types.Pointer)
	if !ok {
		return nil, nil
	}
	n, _ := pt.Elem().(*types.Named)
	st, ok := pt.Elem().Underlying().(*types.Struct)
	if !ok {
		return nil, nil
	}
	return n, st.Field(fa.Field)
}

func isNilConst(v ssa.Value) bool {
	c, ok := v.(*ssa.Const)
	return ok && c.Value == nil
}

func constInt(v ssa.Value) (int64, bool) {
	c, ok := v.(*ssa.Const)
	if !ok || c.Value == nil || c.Value.Kind() != constant.Int {
		return 0, false
	}
	return c.Int64(), true
}

// stripLoad returns the address operand if v is a load (*addr).
func loadAddr(v ssa.Value) ssa.Value {
	if u, ok := v.(*ssa.UnOp); ok && u.Op == token.MUL {
		return u.X
	}
	return nil
}

// instrPos returns the best position for an instruction.
func instrPos(ins ssa.Instruction) token.Pos {
	if ins == nil {
		return token.NoPos
	}
	if p := ins.Pos(); p.IsValid() {
		return p
	}
	// fall back to any operand position / neighbouring instruction
	b := ins.Block()
	for _, i := range b.Instrs {
		if i.Pos().IsValid() {
			return i.Pos()
		}
	}
	return ins.Parent().Pos()
}

// dominatesInstr: a dominates b (same function).
func dominatesInstr(a, b ssa.Instruction) bool {
	ba, bb := a.Block(), b.Block()
	if ba == bb {
		for _, ins := range ba.Instrs {
			if ins == a {
				return true
			}
			if ins == b {
				return false
			}
		}
		return false
	}
	return ba.Dominates(bb)
}

// normBool strips the equivalent spellings of a boolean test: !x, x == false, x != true, x == true, x != false.
// It returns the underlying value and whether the test is negated.
func normBool(cond ssa.Value) (ssa.Value, bool) {
	neg := false
	for i := 0; i < 4; i++ {
		switch x := cond.(type) {
		case *ssa.UnOp:
			if x.Op == token.NOT {
				cond, neg = x.X, !neg
				continue
			}
		case *ssa.BinOp:
			if x.Op == token.EQL || x.Op == token.NEQ {
				for _, pair := range [][2]ssa.Value{{x.X, x.Y}, {x.Y, x.X}} {
					if k, ok := pair[1].(*ssa.Const); ok && k.Value != nil && k.Value.Kind() == constant.Bool {
						b := constant.BoolVal(k.Value)
						// x == true / x != false keep the sense; x == false / x != true flip it
						if (x.Op == token.EQL) != b {
							neg = !neg
						}
						cond = pair[0]
						goto next
					}
				}
			}
		}
		return cond, neg
	next:
	}
	return cond, neg
}
