package main

import (
	"fmt"
	"go/constant"
	"go/types"
	"sort"
	"strings"

	"golang.org/x/tools/go/ssa"
)

// SPEC-define-own: ToPropertyDescriptor (8.10.5) followed by [[DefineOwnProperty]] (8.12.9) of an ordinary object, decided
// on every reachable state of one property and every descriptor shape by abstract evaluation of the two function bodies.

func init() {
	register(&Rule{ID: "SPEC-define-own", Props: []string{"C07"}, Min: 8,
		Doc: "S (abstract evaluation over a finite domain, all reachable states): the bodies of toPropertyDescriptor and objectDefineOwnProperty are evaluated on every descriptor object shape (value absent / same / different / undefined; writable, enumerable, configurable absent / true / false; get and set absent / undefined / same function / other function: 1728 shapes) against every state of one property that is reachable from `absent` by such definitions (explored to a fixpoint on the representation the code itself stores), with the object extensible or not. Script values, functions and the runtime are opaque atoms; the property table, SameValue on atoms and the TypeError constructor are the only modelled callees. For each case the outcome - TypeError or the stored attributes and payload, read back with the code's own writable()/enumerable()/configurable() - equals what ES5 8.10.5 + 8.12.9 prescribe on the decoded state. Since every history of Object.defineProperty calls on one property is a path in that state graph, agreement on every edge is agreement on every history",
		Run: ruleSpecDefineOwn})
}

// ---- the ES5 model ----

type pdState struct {
	kind    string // "absent", "data", "accessor"
	v       string // data: value atom ("undefined", "V0", "V1")
	g, s    string // accessor: "undefined", "fn:G0", "fn:G1"
	w, e, c bool
}

func (p pdState) String() string {
	switch p.kind {
	case "absent":
		return "absent"
	case "data":
		return fmt.Sprintf("data{value:%s writable:%v enumerable:%v configurable:%v}", p.v, p.w, p.e, p.c)
	}
	return fmt.Sprintf("accessor{get:%s set:%s enumerable:%v configurable:%v}", p.g, p.s, p.e, p.c)
}

type pdDesc struct {
	value   string // "" absent
	w, e, c int    // 0 absent, 1 true, 2 false
	get     string // "" absent, "undefined", "fn:G0", "fn:G1"
	set     string
}

func tri(n int) string { return [...]string{"", "true", "false"}[n] }

func (d pdDesc) js() string {
	var parts []string
	if d.value != "" {
		parts = append(parts, "value:"+strings.ToLower(d.value))
	}
	for _, f := range []struct {
		n string
		v int
	}{{"writable", d.w}, {"enumerable", d.e}, {"configurable", d.c}} {
		if f.v != 0 {
			parts = append(parts, f.n+":"+tri(f.v))
		}
	}
	if d.get != "" {
		parts = append(parts, "get:"+strings.TrimPrefix(d.get, "fn:"))
	}
	if d.set != "" {
		parts = append(parts, "set:"+strings.TrimPrefix(d.set, "fn:"))
	}
	return "{" + strings.Join(parts, ", ") + "}"
}

func (d pdDesc) isAccessor() bool { return d.get != "" || d.set != "" }
func (d pdDesc) isData() bool     { return d.value != "" || d.w != 0 }
func (d pdDesc) isGeneric() bool  { return !d.isAccessor() && !d.isData() }

// es5Define: 8.10.5 step 9 + 8.12.9. Returns (typeError, newState).
func es5Define(cur pdState, extensible bool, d pdDesc) (bool, pdState) {
	if d.isAccessor() && d.isData() {
		return true, cur // 8.10.5 step 9
	}
	b := func(n int) bool { return n == 1 }
	orUndef := func(s string) string {
		if s == "" {
			return "undefined"
		}
		return s
	}
	if cur.kind == "absent" {
		if !extensible {
			return true, cur
		}
		if d.isGeneric() || d.isData() {
			return false, pdState{kind: "data", v: orUndef(d.value), w: b(d.w), e: b(d.e), c: b(d.c)}
		}
		return false, pdState{kind: "accessor", g: orUndef(d.get), s: orUndef(d.set), e: b(d.e), c: b(d.c)}
	}
	if d.value == "" && d.w == 0 && d.e == 0 && d.c == 0 && d.get == "" && d.set == "" {
		return false, cur // step 5
	}
	// step 6 is subsumed: applying identical fields changes nothing and none of the rejections below fires
	if !cur.c {
		if d.c == 1 {
			return true, cur
		}
		if d.e != 0 && b(d.e) != cur.e {
			return true, cur
		}
	}
	next := cur
	switch {
	case d.isGeneric():
	case (cur.kind == "data") != d.isData():
		if !cur.c {
			return true, cur
		}
		if cur.kind == "data" {
			next = pdState{kind: "accessor", g: "undefined", s: "undefined", e: cur.e, c: cur.c}
		} else {
			next = pdState{kind: "data", v: "undefined", w: false, e: cur.e, c: cur.c}
		}
	case cur.kind == "data":
		if !cur.c {
			if !cur.w && d.w == 1 {
				return true, cur
			}
			if !cur.w && d.value != "" && d.value != cur.v {
				return true, cur
			}
		}
	default:
		if !cur.c {
			if d.set != "" && d.set != cur.s {
				return true, cur
			}
			if d.get != "" && d.get != cur.g {
				return true, cur
			}
		}
	}
	if d.value != "" {
		next.v = d.value
	}
	if d.w != 0 {
		next.w = b(d.w)
	}
	if d.get != "" {
		next.g = d.get
	}
	if d.set != "" {
		next.s = d.set
	}
	if d.e != 0 {
		next.e = b(d.e)
	}
	if d.c != 0 {
		next.c = b(d.c)
	}
	return false, next
}

// ---- the abstract run ----

type defineModel struct {
	c                                      *Ctx
	tValue, tProperty, tObject, tGetSet    types.Type
	tObjPtr                                types.Type
	fToDesc, fDefine                       *ssa.Function
	fWritable, fEnumerable, fConfigurable  *ssa.Function
	kUndefined, kObject, kString, kBoolean int64
	kNumber                                int64
	valueFieldValue, valueFieldKind        int
}

func (m *defineModel) mkValue(in *absInterp, atom string) aval {
	v := in.zero(m.tValue).(aStruct)
	kind := m.kString
	switch {
	case atom == "undefined":
		v.f[m.valueFieldKind] = aInt(m.kUndefined)
		return v
	case strings.HasPrefix(atom, "n:"):
		var n int64
		fmt.Sscanf(atom, "n:%d", &n)
		v.f[m.valueFieldKind] = aInt(m.kNumber)
		v.f[m.valueFieldValue] = aIface{dyn: types.Typ[types.Int64], v: aInt(n)}
		return v
	case atom == "true" || atom == "false":
		kind = m.kBoolean
	case strings.HasPrefix(atom, "fn:") || atom == "DESC":
		kind = m.kObject
	}
	v.f[m.valueFieldKind] = aInt(kind)
	if kind == m.kObject {
		v.f[m.valueFieldValue] = aIface{dyn: m.tObjPtr, v: aAtom{atom}}
	} else {
		v.f[m.valueFieldValue] = aIface{dyn: types.Typ[types.String], v: aAtom{atom}}
	}
	return v
}

func (m *defineModel) valueAtom(v aval) string {
	s, ok := v.(aStruct)
	if !ok {
		return fmt.Sprintf("?%T", v)
	}
	k, _ := s.f[m.valueFieldKind].(aInt)
	if int64(k) == m.kUndefined {
		return "undefined"
	}
	if i, ok := s.f[m.valueFieldValue].(aIface); ok {
		if a, ok := i.v.(aAtom); ok {
			return a.name
		}
		if n, ok := i.v.(aInt); ok {
			return fmt.Sprintf("n:%d", int64(n))
		}
		if b, ok := i.v.(aBool); ok {
			return fmt.Sprintf("%v", bool(b))
		}
	}
	return fmt.Sprintf("?kind%d", k)
}

type storedProp struct {
	value aval // aIface
	mode  int64
}

func (sp storedProp) key() string { return fmt.Sprintf("%v|%o", describeAval(sp.value), sp.mode) }

func describeAval(v aval) string {
	switch x := v.(type) {
	case aIface:
		if x.dyn == nil {
			return "nil"
		}
		return typeStr(x.dyn) + ":" + describeAval(x.v)
	case aStruct:
		var p []string
		for _, f := range x.f {
			p = append(p, describeAval(f))
		}
		return "{" + strings.Join(p, ",") + "}"
	case aArr:
		var p []string
		for _, f := range x.e {
			p = append(p, describeAval(f))
		}
		return "[" + strings.Join(p, ",") + "]"
	case aAtom:
		return x.name
	case aRef:
		return "&" + x.root.name + x.path
	case aNil:
		return "nil"
	}
	return fmt.Sprintf("%v", v)
}

// defineWorld: what SPEC-define-own computed, for the rules that continue from its reachable states.
type defineWorld struct {
	m                *defineModel
	in               *absInterp
	hooks            map[string]absHook
	states           map[string]*storedProp
	how              map[string]string
	fProp, fExt, fRt int
	decode           func(sp *storedProp) (pdState, string)
	// convert runs toPropertyDescriptor on the descriptor shape d
	convert func(d pdDesc) (desc aval, typeError bool, fail string)
}

var defineWorlds = map[*Ctx]*defineWorld{}

func defineWorldFor(c *Ctx) *defineWorld {
	if w, ok := defineWorlds[c]; ok {
		return w
	}
	ruleSpecDefineOwn(c, &R{rule: &Rule{ID: "SPEC-define-own"}})
	return defineWorlds[c]
}

func isTypeErrorPanic(v aval) bool {
	if i, ok := v.(aIface); ok {
		v = i.v
	}
	a, ok := v.(aAtom)
	return ok && a.name == "TypeError"
}

func ruleSpecDefineOwn(c *Ctx, r *R) {
	m := &defineModel{c: c}
	nt := func(name string) types.Type {
		if t := c.LookupType("", name); t != nil {
			return t
		}
		return nil
	}
	m.tValue, m.tProperty, m.tObject, m.tGetSet = nt("Value"), nt("property"), nt("object"), nt("propertyGetSet")
	if m.tValue == nil || m.tProperty == nil || m.tObject == nil || m.tGetSet == nil {
		r.undecided("unresolved:types", "-", "UNRESOLVED: Value / property / object / propertyGetSet")
		return
	}
	m.tObjPtr = types.NewPointer(m.tObject)
	fns := map[string]**ssa.Function{
		"toPropertyDescriptor": &m.fToDesc, "objectDefineOwnProperty": &m.fDefine,
		"(property).writable": &m.fWritable, "(property).enumerable": &m.fEnumerable, "(property).configurable": &m.fConfigurable,
	}
	for _, fn := range c.AllSrcFuncs("") {
		if p, ok := fns[ssaFuncName(fn)]; ok {
			*p = fn
		}
	}
	for name, p := range fns {
		if *p == nil {
			r.undecided("unresolved:"+name, "-", "UNRESOLVED: function "+name)
			return
		}
	}
	kinds := map[string]*int64{"valueUndefined": &m.kUndefined, "valueObject": &m.kObject, "valueString": &m.kString, "valueBoolean": &m.kBoolean, "valueNumber": &m.kNumber}
	for name, p := range kinds {
		cst, ok := c.Otto().Types.Scope().Lookup(name).(*types.Const)
		if !ok {
			r.undecided("unresolved:"+name, "-", "UNRESOLVED: constant "+name)
			return
		}
		n, _ := constant.Int64Val(cst.Val())
		*p = n
	}
	vst := m.tValue.Underlying().(*types.Struct)
	m.valueFieldValue, m.valueFieldKind = -1, -1
	for i := 0; i < vst.NumFields(); i++ {
		switch vst.Field(i).Name() {
		case "value":
			m.valueFieldValue = i
		case "kind":
			m.valueFieldKind = i
		}
	}
	ost := m.tObject.Underlying().(*types.Struct)
	objField := func(name string) int {
		for i := 0; i < ost.NumFields(); i++ {
			if ost.Field(i).Name() == name {
				return i
			}
		}
		return -1
	}
	fProp, fExt, fRt := objField("property"), objField("extensible"), objField("runtime")
	if m.valueFieldValue < 0 || m.valueFieldKind < 0 || fProp < 0 || fExt < 0 || fRt < 0 {
		r.undecided("unresolved:fields", "-", "UNRESOLVED: fields of Value / object")
		return
	}

	// per-case configuration read by the hooks
	var curDesc pdDesc
	descField := func(name string) (present bool, atom string) {
		switch name {
		case "value":
			return curDesc.value != "", curDesc.value
		case "writable":
			return curDesc.w != 0, tri(curDesc.w)
		case "enumerable":
			return curDesc.e != 0, tri(curDesc.e)
		case "configurable":
			return curDesc.c != 0, tri(curDesc.c)
		case "get":
			return curDesc.get != "", curDesc.get
		case "set":
			return curDesc.set != "", curDesc.set
		}
		return false, ""
	}
	isDescObj := func(v aval) bool { a, ok := v.(aAtom); return ok && a.name == "DESC" }
	hooks := map[string]absHook{
		"(*object).hasProperty": func(in *absInterp, call *ssa.CallCommon, args []aval) (aval, bool) {
			if !isDescObj(args[0]) {
				return nil, false
			}
			p, _ := descField(string(args[1].(aStr)))
			return aBool(p), true
		},
		"(*object).get": func(in *absInterp, call *ssa.CallCommon, args []aval) (aval, bool) {
			if !isDescObj(args[0]) {
				return nil, false
			}
			p, atom := descField(string(args[1].(aStr)))
			if !p {
				atom = "undefined"
			}
			return m.mkValue(in, atom), true
		},
		"(Value).bool": func(in *absInterp, call *ssa.CallCommon, args []aval) (aval, bool) {
			return aBool(m.valueAtom(args[0]) == "true"), true
		},
		"(Value).isCallable": func(in *absInterp, call *ssa.CallCommon, args []aval) (aval, bool) {
			return aBool(strings.HasPrefix(m.valueAtom(args[0]), "fn:")), true
		},
		"(Value).object": func(in *absInterp, call *ssa.CallCommon, args []aval) (aval, bool) {
			a := m.valueAtom(args[0])
			if strings.HasPrefix(a, "fn:") || a == "DESC" {
				return aAtom{a}, true
			}
			return aNil{}, true
		},
		"(*runtime).panicTypeError": func(in *absInterp, call *ssa.CallCommon, args []aval) (aval, bool) {
			return aAtom{"TypeError"}, true
		},
		"sameValue": func(in *absInterp, call *ssa.CallCommon, args []aval) (aval, bool) {
			return aBool(m.valueAtom(args[0]) == m.valueAtom(args[1])), true
		},
	}

	decode := func(in *absInterp, sp *storedProp) (pdState, string) {
		if sp == nil {
			return pdState{kind: "absent"}, ""
		}
		pv := in.zero(m.tProperty).(aStruct)
		pv.f[0], pv.f[1] = sp.value, aInt(sp.mode)
		attr := func(fn *ssa.Function) (bool, string) {
			ret, pan, fail := absRun(in, fn, []aval{pv})
			if fail != "" || pan != nil {
				return false, "cannot evaluate " + fn.Name() + ": " + fail
			}
			b, _ := ret.(aBool)
			return bool(b), ""
		}
		st := pdState{}
		var why string
		if st.w, why = attr(m.fWritable); why != "" {
			return st, why
		}
		if st.e, why = attr(m.fEnumerable); why != "" {
			return st, why
		}
		if st.c, why = attr(m.fConfigurable); why != "" {
			return st, why
		}
		i, ok := sp.value.(aIface)
		if !ok || i.dyn == nil {
			return st, "stored payload is a nil interface"
		}
		switch {
		case types.Identical(i.dyn, m.tValue):
			st.kind, st.v = "data", m.valueAtom(i.v)
		case types.Identical(i.dyn, m.tGetSet):
			st.kind, st.w = "accessor", false
			arr, _ := i.v.(aArr)
			name := func(v aval) string {
				switch x := v.(type) {
				case aNil:
					return "undefined"
				case aAtom:
					return x.name
				case aRef:
					return "PLACEHOLDER(&" + x.root.name + ")"
				}
				return fmt.Sprintf("?%T", v)
			}
			if len(arr.e) == 2 {
				st.g, st.s = name(arr.e[0]), name(arr.e[1])
			}
		default:
			return st, "stored payload of type " + typeStr(i.dyn)
		}
		return st, ""
	}

	// one step of the implementation
	type outcome struct {
		typeError bool
		hostPanic string
		fail      string
		next      *storedProp
	}
	in := newAbsInterp(hooks)
	type convResult struct {
		out  outcome
		desc aval
		done bool
	}
	conv := map[pdDesc]*convResult{}
	step := func(cur *storedProp, extensible bool, d pdDesc) outcome {
		curDesc = d
		cr := conv[d]
		if cr == nil {
			cr = &convResult{}
			conv[d] = cr
			ret, pan, fail := absRun(in, m.fToDesc, []aval{aAtom{"rt"}, m.mkValue(in, "DESC")})
			switch {
			case fail != "":
				cr.out, cr.done = outcome{fail: "toPropertyDescriptor: " + fail}, true
			case pan != nil && isTypeErrorPanic(pan):
				cr.out, cr.done = outcome{typeError: true}, true
			case pan != nil:
				cr.out, cr.done = outcome{hostPanic: "toPropertyDescriptor: " + describeAval(pan)}, true
			default:
				cr.desc = ret
			}
		}
		if cr.done {
			o := cr.out
			o.next = cur
			return o
		}
		ret := deepCopy(cr.desc)
		var pan aval
		var fail string
		desc := ret
		obj := in.zero(m.tObject).(aStruct)
		pm := newAMap()
		if cur != nil {
			pv := in.zero(m.tProperty).(aStruct)
			pv.f[0], pv.f[1] = deepCopy(cur.value), aInt(cur.mode)
			pm.m["x"] = pv
		}
		obj.f[fProp], obj.f[fExt], obj.f[fRt] = pm, aBool(extensible), aAtom{"rt"}
		cell := &acell{v: obj, name: "obj"}
		ret, pan, fail = absRun(in, m.fDefine, []aval{aRef{root: cell}, aStr("x"), desc, aBool(true)})
		_ = pan
		if fail != "" {
			return outcome{fail: "objectDefineOwnProperty: " + fail}
		}
		if pan != nil {
			if isTypeErrorPanic(pan) {
				return outcome{typeError: true, next: cur}
			}
			return outcome{hostPanic: "objectDefineOwnProperty: " + describeAval(pan)}
		}
		if ok, _ := ret.(aBool); !bool(ok) {
			return outcome{fail: "objectDefineOwnProperty returned false with throw=true"}
		}
		after := cell.v.(aStruct).f[fProp].(aMap)
		pv, exists := after.m["x"]
		if !exists {
			return outcome{next: nil}
		}
		ps := pv.(aStruct)
		mode, _ := ps.f[1].(aInt)
		return outcome{next: &storedProp{value: ps.f[0], mode: int64(mode)}}
	}

	// enumerate descriptors
	var descs []pdDesc
	for _, v := range []string{"", "V0", "V1", "undefined"} {
		for w := 0; w < 3; w++ {
			for e := 0; e < 3; e++ {
				for cc := 0; cc < 3; cc++ {
					for _, g := range []string{"", "undefined", "fn:G0", "fn:G1"} {
						for _, s := range []string{"", "undefined", "fn:G0", "fn:G1"} {
							descs = append(descs, pdDesc{value: v, w: w, e: e, c: cc, get: g, set: s})
						}
					}
				}
			}
		}
	}
	category := func(cur pdState, d pdDesc) string {
		switch {
		case d.isAccessor() && d.isData():
			return "8.10.5 step 9 (both data and accessor fields)"
		case cur.kind == "absent":
			return "8.12.9 steps 3-4 (create)"
		case d.isGeneric():
			return "8.12.9 step 8 (generic descriptor on " + cur.kind + " property)"
		case cur.kind == "data" && d.isAccessor():
			return "8.12.9 step 9.b (data to accessor)"
		case cur.kind == "accessor" && d.isData():
			return "8.12.9 step 9.c (accessor to data)"
		case cur.kind == "data":
			return "8.12.9 step 10 (data on data)"
		}
		return "8.12.9 step 11 (accessor on accessor)"
	}
	type catStat struct {
		cases int
		bad   []string
		fail  string
	}
	stats := map[string]*catStat{}
	states := map[string]*storedProp{"absent": nil}
	how := map[string]string{"absent": "var o = {}"}
	work := []string{"absent"}
	edges := 0
	decIn := in
	for len(work) > 0 {
		k := work[0]
		work = work[1:]
		cur := states[k]
		curSt, why := decode(decIn, cur)
		if why != "" {
			r.undecided("decode:"+k, "-", "UNDECIDED: cannot decode the stored representation "+k+": "+why)
			continue
		}
		exts := []bool{true}
		if cur == nil {
			exts = []bool{true, false}
		}
		for _, ext := range exts {
			for _, d := range descs {
				edges++
				cat := category(curSt, d)
				st := stats[cat]
				if st == nil {
					st = &catStat{}
					stats[cat] = st
				}
				st.cases++
				wantErr, wantSt := es5Define(curSt, ext, d)
				out := step(cur, ext, d)
				setup := how[k]
				if !ext {
					setup += "; Object.preventExtensions(o)"
				}
				js := fmt.Sprintf("%s; Object.defineProperty(o, 'x', %s)", setup, d.js())
				switch {
				case out.fail != "":
					if st.fail == "" {
						st.fail = out.fail + " [" + js + "]"
					}
					continue
				case out.hostPanic != "":
					st.bad = append(st.bad, fmt.Sprintf("`%s` panics in the host (%s)", js, out.hostPanic))
					continue
				case out.typeError != wantErr:
					if wantErr {
						st.bad = append(st.bad, fmt.Sprintf("`%s` must throw TypeError (property is %s) but is accepted", js, curSt))
					} else {
						st.bad = append(st.bad, fmt.Sprintf("`%s` throws TypeError but must succeed (property is %s, expected %s)", js, curSt, wantSt))
					}
					continue
				case out.typeError:
					continue
				}
				gotSt, why := decode(decIn, out.next)
				if why != "" {
					st.bad = append(st.bad, fmt.Sprintf("`%s` stores a property that cannot be read back: %s", js, why))
					continue
				}
				if gotSt != wantSt {
					st.bad = append(st.bad, fmt.Sprintf("`%s`: property was %s, becomes %s, ES5 requires %s", js, curSt, gotSt, wantSt))
				}
				if out.next != nil {
					nk := out.next.key()
					if _, seen := states[nk]; !seen {
						states[nk] = out.next
						how[nk] = js
						work = append(work, nk)
					}
				}
			}
		}
		if len(states) > 400 {
			r.undecided("state-space", "-", "UNDECIDED: more than 400 distinct stored representations of one property are reachable")
			break
		}
	}
	var cats []string
	for k := range stats {
		cats = append(cats, k)
	}
	sort.Strings(cats)
	for _, cat := range cats {
		st := stats[cat]
		site := c.Pos(m.fDefine.Pos())
		switch {
		case st.fail != "":
			r.undecided(cat, site, "UNDECIDED: the abstract evaluator does not model "+st.fail)
		case len(st.bad) > 0:
			r.bad(cat, site, fmt.Sprintf("%d of %d cases deviate from ES5; first: %s", len(st.bad), st.cases, st.bad[0]))
		default:
			r.ok(cat, site, fmt.Sprintf("%d cases agree with ES5", st.cases))
		}
	}
	defineWorlds[c] = &defineWorld{m: m, in: in, hooks: hooks, states: states, how: how, fProp: fProp, fExt: fExt, fRt: fRt,
		decode: func(sp *storedProp) (pdState, string) { return decode(in, sp) },
		convert: func(d pdDesc) (aval, bool, string) {
			curDesc = d
			ret, pan, fail := absRun(in, m.fToDesc, []aval{aAtom{"rt"}, m.mkValue(in, "DESC")})
			switch {
			case fail != "":
				return nil, false, fail
			case pan != nil && isTypeErrorPanic(pan):
				return nil, true, ""
			case pan != nil:
				return nil, false, "toPropertyDescriptor panics: " + describeAval(pan)
			}
			return ret, false, ""
		}}
	r.ok("state-graph", "-", fmt.Sprintf("%d stored representations of one property reachable from absent; %d (state, extensible, descriptor) edges evaluated", len(states), edges))
	if edges < 3000 {
		r.undecided("coverage", "-", fmt.Sprintf("UNDECIDED: only %d edges evaluated", edges))
	}
}
