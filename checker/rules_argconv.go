package main

import (
	"fmt"
	"go/constant"
	"go/token"
	"go/types"
	"os"
	"sort"
	"strings"

	"golang.org/x/tools/go/ssa"
)

func init() {
	register(&Rule{ID: "ARG-conversion", Props: []string{"C05", "C06", "C08", "C09", "C12", "C13"}, Min: 100,
		Doc: "S (ES5 §15, the 'Let n be ToInteger(arg)' steps): for every built-in function and argument position listed in the table the set of abstract conversions applied to that argument - found by following the argument from call.Argument(k) / ArgumentList[k] through locals, phis and helper functions to the conversion functions (toIntegerFloat = ToInteger, toInt32, toUint32, toUint16, .float64() = ToNumber, .string() = ToString, .bool() = ToBoolean) - equals the conversion the clause prescribes; `undefined?` in a cell means the argument is also tested for undefined (it has a default, or its absence and an explicit undefined are distinguished as the clause says) - a cell without it must not test, which is what keeps presence-based arguments (splice's deleteCount, the Date fields) from treating an explicit undefined as absent. A different conversion of the same Go type (ToInteger for ToInt32, ToNumber for ToInteger) agrees on everyday values and differs for NaN, infinities, fractions and values beyond 2^31/2^32",
		Run: ruleArgConversion})
}

// convClass: the abstract conversion a callee stands for when the tracked value is its first argument / receiver.
func convClass(callee *ssa.Function, argIdx int) string {
	if callee == nil || argIdx != 0 {
		return ""
	}
	if callee.Pkg == nil || callee.Pkg.Pkg.Path() != ottoPath {
		return ""
	}
	if recv := callee.Signature.Recv(); recv != nil {
		if !typeIs(recv.Type(), ottoPath, "Value") {
			return ""
		}
		switch callee.Name() {
		case "float64":
			return "ToNumber"
		case "string":
			return "ToString"
		case "bool":
			return "ToBoolean"
		case "number":
			return "ToInteger(sat)" // the classified-number form: integer part saturated to int64, with NaN / infinity flagged
		}
		return ""
	}
	switch callee.Name() {
	case "toIntegerFloat":
		return "ToInteger"
	case "toInt32":
		return "ToInt32"
	case "toUint32":
		return "ToUint32"
	case "toUint16":
		return "ToUint16"
	case "toIntSign":
		return "ToNumber(sign)"
	}
	switch primHintOf(callee, nil, 0) {
	case "number":
		return "ToPrimitive(Number)"
	case "none", "string", "?":
		return "ToPrimitive"
	}
	if len(callee.Params) == 2 && typeIs(callee.Params[1].Type(), ottoPath, "defaultValueHint") {
		return "ToPrimitive" // the root function; the hint is looked at where the call is known (toPrimitiveHint)
	}
	return ""
}

type convTrack struct {
	n     int // argument index, -1: every element of the list (range loop)
	convs map[string]bool
	seen  map[ssa.Value]bool
	idxN  map[ssa.Value]bool // index parameters of accessor helpers that stand for n at the call being followed
}

func (t *convTrack) visit(v ssa.Value, role, depth int) {
	if v == nil || depth > 3 || t.seen[v] {
		return
	}
	t.seen[v] = true
	refs := v.Referrers()
	if refs == nil {
		return
	}
	for _, ref := range *refs {
		switch x := ref.(type) {
		case *ssa.Store:
			if al, ok := x.Addr.(*ssa.Alloc); ok && x.Val == v {
				for _, r2 := range *al.Referrers() {
					switch y := r2.(type) {
					case *ssa.UnOp:
						if y.Op == token.MUL {
							t.visit(y, role, depth)
						}
					case *ssa.FieldAddr:
						if role == roleCall && y.Field == fieldIndexByName(al.Type(), "ArgumentList") {
							for _, r3 := range *y.Referrers() {
								if ld, ok := r3.(*ssa.UnOp); ok && ld.Op == token.MUL {
									t.visit(ld, roleList, depth)
								}
							}
						}
					case *ssa.MakeClosure:
						// the variable is captured by a function literal: follow its loads there
						if lit, ok := y.Fn.(*ssa.Function); ok {
							for bi, b := range y.Bindings {
								if b == ssa.Value(al) && bi < len(lit.FreeVars) {
									for _, r3 := range *lit.FreeVars[bi].Referrers() {
										if ld, ok := r3.(*ssa.UnOp); ok && ld.Op == token.MUL {
											t.visit(ld, role, depth)
										}
									}
								}
							}
						}
					}
				}
			}
		case *ssa.Field:
			if role == roleCall && x.X == v && x.Field == fieldIndexByName(v.Type(), "ArgumentList") {
				t.visit(x, roleList, depth)
			}
		case *ssa.IndexAddr:
			if role == roleList && x.X == v {
				if k, ok := constInt(x.Index); (ok && int(k) == t.n) || t.idxN[x.Index] {
					for _, r2 := range *x.Referrers() {
						if ld, ok := r2.(*ssa.UnOp); ok && ld.Op == token.MUL {
							t.visit(ld, roleArg, depth)
						}
					}
				}
				if _, isConst := x.Index.(*ssa.Const); !isConst && t.n == -1 {
					for _, r2 := range *x.Referrers() {
						if ld, ok := r2.(*ssa.UnOp); ok && ld.Op == token.MUL {
							t.visit(ld, roleArg, depth)
						}
					}
				}
			}
		case *ssa.Slice:
			if role == roleList && x.X == v && t.n == -1 {
				t.visit(x, roleList, depth)
			}
		case *ssa.Range:
			if role == roleList && t.n == -1 {
				for _, r2 := range *x.Referrers() {
					if nx, ok := r2.(*ssa.Next); ok {
						for _, r3 := range *nx.Referrers() {
							if ex, ok := r3.(*ssa.Extract); ok && ex.Index == 2 {
								t.visit(ex, roleArg, depth)
							}
						}
					}
				}
			}
		case *ssa.Extract:
			if role == roleArg && x.Index == 0 {
				t.visit(x, roleArg, depth)
			}
		case *ssa.Phi:
			if role == roleArg {
				t.visit(x, roleArg, depth)
			}
		case ssa.CallInstruction:
			cc := x.Common()
			callee := cc.StaticCallee()
			if callee == nil {
				continue
			}
			for i, a := range cc.Args {
				if a != v {
					continue
				}
				switch {
				case role == roleCall && i == 0 && (callee.Name() == "Argument" || callee.Name() == "getArgument") && len(cc.Args) == 2:
					if k, ok := constInt(cc.Args[1]); ok && int(k) == t.n {
						if val := x.Value(); val != nil {
							t.visit(val, roleArg, depth)
						}
						if callee.Blocks != nil && len(callee.Params) == 2 {
							if t.idxN == nil {
								t.idxN = map[ssa.Value]bool{}
							}
							t.idxN[callee.Params[1]] = true
							t.visit(callee.Params[0], roleCall, depth+1)
						}
					}
				case role == roleList && i == 0 && (callee.Name() == "valueOfArrayIndex" || callee.Name() == "getValueOfArrayIndex") && len(cc.Args) == 2:
					if k, ok := constInt(cc.Args[1]); (ok && int(k) == t.n) || t.idxN[cc.Args[1]] {
						if val := x.Value(); val != nil {
							t.visit(val, roleArg, depth)
						}
						// what the accessor itself does with the element (an emptiness or undefined test)
						if callee.Blocks != nil && len(callee.Params) == 2 {
							if t.idxN == nil {
								t.idxN = map[ssa.Value]bool{}
							}
							t.idxN[callee.Params[1]] = true
							t.visit(callee.Params[0], roleList, depth+1)
						}
					}
				default:
					if role == roleArg {
						if cl := convClass(callee, i); cl != "" {
							if cl == "ToNumber" && feedsFloatToInteger(x.Value()) {
								cl = "ToInteger" // ToNumber whose result only goes into the integer-rounding helper: ToInteger written in two steps
							}
							if h := toPrimitiveHint(cc); h == "number" {
								cl = "ToPrimitive(Number)"
							}
							t.convs[cl] = true
							continue
						}
						if i == 0 && callee.Signature.Recv() != nil && (callee.Name() == "IsUndefined" || callee.Name() == "IsDefined") {
							t.convs["undefined?"] = true // the argument is tested for undefined (default / early exit)
							continue
						}
					}
					if callee.Blocks == nil || i >= len(callee.Params) || callee.Pkg == nil || callee.Pkg.Pkg.Path() != ottoPath {
						continue
					}
					if role == roleArg && callee.Signature.Recv() != nil && i == 0 {
						continue // other Value methods (IsUndefined, object(), isCallable ...) do not convert
					}
					t.visit(callee.Params[i], role, depth+1)
					// an accessor helper of the module: it hands back the element of the list this track is about
					// (as its first result) - what the caller does with the result is done to the argument
					if role == roleList && callee.Signature.Recv() == nil && returnsListElement(callee, i, t.n) {
						if val := x.Value(); val != nil {
							if callee.Signature.Results().Len() == 1 {
								t.visit(val, roleArg, depth)
							} else {
								for _, r2 := range *val.Referrers() {
									if ex, ok := r2.(*ssa.Extract); ok && ex.Index == 0 {
										t.visit(ex, roleArg, depth)
									}
								}
							}
						}
					}
				}
			}
		}
	}
}

func convsOf(fn *ssa.Function, n int) []string {
	t := &convTrack{n: n, convs: map[string]bool{}, seen: map[ssa.Value]bool{}}
	for _, p := range fn.Params {
		if typeIs(p.Type(), ottoPath, "FunctionCall") {
			t.visit(p, roleCall, 0)
		} else if sl, ok := p.Type().Underlying().(*types.Slice); ok && typeIs(sl.Elem(), ottoPath, "Value") {
			t.visit(p, roleList, 0)
		}
	}
	return sortedKeys(t.convs)
}

// argConvSpec: "<path>.<name>#<k>" (k = * for every argument) -> conversions ES5 prescribes, with the clause.
var argConvSpec = map[string][2]string{
	"parseInt#0":                              {"ToString", "§15.1.2.2 step 1"},
	"parseInt#1":                              {"ToInt32", "§15.1.2.2 step 6"},
	"parseFloat#0":                            {"ToString", "§15.1.2.3 step 1"},
	"isNaN#0":                                 {"ToNumber", "§15.1.2.4-5"},
	"isFinite#0":                              {"ToNumber", "§15.1.2.4-5"},
	"decodeURI#0":                             {"ToString", "§15.1.3.1-4 step 1"},
	"decodeURIComponent#0":                    {"ToString", "§15.1.3.1-4 step 1"},
	"encodeURI#0":                             {"ToString", "§15.1.3.1-4 step 1"},
	"encodeURIComponent#0":                    {"ToString", "§15.1.3.1-4 step 1"},
	"escape#0":                                {"ToString", "§B.2.1-2 step 1"},
	"unescape#0":                              {"ToString", "§B.2.1-2 step 1"},
	"String#0":                                {"ToString", "§15.5.1.1"},
	"new String#0":                            {"ToString", "§15.5.2.1"},
	"Boolean#0":                               {"ToBoolean", "§15.6.1.1, §15.6.2.1"},
	"new Boolean#0":                           {"ToBoolean", "§15.6.1.1, §15.6.2.1"},
	"RegExp#0":                                {"ToString+undefined?", "§15.10.4.1"},
	"RegExp#1":                                {"ToString+undefined?", "§15.10.4.1"},
	"new RegExp#0":                            {"ToString+undefined?", "§15.10.4.1"},
	"new RegExp#1":                            {"ToString+undefined?", "§15.10.4.1"},
	"Error#0":                                 {"ToString+undefined?", "§15.11.1.1, §15.11.2.1"},
	"new Error#0":                             {"ToString+undefined?", "§15.11.1.1, §15.11.2.1"},
	"EvalError#0":                             {"ToString+undefined?", "§15.11.7.2, §15.11.7.4"},
	"new EvalError#0":                         {"ToString+undefined?", "§15.11.7.2, §15.11.7.4"},
	"RangeError#0":                            {"ToString+undefined?", "§15.11.7.2, §15.11.7.4"},
	"new RangeError#0":                        {"ToString+undefined?", "§15.11.7.2, §15.11.7.4"},
	"ReferenceError#0":                        {"ToString+undefined?", "§15.11.7.2, §15.11.7.4"},
	"new ReferenceError#0":                    {"ToString+undefined?", "§15.11.7.2, §15.11.7.4"},
	"SyntaxError#0":                           {"ToString+undefined?", "§15.11.7.2, §15.11.7.4"},
	"new SyntaxError#0":                       {"ToString+undefined?", "§15.11.7.2, §15.11.7.4"},
	"TypeError#0":                             {"ToString+undefined?", "§15.11.7.2, §15.11.7.4"},
	"new TypeError#0":                         {"ToString+undefined?", "§15.11.7.2, §15.11.7.4"},
	"URIError#0":                              {"ToString+undefined?", "§15.11.7.2, §15.11.7.4"},
	"new URIError#0":                          {"ToString+undefined?", "§15.11.7.2, §15.11.7.4"},
	"Function#*":                              {"ToString", "§15.3.2.1"},
	"new Function#*":                          {"ToString", "§15.3.2.1"},
	"new Date#*":                              {"ToNumber", "§15.9.3.1 steps 1-7"},
	"new Date#0":                              {"ToPrimitive", "§15.9.3.2 step 1"},
	"Date.UTC#*":                              {"ToNumber", "§15.9.4.3 steps 1-7"},
	"Date.parse#0":                            {"ToString", "§15.9.4.2"},
	"Date.prototype.setTime#0":                {"ToNumber", "§15.9.5.27"},
	"Date.prototype.setMilliseconds#*":        {"ToInteger(sat)", "§15.9.5.28-41 (ToNumber, then ToInteger inside MakeTime/MakeDay; the classified form keeps the NaN flag)"},
	"Date.prototype.setUTCMilliseconds#*":     {"ToInteger(sat)", "§15.9.5.28-41 (ToNumber, then ToInteger inside MakeTime/MakeDay; the classified form keeps the NaN flag)"},
	"Date.prototype.setSeconds#*":             {"ToInteger(sat)", "§15.9.5.28-41 (ToNumber, then ToInteger inside MakeTime/MakeDay; the classified form keeps the NaN flag)"},
	"Date.prototype.setUTCSeconds#*":          {"ToInteger(sat)", "§15.9.5.28-41 (ToNumber, then ToInteger inside MakeTime/MakeDay; the classified form keeps the NaN flag)"},
	"Date.prototype.setMinutes#*":             {"ToInteger(sat)", "§15.9.5.28-41 (ToNumber, then ToInteger inside MakeTime/MakeDay; the classified form keeps the NaN flag)"},
	"Date.prototype.setUTCMinutes#*":          {"ToInteger(sat)", "§15.9.5.28-41 (ToNumber, then ToInteger inside MakeTime/MakeDay; the classified form keeps the NaN flag)"},
	"Date.prototype.setHours#*":               {"ToInteger(sat)", "§15.9.5.28-41 (ToNumber, then ToInteger inside MakeTime/MakeDay; the classified form keeps the NaN flag)"},
	"Date.prototype.setUTCHours#*":            {"ToInteger(sat)", "§15.9.5.28-41 (ToNumber, then ToInteger inside MakeTime/MakeDay; the classified form keeps the NaN flag)"},
	"Date.prototype.setDate#*":                {"ToInteger(sat)", "§15.9.5.28-41 (ToNumber, then ToInteger inside MakeTime/MakeDay; the classified form keeps the NaN flag)"},
	"Date.prototype.setUTCDate#*":             {"ToInteger(sat)", "§15.9.5.28-41 (ToNumber, then ToInteger inside MakeTime/MakeDay; the classified form keeps the NaN flag)"},
	"Date.prototype.setMonth#*":               {"ToInteger(sat)", "§15.9.5.28-41 (ToNumber, then ToInteger inside MakeTime/MakeDay; the classified form keeps the NaN flag)"},
	"Date.prototype.setUTCMonth#*":            {"ToInteger(sat)", "§15.9.5.28-41 (ToNumber, then ToInteger inside MakeTime/MakeDay; the classified form keeps the NaN flag)"},
	"Date.prototype.setFullYear#*":            {"ToInteger(sat)", "§15.9.5.28-41 (ToNumber, then ToInteger inside MakeTime/MakeDay; the classified form keeps the NaN flag)"},
	"Date.prototype.setUTCFullYear#*":         {"ToInteger(sat)", "§15.9.5.28-41 (ToNumber, then ToInteger inside MakeTime/MakeDay; the classified form keeps the NaN flag)"},
	"String.fromCharCode#*":                   {"ToUint16", "§15.5.3.2"},
	"String.prototype.charAt#0":               {"ToInteger(sat)", "§15.5.4.4 step 3"},
	"String.prototype.charCodeAt#0":           {"ToInteger(sat)", "§15.5.4.5 step 3"},
	"String.prototype.concat#*":               {"ToString", "§15.5.4.6 step 4"},
	"String.prototype.indexOf#0":              {"ToString", "§15.5.4.7 step 3"},
	"String.prototype.indexOf#1":              {"ToInteger", "§15.5.4.7 step 4"},
	"String.prototype.lastIndexOf#0":          {"ToString", "§15.5.4.8 step 3"},
	"String.prototype.lastIndexOf#1":          {"ToInteger(sat)+undefined?", "§15.5.4.8 steps 4-5 (ToNumber; NaN -> +Infinity, else ToInteger: the classified form keeps the NaN flag)"},
	"String.prototype.localeCompare#0":        {"ToString", "§15.5.4.9"},
	"String.prototype.match#0":                {"ToString+undefined?", "§15.5.4.10, §15.5.4.12 (new RegExp(arg) when it is not a RegExp)"},
	"String.prototype.search#0":               {"ToString+undefined?", "§15.5.4.10, §15.5.4.12 (new RegExp(arg) when it is not a RegExp)"},
	"String.prototype.replace#0":              {"ToString", "§15.5.4.11"},
	"String.prototype.replace#1":              {"ToString", "§15.5.4.11"},
	"String.prototype.slice#0":                {"ToInteger(sat)", "§15.5.4.13 steps 4-5"},
	"String.prototype.slice#1":                {"ToInteger(sat)+undefined?", "§15.5.4.13 steps 4-5"},
	"String.prototype.split#0":                {"ToString+undefined?", "§15.5.4.14 step 8"},
	"String.prototype.split#1":                {"ToUint32+undefined?", "§15.5.4.14 step 5"},
	"String.prototype.substring#0":            {"ToInteger(sat)", "§15.5.4.15 steps 4-5"},
	"String.prototype.substring#1":            {"ToInteger(sat)+undefined?", "§15.5.4.15 steps 4-5"},
	"String.prototype.substr#0":               {"ToInteger(sat)", "§B.2.3 steps 2-3"},
	"String.prototype.substr#1":               {"ToInteger(sat)+undefined?", "§B.2.3 steps 2-3"},
	"Number.prototype.toString#0":             {"ToInteger+undefined?", "§15.7.4.2"},
	"Number.prototype.toFixed#0":              {"ToInteger", "§15.7.4.5 step 1"},
	"Number.prototype.toExponential#0":        {"ToInteger+undefined?", "§15.7.4.6 step 2"},
	"Number.prototype.toPrecision#0":          {"ToInteger+undefined?", "§15.7.4.7 step 3"},
	"Array.prototype.join#0":                  {"ToString+undefined?", "§15.4.4.5 step 4"},
	"Array.prototype.slice#0":                 {"ToInteger(sat)", "§15.4.4.10 steps 5, 7"},
	"Array.prototype.slice#1":                 {"ToInteger(sat)+undefined?", "§15.4.4.10 steps 5, 7"},
	"Array.prototype.splice#0":                {"ToInteger(sat)", "§15.4.4.12 steps 5, 7"},
	"Array.prototype.splice#1":                {"ToInteger(sat)", "§15.4.4.12 steps 5, 7"},
	"Array.prototype.indexOf#1":               {"ToInteger(sat)", "§15.4.4.14 step 5, §15.4.4.15 step 5"},
	"Array.prototype.lastIndexOf#1":           {"ToInteger(sat)", "§15.4.4.14 step 5, §15.4.4.15 step 5"},
	"Object.defineProperty#1":                 {"ToString", "§15.2.3.6 step 2, §15.2.3.3 step 2"},
	"Object.getOwnPropertyDescriptor#1":       {"ToString", "§15.2.3.6 step 2, §15.2.3.3 step 2"},
	"Object.prototype.hasOwnProperty#0":       {"ToString", "§15.2.4.5 step 1, §15.2.4.7 step 1"},
	"Object.prototype.propertyIsEnumerable#0": {"ToString", "§15.2.4.5 step 1, §15.2.4.7 step 1"},
	"RegExp.prototype.exec#0":                 {"ToString", "§15.10.6.2 step 2"},
	"RegExp.prototype.test#0":                 {"ToString", "§15.10.6.2 step 2"},
	"JSON.parse#0":                            {"ToString", "§15.12.2 step 1"},
	"Math.abs#0":                              {"ToNumber", "§15.8.2"},
	"Math.acos#0":                             {"ToNumber", "§15.8.2"},
	"Math.asin#0":                             {"ToNumber", "§15.8.2"},
	"Math.atan#0":                             {"ToNumber", "§15.8.2"},
	"Math.ceil#0":                             {"ToNumber", "§15.8.2"},
	"Math.cos#0":                              {"ToNumber", "§15.8.2"},
	"Math.exp#0":                              {"ToNumber", "§15.8.2"},
	"Math.floor#0":                            {"ToNumber", "§15.8.2"},
	"Math.log#0":                              {"ToNumber", "§15.8.2"},
	"Math.round#0":                            {"ToNumber", "§15.8.2"},
	"Math.sin#0":                              {"ToNumber", "§15.8.2"},
	"Math.sqrt#0":                             {"ToNumber", "§15.8.2"},
	"Math.tan#0":                              {"ToNumber", "§15.8.2"},
	"Math.atan2#0":                            {"ToNumber", "§15.8.2.5, §15.8.2.13"},
	"Math.atan2#1":                            {"ToNumber", "§15.8.2.5, §15.8.2.13"},
	"Math.pow#0":                              {"ToNumber", "§15.8.2.5, §15.8.2.13"},
	"Math.pow#1":                              {"ToNumber", "§15.8.2.5, §15.8.2.13"},
	"Math.max#*":                              {"ToNumber", "§15.8.2.11-12"},
	"Math.min#*":                              {"ToNumber", "§15.8.2.11-12"},
}

func ruleArgConversion(c *Ctx, r *R) {
	s := c.Shape()
	paths := []string{"", "Object", "Object.prototype", "Function.prototype", "Array", "Array.prototype", "String", "String.prototype", "Number", "Number.prototype", "Boolean.prototype", "Math", "Date", "Date.prototype", "RegExp.prototype", "JSON", "Error.prototype"}
	discovered := map[string]string{}
	for _, path := range paths {
		fns := s.boundSSA(c, path)
		if path == "" && s.Global != nil {
			// functions that are properties of the global object (parseInt, isNaN, ...), and the constructors called as functions
			for name, p := range s.Global.Props {
				if ch := p.objOf(); ch != nil && ch.Native != nil {
					if f, ok := ch.Native.Call.(SFunc); ok {
						if sf := c.SSAFunc(f.Fn); sf != nil {
							fns[name] = sf
						}
					}
					if f, ok := ch.Native.Construct.(SFunc); ok {
						if sf := c.SSAFunc(f.Fn); sf != nil {
							fns["new "+name] = sf
						}
					}
				}
			}
		}
		for _, name := range sortedKeys(fns) {
			fn := fns[name]
			label := strings.TrimPrefix(path+"."+name, ".")
			for k := -1; k < 7; k++ {
				cv := convsOf(fn, k)
				if len(cv) == 0 {
					continue
				}
				ks := fmt.Sprint(k)
				if k == -1 {
					ks = "*"
				}
				discovered[label+"#"+ks] = strings.Join(cv, "+")
			}
		}
	}
	if os.Getenv("OTTOCHECK_DISCOVER") != "" {
		for _, k := range sortedKeys(discovered) {
			fmt.Printf("DISCOVER %s = %s\n", k, discovered[k])
		}
	}
	// every Math function converts every argument with ToNumber and nothing else (ES5 §15.8.2 preamble)
	for _, k := range sortedKeys(discovered) {
		if strings.HasPrefix(k, "Math.") {
			if _, listed := argConvSpec[k]; !listed && discovered[k] != "ToNumber" {
				r.bad(k, "-", "§15.8.2: each Math function applies ToNumber to each of its arguments; the implementation applies "+discovered[k])
			}
		}
	}
	keys := make([]string, 0, len(argConvSpec))
	for k := range argConvSpec {
		keys = append(keys, k)
	}
	sort.Strings(keys)
	for _, k := range keys {
		want, clause := argConvSpec[k][0], argConvSpec[k][1]
		got, ok := discovered[k]
		switch {
		case !ok:
			r.bad(k, "-", fmt.Sprintf("%s: no conversion of this argument is found (the clause prescribes %s): the built-in is unbound, ignores the argument, or reads it in a way the analysis does not follow", clause, want))
		case got == want:
			r.ok(k, "-", want+" ("+clause+")")
		default:
			r.bad(k, "-", fmt.Sprintf("%s prescribes %s for this argument; the implementation applies %s", clause, want, got))
		}
	}
}

// isFloatToInteger: fn is ToInteger on an already converted number: float64 -> float64, NaN tested, and the result
// rounded towards zero (math.Trunc, or math.Floor and math.Ceil by sign).
func isFloatToInteger(fn *ssa.Function) bool {
	if fn == nil || fn.Blocks == nil || len(fn.Params) != 1 || fn.Signature.Results().Len() != 1 {
		return false
	}
	isF := func(t types.Type) bool {
		b, ok := t.Underlying().(*types.Basic)
		return ok && b.Kind() == types.Float64
	}
	if !isF(fn.Params[0].Type()) || !isF(fn.Signature.Results().At(0).Type()) {
		return false
	}
	seen := map[string]bool{}
	for _, b := range fn.Blocks {
		for _, ins := range b.Instrs {
			if call, ok := ins.(*ssa.Call); ok {
				if callee := call.Call.StaticCallee(); callee != nil && callee.Pkg != nil && callee.Pkg.Pkg.Path() == "math" && len(call.Call.Args) >= 1 && call.Call.Args[0] == ssa.Value(fn.Params[0]) {
					seen[callee.Name()] = true
				}
			}
		}
	}
	return seen["IsNaN"] && (seen["Trunc"] || (seen["Floor"] && seen["Ceil"]))
}

// feedsFloatToInteger: every use of v (a float64) is as the argument of an isFloatToInteger function.
func feedsFloatToInteger(v ssa.Value) bool {
	if v == nil || v.Referrers() == nil {
		return false
	}
	n := 0
	for _, ref := range *v.Referrers() {
		switch x := ref.(type) {
		case *ssa.DebugRef:
		case *ssa.Call:
			if !isFloatToInteger(x.Call.StaticCallee()) {
				return false
			}
			n++
		default:
			return false
		}
	}
	return n > 0
}

// toPrimitiveHint: cc applies ToPrimitive to its first argument, directly (the function that hands its hint parameter
// to [[DefaultValue]]) or through a one-call wrapper; returns the hint "none" / "number" / "string", "?" when the hint is
// not a constant, "" when cc is no such call.
func toPrimitiveHint(cc *ssa.CallCommon) string {
	return primHintOf(cc.StaticCallee(), cc.Args, 0)
}

func primHintOf(callee *ssa.Function, args []ssa.Value, depth int) string {
	if callee == nil || callee.Blocks == nil || depth > 3 || callee.Pkg == nil || callee.Pkg.Pkg.Path() != ottoPath || callee.Signature.Recv() != nil {
		return ""
	}
	if len(callee.Params) == 2 && typeIs(callee.Params[0].Type(), ottoPath, "Value") && typeIs(callee.Params[1].Type(), ottoPath, "defaultValueHint") {
		// the root: passes its hint on to DefaultValue
		passes := false
		for _, b := range callee.Blocks {
			for _, ins := range b.Instrs {
				if call, ok := ins.(*ssa.Call); ok {
					if f := call.Call.StaticCallee(); f != nil && f.Name() == "DefaultValue" {
						for _, a := range call.Call.Args {
							if a == ssa.Value(callee.Params[1]) {
								passes = true
							}
						}
					}
				}
			}
		}
		if !passes || len(args) != 2 {
			return ""
		}
		k, ok := args[1].(*ssa.Const)
		if !ok || k.Value == nil {
			return "?"
		}
		n, _ := constant.Int64Val(k.Value)
		sc := callee.Pkg.Pkg.Scope()
		for _, nm := range sc.Names() {
			if cst, ok := sc.Lookup(nm).(*types.Const); ok && typeIs(cst.Type(), ottoPath, "defaultValueHint") {
				if v, _ := constant.Int64Val(cst.Val()); v == n {
					switch {
					case strings.Contains(nm, "NoHint"):
						return "none"
					case strings.Contains(nm, "Number"):
						return "number"
					case strings.Contains(nm, "String"):
						return "string"
					}
				}
			}
		}
		return "?"
	}
	// a wrapper: one parameter, handed on as the first argument of the only call
	if len(callee.Params) == 1 && typeIs(callee.Params[0].Type(), ottoPath, "Value") {
		var only *ssa.Call
		n := 0
		for _, b := range callee.Blocks {
			for _, ins := range b.Instrs {
				if call, ok := ins.(*ssa.Call); ok {
					n++
					only = call
				}
			}
		}
		if n == 1 && len(only.Call.Args) >= 1 && only.Call.Args[0] == ssa.Value(callee.Params[0]) {
			return primHintOf(only.Call.StaticCallee(), only.Call.Args, depth+1)
		}
	}
	return ""
}

// returnsListElement: some return of fn yields, as its first result, element n of its list parameter pi (read by index or
// through valueOfArrayIndex / getValueOfArrayIndex), possibly through a local.
func returnsListElement(fn *ssa.Function, pi, n int) bool {
	if pi >= len(fn.Params) || len(fn.Blocks) == 0 || fn.Signature.Results().Len() == 0 || !typeIs(fn.Signature.Results().At(0).Type(), ottoPath, "Value") {
		return false
	}
	list := fn.Params[pi]
	var isElem func(v ssa.Value, d int) bool
	isElem = func(v ssa.Value, d int) bool {
		if d > 5 || v == nil {
			return false
		}
		switch x := v.(type) {
		case *ssa.Call:
			cl := x.Call.StaticCallee()
			if cl != nil && (cl.Name() == "valueOfArrayIndex" || cl.Name() == "getValueOfArrayIndex") && len(x.Call.Args) == 2 && x.Call.Args[0] == ssa.Value(list) {
				k, ok := constInt(x.Call.Args[1])
				return ok && int(k) == n
			}
		case *ssa.Extract:
			return x.Index == 0 && isElem(x.Tuple, d+1)
		case *ssa.Phi:
			for _, e := range x.Edges {
				if isElem(e, d+1) {
					return true
				}
			}
		case *ssa.UnOp:
			if ia, ok := x.X.(*ssa.IndexAddr); ok && ia.X == ssa.Value(list) {
				k, ok := constInt(ia.Index)
				return ok && int(k) == n
			}
			if al, ok := x.X.(*ssa.Alloc); ok {
				for _, ref := range *al.Referrers() {
					if st, ok := ref.(*ssa.Store); ok && st.Addr == ssa.Value(al) && isElem(st.Val, d+1) {
						return true
					}
				}
			}
		}
		return false
	}
	for _, b := range fn.Blocks {
		if ret, ok := b.Instrs[len(b.Instrs)-1].(*ssa.Return); ok && len(ret.Results) > 0 && isElem(ret.Results[0], 0) {
			return true
		}
	}
	return false
}
