// ottocheck: repository-specific static checker for robertkrimen/otto.
//
//	ottocheck <property|all|rule:ID> [--tier quick|thorough] [--repo /repo] [--verif /verif] [--replay file] [--list]
package main

import (
	"encoding/json"
	"fmt"
	"os"
	"sort"
	"strconv"
	"strings"
	"time"
)

func main() {
	os.Exit(run(os.Args[1:]))
}

func run(args []string) int {
	repo, verif, tier, replay := "/repo", "/verif", "quick", ""
	var targets []string
	list := false
	for i := 0; i < len(args); i++ {
		switch a := args[i]; a {
		case "--repo":
			i++
			repo = args[i]
		case "--verif":
			i++
			verif = args[i]
		case "--tier":
			i++
			tier = args[i]
		case "--replay":
			i++
			replay = args[i]
		case "--list":
			list = true
		case "quick", "thorough":
			tier = a
		default:
			targets = append(targets, a)
		}
	}
	if t := os.Getenv("VERIF_TIER"); t == "quick" || t == "thorough" {
		if !containsArg(args, "quick") && !containsArg(args, "thorough") && !containsArg(args, "--tier") {
			tier = t
		}
	}
	seed, _ := strconv.Atoi(os.Getenv("VERIF_SEED"))
	if list {
		sort.Slice(rules, func(i, j int) bool { return rules[i].ID < rules[j].ID })
		for _, r := range rules {
			fmt.Printf("%-24s tier=%-8s min=%-3d props=%s\n", r.ID, tierOf(r), r.Min, strings.Join(r.Props, ","))
		}
		return 0
	}
	if len(targets) == 0 {
		fmt.Fprintln(os.Stderr, "usage: ottocheck <property|all|rule:ID> [quick|thorough]")
		return 2
	}
	t0 := time.Now()
	c, err := loadCtx(repo, nil)
	if err != nil {
		fmt.Fprintf(os.Stderr, "CHECKER-ERROR %v\n", err)
		// A tree that does not load cannot be judged; fail closed.
		for _, t := range targets {
			fmt.Printf("VIOLATION property=%s replay=%s\n", t, "/verif/replay/"+t+"/load-error")
		}
		return 1
	}
	c.tier = tier
	fmt.Printf("loaded %d packages of the otto module from %s in %.1fs\n", len(c.All), repo, time.Since(t0).Seconds())
	known, err := loadKnown(verif + "/known_findings.json")
	if err != nil {
		fmt.Fprintf(os.Stderr, "CHECKER-ERROR %v\n", err)
		return 2
	}
	replayKey := ""
	if replay != "" {
		b, err := os.ReadFile(replay)
		if err != nil {
			fmt.Fprintf(os.Stderr, "CHECKER-ERROR %v\n", err)
			return 2
		}
		var rp struct{ Key string }
		json.Unmarshal(b, &rp)
		replayKey = rp.Key
	}
	if len(targets) == 1 && targets[0] == "all" {
		targets = allProps()
	}
	cache := map[string]ruleResult{}
	exit := 0
	for _, t := range targets {
		pt0 := time.Now()
		if len(targets) == 1 {
			pt0 = t0
		}
		var sel []*Rule
		for _, r := range rules {
			if strings.HasPrefix(t, "rule:") {
				if r.ID == strings.TrimPrefix(t, "rule:") {
					sel = append(sel, r)
				}
				continue
			}
			if contains(r.Props, t) && (tier == "thorough" || tierOf(r) == "quick") {
				sel = append(sel, r)
			}
		}
		if len(sel) == 0 {
			fmt.Fprintf(os.Stderr, "CHECKER-ERROR no rules for %s\n", t)
			return 2
		}
		sort.Slice(sel, func(i, j int) bool { return sel[i].ID < sel[j].ID })
		var results []ruleResult
		for _, r := range sel {
			res, ok := cache[r.ID]
			if !ok {
				res = runRule(c, r)
				cache[r.ID] = res
			}
			results = append(results, res)
		}
		prop := t
		if strings.HasPrefix(t, "rule:") {
			prop = "RULE-" + strings.TrimPrefix(t, "rule:")
		}
		if tier == "thorough" && replayKey == "" && !strings.HasPrefix(t, "rule:") {
			native := map[string]string{}
			for _, res := range results {
				if tierOf(res.rule) == "quick" {
					for _, o := range res.obs {
						native[o.Key] = o.Status
					}
				}
			}
			summary, diffs := crossLoad(repo, sel, native)
			xr := &R{rule: &Rule{ID: "XARCH-consistent", Doc: "the quick rules give the same verdict on the program loaded under GOARCH=386 and under GOOS=windows (build-constrained or size-dependent code must not change a verdict)"}}
			for _, d := range diffs {
				xr.bad("diff:"+d, "-", d)
			}
			for _, e := range summary {
				xr.ok(fmt.Sprint("env:", e["env"]), "-", fmt.Sprintf("%v obligations re-checked, %v differences", e["obligations"], e["differences"]))
			}
			results = append(results, ruleResult{rule: xr.rule, obs: xr.obs, info: map[string]interface{}{"cross_loads": summary}})
			sv := selfValidate(repo, verif, sel)
			fired := 0
			for _, v := range sv {
				if v.Result == "fires" {
					fired++
				}
			}
			sr := &R{rule: &Rule{ID: "SELF-validation", Doc: "informational: each seeded one-instance-broken variant of /verif/mutants/own that targets a rule of this property is applied to a scratch copy and the rule must fire; recorded in the evidence, never a violation"}}
			sr.ok("summary", "-", fmt.Sprintf("%d of %d seeded variants make their rule fire", fired, len(sv)))
			results = append(results, ruleResult{rule: sr.rule, obs: sr.obs, info: map[string]interface{}{"seeded_variants": sv}})
			for _, v := range sv {
				fmt.Printf("self-validation %-34s rule=%-20s %s %s\n", v.Name, v.Rule, v.Result, v.Detail)
			}
		}
		if e := finish(c, verif, prop, tier, seed, results, known, pt0, replayKey); e > exit {
			exit = e
		}
	}
	return exit
}

func tierOf(r *Rule) string {
	if r.Tier == "" {
		return "quick"
	}
	return r.Tier
}

func allProps() []string {
	set := map[string]bool{}
	for _, r := range rules {
		for _, p := range r.Props {
			set[p] = true
		}
	}
	return sortedKeys(set)
}

func containsArg(args []string, a string) bool {
	for _, x := range args {
		if x == a {
			return true
		}
	}
	return false
}
