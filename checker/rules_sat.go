package main

import (
	"fmt"
	"go/constant"
	"go/token"
	"go/types"

	"golang.org/x/tools/go/ssa"
)

func init() {
	register(&Rule{ID: "SAT-overflow", Props: []string{"C02", "C09", "C08", "C05", "C12", "C15", "C16", "C06"}, Min: 10,
		Doc: "G: Value.number() classifies a script number and returns its integer part saturated to the int64 range (Infinity, 1e300 -> MaxInt64), and toIntegerFloat returns a float64 that may be infinite. Census of their uses in the built-ins: (a) integer addition, subtraction or multiplication on such a saturated value wraps around unless the value was bounded from that side first (a dominating ordered comparison of that value whose surviving branch limits it); (b) a conversion of a toIntegerFloat result to an integer type is undefined for infinities and out-of-range values unless a dominating two-sided range test excludes them. A wrapped sum passes the clamp that follows it and becomes a negative slice bound: an index-out-of-range panic that escapes Run (`\"abc\".substr(1, Infinity)`)",
		Run: ruleSatOverflow})
}

var satOverflowReviewed = map[string]string{
	"execRegExp:arith": "int(lastIndex) + result[1]: for a global regexp index == lastIndex, which the range test 0 <= index <= len(target) above bounds on the path where a match exists; for a non-global one the sum is computed but only used under `if global`",
}

// satCtx: the context of the running SAT-overflow rule (for the call-site queries of floatInRange).
var satCtx *Ctx

func ruleSatOverflow(c *Ctx, r *R) {
	satCtx = c
	isNumberCall := func(v ssa.Value) bool {
		call, ok := v.(*ssa.Call)
		if !ok {
			return false
		}
		callee := call.Call.StaticCallee()
		return callee != nil && callee.Name() == "number" && callee.Signature.Recv() != nil && typeIs(callee.Signature.Recv().Type(), ottoPath, "Value")
	}
	var bounded func(fn *ssa.Function, v ssa.Value, use ssa.Instruction, above bool) bool
	// saturated: the int64 field of a number() result, through conversions, phis and local cells
	var saturated func(v ssa.Value, depth int) bool
	// retSaturated: result idx of callee can be a saturated value that the callee has not bounded on both sides on the
	// path to the return (leaf-wise through phis: a leaf counts as bounded when both tests dominate the phi edge it enters by)
	memo := map[string]int{}
	var retSaturated func(callee *ssa.Function, idx, depth int) bool
	retSaturated = func(callee *ssa.Function, idx, depth int) bool {
		mk := fmt.Sprintf("%p/%d", callee, idx)
		if v, ok := memo[mk]; ok {
			return v == 1
		}
		memo[mk] = 0
		res := false
		var leaf func(v ssa.Value, at ssa.Instruction, d int)
		leaf = func(v ssa.Value, at ssa.Instruction, d int) {
			if res || d > 6 {
				return
			}
			if phi, ok := v.(*ssa.Phi); ok {
				for i, e := range phi.Edges {
					pred := phi.Block().Preds[i]
					leaf(e, pred.Instrs[len(pred.Instrs)-1], d+1)
				}
				return
			}
			if !saturated(v, depth+1) {
				return
			}
			if bounded(callee, v, at, true) && bounded(callee, v, at, false) {
				return
			}
			res = true
		}
		for _, b := range callee.Blocks {
			for _, ins := range b.Instrs {
				if ret, ok := ins.(*ssa.Return); ok && idx < len(ret.Results) {
					leaf(ret.Results[idx], ret, 0)
				}
			}
		}
		if res {
			memo[mk] = 1
		}
		return res
	}
	saturated = func(v ssa.Value, depth int) bool {
		if v == nil || depth > 6 {
			return false
		}
		switch x := v.(type) {
		case *ssa.Field:
			if st, ok := x.X.Type().Underlying().(*types.Struct); ok && st.Field(x.Field).Name() == "int64" {
				if isNumberCall(x.X) {
					return true
				}
				// loaded struct cell holding a number() result
				if a := loadAddr(x.X); a != nil {
					if al, ok := a.(*ssa.Alloc); ok {
						for _, ref := range *al.Referrers() {
							if s, ok := ref.(*ssa.Store); ok && s.Addr == ssa.Value(al) && isNumberCall(s.Val) {
								return true
							}
						}
					}
				}
			}
		case *ssa.UnOp:
			if x.Op == token.MUL {
				if fa, ok := x.X.(*ssa.FieldAddr); ok {
					if _, f := fieldOfAddr(fa); f != nil && f.Name() == "int64" {
						if al, ok := fa.X.(*ssa.Alloc); ok {
							for _, ref := range *al.Referrers() {
								if s, ok := ref.(*ssa.Store); ok && s.Addr == ssa.Value(al) && isNumberCall(s.Val) {
									return true
								}
							}
						}
					}
				}
			}
		case *ssa.Convert:
			if b, ok := x.Type().Underlying().(*types.Basic); ok && (b.Kind() == types.Int || b.Kind() == types.Int64) {
				return saturated(x.X, depth+1)
			}
		case *ssa.ChangeType:
			return saturated(x.X, depth+1)
		case *ssa.Phi:
			for _, e := range x.Edges {
				if saturated(e, depth+1) {
					return true
				}
			}
		case *ssa.Extract:
			// a helper returning the saturated value unchanged (rangeStartLength's length)
			if call, ok := x.Tuple.(*ssa.Call); ok {
				if callee := call.Call.StaticCallee(); callee != nil && callee.Blocks != nil {
					return retSaturated(callee, x.Index, depth)
				}
			}
		case *ssa.Call:
			if callee := x.Call.StaticCallee(); callee != nil && callee.Blocks != nil && callee.Signature.Results().Len() == 1 && callee.Pkg != nil && callee.Pkg.Pkg.Path() == ottoPath {
				return retSaturated(callee, 0, depth)
			}
		}
		return false
	}
	// boundedAbove / boundedBelow: a dominating If compares v such that on the surviving side v is limited
	stripConv := func(v ssa.Value) ssa.Value {
		for i := 0; i < 4; i++ {
			switch x := v.(type) {
			case *ssa.Convert:
				if b, ok := x.X.Type().Underlying().(*types.Basic); ok && b.Info()&types.IsInteger != 0 {
					v = x.X
					continue
				}
			case *ssa.ChangeType:
				v = x.X
				continue
			}
			break
		}
		return v
	}
	bounded = func(fn *ssa.Function, v ssa.Value, use ssa.Instruction, above bool) bool {
		v = stripConv(v)
		for _, b := range fn.Blocks {
			iff, ok := b.Instrs[len(b.Instrs)-1].(*ssa.If)
			if !ok {
				continue
			}
			for _, cmp := range comparisonsOf(iff.Cond, 0) {
				x, y, op := stripConv(cmp.X), stripConv(cmp.Y), cmp.Op
				if sameSSA(y, v, 0) {
					x, y = y, x
					switch op {
					case token.LSS:
						op = token.GTR
					case token.GTR:
						op = token.LSS
					case token.LEQ:
						op = token.GEQ
					case token.GEQ:
						op = token.LEQ
					}
				}
				// a float compared with a constant beyond the 64-bit integers (`math.Abs(v) < 1e21`) is no range test for a
				// conversion to an integer
				if fb, ok := v.Type().Underlying().(*types.Basic); ok && fb.Info()&types.IsFloat != 0 {
					if k, ok := y.(*ssa.Const); ok && k.Value != nil {
						if f, _ := constantFloat(k); f > satFloatLimit || f < -satFloatLimit {
							continue
						}
					}
				}
				// |v| compared with something: the side on which |v| is smaller bounds v from both sides
				if ac, ok := x.(*ssa.Call); ok && !saturated(y, 0) {
					if cal := ac.Call.StaticCallee(); cal != nil && cal.Pkg != nil && cal.Pkg.Pkg.Path() == "math" && cal.Name() == "Abs" && sameSSA(stripConv(ac.Call.Args[0]), v, 0) {
						absSide := -1
						switch op {
						case token.LSS, token.LEQ:
							absSide = 0
						case token.GTR, token.GEQ:
							absSide = 1
						}
						if absSide >= 0 {
							s, other := b.Succs[absSide], b.Succs[1-absSide]
							if (len(s.Preds) == 1 && s.Dominates(use.Block())) || (b.Dominates(use.Block()) && !reaches(other, use.Block(), map[*ssa.BasicBlock]bool{b: true})) {
								return true
							}
						}
						continue
					}
				}
				if !sameSSA(x, v, 0) || saturated(y, 0) {
					continue
				}
				// which successor limits v from the wanted side
				side := -1
				switch op {
				case token.LSS, token.LEQ: // true side: v < y  (bounded above)
					if above {
						side = 0
					} else {
						side = 1
					}
				case token.GTR, token.GEQ: // true side: v > y (bounded below); false side bounded above
					if above {
						side = 1
					} else {
						side = 0
					}
				}
				if side < 0 {
					continue
				}
				s := b.Succs[side]
				other := b.Succs[1-side]
				if (len(s.Preds) == 1 && s.Dominates(use.Block())) || (b.Dominates(use.Block()) && !reaches(other, use.Block(), map[*ssa.BasicBlock]bool{b: true})) {
					return true
				}
			}
		}
		return false
	}
	nA, nB, nC := 0, 0, 0
	for _, fn := range c.AllSrcFuncs("") {
		ord := map[string]int{}
		for _, b := range fn.Blocks {
			for _, ins := range b.Instrs {
				switch x := ins.(type) {
				case *ssa.BinOp:
					if x.Op != token.ADD && x.Op != token.SUB && x.Op != token.MUL {
						continue
					}
					bt, ok := x.Type().Underlying().(*types.Basic)
					if !ok || bt.Info()&types.IsInteger == 0 {
						continue
					}
					for i, o := range []ssa.Value{x.X, x.Y} {
						if !saturated(o, 0) {
							continue
						}
						other := []ssa.Value{x.Y, x.X}[i]
						if k, ok := constInt(other); ok && k == 0 {
							continue
						}
						nA++
						base := fmt.Sprintf("%s:arith", ssaFuncName(fn))
						ord[base]++
						key := fmt.Sprintf("%s#%d", base, ord[base])
						site := c.Pos(instrPos(x))
						// + and * can exceed MaxInt64: needs an upper bound; - with the saturated value on the left can pass
						// MinInt64: needs a lower bound; on the right (a - sat) an upper bound on sat is not enough for negatives: both
						needAbove := x.Op != token.SUB || i == 1
						needBelow := x.Op == token.SUB || x.Op == token.MUL
						// leaf-wise: a phi operand is bounded when every saturated value flowing into it was bounded on the
						// edge it comes in by
						var leafBounded func(v ssa.Value, at ssa.Instruction, above bool, d int) bool
						leafBounded = func(v ssa.Value, at ssa.Instruction, above bool, d int) bool {
							if bounded(fn, v, at, above) {
								return true
							}
							if phi, ok := stripConv(v).(*ssa.Phi); ok && d < 5 {
								for i, e := range phi.Edges {
									if !saturated(e, 0) {
										continue
									}
									pred := phi.Block().Preds[i]
									if !leafBounded(e, pred.Instrs[len(pred.Instrs)-1], above, d+1) {
										return false
									}
								}
								return true
							}
							return false
						}
						okAbove := !needAbove || leafBounded(o, x, true, 0)
						okBelow := !needBelow || leafBounded(o, x, false, 0)
						if okAbove && okBelow {
							r.ok(key, site, "the saturated operand was bounded before the arithmetic")
							continue
						}
						if why, ok := satOverflowReviewed[base]; ok {
							r.ok("reviewed:"+key, site, why)
							continue
						}
						r.bad(key, site, fmt.Sprintf("%s computes %s on an integer that Value.number() saturated to the int64 range (Infinity or 1e300 give MaxInt64) without having bounded it from %s first: the result wraps around, passes the clamp that follows and is used as an index or slice bound - a Go bounds panic that escapes Run", ssaFuncName(fn), x.Op, map[bool]string{true: "above", false: "below"}[!okAbove]))
					}
				case *ssa.Convert:
					tb, ok := x.Type().Underlying().(*types.Basic)
					if !ok || tb.Info()&types.IsInteger == 0 {
						continue
					}
					fb, ok := x.X.Type().Underlying().(*types.Basic)
					if !ok || fb.Kind() != types.Float64 {
						continue
					}
					// the decimal digits of a Number (ES5 9.8.1: the shortest digits that identify it) are the digits of its
					// integer value only up to 2^53: an integer conversion that is printed with FormatInt / Itoa in base 10 needs
					// that bound, whatever else makes the conversion itself safe
					if printed := printedDecimal(x); printed != nil {
						satFloatLimit = 9007199254740992.0 // 2^53
						nC++
						base := fmt.Sprintf("%s:digits", ssaFuncName(fn))
						ord[base]++
						okD := bounded(fn, x.X, x, true) && bounded(fn, x.X, x, false)
						r.check(okD, fmt.Sprintf("%s#%d", base, ord[base]), c.Pos(instrPos(printed)), "the value printed as an integer is bounded by 2^53 on the path",
							fmt.Sprintf("%s prints a Number through its integer value (strconv.%s of a converted float64) with no test on the path that keeps it within 2^53: beyond that an integer has more digits than the shortest representation ES5 9.8.1 prescribes - String(Math.pow(2, 60)) must be \"1152921504606847000\", not \"1152921504606846976\" (and the text names a different property)", ssaFuncName(fn), printed.Call.StaticCallee().Name()))
					}
					satFloatLimit = 9223372036854775808.0 // 2^63
					if tb.Info()&types.IsUnsigned != 0 {
						satFloatLimit = 18446744073709551616.0 // 2^64
					}
					src, ok := x.X.(*ssa.Call)
					if !ok || src.Call.StaticCallee() == nil || src.Call.StaticCallee().Name() != "toIntegerFloat" {
						// any other float64: the same rule (census of every float-to-integer conversion of the package)
						nC++
						base := fmt.Sprintf("%s:int(float64)", ssaFuncName(fn))
						ord[base]++
						key := fmt.Sprintf("%s#%d", base, ord[base])
						site := c.Pos(instrPos(x))
						how := floatInRange(fn, x.X, x, 0, bounded)
						if how == "" {
							how = clippedParameter(c, fn, x.X, bounded)
						}
						switch {
						case how != "":
							r.ok(key, site, how)
						case roundTripTested(x):
							r.ok(key, site, "the result is converted back and compared with the operand: an out-of-range value fails the comparison")
						case bounded(fn, x.X, x, true) && bounded(fn, x.X, x, false):
							r.ok(key, site, "a two-sided range test dominates the conversion")
						default:
							if why, ok := satOverflowReviewed[base]; ok {
								r.ok("reviewed:"+key, site, why)
								continue
							}
							r.bad(key, site, fmt.Sprintf("%s converts a float64 to %s with no range test on the path and no reduction (math.Mod by a constant) before it: for a finite value outside the target range the result is implementation-defined in Go (0x8000000000000000 on amd64, saturation on arm64) - ToUint32(2^63 + 2048) must be 2048, `Array.prototype.push.call({length: 2**63+2048}, 'x')` writes index 0", ssaFuncName(fn), tb.Name()))
						}
						continue
					}
					nB++
					base := fmt.Sprintf("%s:int(toIntegerFloat)", ssaFuncName(fn))
					ord[base]++
					key := fmt.Sprintf("%s#%d", base, ord[base])
					site := c.Pos(instrPos(x))
					if bounded(fn, x.X, x, true) && bounded(fn, x.X, x, false) {
						r.ok(key, site, "a two-sided range test dominates the conversion")
						continue
					}
					if why, ok := satOverflowReviewed[base]; ok {
						r.ok("reviewed:"+key, site, why)
						continue
					}
					r.bad(key, site, fmt.Sprintf("%s converts the result of toIntegerFloat (which is ±Infinity for an infinite argument and can exceed every integer type) to %s without a dominating two-sided range test: the conversion of an out-of-range float is undefined in Go (MinInt64 on amd64, saturation on arm64)", ssaFuncName(fn), tb.Name()))
				}
			}
		}
	}
	r.ok("census", "-", fmt.Sprintf("%d arithmetic uses of saturated integers, %d integer conversions of toIntegerFloat results and %d other float64-to-integer conversions examined", nA, nB, nC))
}

// printedDecimal: the integer produced by the conversion is an operand of strconv.FormatInt / FormatUint with the constant
// base 10, or of strconv.Itoa (directly or after another integer conversion).
func printedDecimal(cv *ssa.Convert) *ssa.Call {
	var find func(v ssa.Value, d int) *ssa.Call
	find = func(v ssa.Value, d int) *ssa.Call {
		if d > 2 || v.Referrers() == nil {
			return nil
		}
		for _, ref := range *v.Referrers() {
			switch x := ref.(type) {
			case *ssa.Convert:
				if c := find(x, d+1); c != nil {
					return c
				}
			case *ssa.Call:
				cal := x.Call.StaticCallee()
				if cal == nil || cal.Pkg == nil || cal.Pkg.Pkg.Path() != "strconv" || len(x.Call.Args) == 0 || x.Call.Args[0] != v {
					continue
				}
				switch cal.Name() {
				case "Itoa":
					return x
				case "FormatInt", "FormatUint":
					if k, ok := constInt(x.Call.Args[1]); ok && k == 10 {
						return x
					}
				}
			}
		}
		return nil
	}
	return find(cv, 0)
}

// satFloatLimit: the largest constant that counts as a range test for the float-to-integer conversion being judged (set
// per conversion from the signedness of its target).
var satFloatLimit = 18446744073709551616.0

// floatInRange: the float64 value is in the range of every 64-bit integer type by construction: the remainder of
// math.Mod by a constant, a conversion from an integer, a constant, or sums/products of such with constants are NOT
// accepted (they can grow) - only the direct forms.
func floatInRange(fn *ssa.Function, v ssa.Value, at ssa.Instruction, d int, bounded func(*ssa.Function, ssa.Value, ssa.Instruction, bool) bool) string {
	if d > 4 {
		return ""
	}
	switch y := v.(type) {
	case *ssa.Const:
		return "constant operand"
	case *ssa.Convert:
		if fb, ok := y.X.Type().Underlying().(*types.Basic); ok && fb.Info()&types.IsInteger != 0 {
			return "the operand is an integer converted to float64: within range of the wider integer types"
		}
	case *ssa.Call:
		if callee := y.Call.StaticCallee(); callee != nil && callee.Pkg != nil && callee.Pkg.Pkg.Path() == "math" {
			switch callee.Name() {
			case "Mod", "Remainder":
				if _, ok := y.Call.Args[1].(*ssa.Const); ok {
					return "the operand is math." + callee.Name() + "(x, constant): bounded by the modulus"
				}
				// the modulus is a parameter that every call site binds to a constant
				if p, ok := y.Call.Args[1].(*ssa.Parameter); ok && satCtx != nil {
					if ks, ok := satCtx.constArgsAtAllCallSites(p); ok && len(ks) > 0 {
						return fmt.Sprintf("the operand is math.%s(x, m) and every one of the %d call sites passes a constant m", callee.Name(), len(ks))
					}
				}
			case "Floor", "Ceil", "Trunc", "Round", "Abs":
				if how := floatInRange(fn, y.Call.Args[0], at, d+1, bounded); how != "" {
					return how
				}
				if bounded(fn, y.Call.Args[0], at, true) && bounded(fn, y.Call.Args[0], at, false) {
					return "a two-sided range test on the argument of math." + callee.Name() + " dominates the conversion"
				}
			}
		}
	case *ssa.Phi:
		// leaf-wise: every incoming value is in range by construction, or was range-tested on the edge it comes in by
		for i, e := range y.Edges {
			if floatInRange(fn, e, at, d+1, bounded) != "" {
				continue
			}
			pred := y.Block().Preds[i]
			last := pred.Instrs[len(pred.Instrs)-1]
			if bounded(fn, e, last, true) && bounded(fn, e, last, false) {
				continue
			}
			return ""
		}
		return "every incoming value is a constant, in range by construction, or range-tested on its edge"
	}
	return ""
}

// roundTripTested: the integer is converted back to float64 and compared with the original - out-of-range values
// (whose conversion result is arbitrary) fail the comparison.
func roundTripTested(conv *ssa.Convert) bool {
	for _, ref := range *conv.Referrers() {
		back, ok := ref.(*ssa.Convert)
		if !ok {
			continue
		}
		if fb, ok := back.Type().Underlying().(*types.Basic); !ok || fb.Kind() != types.Float64 {
			continue
		}
		for _, r2 := range *back.Referrers() {
			if bo, ok := r2.(*ssa.BinOp); ok && (bo.Op == token.NEQ || bo.Op == token.EQL) && (bo.X == conv.X || bo.Y == conv.X) {
				return true
			}
		}
	}
	return false
}

// clippedParameter: v is (floor/ceil/quotient by a constant >= 1 of) a float64 parameter of fn, fn is called only
// statically, and every caller passes the result of a clipping function - a one-parameter function that returns its
// argument only where a two-sided range test holds and NaN otherwise. The conversion then sees a value within the
// clipped range or NaN; for NaN the converted integer is arbitrary but in range of nothing the callers keep (the
// callers of this package discard it when the NaN is detected), so no out-of-range finite value reaches it.
func clippedParameter(c *Ctx, fn *ssa.Function, v ssa.Value, bounded func(*ssa.Function, ssa.Value, ssa.Instruction, bool) bool) string {
	for i := 0; i < 4; i++ {
		switch y := v.(type) {
		case *ssa.Call:
			if callee := y.Call.StaticCallee(); callee != nil && callee.Pkg != nil && callee.Pkg.Pkg.Path() == "math" {
				switch callee.Name() {
				case "Floor", "Ceil", "Trunc":
					v = y.Call.Args[0]
					continue
				}
			}
		case *ssa.BinOp:
			if y.Op == token.QUO {
				if k, ok := y.Y.(*ssa.Const); ok && k.Value != nil {
					if f, _ := constantFloat(k); f >= 1 {
						v = y.X
						continue
					}
				}
			}
		}
		break
	}
	p, ok := v.(*ssa.Parameter)
	if !ok || fn.Parent() != nil {
		return ""
	}
	idx := -1
	for i, q := range fn.Params {
		if q == p {
			idx = i
		}
	}
	isClipper := func(g *ssa.Function) bool {
		if g == nil || len(g.Params) != 1 || len(g.Blocks) == 0 {
			return false
		}
		n := 0
		for _, b := range g.Blocks {
			ret, ok := b.Instrs[len(b.Instrs)-1].(*ssa.Return)
			if !ok || len(ret.Results) != 1 {
				continue
			}
			n++
			switch rv := ret.Results[0].(type) {
			case *ssa.Call:
				if cal := rv.Call.StaticCallee(); cal == nil || cal.Pkg == nil || cal.Pkg.Pkg.Path() != "math" || cal.Name() != "NaN" {
					return false
				}
			case *ssa.Parameter:
				if !(bounded(g, rv, ret, true) && bounded(g, rv, ret, false)) {
					return false
				}
			default:
				return false
			}
		}
		return n > 0
	}
	nCallers := 0
	for _, f := range c.AllSrcFuncs("") {
		for _, b := range f.Blocks {
			for _, ins := range b.Instrs {
				for _, op := range ins.Operands(nil) {
					if *op != ssa.Value(fn) {
						continue
					}
					ci, isCall := ins.(ssa.CallInstruction)
					if !isCall || ci.Common().Value != ssa.Value(fn) {
						return "" // value taken
					}
					nCallers++
					arg, ok := ci.Common().Args[idx].(*ssa.Call)
					if !ok || !isClipper(arg.Call.StaticCallee()) {
						return ""
					}
				}
			}
		}
	}
	if nCallers == 0 {
		return ""
	}
	return fmt.Sprintf("the operand is parameter %d of %s, and each of its %d call sites passes the result of a clipping function (two-sided range test, NaN otherwise)", idx, ssaFuncName(fn), nCallers)
}

func constantFloat(k *ssa.Const) (float64, bool) {
	if k.Value == nil {
		return 0, false
	}
	f, ok := constant.Float64Val(constant.ToFloat(k.Value))
	return f, ok
}
