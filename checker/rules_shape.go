package main

import (
	"fmt"
	"go/constant"
	"go/types"
	"sort"
	"strings"
)

func init() {
	register(&Rule{ID: "SHAPE-es5", Props: []string{"C14"}, Min: 400,
		Doc: "S: every (owner, property) of ES5.1 §15.1-15.12 + Annex B.2 (independent table es5_shape.go) is present in the literal heap built by newContext with the specified kind, function length, attributes, [[Class]], [[Prototype]] and constructor/prototype back-links",
		Run: ruleShapeES5})
	register(&Rule{ID: "SHAPE-noenum", Props: []string{"C14"}, Min: 600,
		Doc: "S: every binding of every intrinsic object (ES5 or extension) has the enumerable bit clear and a well-formed mode, so for-in never shows a built-in",
		Run: ruleShapeNoEnum})
	register(&Rule{ID: "SHAPE-consistent", Props: []string{"C14", "C07"}, Min: 600,
		Doc: "T: per intrinsic object literal, keys(property) = elements(propertyOrder) without duplicates; native function objects have class Function, prototype Function.prototype, extensible, objectClass classObject, name = binding key, a `length` number and a non-nil call",
		Run: ruleShapeConsistent})
	register(&Rule{ID: "SHAPE-binding", Props: []string{"C14"}, Min: 200,
		Doc: "S: injectivity - distinct (owner, name) entries are bound to distinct Go functions except inside the alias groups ES5 (or the extension) defines as one operation; a binding re-pointed at a neighbour's function creates a duplicate",
		Run: ruleShapeBinding})
	register(&Rule{ID: "SHAPE-order", Props: []string{"C14", "C02"}, Min: 30,
		Doc: "P: newContext is a straight-line literal program the evaluator fully understands, and every read of rt.global.F follows its assignment (no nil intrinsic is planted)",
		Run: ruleShapeOrder})
}

func shapeSite(c *Ctx, o *SObj) string { return c.Pos(o.Pos) }

func ruleShapeOrder(c *Ctx, r *R) {
	s := c.Shape()
	for _, u := range s.Unhandled {
		r.undecided("unhandled:"+stripPos(u), posOf(u), u)
	}
	for _, e := range s.OrderErrs {
		r.bad("read-before-assign:"+stripPos(e), posOf(e), e)
	}
	r.check(len(s.OrderErrs) == 0 && len(s.Unhandled) == 0, "straight-line", "inline.go", fmt.Sprintf("%d reads of rt.global.* all after their assignment; %d object literals interpreted", s.FieldReads, len(s.Objs)), "see above")
	// every field of struct `global` is assigned exactly by newContext
	g := c.LookupType("", "global")
	if g == nil {
		r.undecided("global-struct", "-", "UNRESOLVED type global")
		return
	}
	st := g.Underlying().(*types.Struct)
	for i := 0; i < st.NumFields(); i++ {
		f := st.Field(i).Name()
		r.check(s.ByField[f] != nil, "assigned:global."+f, c.Pos(st.Field(i).Pos()), "assigned an object literal in newContext", "field of struct global is never assigned in newContext: the intrinsic is nil in every runtime")
	}
}

func stripPos(s string) string {
	if i := strings.Index(s, ": "); i >= 0 {
		return s[i+2:]
	}
	return s
}
func posOf(s string) string {
	if i := strings.Index(s, ": "); i >= 0 {
		return s[:i]
	}
	return "-"
}

func allShapeObjs(s *Shape) []*SObj {
	var objs []*SObj
	if s.Global != nil {
		objs = append(objs, s.Global)
	}
	objs = append(objs, s.Objs...)
	return objs
}

func objKey(o *SObj) string {
	if o.Path != "" {
		return o.Path
	}
	return "rt.global." + o.GlobalField
}

func ruleShapeNoEnum(c *Ctx, r *R) {
	s := c.Shape()
	for _, o := range allShapeObjs(s) {
		if o.Path == "" {
			r.bad("unreachable:"+objKey(o), shapeSite(c, o), "intrinsic object literal is not reachable from the global object by property paths")
			continue
		}
		for _, k := range sortedKeys(o.Props) {
			p := o.Props[k]
			key := o.Path + "." + k
			if !p.ModeOK {
				r.undecided(key, c.Pos(p.Pos), "mode is not a constant")
				continue
			}
			wellFormed := p.Mode&^0o111 == 0
			r.check(wellFormed && p.Mode&0o010 == 0, key, c.Pos(p.Pos), "mode "+modeString(p.Mode), fmt.Sprintf("mode %#o (%s): built-in binding is enumerable or malformed; for-in would show it", p.Mode, modeString(p.Mode)))
		}
	}
}

func ruleShapeConsistent(c *Ctx, r *R) {
	s := c.Shape()
	fp := s.ByPath["Function.prototype"]
	classObject := c.Otto().Types.Scope().Lookup("classObject")
	for _, o := range allShapeObjs(s) {
		key := objKey(o)
		site := shapeSite(c, o)
		// keys = order
		dup := map[string]int{}
		for _, k := range o.PropKeys {
			dup[k]++
		}
		for _, k := range sortedKeys(dup) {
			if dup[k] > 1 {
				r.bad("dup-key:"+key+"."+k, site, "property key written twice in the literal")
			}
		}
		inOrder := map[string]int{}
		for _, k := range o.Order {
			inOrder[k]++
		}
		okAll := true
		for _, k := range sortedKeys(inOrder) {
			if inOrder[k] > 1 {
				r.bad("dup-order:"+key+"."+k, site, "name listed twice in propertyOrder: enumerated twice")
				okAll = false
			}
			if o.Props[k] == nil {
				r.bad("order-without-prop:"+key+"."+k, site, "propertyOrder lists a name that has no entry in property")
				okAll = false
			}
		}
		for _, k := range sortedKeys(o.Props) {
			if inOrder[k] == 0 {
				r.bad("prop-without-order:"+key+"."+k, site, "property has no entry in propertyOrder: invisible to getOwnPropertyNames / enumeration and lost on delete bookkeeping")
				okAll = false
			}
		}
		if okAll {
			r.ok("order:"+key, site, fmt.Sprintf("%d properties = %d order entries", len(o.Props), len(o.Order)))
		}
		if o != s.Global {
			wantOC := classObject
			// ES5 15.4.4 / 15.5.4: only Array.prototype and String.prototype are exotic (array / String) objects
			if oc, ok := c.ObjectClassOfClassName()[o.Class]; ok && (o.Class == "Array" || o.Class == "String") {
				wantOC = oc
			}
			r.check(o.ObjectClass != nil && wantOC != nil && o.ObjectClass == wantOC, "objectClass:"+key, site, fmt.Sprint(wantOC), fmt.Sprintf("intrinsic of [[Class]] %s must use the objectClass table its constructor function installs (%v)", o.Class, wantOC))
			r.check(o.Extensible != nil && *o.Extensible, "extensible:"+key, site, "extensible", "intrinsic is not extensible (ES5 15: built-ins are extensible)")
			r.check(o.ClassOK && o.Class != "", "class-const:"+key, site, "class "+o.Class, "class is not a constant string")
		}
		// function objects
		if o.Native != nil {
			n := o.Native
			_, isFn := n.Call.(SFunc)
			_, isLit := n.Call.(SExpr) // function literal (Function.prototype) is acceptable
			r.check(isFn || isLit, "call:"+key, site, "call bound", "native function object without a call function")
			r.check(o.Class == "Function", "fn-class:"+key, site, "Function", "function object has [[Class]] "+o.Class)
			if o != fp {
				r.check(o.Proto == fp && fp != nil, "fn-proto:"+key, site, "Function.prototype", "function object's [[Prototype]] is not Function.prototype")
			}
			// name: last path segment
			seg := o.Path[strings.LastIndex(o.Path, ".")+1:]
			if o != fp {
				r.check(n.NameOK && n.Name == seg, "native-name:"+key, site, n.Name, fmt.Sprintf("nativeFunctionObject.name %q differs from the binding key %q", n.Name, seg))
				if np := o.Props["name"]; np != nil {
					sv, _ := np.Value.(*SValue)
					ok := sv != nil && sv.Kind == "valueString"
					if ok {
						cst, isC := sv.Payload.(SConst)
						ok = isC && cst.Val != nil && cst.Val.Kind() == constant.String && constant.StringVal(cst.Val) == seg
					}
					r.check(ok, "name-prop:"+key, c.Pos(np.Pos), seg, "function's `name` property differs from the binding key "+seg)
				}
			}
			lp := o.Props["length"]
			if lp == nil {
				r.bad("fn-length:"+key, site, "function object has no length property")
			} else {
				sv, _ := lp.Value.(*SValue)
				r.check(sv != nil && sv.Kind == "valueNumber", "fn-length:"+key, c.Pos(lp.Pos), "number", "length is not a number value")
			}
		}
		// Value literal payload/kind agreement for every data property
		for _, k := range sortedKeys(o.Props) {
			p := o.Props[k]
			sv, ok := p.Value.(*SValue)
			if !ok {
				r.bad("prop-payload:"+key+"."+k, c.Pos(p.Pos), "property value is not a Value literal: "+svalString(p.Value))
				continue
			}
			r.check(valuePayloadOK(sv), "value-repr:"+key+"."+k, c.Pos(p.Pos), svalString(sv), "Value literal kind and payload type disagree: "+svalString(sv))
		}
	}
}

// valuePayloadOK: the representation invariant of Value for literals.
func valuePayloadOK(v *SValue) bool {
	switch v.Kind {
	case "valueUndefined", "valueNull":
		return v.Payload == nil
	case "valueObject":
		_, ok := v.Payload.(*SObj)
		return ok
	case "valueNumber":
		c, ok := v.Payload.(SConst)
		if !ok {
			return false
		}
		if c.Spec != "" {
			return true
		}
		b, ok := c.Type.Underlying().(*types.Basic)
		return ok && b.Info()&types.IsNumeric != 0
	case "valueString":
		c, ok := v.Payload.(SConst)
		return ok && c.Val != nil && c.Val.Kind() == constant.String
	case "valueBoolean":
		c, ok := v.Payload.(SConst)
		return ok && c.Val != nil && c.Val.Kind() == constant.Bool
	}
	return false
}

// Alias groups: sets of bindings that ES5 (or the extension's own definition) defines as the same operation.
var shapeAliasGroups = [][]string{
	// §15.11.7: NativeError prototypes inherit toString from Error.prototype; otto binds the same function on each.
	{"Error.prototype.toString", "EvalError.prototype.toString", "RangeError.prototype.toString", "ReferenceError.prototype.toString", "SyntaxError.prototype.toString", "TypeError.prototype.toString", "URIError.prototype.toString"},
	// B.2.6: "The Function object that is the initial value of Date.prototype.toGMTString is the same Function object that is the initial value of Date.prototype.toUTCString."
	{"Date.prototype.toGMTString", "Date.prototype.toUTCString"},
	// console extension: log/debug/info write to stdout, error/warn to stderr.
	{"console.log", "console.debug", "console.info"},
	{"console.error", "console.warn"},
	// console stubs bound to one no-op
	{"console.dir", "console.time", "console.timeEnd", "console.trace", "console.assert"},
}

func ruleShapeBinding(c *Ctx, r *R) {
	s := c.Shape()
	group := map[string]int{}
	for i, g := range shapeAliasGroups {
		for _, p := range g {
			group[p] = i + 1
		}
	}
	type binding struct{ path, slot string }
	byFn := map[*types.Func][]binding{}
	for _, o := range s.Objs {
		if o.Native == nil {
			continue
		}
		for slot, v := range map[string]SVal{"call": o.Native.Call, "construct": o.Native.Construct} {
			if f, ok := v.(SFunc); ok {
				byFn[f.Fn] = append(byFn[f.Fn], binding{o.Path, slot})
			}
		}
	}
	var fns []*types.Func
	for f := range byFn {
		fns = append(fns, f)
	}
	sort.Slice(fns, func(i, j int) bool { return fns[i].Name() < fns[j].Name() })
	for _, f := range fns {
		bs := byFn[f]
		sort.Slice(bs, func(i, j int) bool { return bs[i].path < bs[j].path })
		if len(bs) == 1 {
			r.ok(bs[0].path+"/"+bs[0].slot, c.Pos(f.Pos()), "bound only here: "+f.Name())
			continue
		}
		g := group[bs[0].path]
		same := g != 0
		var paths []string
		for _, b := range bs {
			paths = append(paths, b.path+"/"+b.slot)
			if group[b.path] != g || b.slot != "call" {
				same = false
			}
		}
		for _, b := range bs {
			r.check(same, b.path+"/"+b.slot, c.Pos(f.Pos()), "alias group: "+strings.Join(paths, ", "),
				fmt.Sprintf("Go function %s is bound to several distinct built-ins that ES5 defines as different operations: %s (cross-wired binding)", f.Name(), strings.Join(paths, ", ")))
		}
	}
	// call and construct of one constructor must differ (a constructor whose [[Construct]] is its [[Call]] function type-checks only if signatures match; they do not) - nothing to check.
}

func ruleShapeES5(c *Ctx, r *R) {
	s := c.Shape()
	table, err := parseES5Shape()
	if err != nil {
		r.undecided("oracle", "-", err.Error())
		return
	}
	rows := 0
	for _, eo := range table {
		o := s.ByPath[eo.Path]
		if eo.Path == "<global>" {
			o = s.Global
		}
		if o == nil {
			r.bad("object:"+eo.Path, "inline.go", fmt.Sprintf("ES5 %s object %s is not reachable from the global object", eo.Clause, eo.Path))
			continue
		}
		site := shapeSite(c, o)
		if eo.Class != "*" {
			r.check(o.ClassOK && o.Class == eo.Class, "class:"+eo.Path, site, eo.Class, fmt.Sprintf("[[Class]] is %q, ES5 %s says %q", o.Class, eo.Clause, eo.Class))
		}
		switch eo.Proto {
		case "*":
		case "null":
			r.check(o.Proto == nil && o.ProtoNil, "proto:"+eo.Path, site, "null", "[[Prototype]] must be null")
		default:
			want := s.ByPath[eo.Proto]
			r.check(want != nil && o.Proto == want, "proto:"+eo.Path, site, eo.Proto, fmt.Sprintf("[[Prototype]] is %s, ES5 %s says %s", svalString(o.Proto), eo.Clause, eo.Proto))
		}
		if eo.Callable {
			ok := o.Native != nil && o.Native.Call != nil
			r.check(ok, "callable:"+eo.Path, site, "has [[Call]]", "object must be callable")
		}
		if eo.Ctor {
			ok := o.Native != nil
			if ok {
				_, ok = o.Native.Construct.(SFunc)
			}
			r.check(ok, "construct:"+eo.Path, site, "has [[Construct]]", "constructor has no construct function")
		} else if o.Native != nil {
			r.check(o.Native.Construct == nil, "no-construct:"+eo.Path, site, "no [[Construct]]", "ES5 15: built-in functions that are not constructors do not implement [[Construct]]")
		}
		for _, ep := range eo.Props {
			rows++
			key := eo.Path + "." + ep.Name
			if eo.Path == "<global>" {
				key = "<global>." + ep.Name
			}
			p := o.Props[ep.Name]
			if p == nil {
				r.bad("present:"+key, site, fmt.Sprintf("ES5 %s property %s is missing", eo.Clause, key))
				continue
			}
			psite := c.Pos(p.Pos)
			r.check(p.ModeOK && modeString(p.Mode) == ep.Attrs, "attrs:"+key, psite, ep.Attrs, fmt.Sprintf("attributes are %s, ES5 %s says %s", modeString(p.Mode), eo.Clause, ep.Attrs))
			sv, _ := p.Value.(*SValue)
			if sv == nil {
				r.bad("kind:"+key, psite, "not a data property literal")
				continue
			}
			switch ep.Kind {
			case "fn", "ctor":
				fo := p.objOf()
				if fo == nil || fo.Native == nil {
					r.bad("kind:"+key, psite, "ES5 says function, found "+svalString(sv))
					continue
				}
				_, hasC := fo.Native.Construct.(SFunc)
				if ep.Kind == "fn" {
					r.check(!hasC, "kind:"+key, psite, "function", "plain built-in function has a [[Construct]]")
				} else {
					r.check(hasC, "kind:"+key, psite, "constructor", "constructor lacks [[Construct]]")
				}
				lp := fo.Props["length"]
				got := "missing"
				okLen := false
				if lp != nil {
					if lv, ok := lp.Value.(*SValue); ok && lv.Kind == "valueNumber" {
						if cst, ok := lv.Payload.(SConst); ok && cst.Val != nil {
							got = cst.Val.ExactString()
							if n, exact := constant.Int64Val(constant.ToInt(cst.Val)); exact && n == int64(ep.Length) {
								okLen = true
							}
						}
					}
					r.check(lp.ModeOK && modeString(lp.Mode) == "---", "length-attrs:"+key, c.Pos(lp.Pos), "---", "function length must be {W:false,E:false,C:false}, is "+modeString(lp.Mode))
				}
				r.check(okLen, "length:"+key, psite, fmt.Sprint(ep.Length), fmt.Sprintf("%s.length is %s, ES5 %s says %d", key, got, eo.Clause, ep.Length))
			case "obj":
				want := s.ByPath[ep.Target]
				r.check(want != nil && p.objOf() == want, "link:"+key, psite, ep.Target, fmt.Sprintf("must reference %s, references %s", ep.Target, svalString(sv.Payload)))
			case "num":
				r.check(sv.Kind == "valueNumber", "kind:"+key, psite, "number", "ES5 says number, found "+svalString(sv))
			case "str":
				r.check(sv.Kind == "valueString", "kind:"+key, psite, "string", "ES5 says string, found "+svalString(sv))
			case "bool":
				r.check(sv.Kind == "valueBoolean", "kind:"+key, psite, "boolean", "ES5 says boolean, found "+svalString(sv))
			case "undef":
				r.check(sv.Kind == "valueUndefined", "kind:"+key, psite, "undefined", "ES5 says undefined, found "+svalString(sv))
			}
		}
	}
	// spec constants: values of the numeric constants
	for _, cv := range es5NumericConstants {
		o := s.ByPath[cv.owner]
		if cv.owner == "<global>" {
			o = s.Global
		}
		if o == nil || o.Props[cv.name] == nil {
			continue // reported above as missing
		}
		p := o.Props[cv.name]
		sv, _ := p.Value.(*SValue)
		got := "?"
		ok := false
		if sv != nil {
			if cst, isC := sv.Payload.(SConst); isC {
				if cst.Spec != "" {
					got = cst.Spec
					ok = cst.Spec == cv.spec
				} else if cst.Val != nil {
					f, _ := constant.Float64Val(cst.Val)
					got = fmt.Sprint(f)
					ok = cv.spec == "" && f == cv.val
				}
			}
		}
		r.check(ok, "const-value:"+cv.owner+"."+cv.name, c.Pos(p.Pos), got, fmt.Sprintf("constant is %s, ES5 says %s%v", got, cv.spec, cv.val))
	}
	r.note("es5_rows", rows)
	r.note("es5_objects", len(table))
}

type es5Const struct {
	owner, name, spec string
	val               float64
}

// §15.1.1, §15.7.3, §15.8.1
var es5NumericConstants = []es5Const{
	{"<global>", "NaN", "NaN", 0}, {"<global>", "Infinity", "+Inf", 0},
	{"Number", "MAX_VALUE", "", 1.7976931348623157e308}, {"Number", "MIN_VALUE", "", 5e-324},
	{"Number", "NaN", "NaN", 0}, {"Number", "NEGATIVE_INFINITY", "-Inf", 0}, {"Number", "POSITIVE_INFINITY", "+Inf", 0},
	{"Math", "E", "", 2.718281828459045}, {"Math", "LN10", "", 2.302585092994046}, {"Math", "LN2", "", 0.6931471805599453},
	{"Math", "LOG2E", "", 1.4426950408889634}, {"Math", "LOG10E", "", 0.4342944819032518}, {"Math", "PI", "", 3.141592653589793},
	{"Math", "SQRT1_2", "", 0.7071067811865476}, {"Math", "SQRT2", "", 1.4142135623730951},
}
