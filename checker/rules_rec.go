package main

import (
	"fmt"
	"go/token"
	"go/types"
	"sort"
	"strings"

	"golang.org/x/tools/go/callgraph"
	"golang.org/x/tools/go/callgraph/cha"
	"golang.org/x/tools/go/callgraph/vta"
	"golang.org/x/tools/go/ssa"
	"golang.org/x/tools/go/ssa/ssautil"
)

func init() {
	register(&Rule{ID: "REC-slot", Props: []string{"C02"}, Min: 20,
		Doc: "P: a function installed in slot S of an objectClass table must not re-dispatch S on its own object with its own, unchanged arguments (obj.S(args) goes through the table back to the same function): that is unbounded recursion, a fatal Go stack overflow no recover() can intercept. Falling back to the generic behaviour must call the generic implementation directly",
		Run: ruleRecSlot})
	register(&Rule{ID: "REC-residual", Props: []string{"C02", "C15"}, Tier: "thorough", Min: 3,
		Doc: "P (whole program, VTA call graph): after removing the script-level call edges ((*object).call / construct, which are bounded by the stack-depth guard), every remaining cycle of functions of package otto must be in the reviewed table with the quantity that bounds it (AST depth, Go type depth, prototype-chain length, clone memo ...); an unreviewed cycle is a recursion a script may drive without limit",
		Run: ruleRecResidual})
	register(&Rule{ID: "OWN-global-reach", Props: []string{"C20"}, Tier: "thorough", Min: 1,
		Doc: "O (whole program, VTA call graph): the functions exempted by OWN-global as host-side writers of package-level state (registry.Register / Enable / Disable) are not reachable from any method of the public types through the call graph: script execution cannot reach a writer of shared state",
		Run: ruleOwnGlobalReach})
}

func ruleRecSlot(c *Ctx, r *R) {
	// slot -> dispatcher method name is the same as the field name: (*object).<slot>
	type impl struct {
		fn   *ssa.Function
		slot string
	}
	var impls []impl
	seen := map[*ssa.Function]bool{}
	for _, fn := range c.AllSrcFuncs("") {
		for _, b := range fn.Blocks {
			for _, ins := range b.Instrs {
				if st, ok := ins.(*ssa.Store); ok {
					if nt, f := fieldOfAddr(st.Addr); nt != nil && nt.Obj().Name() == "objectClass" {
						if f2, ok := st.Val.(*ssa.Function); ok && !seen[f2] {
							seen[f2] = true
							impls = append(impls, impl{f2, f.Name()})
						}
					}
				}
			}
		}
	}
	sort.Slice(impls, func(i, j int) bool { return ssaFuncName(impls[i].fn) < ssaFuncName(impls[j].fn) })
	// generic implementations (installed in classObject's table) never re-dispatch on themselves by construction: they are included too
	for _, im := range impls {
		fn := im.fn
		if fn.Blocks == nil || len(fn.Params) == 0 {
			continue
		}
		var bad ssa.Instruction
		for _, b := range fn.Blocks {
			for _, ins := range b.Instrs {
				call, ok := ins.(*ssa.Call)
				if !ok {
					continue
				}
				callee := call.Call.StaticCallee()
				if callee == nil || callee.Name() != im.slot || callee.Signature.Recv() == nil || !typeIs(callee.Signature.Recv().Type(), ottoPath, "object") {
					continue
				}
				// same object, same remaining arguments
				same := len(call.Call.Args) == len(fn.Params)
				for i := 0; same && i < len(fn.Params); i++ {
					if call.Call.Args[i] != ssa.Value(fn.Params[i]) {
						same = false
					}
				}
				if same {
					bad = ins
				}
			}
		}
		key := ssaFuncName(fn) + ":" + im.slot
		detail := ""
		if bad != nil {
			detail = fmt.Sprintf("%s is installed as the %s slot and calls obj.%s(...) on its own object with its own arguments at %s: the dispatcher routes the call straight back, recursing until the Go stack overflows (fatal, not recoverable)", ssaFuncName(fn), im.slot, im.slot, c.Pos(instrPos(bad)))
		}
		r.check(bad == nil, key, c.Pos(fn.Pos()), "no self re-dispatch", detail)
	}
}

// thorough tier: VTA call graph (built once)
var vtaGraph *callgraph.Graph

func (c *Ctx) VTA() *callgraph.Graph {
	if vtaGraph == nil {
		vtaGraph = vta.CallGraph(ssautil.AllFunctions(c.Prog), cha.CallGraph(c.Prog))
	}
	return vtaGraph
}

func isOttoFunc(fn *ssa.Function) bool {
	for f := fn; f != nil; f = f.Parent() {
		if f.Pkg != nil {
			return f.Pkg.Pkg.Path() == ottoPath
		}
	}
	return false
}

// isSlotDispatcher: a method of *object that forwards to a slot of the object's class table ((*object).get, put, ...).
// Recursion through the object protocol (prototype walks, array length bookkeeping, accessor calls) is bounded by the
// prototype-chain length (PROTO-acyclic) and, where it re-enters script, by the stack-depth guard; direct self re-dispatch
// is REC-slot's concern. Cutting the dispatchers' out-edges leaves the genuinely recursive helpers visible.
func isSlotDispatcher(fn *ssa.Function) bool {
	if fn.Signature.Recv() == nil || !typeIs(fn.Signature.Recv().Type(), ottoPath, "object") || fn.Blocks == nil {
		return false
	}
	for _, b := range fn.Blocks {
		for _, ins := range b.Instrs {
			if call, ok := ins.(*ssa.Call); ok && call.Call.StaticCallee() == nil && slotOfCallee(call.Call.Value) != "" {
				return true
			}
		}
	}
	return false
}

// Reviewed recursion cycles of package otto (after the cuts): member -> the quantity that bounds the recursion.
var recReviewed = map[string]string{
	"toValue":                               "recurses once through reflect.ValueOf for unknown static types, then on pointer indirections: bounded by the depth of the Go type",
	"fieldIndexByName":                      "descends into embedded structs: bounded by the nesting depth of the Go struct type",
	"(*compiler).parseExpression":           "structural recursion over the AST: bounded by the depth of the parsed tree",
	"arraySortQuickSort":                    "quicksort partition recursion: each call works on a strictly smaller index range",
	"builtinJSONParseWalk":                  "structural recursion over the value decoded by encoding/json: a finite tree",
	"builtinJSONReviveWalk":                 "walks the value JSON.parse built, but reads each child with [[Get]] after the reviver calls for its earlier siblings have run: a reviver can graft an ancestor below a later sibling, so only the depth test against the stack limit bounds it (REC-data-depth)",
	"builtinJSONStringifyWalk":              "object-graph traversal guarded by the cycle stack (JSON-stringify: membership test dominates every push)",
	"(*runtime).convertCallParameter":       "structural recursion over the parameter's Go type (slice / map / pointer element types) and the argument's nesting",
	"(*runtime).toValue":                    "recursion on wrapped reflect values: bounded by the Go type depth",
	"builtinStringFindAndReplaceString":     "not recursive in itself: closure passed to ReplaceAllFunc",
	"(Value).string":                        "the recursive call converts the primitive that [[DefaultValue]] returned (it throws unless primitive): depth 1",
	"(Value).float64":                       "the recursive call converts the primitive that [[DefaultValue]] returned: depth 1",
	"(*runtime).calculateComparison":        "ES5 11.9.3: each recursive step replaces a boolean by a number or an object by its primitive: at most three steps",
	"getIdentifierReference":                "walks the environment chain outwards: bounded by the (finite, acyclic) scope chain",
	"(*runtime).cmplEvaluateNodeExpression": "structural recursion over the compiled tree: bounded by its depth (script calls are cut)",
	"(*runtime).cmplEvaluateNodeStatement":  "structural recursion over the compiled tree: bounded by its depth",
	"catchPanic":                            "artefact of the call graph: all closures handed to catchPanic are merged; no closure calls catchPanic with itself",
}

func ruleRecResidual(c *Ctx, r *R) {
	g := c.VTA()
	cutNames := map[string]bool{"(*object).call": true, "(*object).construct": true, "(Value).call": true, "(Value).constructSafe": true}
	// adjacency among otto functions
	adj := map[*ssa.Function][]*ssa.Function{}
	var nodes []*ssa.Function
	for fn, n := range g.Nodes {
		if fn == nil || !isOttoFunc(fn) {
			continue
		}
		nodes = append(nodes, fn)
		if cutNames[ssaFuncName(fn)] || isSlotDispatcher(fn) {
			continue // outgoing edges of the script-call machinery and of the object-protocol dispatchers are cut (see Doc)
		}
		for _, e := range n.Out {
			if callee := e.Callee.Func; callee != nil && isOttoFunc(callee) {
				adj[fn] = append(adj[fn], callee)
			}
		}
	}
	sort.Slice(nodes, func(i, j int) bool { return ssaFuncName(nodes[i]) < ssaFuncName(nodes[j]) })
	// Tarjan SCC
	index := map[*ssa.Function]int{}
	low := map[*ssa.Function]int{}
	on := map[*ssa.Function]bool{}
	var stack []*ssa.Function
	var sccs [][]*ssa.Function
	idx := 0
	var strong func(v *ssa.Function)
	strong = func(v *ssa.Function) {
		index[v], low[v] = idx, idx
		idx++
		stack = append(stack, v)
		on[v] = true
		for _, w := range adj[v] {
			if _, seen := index[w]; !seen {
				strong(w)
				if low[w] < low[v] {
					low[v] = low[w]
				}
			} else if on[w] && index[w] < low[v] {
				low[v] = index[w]
			}
		}
		if low[v] == index[v] {
			var comp []*ssa.Function
			for {
				w := stack[len(stack)-1]
				stack = stack[:len(stack)-1]
				on[w] = false
				comp = append(comp, w)
				if w == v {
					break
				}
			}
			selfLoop := false
			if len(comp) == 1 {
				for _, w := range adj[v] {
					if w == v {
						selfLoop = true
					}
				}
			}
			if len(comp) > 1 || selfLoop {
				sccs = append(sccs, comp)
			}
		}
	}
	for _, n := range nodes {
		if _, seen := index[n]; !seen {
			strong(n)
		}
	}
	for _, comp := range sccs {
		var names []string
		for _, f := range comp {
			names = append(names, ssaFuncName(f))
		}
		sort.Strings(names)
		key := "cycle:" + names[0]
		if len(names) > 1 {
			key += "+" + fmt.Sprint(len(names)-1)
		}
		why := ""
		for _, n := range names {
			if w, ok := recReviewed[n]; ok {
				why = w
			}
		}
		desc := strings.Join(names, ", ")
		if len(desc) > 400 {
			desc = desc[:400] + "..."
		}
		if why != "" {
			r.ok(key, c.Pos(comp[0].Pos()), "bounded: "+why+" {"+desc+"}")
		} else {
			r.bad(key, c.Pos(comp[0].Pos()), "recursion cycle with no reviewed bound (script calls already cut): {"+desc+"}")
		}
	}
	r.note("otto_functions_in_graph", len(nodes))
	r.note("cycles", len(sccs))
}

func ruleOwnGlobalReach(c *Ctx, r *R) {
	g := c.VTA()
	public := map[string]bool{"Otto": true, "Value": true, "Object": true, "Script": true, "FunctionCall": true, "Error": true}
	var roots []*callgraph.Node
	for fn, n := range g.Nodes {
		if fn == nil || fn.Pkg == nil || fn.Pkg.Pkg.Path() != ottoPath || fn.Object() == nil || !fn.Object().Exported() {
			continue
		}
		if recv := fn.Signature.Recv(); recv != nil {
			if nn := derefNamed(recv.Type()); nn == nil || !public[nn.Obj().Name()] {
				continue
			}
			roots = append(roots, n)
		}
	}
	reach := map[*callgraph.Node]bool{}
	var stack []*callgraph.Node
	stack = append(stack, roots...)
	for len(stack) > 0 {
		n := stack[len(stack)-1]
		stack = stack[:len(stack)-1]
		if reach[n] {
			continue
		}
		reach[n] = true
		for _, e := range n.Out {
			stack = append(stack, e.Callee)
		}
	}
	for _, name := range sortedKeys(ownGlobalWriterExempt) {
		var fn *ssa.Function
		for f := range g.Nodes {
			if f != nil && ssaFuncName(f) == name {
				fn = f
			}
		}
		if fn == nil {
			r.ok("absent:"+name, "-", "function no longer exists")
			continue
		}
		if name == "registry.Apply" {
			r.ok("reader:"+name, c.Pos(fn.Pos()), "reads the registry only (called by New)")
			continue
		}
		r.check(!reach[g.Nodes[fn]], "unreachable:"+name, c.Pos(fn.Pos()), fmt.Sprintf("not reachable from the %d methods of the public types", len(roots)), "a writer of package-level state is reachable from the public API: runtimes can modify state they share")
	}
}

func init() {
	register(&Rule{ID: "REC-parser-depth", Props: []string{"C04", "C02"}, Min: 1,
		Doc: "P: the recursive-descent parser (and the regular-expression pattern translator) recurse once per nesting level of the input; the input is arbitrary bytes, so the nesting is unbounded and the Go stack is the only limit - exhausting it is a fatal error no recover() intercepts. Every recursion cycle of package parser (strongly connected component of its static call structure, bound method values included) must contain a depth guard: a function of the cycle that counts its own nesting in a field (increment on entry) and compares the count with a limit",
		Run: ruleRecParserDepth})
}

func ruleRecParserDepth(c *Ctx, r *R) {
	funcs := c.AllSrcFuncs("parser")
	if len(funcs) == 0 {
		r.undecided("unresolved:parser", "-", "UNRESOLVED: package parser not loaded")
		return
	}
	inPkg := map[*ssa.Function]bool{}
	for _, f := range funcs {
		inPkg[f] = true
	}
	adj := map[*ssa.Function][]*ssa.Function{}
	var addEdges func(from, fn *ssa.Function)
	addEdges = func(from, fn *ssa.Function) {
		for _, b := range fn.Blocks {
			for _, ins := range b.Instrs {
				ci, ok := ins.(ssa.CallInstruction)
				if !ok {
					continue
				}
				t := targetOf(ci)
				for t != nil && t.Synthetic != "" {
					t = boundTarget(t)
				}
				if t == nil {
					continue
				}
				if t.Parent() != nil { // a function literal: its calls belong to the enclosing function
					addEdges(from, t)
					continue
				}
				if inPkg[t] {
					adj[from] = append(adj[from], t)
				}
			}
		}
	}
	for _, f := range funcs {
		if f.Parent() == nil {
			addEdges(f, f)
		}
	}
	// Tarjan
	index, low, on := map[*ssa.Function]int{}, map[*ssa.Function]int{}, map[*ssa.Function]bool{}
	var stack []*ssa.Function
	var sccs [][]*ssa.Function
	idx := 0
	var strong func(v *ssa.Function)
	strong = func(v *ssa.Function) {
		index[v], low[v] = idx, idx
		idx++
		stack = append(stack, v)
		on[v] = true
		for _, w := range adj[v] {
			if _, seen := index[w]; !seen {
				strong(w)
				if low[w] < low[v] {
					low[v] = low[w]
				}
			} else if on[w] && index[w] < low[v] {
				low[v] = index[w]
			}
		}
		if low[v] == index[v] {
			var comp []*ssa.Function
			for {
				w := stack[len(stack)-1]
				stack = stack[:len(stack)-1]
				on[w] = false
				comp = append(comp, w)
				if w == v {
					break
				}
			}
			self := false
			for _, w := range adj[v] {
				if w == v {
					self = true
				}
			}
			if len(comp) > 1 || self {
				sccs = append(sccs, comp)
			}
		}
	}
	sort.Slice(funcs, func(i, j int) bool { return ssaFuncName(funcs[i]) < ssaFuncName(funcs[j]) })
	for _, f := range funcs {
		if f.Parent() == nil {
			if _, seen := index[f]; !seen {
				strong(f)
			}
		}
	}
	// a depth guard: field = field + 1 and a comparison of that field, in the same function; or an integer parameter that
	// is compared with a bound and passed on incremented in the recursive call
	hasGuard := func(fn *ssa.Function) bool {
		for _, prm := range fn.Params {
			if b, ok := prm.Type().Underlying().(*types.Basic); !ok || b.Info()&types.IsInteger == 0 {
				continue
			}
			compared, passedOn := false, false
			for _, ref := range *prm.Referrers() {
				if bo, ok := ref.(*ssa.BinOp); ok {
					switch bo.Op {
					case token.GTR, token.GEQ, token.LSS, token.LEQ:
						compared = true
					case token.ADD:
						for _, r2 := range *bo.Referrers() {
							if ci, ok := r2.(ssa.CallInstruction); ok && ci.Common().StaticCallee() == fn {
								passedOn = true
							}
						}
					}
				}
			}
			if compared && passedOn {
				return true
			}
		}
		for _, g := range withAnon(fn) {
			counted := map[*types.Var]bool{}
			for _, b := range g.Blocks {
				for _, ins := range b.Instrs {
					st, ok := ins.(*ssa.Store)
					if !ok {
						continue
					}
					_, f := fieldOfAddr(st.Addr)
					if f == nil {
						continue
					}
					if bo, ok := st.Val.(*ssa.BinOp); ok && bo.Op == token.ADD {
						if a := loadAddr(bo.X); a != nil {
							if _, f2 := fieldOfAddr(a); f2 == f {
								counted[f] = true
							}
						}
					}
				}
			}
			for _, b := range g.Blocks {
				for _, ins := range b.Instrs {
					bo, ok := ins.(*ssa.BinOp)
					if !ok {
						continue
					}
					switch bo.Op {
					case token.GTR, token.GEQ, token.LSS, token.LEQ:
						for _, o := range []ssa.Value{bo.X, bo.Y} {
							if a := loadAddr(o); a != nil {
								if _, f := fieldOfAddr(a); f != nil && counted[f] {
									return true
								}
							}
						}
					}
				}
			}
		}
		return false
	}
	for _, comp := range sccs {
		var names []string
		guarded := false
		for _, f := range comp {
			names = append(names, ssaFuncName(f))
			if hasGuard(f) {
				guarded = true
			}
		}
		sort.Strings(names)
		key := "cycle:" + names[0]
		for _, n := range names {
			if strings.HasSuffix(n, ".parseAssignmentExpression") {
				key = "cycle:grammar" // the recursive-descent core: keyed by role, not by its (growing) member list
			}
		}
		desc := strings.Join(names, ", ")
		if len(desc) > 300 {
			desc = desc[:300] + "..."
		}
		if why, ok := recParserReviewed[names[0]]; ok && len(names) == 1 {
			r.ok("reviewed:"+key, c.Pos(comp[0].Pos()), why)
			continue
		}
		r.check(guarded, key, c.Pos(comp[0].Pos()), "the cycle counts and limits its nesting", fmt.Sprintf("recursion cycle of %d parser function(s) without a depth guard {%s}: nesting in the input (a few hundred thousand `(`, `[`, `{` or regexp groups) drives the recursion until the Go stack is exhausted - a fatal error that kills the embedding process, not a parse error", len(names), desc))
	}
	r.note("cycles", len(sccs))
}

var recParserReviewed = map[string]string{
	"parser.(*scope).hasLabel": "walks the chain of enclosing scopes outwards: one step per function nesting level the parser itself has already recursed through, never deeper than the parse that built the chain",
}

func init() {
	register(&Rule{ID: "REC-data-depth", Props: []string{"C02"}, Min: 8,
		Doc: "P: census of the recursion cycles of package otto that do not pass through a script call (strongly connected components of the static call structure after cutting (*object).call / construct and the object-protocol dispatchers, which the stack-depth guard covers). Each must be classified by what bounds its depth: a Go type (host-controlled), a constant, the depth of the compiled tree (see REC-parser-depth), or the nesting of a value a script built. The last kind is not covered by the stack-depth guard, so such a cycle must consult the runtime's stack limit itself (read runtime.stackLimit and compare); otherwise a script nests arrays a few million deep and the built-in exhausts the Go stack although a limit is configured",
		Run: ruleRecDataDepth})
}

// what bounds each reviewed cycle (member name -> kind): type | const | ast | size | artefact | data
var recKinds = map[string]string{
	"toValue":                               "type",
	"fieldIndexByName":                      "type",
	"(*compiler).parseExpression":           "ast",
	"(*compiler).parseStatement":            "ast",
	"(*cloner).object":                      "data",
	"arraySortQuickSort":                    "size",
	"builtinJSONParseWalk":                  "const",
	"builtinJSONReviveWalk":                 "data",
	"builtinJSONStringifyWalk":              "data",
	"(*runtime).convertCallParameter":       "type",
	"(*runtime).toValue":                    "type",
	"builtinStringFindAndReplaceString":     "artefact",
	"(Value).string":                        "const",
	"(Value).float64":                       "const",
	"(*runtime).calculateComparison":        "const",
	"getIdentifierReference":                "ast",
	"(*runtime).cmplEvaluateNodeExpression": "ast",
	"(*runtime).cmplEvaluateNodeStatement":  "ast",
	"catchPanic":                            "artefact",
	"(Value).export":                        "data",
}

var recKindText = map[string]string{
	"type":     "bounded by the depth of a Go type (host-controlled)",
	"const":    "bounded by a constant (one or a few steps; encoding/json's nesting limit for the JSON.parse walkers)",
	"ast":      "bounded by the depth of the compiled tree, i.e. by the parser's nesting (REC-parser-depth)",
	"size":     "depth O(n) only after O(n^2) comparisons on n elements: not reachable in practice",
	"artefact": "not a recursion at run time (closures merged by the call structure)",
}

func ruleRecDataDepth(c *Ctx, r *R) {
	cutNames := map[string]bool{"(*object).call": true, "(*object).construct": true, "(Value).call": true, "(Value).constructSafe": true}
	funcs := c.AllSrcFuncs("")
	inPkg := map[*ssa.Function]bool{}
	for _, f := range funcs {
		inPkg[f] = true
	}
	adj := map[*ssa.Function][]*ssa.Function{}
	cloneSlotImpls := slotImplsOf(c)["clone"]
	var addEdges func(from, fn *ssa.Function)
	addEdges = func(from, fn *ssa.Function) {
		for _, b := range fn.Blocks {
			for _, ins := range b.Instrs {
				switch x := ins.(type) {
				case ssa.CallInstruction:
					t := targetOf(x)
					if t == nil {
						// a call through the `clone` slot of the class table is not a script-level dispatch: nothing counts
						// it, so its implementations are ordinary callees
						if ld, ok := x.Common().Value.(*ssa.UnOp); ok && ld.Op == token.MUL {
							if nt, f := fieldOfAddr(ld.X); nt != nil && nt.Obj().Name() == "objectClass" && f.Name() == "clone" {
								for _, impl := range cloneSlotImpls {
									if inPkg[impl] {
										adj[from] = append(adj[from], impl)
									}
								}
							}
						}
						continue
					}
					if t.Parent() != nil {
						addEdges(from, t)
						continue
					}
					if inPkg[t] {
						adj[from] = append(adj[from], t)
					}
				case *ssa.MakeClosure:
					if lit, ok := x.Fn.(*ssa.Function); ok && lit.Parent() != nil {
						addEdges(from, lit) // a literal handed to a callee (enumerate callbacks): its calls happen under from
					}
				}
			}
		}
	}
	for _, f := range funcs {
		if f.Parent() != nil || cutNames[ssaFuncName(f)] || isSlotDispatcher(f) {
			continue
		}
		addEdges(f, f)
	}
	index, low, on := map[*ssa.Function]int{}, map[*ssa.Function]int{}, map[*ssa.Function]bool{}
	var stack []*ssa.Function
	var sccs [][]*ssa.Function
	idx := 0
	var strong func(v *ssa.Function)
	strong = func(v *ssa.Function) {
		index[v], low[v] = idx, idx
		idx++
		stack = append(stack, v)
		on[v] = true
		for _, w := range adj[v] {
			if _, seen := index[w]; !seen {
				strong(w)
				if low[w] < low[v] {
					low[v] = low[w]
				}
			} else if on[w] && index[w] < low[v] {
				low[v] = index[w]
			}
		}
		if low[v] == index[v] {
			var comp []*ssa.Function
			for {
				w := stack[len(stack)-1]
				stack = stack[:len(stack)-1]
				on[w] = false
				comp = append(comp, w)
				if w == v {
					break
				}
			}
			self := false
			for _, w := range adj[v] {
				if w == v {
					self = true
				}
			}
			if len(comp) > 1 || self {
				sccs = append(sccs, comp)
			}
		}
	}
	sort.Slice(funcs, func(i, j int) bool { return ssaFuncName(funcs[i]) < ssaFuncName(funcs[j]) })
	for _, f := range funcs {
		if f.Parent() == nil {
			if _, seen := index[f]; !seen {
				strong(f)
			}
		}
	}
	readsLimit := func(fn *ssa.Function) bool {
		for _, g := range withAnon(fn) {
			for _, b := range g.Blocks {
				for _, ins := range b.Instrs {
					if ld, ok := ins.(*ssa.UnOp); ok && ld.Op == token.MUL && isFieldAddr(ld.X, "runtime", "stackLimit") {
						for _, ref := range *ld.Referrers() {
							if bo, ok := ref.(*ssa.BinOp); ok {
								switch bo.Op {
								case token.GTR, token.GEQ, token.LSS, token.LEQ:
									return true
								}
							}
						}
					}
				}
			}
		}
		return false
	}
	for _, comp := range sccs {
		var names []string
		for _, f := range comp {
			names = append(names, ssaFuncName(f))
		}
		sort.Strings(names)
		kind, member := "", ""
		for _, n := range names {
			if k, ok := recKinds[n]; ok && (kind == "" || k == "data") {
				kind, member = k, n
			}
		}
		key := "cycle:" + names[0]
		if member != "" {
			key = "cycle:" + member
		}
		site := c.Pos(comp[0].Pos())
		desc := strings.Join(names, ", ")
		if len(desc) > 300 {
			desc = desc[:300] + "..."
		}
		switch kind {
		case "":
			r.bad(key, site, "recursion cycle that does not pass through a script call and has no reviewed bound: {"+desc+"}")
		case "data":
			guarded := false
			for _, f := range comp {
				if readsLimit(f) {
					guarded = true
				}
			}
			r.check(guarded, key, site, "driven by the nesting of script-built values; consults the runtime's stack limit", "this cycle {"+desc+"} recurses once per nesting level of a value the script built and never passes through a script call, so the stack-depth guard does not see it; it does not consult runtime.stackLimit either: values nested a few million levels deep exhaust the Go stack (fatal) although a limit is configured")
		default:
			r.ok(key, site, recKindText[kind]+" {"+desc+"}")
		}
	}
	r.note("cycles", len(sccs))
}
