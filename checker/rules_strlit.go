package main

import (
	"fmt"
	"unicode/utf8"

	"golang.org/x/tools/go/ssa"
)

func init() {
	register(&Rule{ID: "SPEC-string-escape", Props: []string{"C03", "C04"}, Min: 1,
		Doc: "E (exhaustive abstract evaluation over a quotient of literals): the function that turns the body of a string literal into its value (ES5 7.8.4 SV, with the octal escapes of B.1.2 that the scanner accepts) is evaluated on every literal of the form `\\` + escape character + up to five following characters, the characters drawn from the classes the algorithm distinguishes (octal digits 0-3 and 4-7, other digits, hex letters of both cases, a non-hex letter, a multi-byte character, the line terminators, the quotes). The value, or the fact that the literal is rejected, must be the one the grammar prescribes: which characters an escape consumes (two hex digits, four hex digits, one to three octal digits with the \\377 bound of B.1.2), what it denotes, that a line continuation denotes nothing and that any other character denotes itself. The buffer and the UTF-8 decoder are hooks; everything else is the function's own SSA",
		Run: ruleSpecStringEscape})
}

// es5StringValue: SV of the body of a string literal (ES5 7.8.4, B.1.2); ok=false where the grammar has no production.
func es5StringValue(s string) (string, bool) {
	out := []rune{}
	for i := 0; i < len(s); {
		r, size := utf8.DecodeRuneInString(s[i:])
		if r != '\\' {
			out = append(out, r)
			i += size
			continue
		}
		i++
		if i >= len(s) {
			return "", false
		}
		e, esize := utf8.DecodeRuneInString(s[i:])
		i += esize
		hex := func(n int) (rune, bool) {
			if i+n > len(s) {
				return 0, false
			}
			var v rune
			for j := 0; j < n; j++ {
				c := s[i+j]
				switch {
				case '0' <= c && c <= '9':
					v = v<<4 | rune(c-'0')
				case 'a' <= c && c <= 'f':
					v = v<<4 | rune(c-'a'+10)
				case 'A' <= c && c <= 'F':
					v = v<<4 | rune(c-'A'+10)
				default:
					return 0, false
				}
			}
			i += n
			return v, true
		}
		isOct := func(k int) bool { return k < len(s) && '0' <= s[k] && s[k] <= '7' }
		switch e {
		case 'b':
			out = append(out, '\b')
		case 'f':
			out = append(out, '\f')
		case 'n':
			out = append(out, '\n')
		case 'r':
			out = append(out, '\r')
		case 't':
			out = append(out, '\t')
		case 'v':
			out = append(out, '\v')
		case 'x':
			v, ok := hex(2)
			if !ok {
				return "", false
			}
			out = append(out, v)
		case 'u':
			v, ok := hex(4)
			if !ok {
				return "", false
			}
			out = append(out, v)
		case '0', '1', '2', '3', '4', '5', '6', '7':
			// B.1.2: ZeroToThree OctalDigit OctalDigit | FourToSeven OctalDigit | OctalDigit
			v := e - '0'
			more := 2
			if e >= '4' {
				more = 1
			}
			for k := 0; k < more && isOct(i); k++ {
				v = v<<3 | rune(s[i]-'0')
				i++
			}
			out = append(out, v)
		case '\r':
			if i < len(s) && s[i] == '\n' {
				i++
			}
		case '\n', ' ', ' ':
			// LineContinuation: the empty character sequence
		default:
			out = append(out, e)
		}
	}
	return string(out), true
}

func ruleSpecStringEscape(c *Ctx, r *R) {
	fn, why := stringLiteralValueFunc(c)
	if fn == nil {
		r.undecided("anchor", "-", why)
		return
	}
	newBuf := func(in *absInterp, call *ssa.CallCommon, args []aval) (aval, bool) {
		return aRef{root: &acell{v: aStr(""), name: "buffer"}}, true
	}
	write := func(f func(args []aval) string) absHook {
		return func(in *absInterp, call *ssa.CallCommon, args []aval) (aval, bool) {
			ref, ok := args[0].(aRef)
			if !ok {
				return nil, false
			}
			cur, _ := in.load(ref).(aStr)
			add := f(args)
			in.store(ref, aStr(string(cur)+add))
			if call.Signature().Results().Len() == 2 {
				return aTuple{aInt(len(add)), aNil{}}, true
			}
			return aNil{}, true
		}
	}
	hooks := map[string]absHook{
		"bytes.NewBuffer":       newBuf,
		"bytes.NewBufferString": newBuf,
		"bytes.(*Buffer).WriteRune": write(func(a []aval) string {
			n, _ := a[1].(aInt)
			return string(rune(n))
		}),
		"bytes.(*Buffer).WriteByte": write(func(a []aval) string {
			n, _ := a[1].(aInt)
			return string([]byte{byte(n)})
		}),
		"bytes.(*Buffer).WriteString": write(func(a []aval) string {
			s, _ := a[1].(aStr)
			return string(s)
		}),
		"bytes.(*Buffer).String": func(in *absInterp, call *ssa.CallCommon, args []aval) (aval, bool) {
			ref, ok := args[0].(aRef)
			if !ok {
				return nil, false
			}
			if cur, isStr := in.load(ref).(aStr); isStr {
				return cur, true
			}
			return aStr(""), true // a zero Builder / Buffer nothing was written to
		},
		"bytes.(*Buffer).Grow": func(in *absInterp, call *ssa.CallCommon, args []aval) (aval, bool) { return aNil{}, true },
		"unicode/utf8.DecodeRuneInString": func(in *absInterp, call *ssa.CallCommon, args []aval) (aval, bool) {
			s, _ := args[0].(aStr)
			rn, size := utf8.DecodeRuneInString(string(s))
			return aTuple{aInt(rn), aInt(size)}, true
		},
		"fmt.Errorf": func(in *absInterp, call *ssa.CallCommon, args []aval) (aval, bool) {
			return aIface{dyn: call.Signature().Results().At(0).Type(), v: aAtom{"error"}}, true
		},
		"errors.New": func(in *absInterp, call *ssa.CallCommon, args []aval) (aval, bool) {
			return aIface{dyn: call.Signature().Results().At(0).Type(), v: aAtom{"error"}}, true
		},
	}
	for _, m := range []string{"WriteRune", "WriteByte", "WriteString", "String", "Grow"} {
		hooks["strings.(*Builder)."+m] = hooks["bytes.(*Buffer)."+m]
	}
	in := newAbsInterp(hooks)
	// the domain
	var lits []string
	var gen func(prefix string, alphabet []string, depth int)
	gen = func(prefix string, alphabet []string, depth int) {
		lits = append(lits, prefix)
		if depth == 0 {
			return
		}
		for _, a := range alphabet {
			gen(prefix+a, alphabet, depth-1)
		}
	}
	gen(`\x`, []string{"0", "9", "a", "F", "g", "_", "+"}, 3)
	gen(`\u`, []string{"0", "F", "g", "_"}, 5)
	for _, d := range []string{"0", "1", "3", "4", "7"} {
		gen(`\`+d, []string{"0", "3", "4", "7", "a"}, 3)
	}
	for _, e := range []string{"b", "f", "n", "r", "t", "v", "'", `"`, `\`, "a", "z", "8", "9", "é", "\r", "\n", "\r\n", " ", " ", "/", " "} {
		gen(`\`+e, []string{"0", "a"}, 1)
	}
	lits = append(lits, "", "abc", "é", `a\nb`, `\n\t`, `xAy\x42z`)
	n, bad, fail := 0, "", ""
	for _, lit := range lits {
		n++
		ret, pan, f := absRun(in, fn, []aval{aStr(lit)})
		if f != "" {
			fail = f
			continue
		}
		want, wantOK := es5StringValue(lit)
		got, gotOK := "", false
		if pan == nil {
			if tup, ok := ret.(aTuple); ok && len(tup) == 2 {
				_, isNil := tup[1].(aNil)
				if iface, ok := tup[1].(aIface); ok && iface.dyn == nil {
					isNil = true
				}
				if s, ok := tup[0].(aStr); ok && isNil {
					got, gotOK = string(s), true
				}
			}
		}
		if gotOK != wantOK || (gotOK && got != want) {
			if bad == "" {
				show := func(s string, ok bool) string {
					if !ok {
						return "rejected"
					}
					return fmt.Sprintf("%+q", s)
				}
				how := show(got, gotOK)
				if pan != nil {
					how = "a Go panic (" + describeAval(pan) + ")"
				}
				bad = fmt.Sprintf("the literal body %+q gives %s; ES5 7.8.4 / B.1.2 give %s", lit, how, show(want, wantOK))
			}
		}
	}
	site := c.Pos(fn.Pos())
	switch {
	case fail != "":
		r.undecided("value", site, "UNDECIDED: the abstract evaluator does not model "+fail)
	case bad != "":
		r.bad("value", site, "deviates from the specification: "+bad)
	default:
		r.ok("value", site, fmt.Sprintf("%d literals agree with ES5 7.8.4 / B.1.2", n))
	}
	r.note("literals", n)
}

// stringLiteralValueFunc: the function of package parser that computes the value of a string literal: func(string)
// (string, error) that tests for a backslash. (nil, reason) when there is none or more than one.
func stringLiteralValueFunc(c *Ctx) (*ssa.Function, string) {
	var fn *ssa.Function
	for _, f := range c.AllSrcFuncs("parser") {
		if f.Parent() != nil || f.Signature.Recv() != nil || len(f.Params) != 1 || f.Signature.Results().Len() != 2 {
			continue
		}
		if typeStr(f.Params[0].Type()) != "string" || typeStr(f.Signature.Results().At(0).Type()) != "string" || typeStr(f.Signature.Results().At(1).Type()) != "error" {
			continue
		}
		usesBackslash := false
		for _, b := range f.Blocks {
			for _, ins := range b.Instrs {
				for _, op := range ins.Operands(nil) {
					if k, ok := (*op).(*ssa.Const); ok && k.Value != nil {
						if n, isInt := constInt(k); isInt && n == '\\' {
							usesBackslash = true
						}
					}
				}
			}
		}
		if usesBackslash {
			if fn != nil {
				return nil, "UNRESOLVED: two functions of package parser map a string to (string, error) and test for a backslash: " + fn.Name() + ", " + f.Name()
			}
			fn = f
		}
	}
	if fn == nil {
		return nil, "UNRESOLVED: the function that computes the value of a string literal (func(string) (string, error) in package parser)"
	}
	return fn, ""
}

// inStringLiteralValue: fn is that function or a helper split out of it.
func inStringLiteralValue(c *Ctx, fn *ssa.Function) bool {
	root, _ := stringLiteralValueFunc(c)
	return root != nil && c.partOf(fn, ssaFuncName(root), 0)
}
