package main

import (
	"fmt"
	"go/ast"
	"go/constant"
	"go/token"
	"go/types"
	"strings"

	"golang.org/x/tools/go/ssa"
)

func init() {
	register(&Rule{ID: "PANIC-foreign", Props: []string{"C02", "C04", "C16", "C19"}, Min: 120,
		Doc: "O: every panic in the core packages is classified by the static type of its operand: JS-catchable (*exception, ottoError, Value, *Error: becomes an error value at the API boundary and a catchable exception in scripts) or foreign (string, error, ...: escapes Run as a Go panic). A foreign panic must sit in the default arm of a switch that an EXH/TAB rule proves exhaustive, or in the reviewed table with a reason; anything else is a host crash a script can trigger",
		Run: rulePanicForeign})
}

// relQual qualifies types of other packages by their package name and leaves package otto's unqualified.
func relQual(p *types.Package) string {
	if p == nil || p.Path() == ottoPath {
		return ""
	}
	return p.Name()
}

var catchablePanicTypes = map[string]bool{"*exception": true, "ottoError": true, "Value": true, "*Error": true}

// Reviewed foreign panics: key = function | operand type | context descriptor.
var panicForeignReviewed = map[string]string{
	"ast.Walk|string|default-of-typeswitch(ast.Node)":                                           "dead by EXH-walk: every concrete ast.Node type has a case",
	"(*runtime).cmplEvaluateNodeExpression|string|":                                             "defensive: getIdentifierReference returns a non-nil reference on every path (it ends in a composite literal)",
	"(*runtime).cmplEvaluateNodeObjectLiteral|string|default-of-switch(string:.kind)":           "dead by TAB-propkind: the parser writes only value/get/set into Property.Kind",
	"(*runtime).cmplEvaluateNodeUnaryExpression|string|after-switch(token.Token:.operator)":     "every unary operator the parser emits has an arm (TAB-ops); the arm of typeof falls through to this panic only for an operand of an internal kind (empty / result / reference), which statements never hand to expressions (LABEL-consume, EARLY-guards: no break or continue result escapes a function)",
	"(*runtime).cmplEvaluateNodeStatement|error(Errorf)|default-of-switch(token.Token:.branch)": "dead by TAB-branch: the parser writes only BREAK/CONTINUE into BranchStatement.Token",
	"(*runtime).calculateBinaryExpression|string|after-switch(token.Token:var)":                 "dead by TAB-ops",
	"(*runtime).calculateComparison|string|default-of-switch(token.Token:var)":                  "dead by TAB-ops",
	"(*runtime).calculateComparison|string|default-of-switch(true)":                             "both operands are resolved values of the six ES5 kinds; the preceding arms cover every pair of them (KIND-order checks the <= comparisons)",
	"(*runtime).calculateComparison|string|":                                                    "kinds are equal and one of the six ES5 kinds after resolve(); internal kinds never reach operators",
	"New|error(Set)|":                                                                           "host-side constructor; runs once on a fresh runtime with constant input",
	"New$1|dynamic:error|":                                                                      "host-side constructor: registered extension source failed to load",
	"parser.(*parser).error|error(Errorf)|default-of-typeswitch(interface{})":                   "internal API misuse: callers pass int or file.Idx (all call sites are in package parser)",
	"parser.parseStringLiteral|string|":                                                         "the scanner only accepts a literal whose every backslash is followed by a character (scanString/scanEscape)",
	"parser.parseStringLiteral|string|#2":                                                       "a \\u/\\x escape has at most 4 hex digits: the value cannot exceed 0xFFFF",
	"(*objectStash).createBinding|string|":                                                      "stasher protocol: every call is on the not-bound side of hasBinding (STASH-protocol)",
	"(*dclStash).createBinding|error(Errorf)|":                                                  "stasher protocol: every call is on the not-bound side of hasBinding (STASH-protocol)",
	"getStashProperties|string|default-of-typeswitch(stasher)":                                  "covers the three stasher implementations (debugger helper, host-side)",
	"arrayDefineOwnProperty|string|":                                                            "array length is a data property by construction (newArrayObject) and 15.4.5.1 never lets it become an accessor",
	"(Value).bool|string|":                                                                      "dead by REPR-value: every payload type of a boolean/number/string Value is handled",
	"(Value).float64|error(Errorf)|":                                                            "dead by REPR-value",
	"(Value).string|error(Errorf)|":                                                             "dead by REPR-value",
}

func panicOperandType(p *ssa.Panic) (string, types.Type) {
	switch x := p.X.(type) {
	case *ssa.MakeInterface:
		return types.TypeString(x.X.Type(), relQual), x.X.Type()
	case *ssa.Call:
		// panic(fmt.Errorf(...)) / panic(errors.New(...)): result is already an interface (error)
		if f := x.Call.StaticCallee(); f != nil {
			return "error(" + f.Name() + ")", x.Type()
		}
		return "error(call)", x.Type()
	case *ssa.ChangeInterface:
		if call, ok := x.X.(*ssa.Call); ok {
			if f := call.Call.StaticCallee(); f != nil {
				return "error(" + f.Name() + ")", call.Type()
			}
		}
		return "dynamic:" + types.TypeString(x.X.Type(), relQual), x.X.Type()
	case *ssa.Extract, *ssa.Phi, *ssa.Parameter, *ssa.UnOp, *ssa.TypeAssert:
		return "dynamic:" + types.TypeString(x.Type(), relQual), x.Type()
	}
	return fmt.Sprintf("%T", p.X), p.X.Type()
}

// enclosingSwitchContext describes the syntactic context of a panic call: "default-of-typeswitch(<tag type>)",
// "default-of-switch(<tag type>)", "after-switch(<tag type>)" or "".
func (c *Ctx) panicContext(pos ast.Node, info *types.Info) string {
	var child ast.Node = pos
	for p := c.ParentOf(pos); p != nil; child, p = p, c.ParentOf(p) {
		switch x := p.(type) {
		case *ast.FuncDecl, *ast.FuncLit:
			// panic is a top-level statement of the function: is the preceding statement a switch?
			return ""
		case *ast.CaseClause:
			if x.List != nil {
				continue
			}
			switch sw := c.ParentOf(c.ParentOf(x)).(type) {
			case *ast.TypeSwitchStmt:
				var ta *ast.TypeAssertExpr
				switch a := sw.Assign.(type) {
				case *ast.AssignStmt:
					ta, _ = a.Rhs[0].(*ast.TypeAssertExpr)
				case *ast.ExprStmt:
					ta, _ = a.X.(*ast.TypeAssertExpr)
				}
				if ta != nil {
					return "default-of-typeswitch(" + types.TypeString(info.TypeOf(ta.X), relQual) + ")"
				}
			case *ast.SwitchStmt:
				if sw.Tag != nil {
					return "default-of-switch(" + types.TypeString(info.TypeOf(sw.Tag), relQual) + ":" + exprShape(sw.Tag) + ")"
				}
				return "default-of-switch(true)"
			}
		case *ast.BlockStmt:
			// statement directly after a switch in the same block
			for i, s := range x.List {
				if s == child && i > 0 {
					if sw, ok := x.List[i-1].(*ast.SwitchStmt); ok && sw.Tag != nil {
						return "after-switch(" + types.TypeString(info.TypeOf(sw.Tag), relQual) + ":" + exprShape(sw.Tag) + ")"
					}
				}
			}
		}
	}
	return ""
}

// exprShape: identifier-free shape of a tag expression (field names kept): "x.kind", "x", "call".
func exprShape(e ast.Expr) string {
	switch x := unparen(e).(type) {
	case *ast.SelectorExpr:
		return "." + x.Sel.Name
	case *ast.CallExpr:
		return "call"
	case *ast.Ident:
		return "var"
	}
	return "expr"
}

func rulePanicForeign(c *Ctx, r *R) {
	pkgs := []string{"", "parser", "ast", "file", "token", "registry"}
	nCatch, nForeign := 0, 0
	for _, fn := range c.AllSrcFuncs(pkgs...) {
		for _, b := range fn.Blocks {
			for _, ins := range b.Instrs {
				p, ok := ins.(*ssa.Panic)
				if !ok {
					continue
				}
				tname, _ := panicOperandType(p)
				fname := ssaFuncName(fn)
				site := c.Pos(instrPos(p))
				if catchablePanicTypes[tname] {
					nCatch++
					r.ok("catchable:"+fname+"|"+tname, site, "JS-catchable payload")
					continue
				}
				nForeign++
				// context
				ctx := ""
				if node := c.nodeAt(p.Pos()); node != nil {
					ctx = c.panicContext(node, c.InfoFor(node))
				}
				key := fname + "|" + tname + "|" + ctx
				if isRepanicOfRecover(p) {
					r.ok("repanic:"+fname, site, "re-panics the recovered value (propagation, not a new payload)")
					continue
				}
				if why := deadArmReason(ctx); why != "" {
					r.ok("dead-arm:"+key, site, why)
					continue
				}
				if why := c.kindSwitchExhaustive(p); why != "" {
					r.ok("kind-exhaustive:"+key, site, why)
					continue
				}
				if why := payloadExhausted(p); why != "" {
					r.ok("payload-exhaustive:"+key, site, why)
					continue
				}
				if why, ok := reviewedLookup(panicForeignReviewed, key); ok {
					r.ok("reviewed:"+key, site, why)
					continue
				}
				r.bad("foreign:"+key, site, fmt.Sprintf("panic with a %s operand in %s (context: %s): not a JS exception - catchPanic re-panics it, so if script-controlled data can reach this statement the host program crashes", tname, fname, orDash(ctx)))
			}
		}
	}
	r.note("catchable", nCatch)
	r.note("foreign", nForeign)
}

func orDash(s string) string {
	if s == "" {
		return "-"
	}
	return s
}

// deadArmReason: the context is the default arm of a switch that another rule proves exhaustive.
func deadArmReason(ctx string) string {
	switch {
	case strings.HasPrefix(ctx, "default-of-typeswitch(ast.Expression)"), strings.HasPrefix(ctx, "default-of-typeswitch(ast.Statement)"):
		return "default arm of the compiler's switch over every ast node type: dead by EXH-ast2node"
	case strings.HasPrefix(ctx, "default-of-typeswitch(nodeExpression)"), strings.HasPrefix(ctx, "default-of-typeswitch(nodeStatement)"):
		return "default arm of the evaluator's switch over every compiled node type: dead by EXH-node2eval"
	case strings.HasPrefix(ctx, "default-of-typeswitch(ast.Declaration)"):
		return "default arm over the two Declaration types: dead (only FunctionDeclaration and VariableDeclaration implement it; checked by EXH-decl in EXH-ast2node)"
	}
	return ""
}

// kindSwitchExhaustive: the panic is the default arm of a `switch <Value>.kind` whose explicit cases name all six kinds
// a script can produce (undefined, null, number, string, boolean, object). The arm is then reachable only for the
// interpreter's internal kinds (empty, result, reference), which statements and references never hand to value
// operations (LABEL-consume, EARLY-guards, REF-getvalue): a defensive arm wherever the switch is written.
func (c *Ctx) kindSwitchExhaustive(p *ssa.Panic) string {
	node := c.nodeAt(p.Pos())
	if node == nil {
		return ""
	}
	info := c.InfoFor(node)
	var child ast.Node = node
	for par := c.ParentOf(node); par != nil; child, par = par, c.ParentOf(par) {
		switch x := par.(type) {
		case *ast.FuncDecl, *ast.FuncLit:
			return ""
		case *ast.CaseClause:
			if x.List != nil {
				return ""
			}
			sw, ok := c.ParentOf(c.ParentOf(x)).(*ast.SwitchStmt)
			if !ok || sw.Tag == nil || !typeIs(info.TypeOf(sw.Tag), ottoPath, "valueKind") {
				return ""
			}
			if sel, ok := unparen(sw.Tag).(*ast.SelectorExpr); !ok || sel.Sel.Name != "kind" || !typeIs(info.TypeOf(sel.X), ottoPath, "Value") {
				return ""
			}
			have := map[string]bool{}
			for _, st := range sw.Body.List {
				for _, e := range st.(*ast.CaseClause).List {
					if tv, ok := info.Types[e]; ok && tv.Value != nil {
						for _, nm := range []string{"valueUndefined", "valueNull", "valueNumber", "valueString", "valueBoolean", "valueObject"} {
							if k, ok := c.Otto().Types.Scope().Lookup(nm).(*types.Const); ok && constant.Compare(k.Val(), token.EQL, tv.Value) {
								have[nm] = true
							}
						}
					}
				}
			}
			if len(have) == 6 {
				return "default arm of a switch over Value.kind that names all six script-visible kinds: reachable only for the interpreter's internal kinds, which are never operands"
			}
			return ""
		}
		_ = child
	}
	return ""
}

// payloadFacts: the dynamic types a payload field can hold, each established by the rule named.
var payloadFacts = map[string]struct {
	types []string
	rule  string
}{
	"property.value": {[]string{"Value", "propertyGetSet"}, "PROP-PAYLOAD"},
}

// payloadExhausted: the panic is reached only after comma-ok assertions (or the arms of a type switch, which go/ssa
// lowers to the same chain) of one operand - a load of a payload field with a known type set - have failed for every
// type of the set: dead by the rule that establishes the set, however the tests are written.
func payloadExhausted(p *ssa.Panic) string {
	fn := p.Parent()
	failed := map[string]map[string]bool{} // field -> types whose failed branch dominates the panic
	for _, b := range fn.Blocks {
		iff, ok := b.Instrs[len(b.Instrs)-1].(*ssa.If)
		if !ok {
			continue
		}
		ex, ok := iff.Cond.(*ssa.Extract)
		if !ok || ex.Index != 1 {
			continue
		}
		ta, ok := ex.Tuple.(*ssa.TypeAssert)
		if !ok || !ta.CommaOk {
			continue
		}
		field := ""
		switch x := ta.X.(type) {
		case *ssa.UnOp:
			if nt, f := fieldOfAddr(x.X); nt != nil {
				field = nt.Obj().Name() + "." + f.Name()
			}
		case *ssa.Field:
			if nt, ok := x.X.Type().(*types.Named); ok {
				if st, ok := nt.Underlying().(*types.Struct); ok {
					field = nt.Obj().Name() + "." + st.Field(x.Field).Name()
				}
			}
		}
		if _, known := payloadFacts[field]; !known {
			continue
		}
		no := b.Succs[1]
		if (len(no.Preds) == 1 && (no == p.Block() || no.Dominates(p.Block()))) || (b.Dominates(p.Block()) && !reaches(b.Succs[0], p.Block(), map[*ssa.BasicBlock]bool{b: true})) {
			if failed[field] == nil {
				failed[field] = map[string]bool{}
			}
			failed[field][typeStr(ta.AssertedType)] = true
		}
	}
	for field, got := range failed {
		fact := payloadFacts[field]
		all := true
		for _, t := range fact.types {
			if !got[t] {
				all = false
			}
		}
		if all {
			return fmt.Sprintf("reached only when %s holds none of %v: dead by %s (every store into that field has one of these types)", field, fact.types, fact.rule)
		}
	}
	return ""
}

func isRepanicOfRecover(p *ssa.Panic) bool {
	// the recovered value itself, a field taken out of it, or a wrapper around it (rules_interrupt.go)
	mode, _ := recoverPanicMode(p)
	return mode != ""
}
