package main

import (
	"fmt"
	"go/constant"
	"go/types"
	"math"
	"strings"

	"golang.org/x/tools/go/ssa"
)

func init() {
	register(&Rule{ID: "SPEC-string-search", Props: []string{"C09"}, Min: 2,
		Doc: "E (exhaustive abstract evaluation; ES5 15.5.4.7 and 15.5.4.8): the functions bound to String.prototype.indexOf and lastIndexOf are run by the abstract interpreter on the subject \"abcabc\" with seven search strings (one, two and six characters, the empty string, absent ones, one longer than the subject) and fourteen positions (absent, undefined, NaN, -Infinity, +Infinity, -1 .. 7): 196 cases, each compared with the specification's result - for indexOf the position is ToInteger (NaN is 0), for lastIndexOf a NaN position means +Infinity, both are clamped to [0, length]. The conversions (ToString of this and of the search string, ToNumber / ToInteger of the position) are hooks answering from the table; the clamping, the slicing and the search are the functions' own SSA (strings.Index / LastIndex are the real library)",
		Run: ruleSpecStringSearch})
}

func ruleSpecStringSearch(c *Ctx, r *R) {
	w := defineWorldFor(c)
	if w == nil {
		r.undecided("world", "-", "UNRESOLVED: the abstract model of SPEC-define-own is not available")
		return
	}
	m := w.m
	fns := c.Shape().boundSSA(c, "String.prototype")
	tCall := c.LookupType("", "FunctionCall")
	numT := c.LookupType("", "_number")
	if fns["indexOf"] == nil || fns["lastIndexOf"] == nil || tCall == nil || numT == nil {
		r.undecided("anchors", "-", "UNRESOLVED: String.prototype.indexOf / lastIndexOf / FunctionCall / _number")
		return
	}
	cst := tCall.Underlying().(*types.Struct)
	cArgs, cThis := -1, -1
	for i := 0; i < cst.NumFields(); i++ {
		switch cst.Field(i).Name() {
		case "ArgumentList":
			cArgs = i
		case "This":
			cThis = i
		}
	}
	nst := numT.Underlying().(*types.Struct)
	fInt, fKind, fFloat := -1, -1, -1
	for i := 0; i < nst.NumFields(); i++ {
		switch nst.Field(i).Name() {
		case "int64":
			fInt = i
		case "kind":
			fKind = i
		case "float64":
			fFloat = i
		}
	}
	kindOf := func(name string) int64 {
		if k, ok := c.Otto().Types.Scope().Lookup(name).(*types.Const); ok {
			v, _ := constant.Int64Val(k.Val())
			return v
		}
		return -1
	}
	kNaN, kInf, kFloat := kindOf("numberNaN"), kindOf("numberInfinity"), kindOf("numberFloat")
	if cArgs < 0 || cThis < 0 || fInt < 0 || fKind < 0 || fFloat < 0 || kNaN < 0 || kInf < 0 {
		r.undecided("anchors:fields", "-", "UNRESOLVED: FunctionCall.This / ArgumentList, _number.kind / int64 / float64, numberNaN / numberInfinity")
		return
	}
	const subject = "abcabc"
	const big = int64(1) << 62
	target := ""
	result := int64(math.MinInt64)
	// a position Value carries its case in the atom: n:<k>, nan, +inf, -inf, undefined
	posOf := func(v aval) string { return m.valueAtom(v) }
	hooks := map[string]absHook{
		"checkObjectCoercible": func(in *absInterp, call *ssa.CallCommon, args []aval) (aval, bool) { return aNil{}, true },
		"(Value).string": func(in *absInterp, call *ssa.CallCommon, args []aval) (aval, bool) {
			switch m.valueAtom(args[0]) {
			case "this":
				return aStr(subject), true
			case "target":
				return aStr(target), true
			}
			return nil, false
		},
		"(Value).number": func(in *absInterp, call *ssa.CallCommon, args []aval) (aval, bool) {
			out := in.zero(numT).(aStruct)
			a := posOf(args[0])
			switch {
			case a == "nan" || a == "undefined":
				out.f[fKind] = aInt(kNaN)
				out.f[fFloat] = aNaN{}
			case a == "+inf":
				out.f[fKind], out.f[fInt], out.f[fFloat] = aInt(kInf), aInt(math.MaxInt64), aInt(big)
			case a == "-inf":
				out.f[fKind], out.f[fInt], out.f[fFloat] = aInt(kInf), aInt(math.MinInt64), aInt(-big)
			default:
				var k int64
				fmt.Sscanf(a, "%d", &k)
				out.f[fInt], out.f[fFloat] = aInt(k), aInt(k)
				if k != 0 && kFloat >= 0 {
					out.f[fKind] = aInt(kFloat)
				}
			}
			return out, true
		},
		"(Value).float64": func(in *absInterp, call *ssa.CallCommon, args []aval) (aval, bool) {
			switch a := posOf(args[0]); a {
			case "nan", "undefined":
				return aNaN{}, true
			case "+inf":
				return aInt(big), true
			case "-inf":
				return aInt(-big), true
			default:
				var k int64
				if _, err := fmt.Sscanf(a, "%d", &k); err != nil {
					return nil, false
				}
				return aInt(k), true
			}
		},
		"toIntegerFloat": func(in *absInterp, call *ssa.CallCommon, args []aval) (aval, bool) {
			// the float form (ToInteger of an already converted number)
			switch x := args[0].(type) {
			case aNaN:
				return aInt(0), true
			case aInt:
				return x, true
			}
			a := posOf(args[0])
			switch a {
			case "nan", "undefined":
				return aInt(0), true
			case "+inf":
				return aInt(big), true
			case "-inf":
				return aInt(-big), true
			}
			var k int64
			fmt.Sscanf(a, "%d", &k)
			return aInt(k), true
		},
		"intValue": func(in *absInterp, call *ssa.CallCommon, args []aval) (aval, bool) {
			if n, ok := args[0].(aInt); ok {
				result = int64(n)
			}
			return m.mkValue(in, "result"), true
		},
		"unicode/utf16.Encode": func(in *absInterp, call *ssa.CallCommon, args []aval) (aval, bool) { return args[0], true },
	}
	in := newAbsInterp(hooks)
	in.intFloats = true // positions are compared with float64(len(value)): integers carried in float64
	mkPos := func(p string) aval {
		switch p {
		case "undefined":
			return m.mkValue(in, "undefined")
		}
		v := m.mkValue(in, "n:0").(aStruct)
		v.f[m.valueFieldValue] = aIface{dyn: types.Typ[types.Float64], v: aAtom{p}}
		return v
	}
	positions := []string{"(absent)", "undefined", "nan", "-inf", "+inf"}
	for k := -1; k <= 7; k++ {
		positions = append(positions, fmt.Sprint(k))
	}
	targets := []string{"a", "c", "bc", "", "x", "abcabc", "abcabcd"}
	showPos := map[string]string{"nan": "NaN", "-inf": "-Infinity", "+inf": "Infinity"}
	for _, name := range []string{"indexOf", "lastIndexOf"} {
		fn := fns[name]
		n, bad, fail := 0, "", ""
		for _, target = range targets {
			for _, p := range positions {
				n++
				elems := []aval{m.mkValue(in, "target")}
				if p != "(absent)" {
					elems = append(elems, mkPos(p))
				}
				call := in.zero(tCall).(aStruct)
				call.f[cThis] = m.mkValue(in, "this")
				call.f[cArgs] = aSlice{arr: aRef{root: &acell{v: aArr{e: elems}, name: "args"}}, n: len(elems)}
				result = math.MinInt64
				_, pan, f := absRun(in, fn, []aval{call})
				if f != "" || pan != nil {
					fail = f + describeAvalOrNil(pan)
					continue
				}
				// ES5
				length := int64(len(subject))
				var pos int64
				switch p {
				case "(absent)", "undefined", "nan":
					pos = 0
					if name == "lastIndexOf" {
						pos = big
					}
				case "-inf":
					pos = -big
				case "+inf":
					pos = big
				default:
					fmt.Sscanf(p, "%d", &pos)
				}
				start := pos
				if start < 0 {
					start = 0
				}
				if start > length {
					start = length
				}
				want := int64(-1)
				if name == "indexOf" {
					if i := strings.Index(subject[start:], target); i >= 0 {
						want = start + int64(i)
					}
				} else {
					for k := start; k >= 0; k-- {
						if strings.HasPrefix(subject[k:], target) {
							want = k
							break
						}
					}
				}
				if result != want && bad == "" {
					sp := p
					if s, ok := showPos[p]; ok {
						sp = s
					}
					args := fmt.Sprintf("%q", target)
					if p != "(absent)" {
						args += ", " + sp
					}
					got := fmt.Sprint(result)
					if result == math.MinInt64 {
						got = "no integer result"
					}
					bad = fmt.Sprintf("%q.%s(%s) gives %s; ES5 15.5.4.%s gives %d", subject, name, args, got, map[string]string{"indexOf": "7", "lastIndexOf": "8"}[name], want)
				}
			}
		}
		site := c.Pos(fn.Pos())
		switch {
		case fail != "":
			r.undecided(name, site, "UNDECIDED: the abstract evaluator does not model "+fail)
		case bad != "":
			r.bad(name, site, "deviates from ES5: "+bad)
		default:
			r.ok(name, site, fmt.Sprintf("%d cases agree with ES5", n))
		}
	}
}
