package main

// absint.go - an abstract evaluator for go/ssa function bodies over a finite domain.
//
// The decision procedures of the ES5 object model ([[DefineOwnProperty]], ToPropertyDescriptor, [[CanPut]] ...) are
// branch-and-bit-twiddle code over a handful of attributes and the *kind* of a payload; which value is stored matters
// only up to identity. This evaluator runs such a body on abstract inputs: integers, booleans and strings are exact,
// structs and arrays are by-value aggregates, pointers are references to evaluator-owned cells, and everything the
// procedure treats as opaque (objects, the runtime, script values) is an *atom* with nothing but an identity. Calls
// into the rest of the interpreter are replaced by hooks supplied by the rule (the property table, SameValue, the
// exception constructors). Anything the evaluator does not model makes the case undecided - never silently passed.

import (
	"fmt"
	"go/constant"
	"go/token"
	"go/types"
	"unicode/utf8"

	"golang.org/x/tools/go/ssa"
	"strconv"
	"strings"
)

type aval interface{}

type (
	aInt    int64
	aBool   bool
	aStr    string
	aNil    struct{}
	aStruct struct {
		t types.Type
		f []aval
	}
	aArr struct {
		t types.Type
		e []aval
	}
	aRef struct {
		root *acell
		path string // "/3/0" field and element indices below the root
	}
	aIface struct {
		dyn types.Type // nil: nil interface
		v   aval
	}
	aAtom struct{ name string } // opaque pointer-like identity
	aFunc struct {
		fn   *ssa.Function
		bind []aval
	}
	aTuple []aval
	aSlice struct {
		arr aRef // reference to an aArr cell
		off int
		n   int
	}
	aMap struct {
		m     map[string]aval // keyed by string keys only
		order *[]string
	}
)

func newAMap() aMap { return aMap{m: map[string]aval{}, order: &[]string{}} }

type acell struct {
	v    aval
	name string
}

// absIter: the state of a range loop over a string or a map.
type absIter struct {
	str   string
	keys  []string
	m     aMap
	isMap bool
	pos   int
}

// absPanic is how an interpreted panic(...) unwinds.
type absPanic struct{ v aval }

// absFail: the evaluator met something it does not model.
type absFail struct{ msg string }

type absHook func(in *absInterp, call *ssa.CallCommon, args []aval) (aval, bool)

type absInterp struct {
	prog    *ssa.Program
	hooks   map[string]absHook // by ssaFuncName of the static callee
	globals map[*ssa.Global]*acell
	steps   int
	depth   int
	// intFloats: integral float64 constants are carried as integers (for code whose floating-point arithmetic stays on
	// integers: digit accumulation); set by the rule that knows this of the function it evaluates
	intFloats bool
}

func newAbsInterp(hooks map[string]absHook) *absInterp {
	return &absInterp{hooks: hooks, globals: map[*ssa.Global]*acell{}}
}

func (in *absInterp) fail(format string, a ...interface{}) {
	panic(absFail{fmt.Sprintf(format, a...)})
}

func (in *absInterp) zero(t types.Type) aval {
	switch u := t.Underlying().(type) {
	case *types.Basic:
		switch {
		case u.Info()&types.IsBoolean != 0:
			return aBool(false)
		case u.Info()&types.IsString != 0:
			return aStr("")
		case u.Info()&types.IsNumeric != 0:
			return aInt(0)
		}
		return aNil{}
	case *types.Struct:
		s := aStruct{t: t, f: make([]aval, u.NumFields())}
		for i := range s.f {
			s.f[i] = in.zero(u.Field(i).Type())
		}
		return s
	case *types.Array:
		a := aArr{t: t, e: make([]aval, u.Len())}
		for i := range a.e {
			a.e[i] = in.zero(u.Elem())
		}
		return a
	case *types.Interface:
		return aIface{}
	}
	return aNil{}
}

func deepCopy(v aval) aval {
	switch x := v.(type) {
	case aStruct:
		n := aStruct{t: x.t, f: make([]aval, len(x.f))}
		for i, f := range x.f {
			n.f[i] = deepCopy(f)
		}
		return n
	case aArr:
		n := aArr{t: x.t, e: make([]aval, len(x.e))}
		for i, f := range x.e {
			n.e[i] = deepCopy(f)
		}
		return n
	case aIface:
		return aIface{dyn: x.dyn, v: deepCopy(x.v)}
	}
	return v
}

func parsePath(p string) []int {
	var out []int
	n, has := 0, false
	for i := 0; i < len(p); i++ {
		if p[i] == '/' {
			if has {
				out = append(out, n)
			}
			n, has = 0, false
			continue
		}
		n = n*10 + int(p[i]-'0')
		has = true
	}
	if has {
		out = append(out, n)
	}
	return out
}

func (in *absInterp) load(r aRef) aval {
	v := r.root.v
	for _, i := range parsePath(r.path) {
		switch x := v.(type) {
		case aStruct:
			v = x.f[i]
		case aArr:
			if i < 0 || i >= len(x.e) {
				panic(absPanic{aAtom{"runtime error: index out of range"}})
			}
			v = x.e[i]
		default:
			in.fail("load through %T at %s", v, r.path)
		}
	}
	return deepCopy(v)
}

func (in *absInterp) store(r aRef, nv aval) {
	var set func(v aval, path []int) aval
	set = func(v aval, path []int) aval {
		if len(path) == 0 {
			return deepCopy(nv)
		}
		switch x := v.(type) {
		case aStruct:
			x.f[path[0]] = set(x.f[path[0]], path[1:])
			return x
		case aArr:
			if path[0] < 0 || path[0] >= len(x.e) {
				panic(absPanic{aAtom{"runtime error: index out of range"}})
			}
			x.e[path[0]] = set(x.e[path[0]], path[1:])
			return x
		}
		in.fail("store through %T", v)
		return nil
	}
	r.root.v = set(r.root.v, parsePath(r.path))
}

func avalEqual(a, b aval) (bool, bool) {
	switch x := a.(type) {
	case aInt:
		y, ok := b.(aInt)
		return ok && x == y, ok
	case aBool:
		y, ok := b.(aBool)
		return ok && x == y, ok
	case aStr:
		y, ok := b.(aStr)
		return ok && x == y, ok
	case aNil:
		switch y := b.(type) {
		case aNil:
			return true, true
		case aAtom, aRef, aFunc, aSlice:
			_ = y
			return false, true
		case aIface:
			return y.dyn == nil, true
		}
	case aSlice:
		if _, ok := b.(aNil); ok {
			return false, true // a slice value made by the program or a hook is not the nil slice
		}
	case aAtom:
		switch y := b.(type) {
		case aAtom:
			return x.name == y.name, true
		case aNil, aRef:
			return false, true
		}
	case aRef:
		switch y := b.(type) {
		case aRef:
			return x.root == y.root && x.path == y.path, true
		case aNil, aAtom:
			return false, true
		}
	case aIface:
		switch y := b.(type) {
		case aIface:
			if x.dyn == nil || y.dyn == nil {
				return x.dyn == nil && y.dyn == nil, true
			}
			if !types.Identical(x.dyn, y.dyn) {
				return false, true
			}
			return avalEqual(x.v, y.v)
		case aNil:
			return x.dyn == nil, true
		}
	case aStruct:
		y, ok := b.(aStruct)
		if !ok || len(x.f) != len(y.f) {
			return false, false
		}
		for i := range x.f {
			eq, ok := avalEqual(x.f[i], y.f[i])
			if !ok {
				return false, false
			}
			if !eq {
				return false, true
			}
		}
		return true, true
	case aArr:
		y, ok := b.(aArr)
		if !ok || len(x.e) != len(y.e) {
			return false, false
		}
		for i := range x.e {
			eq, ok := avalEqual(x.e[i], y.e[i])
			if !ok {
				return false, false
			}
			if !eq {
				return false, true
			}
		}
		return true, true
	}
	return false, false
}

func (in *absInterp) constVal(c *ssa.Const) aval {
	if c.Value == nil {
		return in.zero(c.Type())
	}
	switch c.Value.Kind() {
	case constant.Bool:
		return aBool(constant.BoolVal(c.Value))
	case constant.String:
		return aStr(constant.StringVal(c.Value))
	case constant.Int:
		n, _ := constant.Int64Val(c.Value)
		return aInt(n)
	}
	if in.intFloats && c.Value.Kind() == constant.Float {
		if f, exact := constant.Float64Val(c.Value); exact && f == float64(int64(f)) && f > -9e15 && f < 9e15 {
			return aInt(int64(f))
		}
	}
	in.fail("constant %s", c)
	return nil
}

type absFrame struct {
	fn     *ssa.Function
	vals   map[ssa.Value]aval
	params []aval
	bind   []aval
}

func (in *absInterp) get(fr *absFrame, v ssa.Value) aval {
	switch x := v.(type) {
	case *ssa.Const:
		return in.constVal(x)
	case *ssa.Global:
		c, ok := in.globals[x]
		if !ok {
			pt := x.Type().Underlying().(*types.Pointer)
			c = &acell{v: in.zero(pt.Elem()), name: x.Name()}
			if tbl, ok := constTableOf(x); ok {
				c.v = tbl
			} else if tbl, ok := in.constGlobalOf(x); ok {
				c.v = tbl
			}
			in.globals[x] = c
		}
		return aRef{root: c}
	case *ssa.Function:
		return aFunc{fn: x}
	case *ssa.Parameter:
		for i, p := range fr.fn.Params {
			if p == x {
				return fr.params[i]
			}
		}
	case *ssa.FreeVar:
		for i, p := range fr.fn.FreeVars {
			if p == x {
				return fr.bind[i]
			}
		}
	case *ssa.Builtin:
		return x
	}
	if r, ok := fr.vals[v]; ok {
		return r
	}
	in.fail("value %s (%T) not available in %s", v.Name(), v, fr.fn.Name())
	return nil
}

// Call runs fn on args. The result is the returned value (aTuple for several results).
func (in *absInterp) Call(fn *ssa.Function, args []aval, bind []aval) aval {
	if fn.Blocks == nil {
		in.fail("call of %s: no body", fn)
	}
	in.depth++
	if in.depth > 40 {
		in.fail("call depth exceeded at %s", fn)
	}
	defer func() { in.depth-- }()
	fr := &absFrame{fn: fn, vals: map[ssa.Value]aval{}, params: args, bind: bind}
	var prev *ssa.BasicBlock
	b := fn.Blocks[0]
	for {
		var next *ssa.BasicBlock
		// phis first, evaluated simultaneously
		phiVals := map[*ssa.Phi]aval{}
		for _, ins := range b.Instrs {
			phi, ok := ins.(*ssa.Phi)
			if !ok {
				break
			}
			for i, p := range b.Preds {
				if p == prev {
					phiVals[phi] = in.get(fr, phi.Edges[i])
				}
			}
		}
		for p, v := range phiVals {
			fr.vals[p] = v
		}
		for _, ins := range b.Instrs {
			in.steps++
			if in.steps > 200000 {
				in.fail("step budget exceeded in %s", fn)
			}
			switch x := ins.(type) {
			case *ssa.Phi:
			case *ssa.DebugRef:
			case *ssa.Alloc:
				pt := x.Type().Underlying().(*types.Pointer)
				fr.vals[x] = aRef{root: &acell{v: in.zero(pt.Elem()), name: x.Comment}}
			case *ssa.UnOp:
				fr.vals[x] = in.unop(fr, x)
			case *ssa.BinOp:
				fr.vals[x] = in.binop(x, in.get(fr, x.X), in.get(fr, x.Y))
			case *ssa.FieldAddr:
				base := in.get(fr, x.X)
				r, ok := base.(aRef)
				if !ok {
					if _, isNil := base.(aNil); isNil {
						panic(absPanic{aAtom{"runtime error: nil pointer dereference"}})
					}
					in.fail("%s: field address of %T (%s)", fn.Name(), base, x)
				}
				fr.vals[x] = aRef{root: r.root, path: fmt.Sprintf("%s/%d", r.path, x.Field)}
			case *ssa.Field:
				s, ok := in.get(fr, x.X).(aStruct)
				if !ok {
					in.fail("field of %T", in.get(fr, x.X))
				}
				fr.vals[x] = deepCopy(s.f[x.Field])
			case *ssa.IndexAddr:
				base := in.get(fr, x.X)
				idx, ok := in.get(fr, x.Index).(aInt)
				if !ok {
					in.fail("index %T", in.get(fr, x.Index))
				}
				switch r := base.(type) {
				case aRef:
					fr.vals[x] = aRef{root: r.root, path: fmt.Sprintf("%s/%d", r.path, idx)}
				case aSlice:
					if int(idx) < 0 || int(idx) >= r.n {
						panic(absPanic{aAtom{"runtime error: index out of range"}})
					}
					fr.vals[x] = aRef{root: r.arr.root, path: fmt.Sprintf("%s/%d", r.arr.path, r.off+int(idx))}
				default:
					in.fail("index address of %T", base)
				}
			case *ssa.Index:
				idx, _ := in.get(fr, x.Index).(aInt)
				switch a := in.get(fr, x.X).(type) {
				case aArr:
					if int(idx) < 0 || int(idx) >= len(a.e) {
						panic(absPanic{aAtom{"runtime error: index out of range"}})
					}
					fr.vals[x] = deepCopy(a.e[idx])
				case aStr:
					if int(idx) < 0 || int(idx) >= len(a) {
						panic(absPanic{aAtom{"runtime error: index out of range"}})
					}
					fr.vals[x] = aInt(int64(string(a)[idx]))
				default:
					in.fail("index of %T", a)
				}
			case *ssa.Slice:
				bound := func(v ssa.Value, def int) int {
					if v == nil {
						return def
					}
					n, ok := in.get(fr, v).(aInt)
					if !ok {
						in.fail("slice bound %T", in.get(fr, v))
					}
					return int(n)
				}
				switch base := in.get(fr, x.X).(type) {
				case aRef:
					arr, ok := in.load(base).(aArr)
					if !ok {
						in.fail("slice of %T", in.load(base))
					}
					lo, hi := bound(x.Low, 0), bound(x.High, len(arr.e))
					if lo < 0 || hi > len(arr.e) || lo > hi {
						panic(absPanic{aAtom{"runtime error: slice bounds out of range"}})
					}
					fr.vals[x] = aSlice{arr: base, off: lo, n: hi - lo}
				case aSlice:
					lo, hi := bound(x.Low, 0), bound(x.High, base.n)
					if lo < 0 || hi > base.n || lo > hi {
						panic(absPanic{aAtom{"runtime error: slice bounds out of range"}})
					}
					fr.vals[x] = aSlice{arr: base.arr, off: base.off + lo, n: hi - lo}
				case aStr:
					lo, hi := bound(x.Low, 0), bound(x.High, len(base))
					if lo < 0 || hi > len(base) || lo > hi {
						panic(absPanic{aAtom{"runtime error: slice bounds out of range"}})
					}
					fr.vals[x] = aStr(string(base)[lo:hi])
				case aNil:
					lo, hi := bound(x.Low, 0), bound(x.High, 0)
					if lo != 0 || hi != 0 {
						panic(absPanic{aAtom{"runtime error: slice bounds out of range"}})
					}
					fr.vals[x] = aNil{}
				default:
					in.fail("slice expression on %T", base)
				}
			case *ssa.MakeSlice:
				n, ok1 := in.get(fr, x.Len).(aInt)
				cp, ok2 := in.get(fr, x.Cap).(aInt)
				if !ok1 || !ok2 {
					in.fail("make slice with %T, %T", in.get(fr, x.Len), in.get(fr, x.Cap))
				}
				if n < 0 || cp < n {
					panic(absPanic{aAtom{"runtime error: makeslice: len or cap out of range"}})
				}
				arr := aArr{e: make([]aval, int(n))}
				et := x.Type().Underlying().(*types.Slice).Elem()
				for i := range arr.e {
					arr.e[i] = in.zero(et)
				}
				fr.vals[x] = aSlice{arr: aRef{root: &acell{v: arr, name: "make"}}, n: int(n)}
			case *ssa.Store:
				r, ok := in.get(fr, x.Addr).(aRef)
				if !ok {
					in.fail("store to %T", in.get(fr, x.Addr))
				}
				in.store(r, in.get(fr, x.Val))
			case *ssa.MakeInterface:
				fr.vals[x] = aIface{dyn: x.X.Type(), v: deepCopy(in.get(fr, x.X))}
			case *ssa.ChangeInterface:
				fr.vals[x] = in.get(fr, x.X)
			case *ssa.ChangeType:
				v := in.get(fr, x.X)
				if s, ok := v.(aStruct); ok {
					s.t = x.Type()
					v = s
				}
				if a, ok := v.(aArr); ok {
					a.t = x.Type()
					v = a
				}
				fr.vals[x] = v
			case *ssa.Convert:
				fr.vals[x] = in.convert(x, in.get(fr, x.X))
			case *ssa.Range:
				switch m := in.get(fr, x.X).(type) {
				case aStr:
					fr.vals[x] = &absIter{str: string(m)}
				case aMap:
					fr.vals[x] = &absIter{keys: append([]string{}, *m.order...), m: m, isMap: true}
				case aNil:
					fr.vals[x] = &absIter{isMap: true}
				default:
					in.fail("range over %T", m)
				}
			case *ssa.Next:
				it, ok := in.get(fr, x.Iter).(*absIter)
				if !ok {
					in.fail("next of %T", in.get(fr, x.Iter))
				}
				if !it.isMap {
					if it.pos >= len(it.str) {
						fr.vals[x] = aTuple{aBool(false), aInt(0), aInt(0)}
					} else {
						r, size := utf8.DecodeRuneInString(it.str[it.pos:])
						fr.vals[x] = aTuple{aBool(true), aInt(it.pos), aInt(r)}
						it.pos += size
					}
					break
				}
				for it.pos < len(it.keys) {
					if _, still := it.m.m[it.keys[it.pos]]; still {
						break
					}
					it.pos++
				}
				if it.pos >= len(it.keys) {
					mt, _ := x.Iter.(*ssa.Range).X.Type().Underlying().(*types.Map)
					var zk, zv aval = aNil{}, aNil{}
					if mt != nil {
						zk, zv = in.zero(mt.Key()), in.zero(mt.Elem())
					}
					fr.vals[x] = aTuple{aBool(false), zk, zv}
				} else {
					k := it.keys[it.pos]
					it.pos++
					var kv aval = aStr(k)
					if strings.HasPrefix(k, "\x00i") {
						var n int64
						fmt.Sscanf(k[2:], "%d", &n)
						kv = aInt(n)
					}
					fr.vals[x] = aTuple{aBool(true), kv, deepCopy(it.m.m[k])}
				}
			case *ssa.TypeAssert:
				fr.vals[x] = in.typeAssert(x, in.get(fr, x.X))
			case *ssa.Extract:
				t, ok := in.get(fr, x.Tuple).(aTuple)
				if !ok {
					in.fail("extract from %T", in.get(fr, x.Tuple))
				}
				fr.vals[x] = t[x.Index]
			case *ssa.MakeClosure:
				f := aFunc{fn: x.Fn.(*ssa.Function)}
				for _, bv := range x.Bindings {
					f.bind = append(f.bind, in.get(fr, bv))
				}
				fr.vals[x] = f
			case *ssa.Call:
				fr.vals[x] = in.call(fr, &x.Call)
			case *ssa.MakeMap:
				fr.vals[x] = newAMap()
			case *ssa.Lookup:
				if str, isStr := in.get(fr, x.X).(aStr); isStr {
					idx, _ := in.get(fr, x.Index).(aInt)
					if int(idx) < 0 || int(idx) >= len(str) {
						panic(absPanic{aAtom{"runtime error: index out of range"}})
					}
					fr.vals[x] = aInt(int64(string(str)[idx]))
					break
				}
				key, ok := absMapKey(in.get(fr, x.Index))
				if !ok {
					in.fail("map key %T", in.get(fr, x.Index))
				}
				var elem aval
				found := false
				switch m := in.get(fr, x.X).(type) {
				case aMap:
					elem, found = m.m[string(key)]
				case aNil:
				default:
					in.fail("lookup in %T", m)
				}
				if !found {
					elem = in.zero(x.X.Type().Underlying().(*types.Map).Elem())
				}
				if x.CommaOk {
					fr.vals[x] = aTuple{deepCopy(elem), aBool(found)}
				} else {
					fr.vals[x] = deepCopy(elem)
				}
			case *ssa.MapUpdate:
				key, ok := absMapKey(in.get(fr, x.Key))
				if !ok {
					in.fail("map key %T", in.get(fr, x.Key))
				}
				switch m := in.get(fr, x.Map).(type) {
				case aMap:
					if _, had := m.m[string(key)]; !had {
						*m.order = append(*m.order, string(key))
					}
					m.m[string(key)] = deepCopy(in.get(fr, x.Value))
				case aNil:
					panic(absPanic{aAtom{"assignment to entry in nil map"}})
				default:
					in.fail("map update of %T", m)
				}
			case *ssa.Defer, *ssa.RunDefers:
				in.fail("defer in %s", fn.Name())
			case *ssa.If:
				c, ok := in.get(fr, x.Cond).(aBool)
				if !ok {
					in.fail("condition %T", in.get(fr, x.Cond))
				}
				if c {
					next = b.Succs[0]
				} else {
					next = b.Succs[1]
				}
			case *ssa.Jump:
				next = b.Succs[0]
			case *ssa.Return:
				switch len(x.Results) {
				case 0:
					return nil
				case 1:
					return in.get(fr, x.Results[0])
				}
				var t aTuple
				for _, r := range x.Results {
					t = append(t, in.get(fr, r))
				}
				return t
			case *ssa.Panic:
				panic(absPanic{in.get(fr, x.X)})
			default:
				in.fail("%s: unsupported instruction %T (%s)", fn.Name(), ins, ins)
			}
		}
		if next == nil {
			in.fail("%s: block %d falls off", fn.Name(), b.Index)
		}
		prev, b = b, next
	}
}

func (in *absInterp) unop(fr *absFrame, x *ssa.UnOp) aval {
	v := in.get(fr, x.X)
	switch x.Op {
	case token.MUL:
		switch r := v.(type) {
		case aRef:
			return in.load(r)
		case aNil:
			panic(absPanic{aAtom{"runtime error: nil pointer dereference"}})
		}
		in.fail("load through %T (%s in %s)", v, x, fr.fn.Name())
	case token.NOT:
		if b, ok := v.(aBool); ok {
			return !b
		}
	case token.SUB:
		if n, ok := v.(aInt); ok {
			return -n
		}
	case token.XOR:
		if n, ok := v.(aInt); ok {
			return ^n
		}
	}
	in.fail("unary %s on %T", x.Op, v)
	return nil
}

// aNaN: the one floating-point value the evaluator knows besides the integers - it compares unequal to everything,
// itself included, and every ordered comparison with it is false.
type aNaN struct{}

func (in *absInterp) binop(x *ssa.BinOp, a, b aval) aval {
	_, aIsNaN := a.(aNaN)
	_, bIsNaN := b.(aNaN)
	if aIsNaN || bIsNaN {
		switch x.Op {
		case token.EQL, token.LSS, token.LEQ, token.GTR, token.GEQ:
			return aBool(false)
		case token.NEQ:
			return aBool(true)
		}
		in.fail("arithmetic on NaN (%s)", x)
	}
	if as, ok := a.(aStr); ok {
		if bs, ok := b.(aStr); ok {
			switch x.Op {
			case token.LSS:
				return aBool(as < bs)
			case token.LEQ:
				return aBool(as <= bs)
			case token.GTR:
				return aBool(as > bs)
			case token.GEQ:
				return aBool(as >= bs)
			}
		}
	}
	if x.Op == token.EQL || x.Op == token.NEQ {
		eq, ok := avalEqual(a, b)
		if !ok {
			in.fail("comparison of %T and %T (%s)", a, b, x)
		}
		if x.Op == token.NEQ {
			return aBool(!eq)
		}
		return aBool(eq)
	}
	if ai, ok := a.(aInt); ok {
		bi, ok := b.(aInt)
		if !ok {
			in.fail("binary %s on int and %T", x.Op, b)
		}
		switch x.Op {
		case token.ADD:
			return ai + bi
		case token.SUB:
			return ai - bi
		case token.MUL:
			return ai * bi
		case token.QUO:
			if bi == 0 {
				panic(absPanic{aAtom{"runtime error: integer divide by zero"}})
			}
			return ai / bi
		case token.REM:
			if bi == 0 {
				panic(absPanic{aAtom{"runtime error: integer divide by zero"}})
			}
			return ai % bi
		case token.AND:
			return ai & bi
		case token.OR:
			return ai | bi
		case token.XOR:
			return ai ^ bi
		case token.AND_NOT:
			return ai &^ bi
		case token.SHL:
			return ai << uint(bi)
		case token.SHR:
			return ai >> uint(bi)
		case token.LSS:
			return aBool(ai < bi)
		case token.LEQ:
			return aBool(ai <= bi)
		case token.GTR:
			return aBool(ai > bi)
		case token.GEQ:
			return aBool(ai >= bi)
		}
	}
	if as, ok := a.(aStr); ok {
		if bs, ok := b.(aStr); ok && x.Op == token.ADD {
			return as + bs
		}
	}
	if ab, ok := a.(aBool); ok {
		if bb, ok := b.(aBool); ok {
			switch x.Op {
			case token.AND:
				return ab && bb
			case token.OR:
				return ab || bb
			}
		}
	}
	in.fail("binary %s on %T, %T", x.Op, a, b)
	return nil
}

func (in *absInterp) typeAssert(x *ssa.TypeAssert, v aval) aval {
	i, ok := v.(aIface)
	if !ok {
		in.fail("type assertion on %T", v)
	}
	match := false
	if i.dyn != nil {
		if _, isIface := x.AssertedType.Underlying().(*types.Interface); isIface {
			match = types.Implements(i.dyn, x.AssertedType.Underlying().(*types.Interface))
		} else {
			match = types.Identical(i.dyn, x.AssertedType)
		}
	}
	var res aval
	if match {
		res = i.v
		if _, isIface := x.AssertedType.Underlying().(*types.Interface); isIface {
			res = i
		}
	} else {
		res = in.zero(x.AssertedType)
	}
	if x.CommaOk {
		return aTuple{res, aBool(match)}
	}
	if !match {
		panic(absPanic{aAtom{"runtime error: interface conversion"}})
	}
	return res
}

func (in *absInterp) call(fr *absFrame, c *ssa.CallCommon) aval {
	var args []aval
	for _, a := range c.Args {
		args = append(args, in.get(fr, a))
	}
	if c.IsInvoke() {
		if h, ok := in.hooks["invoke:"+c.Method.Name()]; ok {
			recv := in.get(fr, c.Value)
			if v, handled := h(in, c, append([]aval{recv}, args...)); handled {
				return v
			}
		}
		in.fail("%s: interface method call %s", fr.fn.Name(), c.Method.Name())
	}
	if bi, ok := c.Value.(*ssa.Builtin); ok {
		switch bi.Name() {
		case "len":
			switch a := args[0].(type) {
			case aArr:
				return aInt(len(a.e))
			case aStr:
				return aInt(len(a))
			case aSlice:
				return aInt(a.n)
			case aNil:
				return aInt(0)
			}
		}
		if bi.Name() == "delete" {
			key, ok := args[1].(aStr)
			if !ok {
				in.fail("delete key %T", args[1])
			}
			if m, ok := args[0].(aMap); ok {
				delete(m.m, string(key))
			}
			return nil
		}
		if bi.Name() == "append" {
			var elems []aval
			for _, a := range args {
				switch sl := a.(type) {
				case aNil:
				case aSlice:
					arr, _ := in.load(sl.arr).(aArr)
					elems = append(elems, arr.e[sl.off:sl.off+sl.n]...)
				default:
					in.fail("append of %T", a)
				}
			}
			cell := &acell{v: aArr{e: elems}, name: "append"}
			return aSlice{arr: aRef{root: cell}, n: len(elems)}
		}
		if bi.Name() == "cap" {
			switch a := args[0].(type) {
			case aSlice:
				arr, _ := in.load(a.arr).(aArr)
				return aInt(len(arr.e) - a.off)
			case aNil:
				return aInt(0)
			}
		}
		if bi.Name() == "copy" {
			dst, ok := args[0].(aSlice)
			if !ok {
				if _, isNil := args[0].(aNil); isNil {
					return aInt(0)
				}
				in.fail("copy into %T", args[0])
			}
			var src []aval
			switch a := args[1].(type) {
			case aSlice:
				arr, _ := in.load(a.arr).(aArr)
				src = arr.e[a.off : a.off+a.n]
			case aStr:
				for i := 0; i < len(a); i++ {
					src = append(src, aInt(a[i]))
				}
			case aNil:
			default:
				in.fail("copy from %T", args[1])
			}
			n := dst.n
			if len(src) < n {
				n = len(src)
			}
			for i := 0; i < n; i++ {
				in.store(aRef{root: dst.arr.root, path: fmt.Sprintf("%s/%d", dst.arr.path, dst.off+i)}, src[i])
			}
			return aInt(n)
		}
		if bi.Name() == "min" || bi.Name() == "max" {
			best, ok := args[0].(aInt)
			if ok {
				for _, a := range args[1:] {
					n, isInt := a.(aInt)
					if !isInt {
						ok = false
						break
					}
					if (bi.Name() == "min" && n < best) || (bi.Name() == "max" && n > best) {
						best = n
					}
				}
				if ok {
					return best
				}
			}
		}
		in.fail("builtin %s", bi.Name())
	}
	if callee := c.StaticCallee(); callee != nil {
		if h, ok := in.hooks[ssaFuncName(callee)]; ok {
			if v, handled := h(in, c, args); handled {
				return v
			}
		}
		if v, ok := stdPure(callee, args); ok {
			return v
		}
		if callee.Blocks == nil {
			in.fail("%s: call of %s (no body, no hook)", fr.fn.Name(), ssaFuncName(callee))
		}
		var bind []aval
		if mc, ok := c.Value.(*ssa.MakeClosure); ok {
			for _, bv := range mc.Bindings {
				bind = append(bind, in.get(fr, bv))
			}
		}
		return in.Call(callee, args, bind)
	}
	if f, ok := in.get(fr, c.Value).(aFunc); ok {
		if h, ok := in.hooks[ssaFuncName(f.fn)]; ok {
			if v, handled := h(in, c, args); handled {
				return v
			}
		}
		return in.Call(f.fn, args, f.bind)
	}
	in.fail("%s: dynamic call through %T", fr.fn.Name(), in.get(fr, c.Value))
	return nil
}

// absRun evaluates fn and classifies the outcome.
func absRun(in *absInterp, fn *ssa.Function, args []aval) (ret aval, panicked aval, failure string) {
	defer func() {
		if r := recover(); r != nil {
			switch x := r.(type) {
			case absPanic:
				panicked = x.v
				if panicked == nil {
					panicked = aAtom{"panic(nil)"}
				}
			case absFail:
				failure = x.msg
			default:
				panic(r)
			}
		}
	}()
	in.steps, in.depth = 0, 0
	ret = in.Call(fn, args, nil)
	return
}

// stdPure evaluates a few pure functions of the standard library on concrete strings and integers, so that a rewrite of
// an evaluated helper in terms of them (strings.HasPrefix for two index tests) stays decidable.
func stdPure(callee *ssa.Function, args []aval) (aval, bool) {
	if callee.Pkg == nil || callee.Signature.Recv() != nil {
		return nil, false
	}
	str := func(i int) (string, bool) {
		if i >= len(args) {
			return "", false
		}
		s, ok := args[i].(aStr)
		return string(s), ok
	}
	num := func(i int) (int64, bool) {
		if i >= len(args) {
			return 0, false
		}
		n, ok := args[i].(aInt)
		return int64(n), ok
	}
	switch callee.Pkg.Pkg.Path() + "." + callee.Name() {
	case "strings.HasPrefix":
		if a, ok := str(0); ok {
			if b, ok := str(1); ok {
				return aBool(strings.HasPrefix(a, b)), true
			}
		}
	case "strings.HasSuffix":
		if a, ok := str(0); ok {
			if b, ok := str(1); ok {
				return aBool(strings.HasSuffix(a, b)), true
			}
		}
	case "strings.EqualFold":
		if a, ok := str(0); ok {
			if b, ok := str(1); ok {
				return aBool(strings.EqualFold(a, b)), true
			}
		}
	case "strings.ContainsRune", "strings.IndexRune", "strings.IndexByte":
		if a, ok := str(0); ok {
			if b, ok := num(1); ok {
				switch callee.Name() {
				case "ContainsRune":
					return aBool(strings.ContainsRune(a, rune(b))), true
				case "IndexRune":
					return aInt(strings.IndexRune(a, rune(b))), true
				case "IndexByte":
					return aInt(strings.IndexByte(a, byte(b))), true
				}
			}
		}
	case "strings.ContainsAny", "strings.IndexAny", "strings.Count", "strings.LastIndex":
		if a, ok := str(0); ok {
			if b, ok := str(1); ok {
				switch callee.Name() {
				case "ContainsAny":
					return aBool(strings.ContainsAny(a, b)), true
				case "IndexAny":
					return aInt(strings.IndexAny(a, b)), true
				case "Count":
					return aInt(strings.Count(a, b)), true
				case "LastIndex":
					return aInt(strings.LastIndex(a, b)), true
				}
			}
		}
	case "strconv.Quote":
		if a, ok := str(0); ok {
			return aStr(strconv.Quote(a)), true
		}
	case "strconv.ParseInt", "strconv.ParseUint":
		if a, ok := str(0); ok {
			if base, ok := num(1); ok {
				if bits, ok := num(2); ok {
					var n int64
					var err error
					if callee.Name() == "ParseInt" {
						n, err = strconv.ParseInt(a, int(base), int(bits))
					} else {
						var u uint64
						u, err = strconv.ParseUint(a, int(base), int(bits))
						n = int64(u)
					}
					var ev aval = aNil{}
					if err != nil {
						ev = aIface{dyn: callee.Signature.Results().At(1).Type(), v: aAtom{"strconv error"}}
					}
					return aTuple{aInt(n), ev}, true
				}
			}
		}
	case "strings.Contains":
		if a, ok := str(0); ok {
			if b, ok := str(1); ok {
				return aBool(strings.Contains(a, b)), true
			}
		}
	case "strings.Index":
		if a, ok := str(0); ok {
			if b, ok := str(1); ok {
				return aInt(strings.Index(a, b)), true
			}
		}
	case "strings.ToLower":
		if a, ok := str(0); ok {
			return aStr(strings.ToLower(a)), true
		}
	case "strings.ToUpper":
		if a, ok := str(0); ok {
			return aStr(strings.ToUpper(a)), true
		}
	case "strings.TrimSpace":
		if a, ok := str(0); ok {
			return aStr(strings.TrimSpace(a)), true
		}
	case "strings.Trim", "strings.TrimLeft", "strings.TrimRight", "strings.TrimPrefix", "strings.TrimSuffix":
		if a, ok := str(0); ok {
			if b, ok := str(1); ok {
				switch callee.Name() {
				case "Trim":
					return aStr(strings.Trim(a, b)), true
				case "TrimLeft":
					return aStr(strings.TrimLeft(a, b)), true
				case "TrimRight":
					return aStr(strings.TrimRight(a, b)), true
				case "TrimPrefix":
					return aStr(strings.TrimPrefix(a, b)), true
				case "TrimSuffix":
					return aStr(strings.TrimSuffix(a, b)), true
				}
			}
		}
	case "strings.Repeat":
		if a, ok := str(0); ok {
			if n, ok := num(1); ok && n >= 0 && n < 64 {
				return aStr(strings.Repeat(a, int(n))), true
			}
		}
	case "strconv.Itoa":
		if n, ok := num(0); ok {
			return aStr(strconv.Itoa(int(n))), true
		}
	case "strconv.FormatInt":
		if n, ok := num(0); ok {
			if b, ok := num(1); ok && b >= 2 && b <= 36 {
				return aStr(strconv.FormatInt(n, int(b))), true
			}
		}
	}
	return nil, false
}

// absMapKey: string keys are themselves; integer keys are encoded (a map has one key type, so they cannot collide).
func absMapKey(v aval) (aStr, bool) {
	switch k := v.(type) {
	case aStr:
		return k, true
	case aInt:
		return aStr(fmt.Sprintf("\x00i%d", int64(k))), true
	}
	return "", false
}

// constTableOf: g is a package-level map whose initialiser is a literal with constant keys and constant or function
// values, and which is written nowhere else: its contents, as the package initialiser builds them.
func constTableOf(g *ssa.Global) (aval, bool) {
	if g.Pkg == nil {
		return nil, false
	}
	pt, ok := g.Type().Underlying().(*types.Pointer)
	if !ok {
		return nil, false
	}
	if _, isMap := pt.Elem().Underlying().(*types.Map); !isMap {
		return nil, false
	}
	// written only by the package initialiser
	for _, mem := range g.Pkg.Members {
		fn, ok := mem.(*ssa.Function)
		if !ok {
			continue
		}
		fns := append([]*ssa.Function{fn}, fn.AnonFuncs...)
		for _, f := range fns {
			if f.Name() == "init" && f.Synthetic != "" {
				continue
			}
			for _, b := range f.Blocks {
				for _, ins := range b.Instrs {
					if st, ok := ins.(*ssa.Store); ok && st.Addr == ssa.Value(g) {
						return nil, false
					}
					if mu, ok := ins.(*ssa.MapUpdate); ok {
						if ld, ok := mu.Map.(*ssa.UnOp); ok && ld.X == ssa.Value(g) {
							return nil, false
						}
					}
				}
			}
		}
	}
	init := g.Pkg.Func("init")
	if init == nil {
		return nil, false
	}
	var mk *ssa.MakeMap
	for _, b := range init.Blocks {
		for _, ins := range b.Instrs {
			if st, ok := ins.(*ssa.Store); ok && st.Addr == ssa.Value(g) {
				m, isMk := st.Val.(*ssa.MakeMap)
				if !isMk || mk != nil {
					return nil, false
				}
				mk = m
			}
		}
	}
	if mk == nil {
		return nil, false
	}
	out := newAMap()
	for _, ref := range *mk.Referrers() {
		mu, ok := ref.(*ssa.MapUpdate)
		if !ok {
			continue
		}
		kc, ok := mu.Key.(*ssa.Const)
		if !ok || kc.Value == nil {
			return nil, false
		}
		var key aStr
		switch kc.Value.Kind() {
		case constant.String:
			key = aStr(constant.StringVal(kc.Value))
		case constant.Int:
			n, _ := constant.Int64Val(kc.Value)
			key, _ = absMapKey(aInt(n))
		default:
			return nil, false
		}
		var val aval
		switch v := mu.Value.(type) {
		case *ssa.Function:
			val = aFunc{fn: v}
		case *ssa.Const:
			if v.Value == nil {
				return nil, false
			}
			switch v.Value.Kind() {
			case constant.String:
				val = aStr(constant.StringVal(v.Value))
			case constant.Int:
				n, _ := constant.Int64Val(v.Value)
				val = aInt(n)
			case constant.Bool:
				val = aBool(constant.BoolVal(v.Value))
			default:
				return nil, false
			}
		default:
			return nil, false
		}
		if _, had := out.m[string(key)]; !had {
			*out.order = append(*out.order, string(key))
		}
		out.m[string(key)] = val
	}
	return out, true
}

// convert models a Go conversion on the abstract values the evaluator knows: integers (with the wrap-around of the sized
// types), integer to string (a code point), and strings to and from byte / rune slices.
func (in *absInterp) convert(x *ssa.Convert, v aval) aval {
	to := x.Type().Underlying()
	switch src := v.(type) {
	case aInt:
		if bt, ok := to.(*types.Basic); ok {
			switch {
			case bt.Info()&types.IsString != 0:
				return aStr(string(rune(src)))
			case bt.Info()&types.IsInteger != 0:
				n := int64(src)
				switch bt.Kind() {
				case types.Int8:
					n = int64(int8(n))
				case types.Int16:
					n = int64(int16(n))
				case types.Int32:
					n = int64(int32(n))
				case types.Uint8:
					n = int64(uint8(n))
				case types.Uint16:
					n = int64(uint16(n))
				case types.Uint32:
					n = int64(uint32(n))
				}
				return aInt(n)
			case bt.Info()&types.IsFloat != 0 && in.intFloats:
				return src // an integer carried in a float64 (see intFloats)
			}
		}
	case aStr:
		if sl, ok := to.(*types.Slice); ok {
			if bt, ok := sl.Elem().Underlying().(*types.Basic); ok {
				var elems []aval
				switch bt.Kind() {
				case types.Uint8:
					for i := 0; i < len(src); i++ {
						elems = append(elems, aInt(src[i]))
					}
				case types.Int32:
					for _, r := range string(src) {
						elems = append(elems, aInt(r))
					}
				default:
					in.fail("conversion of a string to %s", x.Type())
				}
				return aSlice{arr: aRef{root: &acell{v: aArr{e: elems}, name: "conv"}}, n: len(elems)}
			}
		}
		if bt, ok := to.(*types.Basic); ok && bt.Info()&types.IsString != 0 {
			return src
		}
	case aSlice:
		if bt, ok := to.(*types.Basic); ok && bt.Info()&types.IsString != 0 {
			arr, _ := in.load(src.arr).(aArr)
			et, _ := x.X.Type().Underlying().(*types.Slice)
			isBytes := false
			if et != nil {
				if eb, ok := et.Elem().Underlying().(*types.Basic); ok && eb.Kind() == types.Uint8 {
					isBytes = true
				}
			}
			var bs []byte
			var rs []rune
			for i := 0; i < src.n; i++ {
				n, ok := arr.e[src.off+i].(aInt)
				if !ok {
					in.fail("conversion of a slice of %T to string", arr.e[src.off+i])
				}
				if isBytes {
					bs = append(bs, byte(n))
				} else {
					rs = append(rs, rune(n))
				}
			}
			if isBytes {
				return aStr(string(bs))
			}
			return aStr(string(rs))
		}
	case aNil:
		if bt, ok := to.(*types.Basic); ok && bt.Info()&types.IsString != 0 {
			return aStr("")
		}
	}
	in.fail("conversion of %T to %s", v, x.Type())
	return nil
}

// constGlobalOf: g is a package-level array, slice or struct of constants (strings, integers, booleans, functions, nested
// arrays of those) that the package initialiser fills with constant stores and nothing else writes: its contents.
func (in *absInterp) constGlobalOf(g *ssa.Global) (aval, bool) {
	if g.Pkg == nil {
		return nil, false
	}
	pt, ok := g.Type().Underlying().(*types.Pointer)
	if !ok {
		return nil, false
	}
	rooted := func(a ssa.Value) ([]int, bool) { // path of constant indices from g
		var path []int
		for {
			switch x := a.(type) {
			case *ssa.Global:
				if x != g {
					return nil, false
				}
				for i, j := 0, len(path)-1; i < j; i, j = i+1, j-1 {
					path[i], path[j] = path[j], path[i]
				}
				return path, true
			case *ssa.IndexAddr:
				k, ok := constInt(x.Index)
				if !ok {
					return nil, false
				}
				path = append(path, int(k))
				a = x.X
			case *ssa.FieldAddr:
				path = append(path, x.Field)
				a = x.X
			default:
				return nil, false
			}
		}
	}
	// nothing outside the initialiser writes through g
	for _, mem := range g.Pkg.Members {
		fn, ok := mem.(*ssa.Function)
		if !ok {
			continue
		}
		for _, f := range append([]*ssa.Function{fn}, fn.AnonFuncs...) {
			if f.Name() == "init" && f.Synthetic != "" {
				continue
			}
			for _, b := range f.Blocks {
				for _, ins := range b.Instrs {
					if st, ok := ins.(*ssa.Store); ok {
						if _, r := rooted(st.Addr); r {
							return nil, false
						}
					}
				}
			}
		}
	}
	init := g.Pkg.Func("init")
	if init == nil {
		return nil, false
	}
	var constOf func(v ssa.Value, d int) (aval, bool)
	constOf = func(v ssa.Value, d int) (aval, bool) {
		if d > 4 {
			return nil, false
		}
		switch x := v.(type) {
		case *ssa.Const:
			return in.constVal(x), true
		case *ssa.Function:
			return aFunc{fn: x}, true
		case *ssa.UnOp:
			// a struct (or array) literal: a local filled field by field with constants, then loaded
			al, ok := x.X.(*ssa.Alloc)
			if !ok || x.Op != token.MUL {
				return nil, false
			}
			cell := &acell{v: in.zero(al.Type().Underlying().(*types.Pointer).Elem()), name: "lit"}
			for _, ref := range *al.Referrers() {
				var path string
				var addr ssa.Value
				switch a := ref.(type) {
				case *ssa.FieldAddr:
					path, addr = fmt.Sprintf("/%d", a.Field), a
				case *ssa.IndexAddr:
					k, isK := constInt(a.Index)
					if !isK {
						return nil, false
					}
					path, addr = fmt.Sprintf("/%d", k), a
				case *ssa.Store:
					if a.Addr == ssa.Value(al) {
						v, ok := constOf(a.Val, d+1)
						if !ok {
							return nil, false
						}
						cell.v = v
					}
					continue
				default:
					continue
				}
				for _, r2 := range *addr.Referrers() {
					if st, ok := r2.(*ssa.Store); ok && st.Addr == addr {
						v, ok := constOf(st.Val, d+1)
						if !ok {
							return nil, false
						}
						in.store(aRef{root: cell, path: path}, v)
					}
				}
			}
			return cell.v, true
		case *ssa.MakeMap:
			out := newAMap()
			for _, ref := range *x.Referrers() {
				mu, ok := ref.(*ssa.MapUpdate)
				if !ok {
					continue
				}
				kc, ok := mu.Key.(*ssa.Const)
				if !ok || kc.Value == nil {
					return nil, false
				}
				key, ok := absMapKey(in.constVal(kc))
				if !ok {
					return nil, false
				}
				val, ok := constOf(mu.Value, d+1)
				if !ok {
					return nil, false
				}
				if _, had := out.m[string(key)]; !had {
					*out.order = append(*out.order, string(key))
				}
				out.m[string(key)] = val
			}
			return out, true
		case *ssa.Slice:
			al, ok := x.X.(*ssa.Alloc)
			if !ok || x.Low != nil || x.High != nil {
				return nil, false
			}
			at, ok := al.Type().Underlying().(*types.Pointer).Elem().Underlying().(*types.Array)
			if !ok {
				return nil, false
			}
			arr := in.zero(at).(aArr)
			for _, ref := range *al.Referrers() {
				ia, ok := ref.(*ssa.IndexAddr)
				if !ok {
					continue
				}
				k, isK := constInt(ia.Index)
				if !isK {
					return nil, false
				}
				for _, r2 := range *ia.Referrers() {
					if st, ok := r2.(*ssa.Store); ok && st.Addr == ssa.Value(ia) {
						ev, ok := constOf(st.Val, d+1)
						if !ok {
							return nil, false
						}
						arr.e[k] = ev
					}
				}
			}
			return aSlice{arr: aRef{root: &acell{v: arr, name: g.Name()}}, n: len(arr.e)}, true
		}
		return nil, false
	}
	cell := &acell{v: in.zero(pt.Elem()), name: g.Name()}
	wrote := false
	for _, b := range init.Blocks {
		for _, ins := range b.Instrs {
			st, ok := ins.(*ssa.Store)
			if !ok {
				continue
			}
			path, r := rooted(st.Addr)
			if !r {
				continue
			}
			val, ok := constOf(st.Val, 0)
			if !ok {
				return nil, false
			}
			ps := ""
			for _, k := range path {
				ps += fmt.Sprintf("/%d", k)
			}
			in.store(aRef{root: cell, path: ps}, val)
			wrote = true
		}
	}
	if !wrote {
		return nil, false
	}
	return cell.v, true
}
