package main

import (
	"fmt"
	"go/constant"
	"go/token"
	"go/types"
	"sort"
	"strings"

	"golang.org/x/tools/go/ssa"
)

func init() {
	register(&Rule{ID: "CONV-once", Props: []string{"C05", "C09", "C01"}, Min: 40,
		Doc: "G (census, path-based): a conversion of a Value that may be an object (ToString, ToNumber, ToPrimitive, ToInteger ...: any function that can end in [[DefaultValue]]) calls the script's valueOf / toString, so ES5 converts each operand and each argument exactly once per step. For every value that comes from the script - an argument of a built-in (call.Argument(k), ArgumentList[k]), its this value, a Value parameter of a helper, the result of an operand evaluation - no path applies two such conversions to it, unless the second one is made where the value is known to be a primitive (it is the result of ToPrimitive, or a kind test dominates). `o++` that converts o again to produce its result, or `''.concat(o)` that measures o.toString() first and appends a second one, runs the user's function twice and returns the second answer",
		Run: ruleConvOnce})
}

// convertingFuncs: functions whose i-th Value parameter (0 = receiver for methods) can reach [[DefaultValue]].
func convertingFuncs(c *Ctx) map[*ssa.Function]map[int]bool {
	out := map[*ssa.Function]map[int]bool{}
	funcs := c.AllSrcFuncs("")
	mark := func(fn *ssa.Function, i int) bool {
		if out[fn] == nil {
			out[fn] = map[int]bool{}
		}
		if out[fn][i] {
			return false
		}
		out[fn][i] = true
		return true
	}
	isValue := func(t types.Type) bool { return typeIs(t, ottoPath, "Value") }
	// derived: v is p itself, or an object taken out of p (p.object(), p.value.(*object))
	var derives func(v ssa.Value, p *ssa.Parameter, d int) bool
	derives = func(v ssa.Value, p *ssa.Parameter, d int) bool {
		if v == ssa.Value(p) {
			return true
		}
		if d > 4 {
			return false
		}
		switch x := v.(type) {
		case *ssa.Call:
			if cl := x.Call.StaticCallee(); cl != nil && (cl.Name() == "object" || cl.Name() == "resolve") && len(x.Call.Args) == 1 {
				return derives(x.Call.Args[0], p, d+1)
			}
		case *ssa.TypeAssert:
			return derives(x.X, p, d+1)
		case *ssa.Extract:
			return derives(x.Tuple, p, d+1)
		case *ssa.Field:
			return derives(x.X, p, d+1)
		case *ssa.UnOp:
			if x.Op == token.MUL {
				if fa, ok := x.X.(*ssa.FieldAddr); ok {
					return derives(fa.X, p, d+1)
				}
				if al, ok := x.X.(*ssa.Alloc); ok {
					for _, ref := range *al.Referrers() {
						if st, ok := ref.(*ssa.Store); ok && st.Addr == ssa.Value(al) && derives(st.Val, p, d+1) {
							return true
						}
					}
				}
			}
		case *ssa.Alloc:
			for _, ref := range *x.Referrers() {
				if st, ok := ref.(*ssa.Store); ok && st.Addr == ssa.Value(x) && derives(st.Val, p, d+1) {
					return true
				}
			}
		case *ssa.FieldAddr:
			return derives(x.X, p, d+1)
		}
		return false
	}
	for changed := true; changed; {
		changed = false
		for _, fn := range funcs {
			if fn.Parent() != nil {
				continue
			}
			for i, p := range fn.Params {
				if !isValue(p.Type()) || (out[fn] != nil && out[fn][i]) {
					continue
				}
				for _, b := range fn.Blocks {
					for _, ins := range b.Instrs {
						ci, ok := ins.(ssa.CallInstruction)
						if !ok {
							continue
						}
						cc := ci.Common()
						callee := cc.StaticCallee()
						if callee == nil {
							continue
						}
						if callee.Name() == "DefaultValue" && len(cc.Args) >= 1 && derives(cc.Args[0], p, 0) {
							if mark(fn, i) {
								changed = true
							}
							continue
						}
						for j, a := range cc.Args {
							if out[callee] != nil && out[callee][j] && derives(a, p, 0) && isValue(a.Type()) {
								if mark(fn, i) {
									changed = true
								}
							}
						}
					}
				}
			}
		}
	}
	return out
}

func ruleConvOnce(c *Ctx, r *R) {
	conv := convertingFuncs(c)
	if len(conv) < 5 {
		r.undecided("anchors", "-", fmt.Sprintf("UNRESOLVED: only %d converting functions found", len(conv)))
		return
	}
	isValue := func(t types.Type) bool { return typeIs(t, ottoPath, "Value") }
	nIds := 0
	for _, fn := range c.AllSrcFuncs("") {
		// identity of a script-provided Value
		rangeOf := map[ssa.Value]*ssa.BasicBlock{} // the loop header when the value is the element of a range loop
		var ident func(v ssa.Value, d int) string
		ident = func(v ssa.Value, d int) string {
			if d > 5 || v == nil {
				return ""
			}
			switch x := v.(type) {
			case *ssa.Parameter:
				if isValue(x.Type()) {
					return "parameter " + x.Name()
				}
			case *ssa.Call:
				cl := x.Call.StaticCallee()
				if cl == nil {
					return ""
				}
				switch {
				case (cl.Name() == "Argument" || cl.Name() == "getArgument") && len(x.Call.Args) == 2:
					if k, ok := constInt(x.Call.Args[1]); ok {
						return fmt.Sprintf("argument %d", k)
					}
				case (cl.Name() == "valueOfArrayIndex" || cl.Name() == "getValueOfArrayIndex") && len(x.Call.Args) == 2:
					if k, ok := constInt(x.Call.Args[1]); ok {
						if _, isParam := x.Call.Args[0].(*ssa.Parameter); isParam {
							return fmt.Sprintf("argument %d", k)
						}
						if base := ident2list(x.Call.Args[0]); base != "" {
							return fmt.Sprintf("argument %d", k)
						}
					}
				case cl.Name() == "resolve" && len(x.Call.Args) == 1:
					if id := ident(x.Call.Args[0], d+1); id != "" {
						return id
					}
					return "operand " + callOrdinal(x) // GetValue of an evaluated operand
				}
				// any other Value a call hands back (a property read, an evaluated expression), unless the callee
				// can only return primitives
				if isValue(x.Type()) && cl.Pkg != nil && cl.Pkg.Pkg.Path() == ottoPath && !returnsPrimitiveValue(cl, conv, 0) {
					return "result of " + callOrdinal(x)
				}
			case *ssa.Extract:
				if nx, ok := x.Tuple.(*ssa.Next); ok && x.Index == 2 {
					if rg, ok := nx.Iter.(*ssa.Range); ok && ident2list(rg.X) != "" {
						rangeOf[v] = nx.Block()
						return "each argument"
					}
				}
				if x.Index == 0 {
					return ident(x.Tuple, d+1)
				}
			case *ssa.UnOp:
				if x.Op != token.MUL {
					return ""
				}
				switch a := x.X.(type) {
				case *ssa.IndexAddr:
					if k, ok := constInt(a.Index); ok && ident2list(a.X) != "" {
						return fmt.Sprintf("argument %d", k)
					}
					if ident2list(a.X) != "" {
						// the element of a loop over the list (go/ssa lowers `range list` to an index loop)
						var hdr *ssa.BasicBlock
						switch ix := a.Index.(type) {
						case *ssa.Phi:
							hdr = ix.Block()
						case *ssa.BinOp:
							for _, op := range []ssa.Value{ix.X, ix.Y} {
								if ph, ok := op.(*ssa.Phi); ok {
									hdr = ph.Block()
								}
							}
						}
						if hdr != nil {
							rangeOf[v] = hdr
							return "each argument"
						}
					}
				case *ssa.FieldAddr:
					if isFieldAddr(a, "FunctionCall", "This") {
						return "this"
					}
				case *ssa.Alloc:
					// a local assigned once
					var only ssa.Value
					n := 0
					for _, ref := range *a.Referrers() {
						if st, ok := ref.(*ssa.Store); ok && st.Addr == ssa.Value(a) {
							only = st.Val
							n++
						}
					}
					if n == 1 {
						return ident(only, d+1)
					}
				}
			case *ssa.Field:
				if st, ok := x.X.Type().Underlying().(*types.Struct); ok && st.Field(x.Field).Name() == "This" && typeIs(x.X.Type(), ottoPath, "FunctionCall") {
					return "this"
				}
			}
			return ""
		}
		type use struct {
			ins  ssa.Instruction
			what string
			val  ssa.Value
		}
		byID := map[string][]use{}
		for _, b := range fn.Blocks {
			for _, ins := range b.Instrs {
				ci, ok := ins.(ssa.CallInstruction)
				if !ok {
					continue
				}
				cc := ci.Common()
				callee := cc.StaticCallee()
				if callee == nil || conv[callee] == nil {
					continue
				}
				for j, a := range cc.Args {
					if !conv[callee][j] || !isValue(a.Type()) {
						continue
					}
					// a helper of the module with other parameters may convert on some of its paths only (it returns early
					// for the names it does not handle): counted when it converts on every path to a return
					if recv := callee.Signature.Recv(); len(callee.Params) > 1 && (recv == nil || !typeIs(recv.Type(), ottoPath, "Value")) && !mustConvert(callee, j, conv) {
						continue
					}
					if id := ident(a, 0); id != "" {
						byID[id] = append(byID[id], use{ins, callee.Name(), a})
					}
				}
			}
		}
		ids := make([]string, 0, len(byID))
		for id := range byID {
			ids = append(ids, id)
		}
		sort.Strings(ids)
		for _, id := range ids {
			uses := byID[id]
			nIds++
			key := ssaFuncName(fn) + ":" + id
			site := c.Pos(instrPos(uses[0].ins))
			if len(uses) == 1 {
				r.ok(key, site, "converted once ("+uses[0].what+")")
				continue
			}
			bad := ""
			for i, u1 := range uses {
				for j, u2 := range uses {
					if i == j || bad != "" {
						continue
					}
					var avoid *ssa.BasicBlock
					if n1, n2 := rangeOf[u1.val], rangeOf[u2.val]; n1 != nil && n1 == n2 {
						avoid = n1 // the same loop: two conversions in one iteration only
					}
					if !pathBetween(u1.ins, u2.ins, avoid) {
						continue
					}
					if knownPrimitiveAt(fn, u2.val, u2.ins) {
						continue
					}
					if onlyMessageOperand(u2.ins) {
						continue // the text of an error raised in a failure branch: no result is computed from it
					}
					bad = fmt.Sprintf("%s at %s and then %s at %s", u1.what, c.Pos(instrPos(u1.ins)), u2.what, c.Pos(instrPos(u2.ins)))
				}
			}
			if bad == "" {
				r.ok(key, site, fmt.Sprintf("%d conversions, no two on one path (or the later one is made on a known primitive)", len(uses)))
				continue
			}
			if why, ok := convOnceReviewed[key]; ok {
				r.ok("reviewed:"+key, site, why)
				continue
			}
			r.bad(key, site, fmt.Sprintf("%s converts %s twice on one path (%s): when the value is an object its valueOf / toString runs twice, and the result is built from the second answer (`var n = 0, o = {valueOf: function(){ return n++ }}` makes the difference visible); ES5 converts each operand once per step", ssaFuncName(fn), id, bad))
		}
	}
	r.note("converted_values", nIds)
}

// onlyMessageOperand: the result of the conversion is used for nothing but an operand of a formatted message (it is
// boxed and stored into the variadic list of a call).
func onlyMessageOperand(ins ssa.Instruction) bool {
	v, ok := ins.(ssa.Value)
	if !ok || v.Referrers() == nil || len(*v.Referrers()) == 0 {
		return false
	}
	for _, ref := range *v.Referrers() {
		mi, ok := ref.(*ssa.MakeInterface)
		if !ok || mi.Referrers() == nil || len(*mi.Referrers()) == 0 {
			return false
		}
		for _, r2 := range *mi.Referrers() {
			st, ok := r2.(*ssa.Store)
			if !ok || st.Val != ssa.Value(mi) {
				return false
			}
			ia, ok := st.Addr.(*ssa.IndexAddr)
			if !ok {
				return false
			}
			al, ok := ia.X.(*ssa.Alloc)
			if !ok || al.Comment != "varargs" {
				return false
			}
		}
	}
	return true
}

// convOnceReviewed: double conversions that are what the specification says, one reason each.
var convOnceReviewed = map[string]string{
	"(*runtime).toValue$1:each argument": "Go bridge, not an ES5 step: the last argument of a variadic Go function is first tried as the whole slice and converted as one element only when that attempt returned an error; the first attempt fails on the shape of the value (not an array-like / wrong element kind) before any element is converted",
}

// ident2list: v is the argument list of the call (call.ArgumentList or a []Value parameter).
func ident2list(v ssa.Value) string {
	switch x := v.(type) {
	case *ssa.Parameter:
		if sl, ok := x.Type().Underlying().(*types.Slice); ok && typeIs(sl.Elem(), ottoPath, "Value") {
			return "list"
		}
	case *ssa.Field:
		if st, ok := x.X.Type().Underlying().(*types.Struct); ok && st.Field(x.Field).Name() == "ArgumentList" {
			return "list"
		}
	case *ssa.UnOp:
		if fa, ok := x.X.(*ssa.FieldAddr); ok && isFieldAddr(fa, "FunctionCall", "ArgumentList") {
			return "list"
		}
	}
	return ""
}

// pathBetween: some feasible path executes a and later b (b after a in one block, or b's block reachable from a's; a
// loop that brings a back to itself does not count as two conversions of one value - each iteration has its own). The
// search knows the value a boolean phi takes along the edge it came by, so a flag set to false in one arm of a switch does
// not lead into the `if flag` region further down.
func pathBetween(a, b ssa.Instruction, avoid *ssa.BasicBlock) bool {
	if a.Block() == b.Block() {
		for _, ins := range a.Block().Instrs {
			if ins == a {
				return true
			}
			if ins == b {
				return false
			}
		}
	}
	type state struct {
		blk  *ssa.BasicBlock
		know string
	}
	seen := map[state]bool{}
	render := func(k map[*ssa.Phi]bool) string {
		var parts []string
		for p, v := range k {
			parts = append(parts, fmt.Sprintf("%s=%v", p.Name(), v))
		}
		sort.Strings(parts)
		return strings.Join(parts, ",")
	}
	var walk func(x *ssa.BasicBlock, know map[*ssa.Phi]bool) bool
	walk = func(x *ssa.BasicBlock, know map[*ssa.Phi]bool) bool {
		succs := x.Succs
		if iff, ok := x.Instrs[len(x.Instrs)-1].(*ssa.If); ok {
			cond, neg := normBool(iff.Cond)
			if phi, ok := cond.(*ssa.Phi); ok {
				if v, known := know[phi]; known {
					if v != neg {
						succs = x.Succs[:1]
					} else {
						succs = x.Succs[1:]
					}
				}
			}
		}
		for _, s := range succs {
			if s == b.Block() {
				return true
			}
			if s == a.Block() || s == avoid {
				continue
			}
			// what the phis of s are when entered from x
			nk := map[*ssa.Phi]bool{}
			for p, v := range know {
				nk[p] = v
			}
			idx := -1
			for i, pr := range s.Preds {
				if pr == x {
					idx = i
				}
			}
			for _, ins := range s.Instrs {
				phi, ok := ins.(*ssa.Phi)
				if !ok {
					break
				}
				delete(nk, phi)
				if idx >= 0 && idx < len(phi.Edges) {
					if k, ok := phi.Edges[idx].(*ssa.Const); ok && k.Value != nil && k.Value.Kind() == constant.Bool {
						nk[phi] = constant.BoolVal(k.Value)
					} else if src, ok := phi.Edges[idx].(*ssa.Phi); ok {
						if v, known := know[src]; known {
							nk[phi] = v
						}
					}
				}
			}
			st := state{s, render(nk)}
			if seen[st] {
				continue
			}
			seen[st] = true
			if walk(s, nk) {
				return true
			}
		}
		return false
	}
	return walk(a.Block(), map[*ssa.Phi]bool{})
}

// knownPrimitiveAt: at instruction `at` the value v cannot be an object: a dominating test of its kind (kind == K,
// IsString(), IsNumber(), IsPrimitive() ...) on the taken side, or the false side of a test for an object.
func knownPrimitiveAt(fn *ssa.Function, v ssa.Value, at ssa.Instruction) bool {
	for _, b := range fn.Blocks {
		iff, ok := b.Instrs[len(b.Instrs)-1].(*ssa.If)
		if !ok {
			continue
		}
		cond, neg := normBool(iff.Cond)
		primOnTrue, primOnFalse := false, false
		switch x := cond.(type) {
		case *ssa.Call:
			cl := x.Call.StaticCallee()
			if cl == nil || len(x.Call.Args) < 1 || !sameSSA(x.Call.Args[0], v, 0) {
				continue
			}
			switch cl.Name() {
			case "IsString", "IsNumber", "IsBoolean", "IsUndefined", "IsNull", "IsPrimitive", "isStringPrimitive":
				primOnTrue = true
			case "IsObject", "isCallable", "IsFunction":
				primOnFalse = true
			default:
				continue
			}
		case *ssa.BinOp:
			if x.Op != token.EQL && x.Op != token.NEQ {
				continue
			}
			src := kindOperand(x.X)
			if src == nil || !sameSSA(src, v, 0) {
				continue
			}
			k, isK := constInt(x.Y)
			if !isK {
				continue
			}
			obj := kindValue(fn, "valueObject")
			if x.Op == token.EQL {
				if k == obj {
					primOnFalse = true
				} else {
					primOnTrue = true
				}
			} else {
				if k == obj {
					primOnTrue = true
				} else {
					primOnFalse = true
				}
			}
		default:
			continue
		}
		if neg {
			primOnTrue, primOnFalse = primOnFalse, primOnTrue
		}
		for side, isPrim := range []bool{primOnTrue, primOnFalse} {
			if !isPrim {
				continue
			}
			succ, other := b.Succs[side], b.Succs[1-side]
			if (len(succ.Preds) == 1 && (succ == at.Block() || succ.Dominates(at.Block()))) || (b.Dominates(at.Block()) && !reaches(other, at.Block(), map[*ssa.BasicBlock]bool{b: true})) {
				return true
			}
		}
	}
	return false
}

// kindOperand: v reads <Value>.kind; returns the Value.
func kindOperand(v ssa.Value) ssa.Value {
	switch x := v.(type) {
	case *ssa.Field:
		if st, ok := x.X.Type().Underlying().(*types.Struct); ok && st.Field(x.Field).Name() == "kind" && typeIs(x.X.Type(), ottoPath, "Value") {
			return x.X
		}
	case *ssa.UnOp:
		if fa, ok := x.X.(*ssa.FieldAddr); ok && isFieldAddr(fa, "Value", "kind") {
			if ld, ok := fa.X.(*ssa.Alloc); ok {
				// a spilled Value: the value stored into the cell
				for _, ref := range *ld.Referrers() {
					if st, ok := ref.(*ssa.Store); ok && st.Addr == ssa.Value(ld) {
						return st.Val
					}
				}
			}
			return fa.X
		}
	}
	return nil
}

// returnsPrimitiveValue: every Value fn returns is a primitive: built with a constant kind other than valueObject, the
// result of a conversion (ToPrimitive and friends), or of another such function.
func returnsPrimitiveValue(fn *ssa.Function, conv map[*ssa.Function]map[int]bool, depth int) bool {
	if fn == nil || fn.Blocks == nil || depth > 3 {
		return false
	}
	obj := kindValue(fn, "valueObject")
	var prim func(v ssa.Value, d int) bool
	prim = func(v ssa.Value, d int) bool {
		if d > 6 {
			return false
		}
		switch x := v.(type) {
		case *ssa.Const:
			return true // the zero Value (undefined)
		case *ssa.Call:
			cl := x.Call.StaticCallee()
			if cl == nil {
				return false
			}
			if conv[cl] != nil && cl.Signature.Results().Len() == 1 && typeIs(cl.Signature.Results().At(0).Type(), ottoPath, "Value") {
				return true // ToPrimitive and the like
			}
			return cl != fn && returnsPrimitiveValue(cl, conv, depth+1)
		case *ssa.Phi:
			for _, e := range x.Edges {
				if !prim(e, d+1) {
					return false
				}
			}
			return true
		case *ssa.TypeAssert:
			// the [[PrimitiveValue]] of a wrapper object: object.value asserted to Value (CLASS-PAYLOAD: the
			// constructors of Number / String / Boolean objects store a primitive)
			if ld, ok := x.X.(*ssa.UnOp); ok && isFieldAddr(ld.X, "object", "value") && typeIs(x.AssertedType, ottoPath, "Value") {
				return true
			}
			return false
		case *ssa.Extract:
			return prim(x.Tuple, d+1)
		case *ssa.UnOp:
			if al, ok := x.X.(*ssa.Alloc); ok {
				// a Value literal: the kind stored into it
				okKind := false
				for _, ref := range *al.Referrers() {
					switch y := ref.(type) {
					case *ssa.FieldAddr:
						if !isFieldAddr(y, "Value", "kind") {
							continue
						}
						for _, r2 := range *y.Referrers() {
							if st, ok := r2.(*ssa.Store); ok {
								k, isK := constInt(st.Val)
								if !isK || k == obj {
									return false
								}
								okKind = true
							}
						}
					case *ssa.Store:
						if y.Addr == ssa.Value(al) && !prim(y.Val, d+1) {
							return false
						}
						if y.Addr == ssa.Value(al) {
							okKind = true
						}
					}
				}
				return okKind
			}
		}
		return false
	}
	n := 0
	for _, b := range fn.Blocks {
		if ret, ok := b.Instrs[len(b.Instrs)-1].(*ssa.Return); ok {
			if len(ret.Results) != 1 || !prim(ret.Results[0], 0) {
				return false
			}
			n++
		}
	}
	return n > 0
}

// callOrdinal: "<callee>#k" - the k-th call of that callee in the function (a name that survives unrelated edits).
func callOrdinal(call *ssa.Call) string {
	cl := call.Call.StaticCallee()
	k := 0
	for _, b := range call.Parent().Blocks {
		for _, ins := range b.Instrs {
			if c2, ok := ins.(*ssa.Call); ok && c2.Call.StaticCallee() == cl {
				k++
				if c2 == call {
					return fmt.Sprintf("%s#%d", cl.Name(), k)
				}
			}
		}
	}
	return cl.Name()
}

// mustConvert: every path of fn from its entry to a return passes a call that converts parameter i.
func mustConvert(fn *ssa.Function, i int, conv map[*ssa.Function]map[int]bool) bool {
	if i >= len(fn.Params) || len(fn.Blocks) == 0 {
		return false
	}
	p := fn.Params[i]
	isConv := func(ins ssa.Instruction) bool {
		ci, ok := ins.(ssa.CallInstruction)
		if !ok {
			return false
		}
		cc := ci.Common()
		callee := cc.StaticCallee()
		if callee == nil || conv[callee] == nil {
			return false
		}
		for j, a := range cc.Args {
			if conv[callee][j] && (a == ssa.Value(p) || sameSSA(a, p, 0)) {
				return true
			}
		}
		return false
	}
	for _, b := range fn.Blocks {
		ret, ok := b.Instrs[len(b.Instrs)-1].(*ssa.Return)
		if !ok {
			continue
		}
		if reachableWithout(fn, ret, isConv) {
			return false
		}
	}
	return true
}
