package main

import (
	"fmt"
	"go/types"

	"golang.org/x/tools/go/ssa"
)

func init() {
	register(&Rule{ID: "DEAD-flag-store", Props: []string{"C03"}, Min: 20,
		Doc: "P: in package parser, a store to a field of the parser state (insertSemicolon, implicitSemicolon, the scope flags, ...) must be observable: on some path from the store, the field is read (in this function, or by a callee that - transitively - reads that field), or the function returns, before the same field is stored again. A store that every path overwrites first is a flag the author meant to set and did not: the scanner's automatic-semicolon and newline flags are exactly such fields",
		Run: ruleDeadFlagStore})
}

// fieldReaders: for each field of the parser structs, the functions of package parser that load it (transitively through static calls).
func fieldReaders(c *Ctx) map[*types.Var]map[*ssa.Function]bool {
	direct := map[*types.Var]map[*ssa.Function]bool{}
	funcs := c.AllSrcFuncs("parser")
	isParserStruct := func(n *types.Named) bool {
		return n != nil && n.Obj().Pkg() != nil && n.Obj().Pkg().Path() == ottoPath+"/parser"
	}
	for _, fn := range funcs {
		for _, b := range fn.Blocks {
			for _, ins := range b.Instrs {
				if ld, ok := ins.(*ssa.UnOp); ok {
					if nt, f := fieldOfAddr(ld.X); isParserStruct(nt) {
						if direct[f] == nil {
							direct[f] = map[*ssa.Function]bool{}
						}
						direct[f][fn] = true
					}
				}
				// taking the address for other purposes (passing &p.f) counts as a read
				if fa, ok := ins.(*ssa.FieldAddr); ok {
					if nt, f := fieldOfAddr(fa); isParserStruct(nt) {
						for _, ref := range *fa.Referrers() {
							switch ref.(type) {
							case *ssa.Store, *ssa.UnOp:
							default:
								if direct[f] == nil {
									direct[f] = map[*ssa.Function]bool{}
								}
								direct[f][fn] = true
							}
						}
					}
				}
			}
		}
	}
	// transitive closure over static calls (and closures created)
	for f, set := range direct {
		for changed := true; changed; {
			changed = false
			for _, fn := range funcs {
				if set[fn] {
					continue
				}
				for _, b := range fn.Blocks {
					for _, ins := range b.Instrs {
						var callee *ssa.Function
						switch x := ins.(type) {
						case ssa.CallInstruction:
							callee = x.Common().StaticCallee()
							if callee == nil {
								// dynamic call: could read anything
								if _, isBuiltin := x.Common().Value.(*ssa.Builtin); !isBuiltin {
									set[fn] = true
									changed = true
								}
							}
						case *ssa.MakeClosure:
							callee, _ = x.Fn.(*ssa.Function)
						}
						if callee != nil && set[callee] && !set[fn] {
							set[fn] = true
							changed = true
						}
					}
				}
			}
		}
		direct[f] = set
	}
	return direct
}

func ruleDeadFlagStore(c *Ctx, r *R) {
	readers := fieldReaders(c)
	type exitStore struct {
		fn   *ssa.Function
		f    *types.Var
		st   *ssa.Store
		base string
	}
	var exitLive []exitStore // stores whose value is observable only because the function returns
	for _, fn := range c.AllSrcFuncs("parser") {
		ord := map[string]int{}
		for _, b := range fn.Blocks {
			for idx, ins := range b.Instrs {
				st, ok := ins.(*ssa.Store)
				if !ok {
					continue
				}
				nt, f := fieldOfAddr(st.Addr)
				if nt == nil || nt.Obj().Pkg() == nil || nt.Obj().Pkg().Path() != ottoPath+"/parser" {
					continue
				}
				fa := st.Addr.(*ssa.FieldAddr)
				if _, fresh := fa.X.(*ssa.Alloc); fresh {
					continue // building a new struct
				}
				// only scalar flags / small state (bool, int, token): slices and maps are appended/shared
				if b2, ok := f.Type().Underlying().(*types.Basic); !ok || b2.Info()&(types.IsBoolean|types.IsInteger) == 0 {
					continue
				}
				val := "var"
				if k, isC := st.Val.(*ssa.Const); isC && k.Value != nil {
					val = k.Value.ExactString()
				}
				base := fmt.Sprintf("%s:%s.%s=%s", ssaFuncName(fn), nt.Obj().Name(), f.Name(), val)
				ord[base]++
				key := fmt.Sprintf("%s#%d", base, ord[base])
				// forward search: is there a path on which the field is read / the function exits before being overwritten?
				observable, byRead := observableAfter(readers, f, fa.X, b, idx+1)
				if observable && !byRead {
					exitLive = append(exitLive, exitStore{fn, f, st, base})
				}
				if why, ok := deadStoreReviewed[base]; ok && !observable {
					r.ok("reviewed:"+key, c.Pos(instrPos(ins)), why)
					continue
				}
				r.check(observable, key, c.Pos(instrPos(ins)), "the stored value can be observed", fmt.Sprintf("%s stores to %s.%s, but on every path the field is stored again before anything reads it (no load, no callee that reads it, no return in between): the value set here is lost - for the scanner's semicolon/newline flags that changes automatic semicolon insertion", ssaFuncName(fn), nt.Obj().Name(), f.Name()))
			}
		}
	}
	// a store that is live only through the return: at every place the function is called, the caller must not overwrite
	// the field before anything reads it - otherwise the callee's effect is lost at that call site
	seenSite := map[string]bool{}
	for _, es := range exitLive {
		// only stores that execute on every path of the callee up to its return are attributed to the call (a flag set
		// conditionally is a different question)
		if !es.st.Block().Dominates(lastReturnBlock(es.fn)) && len(returnBlocks(es.fn)) > 0 {
			dominatesAll := true
			for _, rb := range returnBlocks(es.fn) {
				if !es.st.Block().Dominates(rb) {
					dominatesAll = false
				}
			}
			if !dominatesAll {
				continue
			}
		}
		for _, caller := range c.AllSrcFuncs("parser") {
			n := 0
			for _, b := range caller.Blocks {
				for idx, ins := range b.Instrs {
					call, ok := ins.(*ssa.Call)
					if !ok || call.Call.StaticCallee() != es.fn || len(call.Call.Args) == 0 {
						continue
					}
					n++
					key := fmt.Sprintf("call:%s->%s:%s#%d", ssaFuncName(caller), ssaFuncName(es.fn), es.f.Name(), n)
					if seenSite[key] {
						continue
					}
					seenSite[key] = true
					obs, _ := observableAfter(readers, es.f, call.Call.Args[0], b, idx+1)
					r.check(obs, key, c.Pos(instrPos(call)), "the field set by the callee can be observed after the call", fmt.Sprintf("%s sets %s on every path and returns, but after this call %s overwrites the field on every path before anything reads it: what the callee set is lost at this call site (while other callers keep it) - for the scanner's semicolon / newline flags that changes automatic semicolon insertion for exactly the token form scanned here", ssaFuncName(es.fn), es.f.Name(), ssaFuncName(caller)))
				}
			}
		}
	}
}

func returnBlocks(fn *ssa.Function) []*ssa.BasicBlock {
	var out []*ssa.BasicBlock
	for _, b := range fn.Blocks {
		if len(b.Instrs) > 0 {
			if _, ok := b.Instrs[len(b.Instrs)-1].(*ssa.Return); ok {
				out = append(out, b)
			}
		}
	}
	return out
}

func lastReturnBlock(fn *ssa.Function) *ssa.BasicBlock {
	rb := returnBlocks(fn)
	if len(rb) == 0 {
		return fn.Blocks[0]
	}
	return rb[len(rb)-1]
}

// observableAfter: starting at instruction index start of block b, is there a path on which field f (of the struct
// base points to) is read, or the function exits, before f is stored again? byRead reports whether a read (rather than
// an exit) is what makes it observable.
func observableAfter(readers map[*types.Var]map[*ssa.Function]bool, f *types.Var, base ssa.Value, b *ssa.BasicBlock, start int) (observable, byRead bool) {
	seen := map[*ssa.BasicBlock]bool{}
	var walk func(bb *ssa.BasicBlock, start int)
	walk = func(bb *ssa.BasicBlock, start int) {
		if byRead {
			return
		}
		for i := start; i < len(bb.Instrs); i++ {
			switch x := bb.Instrs[i].(type) {
			case *ssa.Store:
				if n2, f2 := fieldOfAddr(x.Addr); n2 != nil && f2 == f && sameAddr(x.Addr.(*ssa.FieldAddr).X, base) {
					return // overwritten on this path
				}
			case *ssa.UnOp:
				if n2, f2 := fieldOfAddr(x.X); n2 != nil && f2 == f {
					observable, byRead = true, true
					return
				}
			case *ssa.Return, *ssa.Panic:
				observable = true
				return
			case ssa.CallInstruction:
				callee := x.Common().StaticCallee()
				if callee == nil {
					if _, isBuiltin := x.Common().Value.(*ssa.Builtin); !isBuiltin {
						observable, byRead = true, true
						return
					}
				} else if readers[f][callee] {
					observable, byRead = true, true
					return
				}
				if _, isDefer := x.(*ssa.Defer); isDefer {
					observable, byRead = true, true // deferred code runs later; be conservative
					return
				}
			case *ssa.MakeClosure:
				observable, byRead = true, true
				return
			}
		}
		for _, s := range bb.Succs {
			if !seen[s] {
				seen[s] = true
				walk(s, 0)
			}
		}
	}
	walk(b, start)
	return observable, byRead
}

// Reviewed redundant stores (behaviour-neutral): key without ordinal.
var deadStoreReviewed = map[string]string{
	"parser.(*parser).scan:parser.insertSemicolon=false": "at end of input the flag is reset to false and the common tail of scan stores the local insertSemicolon, which is still false on this path: redundant, not lost",
}

func init() {
	register(&Rule{ID: "DEAD-field-read", Props: []string{"C07", "C01"}, Min: 2,
		Doc: "G (contradiction census, Engler's `beliefs`): a struct field that code reads and branches on, but that nothing in the module ever stores, is a decision that can only go one way - the author of the reader believed someone sets it. For every field of every struct type declared in packages otto and parser: if it is loaded somewhere (outside tests) there must be a store to it somewhere: an assignment, a composite literal that names it, or a positional literal of its struct. scope.eval is read to decide whether the bindings of `var` and function declarations are deletable (ES5 10.4.2: configurable in eval code) and was never set, so `eval('var x = 1'); delete x` failed. Fields filled from outside the module (decoded, reflected) are listed with the reason",
		Run: ruleDeadFieldRead})
}

// deadFieldReviewed: fields read but legitimately never stored by module code.
var deadFieldReviewed = map[string]string{
	"stashReference.strict": "strict mode is not implemented (README: \"use strict\" parses and does nothing): every reference is created non-strict, the zero value; the readers are the TODO stubs of 8.7.2",
}

func ruleDeadFieldRead(c *Ctx, r *R) {
	type acc struct {
		loads, stores int
		loadSite      string
	}
	fields := map[*types.Var]*acc{}
	get := func(f *types.Var) *acc {
		a := fields[f]
		if a == nil {
			a = &acc{}
			fields[f] = a
		}
		return a
	}
	structOf := func(t types.Type) (*types.Named, *types.Struct) {
		if p, ok := t.Underlying().(*types.Pointer); ok {
			t = p.Elem()
		}
		n, ok := t.(*types.Named)
		if !ok {
			return nil, nil
		}
		st, ok := n.Underlying().(*types.Struct)
		if !ok {
			return nil, nil
		}
		return n, st
	}
	inModule := func(n *types.Named) bool {
		if n == nil || n.Obj().Pkg() == nil {
			return false
		}
		p := n.Obj().Pkg().Path()
		return p == ottoPath || p == ottoPath+"/parser"
	}
	wholeStored := map[*types.Named]bool{}
	for _, fn := range c.AllSrcFuncs("", "parser") {
		for _, b := range fn.Blocks {
			for _, ins := range b.Instrs {
				switch x := ins.(type) {
				case *ssa.FieldAddr:
					n, st := structOf(x.X.Type())
					if !inModule(n) {
						continue
					}
					f := st.Field(x.Field)
					for _, ref := range *x.Referrers() {
						switch u := ref.(type) {
						case *ssa.Store:
							if u.Addr == ssa.Value(x) {
								get(f).stores++
							} else {
								get(f).loads++ // address escapes as a value
							}
						case *ssa.UnOp:
							a := get(f)
							a.loads++
							if a.loadSite == "" {
								a.loadSite = c.Pos(instrPos(u))
							}
						default:
							// address taken (passed on, method call on the field): could be written through it
							get(f).stores++
							get(f).loads++
						}
					}
				case *ssa.Field:
					n, st := structOf(x.X.Type())
					if !inModule(n) {
						continue
					}
					a := get(st.Field(x.Field))
					a.loads++
					if a.loadSite == "" {
						a.loadSite = c.Pos(instrPos(x))
					}
				case *ssa.Store:
					// a whole struct value stored from somewhere else than a local literal: every field may be set
					if n, _ := structOf(x.Val.Type()); inModule(n) {
						if _, isPtr := x.Val.Type().Underlying().(*types.Pointer); !isPtr {
							if _, lit := x.Val.(*ssa.UnOp); !lit {
								wholeStored[n] = true
							}
						}
					}
				}
			}
		}
	}
	n := 0
	for f, a := range fields {
		if a.loads == 0 {
			continue
		}
		n++
		owner := ""
		for _, pkg := range []string{"", "parser"} {
			p := c.Pkg(pkg)
			if p == nil {
				continue
			}
			for _, name := range p.Types.Scope().Names() {
				if tn, ok := p.Types.Scope().Lookup(name).(*types.TypeName); ok {
					if st, ok := tn.Type().Underlying().(*types.Struct); ok {
						for i := 0; i < st.NumFields(); i++ {
							if st.Field(i) == f {
								owner = tn.Name()
							}
						}
					}
				}
			}
		}
		key := owner + "." + f.Name()
		if a.stores > 0 || f.Exported() {
			continue // stored by the module, or part of the API: the host stores it
		}
		if why, ok := deadFieldReviewed[key]; ok {
			r.ok("reviewed:"+key, a.loadSite, why)
			continue
		}
		r.bad(key, a.loadSite, fmt.Sprintf("the field %s is read (%d times, first at %s) and never stored by any code of the module: every test of it goes the same way, so whatever it was meant to switch on cannot happen (scope.eval: bindings created by eval code are never deletable - `eval('var x = 1'); delete x` is false, ES5 10.4.2 / 10.5 configurableBindings)", key, a.loads, a.loadSite))
	}
	r.check(n >= 100, "census", "-", fmt.Sprintf("%d fields that are read were examined", n), fmt.Sprintf("only %d read fields found", n))
}

func init() {
	register(&Rule{ID: "DEAD-local-mutation", Props: []string{"C12", "C02"}, Min: 2,
		Doc: "G (census, the dead-store form of Engler's contradictions): a method with a pointer receiver that only writes fields of its receiver, called on a local variable that nothing reads afterwards, changes a copy that is thrown away - the author meant to change the object the copy was taken from. For every call in package otto of a module method with a pointer receiver on a local variable: after the call, on some path, the variable is read, passed on, or its address is used; otherwise the call is reported. `date.SetNaN()` on the local copy of a Date's payload (where `obj.value = invalidDateObject` was meant) leaves the Date valid although the setter returned NaN",
		Run: ruleDeadLocalMutation})
}

func ruleDeadLocalMutation(c *Ctx, r *R) {
	n := 0
	for _, fn := range c.AllSrcFuncs("") {
		ord := 0
		for _, b := range fn.Blocks {
			for idx, ins := range b.Instrs {
				call, ok := ins.(*ssa.Call)
				if !ok {
					continue
				}
				callee := call.Call.StaticCallee()
				if callee == nil || callee.Signature.Recv() == nil || callee.Pkg == nil || callee.Pkg.Pkg.Path() != ottoPath {
					continue
				}
				if _, isPtr := callee.Signature.Recv().Type().(*types.Pointer); !isPtr {
					continue
				}
				al, ok := call.Call.Args[0].(*ssa.Alloc)
				if !ok {
					continue
				}
				if !storesToReceiver(callee, 0) {
					continue // not a mutator
				}
				if refs := call.Referrers(); refs != nil && len(*refs) > 0 {
					continue // the call is made for its result (a memoising getter): not a pure mutation
				}
				// a struct variable declared in this function (not a `new`/composite literal handed around)
				if _, isStruct := al.Type().Underlying().(*types.Pointer).Elem().Underlying().(*types.Struct); !isStruct {
					continue
				}
				if al.Comment == "complit" || al.Comment == "new" {
					continue
				}
				// the callee returns nothing the caller uses, or something: irrelevant; what matters is the variable
				n++
				ord++
				key := fmt.Sprintf("%s:%s#%d", ssaFuncName(fn), callee.Name(), ord)
				site := c.Pos(instrPos(call))
				// uses of the variable after the call
				used := false
				isUse := func(i2 ssa.Instruction) bool {
					for _, op := range i2.Operands(nil) {
						if *op == ssa.Value(al) {
							// a store INTO the variable is not a read
							if st, ok := i2.(*ssa.Store); ok && st.Addr == ssa.Value(al) && st.Val != ssa.Value(al) {
								continue
							}
							return true
						}
					}
					return false
				}
				for _, i2 := range b.Instrs[idx+1:] {
					if isUse(i2) {
						used = true
					}
				}
				if !used {
					seen := map[*ssa.BasicBlock]bool{}
					var dfs func(x *ssa.BasicBlock)
					dfs = func(x *ssa.BasicBlock) {
						if seen[x] || used {
							return
						}
						seen[x] = true
						for _, i2 := range x.Instrs {
							if isUse(i2) {
								used = true
								return
							}
						}
						for _, s2 := range x.Succs {
							dfs(s2)
						}
					}
					for _, s2 := range b.Succs {
						dfs(s2)
					}
				}
				// captured by a closure: the closure may read it later
				for _, ref := range *al.Referrers() {
					if _, ok := ref.(*ssa.MakeClosure); ok {
						used = true
					}
				}
				if used {
					r.ok(key, site, "the variable is used after the call")
				} else {
					r.bad(key, site, fmt.Sprintf("%s calls %s on the local variable %s and never looks at the variable again: the method changed a copy that is dropped when the function returns (if the variable was copied out of an object - `date := payload of obj` - the object itself is unchanged; Date setters given a NaN argument must leave the Date invalid: `d.setUTCSeconds(1, NaN); d.getTime()` is NaN)", ssaFuncName(fn), ssaFuncName(callee), al.Comment))
				}
			}
		}
	}
	r.note("pointer-receiver calls on locals", n)
}

// storesToReceiver: fn (or a method it calls on the same receiver, two levels) stores to a field of its receiver, and
// does nothing else observable with it (the receiver is not stored or passed elsewhere is NOT required: a store suffices
// to make the call a mutation the caller must care about).
func storesToReceiver(fn *ssa.Function, depth int) bool {
	if fn == nil || len(fn.Blocks) == 0 || len(fn.Params) == 0 || depth > 2 {
		return false
	}
	recv := fn.Params[0]
	for _, b := range fn.Blocks {
		for _, ins := range b.Instrs {
			switch x := ins.(type) {
			case *ssa.Store:
				if fa, ok := x.Addr.(*ssa.FieldAddr); ok && fa.X == ssa.Value(recv) {
					return true
				}
				if x.Addr == ssa.Value(recv) {
					return true
				}
			case *ssa.Call:
				if callee := x.Call.StaticCallee(); callee != nil && callee.Signature.Recv() != nil && len(x.Call.Args) > 0 && x.Call.Args[0] == ssa.Value(recv) {
					if storesToReceiver(callee, depth+1) {
						return true
					}
				}
			}
		}
	}
	return false
}

func init() {
	register(&Rule{ID: "OWN-eval-flag", Props: []string{"C01", "C07"}, Min: 1,
		Doc: "O (who may write): scope.eval makes the bindings that declaration binding instantiation creates deletable (ES5 10.4.2: only in eval code). It may be stored only by the function bound to the global `eval` (and the closures it defers): the `eval` parameter of cmplEvaluateNodeProgram means `stay in the current scope` and is also true for the Go API Otto.Eval, whose programs must behave as they do through Run (C01: the result does not depend on the route)",
		Run: ruleOwnEvalFlag})
}

func ruleOwnEvalFlag(c *Ctx, r *R) {
	evalFn := c.SSAFunc(c.Shape().BoundOn("")["eval"])
	if evalFn == nil {
		for n, f := range c.Shape().BoundOn("global") {
			if n == "eval" {
				evalFn = c.SSAFunc(f)
			}
		}
	}
	if evalFn == nil {
		if f := c.LookupFunc("", "builtinGlobalEval"); f != nil {
			evalFn = c.SSAFunc(f)
		}
	}
	if evalFn == nil {
		r.undecided("anchor", "-", "UNRESOLVED: the function bound to the global eval")
		return
	}
	n := 0
	for _, fn := range c.AllSrcFuncs("") {
		for _, b := range fn.Blocks {
			for _, ins := range b.Instrs {
				st, ok := ins.(*ssa.Store)
				if !ok || !isFieldAddr(st.Addr, "scope", "eval") {
					continue
				}
				n++
				owner := fn
				for owner.Parent() != nil {
					owner = owner.Parent()
				}
				key := "store:" + ssaFuncName(fn)
				site := c.Pos(instrPos(st))
				if owner == evalFn {
					r.ok(key, site, "stored by the eval built-in (or a closure it defers)")
				} else {
					r.bad(key, site, fmt.Sprintf("%s stores scope.eval although it is not the eval built-in: every program that reaches declaration binding through it gets deletable bindings - `vm.Eval(\"var x = 1; delete x\")` (the Go API, which is Run without leaving the scope) answers true where Run answers false", ssaFuncName(fn)))
				}
			}
		}
	}
	if n == 0 {
		r.undecided("stores", "-", "no store to scope.eval found (DEAD-field-read reports the field as never set)")
	}
}
