package main

import (
	"fmt"
	"go/types"
	"sort"
	"strings"

	"golang.org/x/tools/go/ssa"
)

// SPEC-arguments: the arguments object's [[DefineOwnProperty]] and [[Delete]] (ES5 10.6), evaluated abstractly.

func init() {
	register(&Rule{ID: "SPEC-arguments", Props: []string{"C07", "C01"}, Min: 4,
		Doc: "S (abstract evaluation over a finite domain): argumentsDefineOwnProperty and argumentsDelete are evaluated, through the arguments class table, on an arguments object whose index 0 is mapped to a formal parameter or not, with the own property \"0\" in each data representation reachable by Object.defineProperty, for every legal descriptor shape. Per ES5 10.6: after a successful definition of a mapped index an accessor descriptor removes the mapping, a value is written through to the parameter's binding, and writable:false removes the mapping (after writing the value); a rejected definition changes nothing; a successful delete removes the mapping. The environment record is an atom whose getBinding / setBinding calls are recorded",
		Run: ruleSpecArguments})
}

func ruleSpecArguments(c *Ctx, r *R) {
	w := defineWorldFor(c)
	if w == nil {
		r.undecided("unresolved:world", "-", "UNRESOLVED: SPEC-define-own could not set up the abstract model")
		return
	}
	m, in := w.m, w.in
	var fDef, fDel *ssa.Function
	for _, fn := range c.AllSrcFuncs("") {
		switch ssaFuncName(fn) {
		case "argumentsDefineOwnProperty":
			fDef = fn
		case "argumentsDelete":
			fDel = fn
		}
	}
	tArgs := c.LookupType("", "argumentsObject")
	tFnStash := c.LookupType("", "fnStash")
	if fDef == nil || fDel == nil || tArgs == nil || tFnStash == nil {
		r.undecided("unresolved:anchors", "-", "UNRESOLVED: argumentsDefineOwnProperty / argumentsDelete / argumentsObject / fnStash")
		return
	}
	classTable, why := classTableOf(c, in, "classArguments")
	if why != "" {
		r.undecided("unresolved:classArguments", "-", "UNRESOLVED: "+why)
		return
	}
	ost := m.tObject.Underlying().(*types.Struct)
	field := func(st *types.Struct, name string) int {
		for i := 0; i < st.NumFields(); i++ {
			if st.Field(i).Name() == name {
				return i
			}
		}
		return -1
	}
	fClass, fOrder, fValue := field(ost, "objectClass"), field(ost, "propertyOrder"), field(ost, "value")
	ast := tArgs.Underlying().(*types.Struct)
	aStash, aIndex := field(ast, "stash"), field(ast, "indexOfParameterName")
	if fClass < 0 || fOrder < 0 || fValue < 0 || aStash < 0 || aIndex < 0 {
		r.undecided("unresolved:fields", "-", "UNRESOLVED: fields of object / argumentsObject")
		return
	}
	hooks := w.hooks
	binding := "B0"
	var writes []string
	hooks["invoke:getBinding"] = func(in *absInterp, call *ssa.CallCommon, args []aval) (aval, bool) {
		return m.mkValue(in, binding), true
	}
	hooks["invoke:setBinding"] = func(in *absInterp, call *ssa.CallCommon, args []aval) (aval, bool) {
		name, _ := args[1].(aStr)
		writes = append(writes, fmt.Sprintf("%s=%s", string(name), m.valueAtom(args[2])))
		binding = m.valueAtom(args[2])
		return nil, true
	}
	hooks["stringToArrayIndex"] = func(in *absInterp, call *ssa.CallCommon, args []aval) (aval, bool) {
		s, _ := args[0].(aStr)
		if s == "0" {
			return aInt(0), true
		}
		return aInt(-1), true
	}
	defer func() {
		delete(hooks, "invoke:getBinding")
		delete(hooks, "invoke:setBinding")
		delete(hooks, "stringToArrayIndex")
	}()

	mkArgs := func(sp *storedProp, mapped bool) (*acell, *acell) {
		obj := in.zero(m.tObject).(aStruct)
		pm := newAMap()
		obj.f[fOrder] = aNil{}
		if sp != nil {
			pv := in.zero(m.tProperty).(aStruct)
			pv.f[0], pv.f[1] = deepCopy(sp.value), aInt(sp.mode)
			pm.m["0"] = pv
			obj.f[fOrder] = aSlice{arr: aRef{root: &acell{v: aArr{e: []aval{aStr("0")}}, name: "order"}}, n: 1}
		}
		obj.f[w.fProp], obj.f[w.fExt], obj.f[w.fRt] = pm, aBool(true), aAtom{"rt"}
		obj.f[fClass] = classTable
		name := aStr("")
		if mapped {
			name = aStr("p")
		}
		idxCell := &acell{v: aArr{e: []aval{name}}, name: "indexOfParameterName"}
		av := in.zero(tArgs).(aStruct)
		av.f[aStash] = aIface{dyn: types.NewPointer(tFnStash), v: aAtom{"STASH"}}
		av.f[aIndex] = aSlice{arr: aRef{root: idxCell}, n: 1}
		obj.f[fValue] = aIface{dyn: tArgs, v: av}
		return &acell{v: obj, name: "arguments"}, idxCell
	}
	readBack := func(cell *acell) *storedProp {
		pm := cell.v.(aStruct).f[w.fProp].(aMap)
		pv, ok := pm.m["0"]
		if !ok {
			return nil
		}
		ps := pv.(aStruct)
		mode, _ := ps.f[1].(aInt)
		return &storedProp{value: ps.f[0], mode: int64(mode)}
	}
	isMapped := func(idx *acell) bool {
		arr := idx.v.(aArr)
		s, _ := arr.e[0].(aStr)
		return s != ""
	}

	var keys []string
	for k := range w.states {
		keys = append(keys, k)
	}
	sort.Strings(keys)
	var descs []pdDesc
	for _, v := range []string{"", "B0", "V1", "undefined"} {
		for wv := 0; wv < 3; wv++ {
			for e := 0; e < 3; e++ {
				for cc := 0; cc < 3; cc++ {
					descs = append(descs, pdDesc{value: v, w: wv, e: e, c: cc})
				}
			}
		}
	}
	for _, g := range []string{"", "undefined", "fn:G0"} {
		for _, s := range []string{"", "undefined", "fn:G0"} {
			if g == "" && s == "" {
				continue
			}
			for e := 0; e < 3; e++ {
				for cc := 0; cc < 3; cc++ {
					descs = append(descs, pdDesc{get: g, set: s, e: e, c: cc})
				}
			}
		}
	}
	type stat struct {
		cases int
		bad   []string
		fail  string
	}
	stats := map[string]*stat{}
	get := func(cat string) *stat {
		if stats[cat] == nil {
			stats[cat] = &stat{}
		}
		return stats[cat]
	}
	n := 0
	for _, k := range keys {
		own := w.states[k]
		if own == nil {
			continue
		}
		ownSt, why := w.decode(own)
		if why != "" || ownSt.kind != "data" {
			continue // a mapped index holds a data property; an accessor there is already unmapped and then ordinary
		}
		// keep the stored value in step with the binding: V0 plays the role of the binding's value
		if ownSt.v != "V0" {
			continue
		}
		for _, mapped := range []bool{true, false} {
			if mapped && !ownSt.w {
				continue // 10.6: a mapped index is a writable data property (making it read-only removes the mapping)
			}
			for _, d := range descs {
				n++
				cat := "10.6 [[DefineOwnProperty]] mapped index"
				if !mapped {
					cat = "10.6 [[DefineOwnProperty]] unmapped index"
				}
				st := get(cat)
				st.cases++
				// expected
				cur := ownSt
				if mapped {
					cur.v = "B0" // [[GetOwnProperty]] of a mapped index reports the binding's value
				}
				rej, wantSt := es5Define(cur, true, d)
				wantMapped, wantWrites := mapped, ""
				if !rej && mapped {
					switch {
					case d.isAccessor():
						wantMapped = false
					default:
						if d.value != "" {
							wantWrites = "p=" + d.value
						}
						if d.w == 2 {
							wantMapped = false
						}
					}
				}
				if rej {
					wantSt = cur
				}
				// observed: the stored value of a mapped index may lag behind the binding, so give it the binding's value
				spIn := own
				if mapped {
					spIn = &storedProp{value: aIface{dyn: m.tValue, v: m.mkValue(in, "B0")}, mode: own.mode}
				}
				desc, typeErr, fail := w.convert(d)
				if fail != "" {
					if st.fail == "" {
						st.fail = fail
					}
					continue
				}
				if typeErr {
					continue
				}
				cell, idx := mkArgs(spIn, mapped)
				binding, writes = "B0", nil
				_, pan, fail := absRun(in, fDef, []aval{aRef{root: cell}, aStr("0"), desc, aBool(true)})
				js := fmt.Sprintf("function f(p){ Object.defineProperty(arguments, '0', %s) } with arguments[0] %s, %s", d.js(), cur, map[bool]string{true: "mapped to p", false: "not mapped"}[mapped])
				if fail != "" {
					if st.fail == "" {
						st.fail = fail + " [" + js + "]"
					}
					continue
				}
				gotErr := pan != nil
				if pan != nil && !isTypeErrorPanic(pan) {
					st.bad = append(st.bad, js+" panics in the host ("+describeAval(pan)+")")
					continue
				}
				gotSt, why := w.decode(readBack(cell))
				if why != "" {
					st.bad = append(st.bad, js+" leaves a property that cannot be read back: "+why)
					continue
				}
				gotMapped := isMapped(idx)
				if gotMapped && gotSt.kind == "data" {
					gotSt.v = binding // what [[GetOwnProperty]] reports
				}
				if !gotMapped && mapped && gotSt.kind == "data" && wantSt.kind == "data" && d.value == "" {
					// the mapping was removed without a new value: the property keeps the last value of the binding
					wantSt.v = "B0"
				}
				gotWrites := strings.Join(writes, ";")
				if gotErr != rej || gotMapped != wantMapped || gotWrites != wantWrites || gotSt != wantSt {
					st.bad = append(st.bad, fmt.Sprintf("%s -> TypeError=%v mapped=%v binding-writes=[%s] property=%s; ES5 10.6 requires TypeError=%v mapped=%v binding-writes=[%s] property=%s", js, gotErr, gotMapped, gotWrites, gotSt, rej, wantMapped, wantWrites, wantSt))
				}
			}
			// delete
			for _, throw := range []bool{true, false} {
				st := get("10.6 [[Delete]]")
				st.cases++
				cell, idx := mkArgs(own, mapped)
				binding, writes = "B0", nil
				ret, pan, fail := absRun(in, fDel, []aval{aRef{root: cell}, aStr("0"), aBool(throw)})
				js := fmt.Sprintf("delete arguments[0] with arguments[0] %s, mapped=%v, throw=%v", ownSt, mapped, throw)
				if fail != "" {
					if st.fail == "" {
						st.fail = fail + " [" + js + "]"
					}
					continue
				}
				wantGone := ownSt.c
				gotErr := pan != nil && isTypeErrorPanic(pan)
				if pan != nil && !gotErr {
					st.bad = append(st.bad, js+" panics in the host ("+describeAval(pan)+")")
					continue
				}
				after := readBack(cell)
				gotRet, _ := ret.(aBool)
				switch {
				case gotErr != (!wantGone && throw):
					st.bad = append(st.bad, fmt.Sprintf("%s -> TypeError=%v", js, gotErr))
				case wantGone && (after != nil || isMapped(idx)):
					st.bad = append(st.bad, js+" leaves the property or the parameter mapping in place")
				case !wantGone && (after == nil || isMapped(idx) != mapped):
					st.bad = append(st.bad, js+" removes a non-configurable property or its mapping")
				case !gotErr && bool(gotRet) != wantGone:
					st.bad = append(st.bad, fmt.Sprintf("%s returns %v", js, gotRet))
				}
			}
		}
	}
	var cats []string
	for k := range stats {
		cats = append(cats, k)
	}
	sort.Strings(cats)
	for _, cat := range cats {
		st := stats[cat]
		site := c.Pos(fDef.Pos())
		if strings.Contains(cat, "Delete") {
			site = c.Pos(fDel.Pos())
		}
		switch {
		case st.fail != "":
			r.undecided(cat, site, "UNDECIDED: the abstract evaluator does not model "+st.fail)
		case len(st.bad) > 0:
			r.bad(cat, site, fmt.Sprintf("%d of %d cases deviate from ES5; first: %s", len(st.bad), st.cases, st.bad[0]))
		default:
			r.ok(cat, site, fmt.Sprintf("%d cases agree with ES5", st.cases))
		}
	}
	r.ok("coverage", "-", fmt.Sprintf("%d [[DefineOwnProperty]] cases", n))
	if n < 300 {
		r.undecided("coverage-low", "-", fmt.Sprintf("UNDECIDED: only %d cases", n))
	}
}
