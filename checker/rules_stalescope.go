package main

import (
	"fmt"

	"golang.org/x/tools/go/ssa"
)

func init() {
	register(&Rule{ID: "SCOPE-stale", Props: []string{"C01"}, Min: 2,
		Doc: "P (the execution context that is written is the current one): a function that reads the runtime's current scope (`scop := rt.scope`) and later writes through that pointer (the eval-code mark, the nesting depth) does not call anything that changes rt.scope in between (enterScope / leaveScope and what calls them: enterGlobalScope, enterFunctionScope). Otherwise the write lands on the scope that was current before - an indirect eval that has entered the global execution context would mark its *caller's* scope as eval code, and the bindings it declares in the global scope would not be deletable (ES5 10.4.2, 10.5 step 2)",
		Run: ruleScopeStale})
}

func ruleScopeStale(c *Ctx, r *R) {
	funcs := c.AllSrcFuncs("")
	// functions that change rt.scope: a store to runtime.scope, or a call of such a function (three levels)
	changes := map[*ssa.Function]bool{}
	for _, fn := range funcs {
		for _, b := range fn.Blocks {
			for _, ins := range b.Instrs {
				if st, ok := ins.(*ssa.Store); ok && isFieldAddr(st.Addr, "runtime", "scope") {
					changes[fn] = true
				}
			}
		}
	}
	if len(changes) == 0 {
		r.undecided("unresolved:writers", "-", "UNRESOLVED: no function stores to runtime.scope")
		return
	}
	for round := 0; round < 3; round++ {
		for _, fn := range funcs {
			if changes[fn] || fn.Parent() != nil {
				continue
			}
			for _, b := range fn.Blocks {
				for _, ins := range b.Instrs {
					if call, ok := ins.(*ssa.Call); ok && changes[call.Call.StaticCallee()] {
						// only the small wrappers (a function that does much else is judged at its own call sites)
						if len(fn.Blocks) <= 6 {
							changes[fn] = true
						}
					}
				}
			}
		}
	}
	pos := func(ins ssa.Instruction) int {
		for i, x := range ins.Block().Instrs {
			if x == ins {
				return i
			}
		}
		return -1
	}
	// after(a, b): some path executes a and later b
	after := func(a, b ssa.Instruction) bool {
		if a.Block() == b.Block() && pos(a) < pos(b) {
			return true
		}
		return reaches(a.Block(), b.Block(), map[*ssa.BasicBlock]bool{}) && (a.Block() != b.Block() || reaches2(a.Block(), a.Block()))
	}
	n := 0
	for _, fn := range funcs {
		if changes[fn] && len(fn.Blocks) <= 6 {
			continue // the writers themselves
		}
		var loads []*ssa.UnOp
		var calls []*ssa.Call
		for _, b := range fn.Blocks {
			for _, ins := range b.Instrs {
				switch x := ins.(type) {
				case *ssa.UnOp:
					if isFieldAddr(x.X, "runtime", "scope") {
						loads = append(loads, x)
					}
				case *ssa.Call:
					if changes[x.Call.StaticCallee()] {
						calls = append(calls, x)
					}
				}
			}
		}
		ord := 0
		for _, ld := range loads {
			// writes through the loaded pointer (directly or through a phi of it)
			var writes []ssa.Instruction
			seen := map[ssa.Value]bool{}
			var follow func(v ssa.Value)
			follow = func(v ssa.Value) {
				if seen[v] || v.Referrers() == nil {
					return
				}
				seen[v] = true
				for _, ref := range *v.Referrers() {
					switch x := ref.(type) {
					case *ssa.FieldAddr:
						if x.X == v {
							for _, r2 := range *x.Referrers() {
								if st, ok := r2.(*ssa.Store); ok && st.Addr == ssa.Value(x) {
									writes = append(writes, st)
								}
							}
						}
					case *ssa.Phi:
						follow(x)
					case *ssa.Store:
						// a local that a closure captures lives in a cell: the loads of the cell carry the pointer on
						if al, ok := x.Addr.(*ssa.Alloc); ok && x.Val == v && al.Referrers() != nil {
							for _, r2 := range *al.Referrers() {
								if u, ok := r2.(*ssa.UnOp); ok && u.X == ssa.Value(al) {
									follow(u)
								}
							}
						}
					}
				}
			}
			follow(ld)
			if len(writes) == 0 {
				continue
			}
			n++
			ord++
			key := fmt.Sprintf("%s:scope#%d", ssaFuncName(fn), ord)
			bad := ""
			for _, w := range writes {
				for _, cl := range calls {
					if after(ld, cl) && after(cl, w) {
						bad = fmt.Sprintf("the scope read at %s is written at %s after the call of %s at %s", c.Pos(instrPos(ld)), c.Pos(instrPos(w)), cl.Call.StaticCallee().Name(), c.Pos(instrPos(cl)))
					}
				}
			}
			r.check(bad == "", key, c.Pos(instrPos(ld)), "nothing changes rt.scope between the read of the current scope and the writes through it",
				fmt.Sprintf("%s writes to an execution context that is no longer the current one: %s, which changes rt.scope on that path. For an indirect eval (`var e = eval; e('var v = 1')`) the eval-code mark lands on the caller's scope instead of the global execution context it has entered: `delete v` is false (ES5 10.4.2, 10.5 step 2)", ssaFuncName(fn), bad))
		}
	}
	r.note("scope_reads_written_through", n)
}

func init() {
	register(&Rule{ID: "LABEL-take", Props: []string{"C01"}, Min: 4,
		Doc: "P (ES5 12.12: the label set belongs to the statement that follows the labels): an iteration or switch evaluator that takes the pending label set (reads rt.labels into a local and clears the field) does so before it evaluates any part of the statement - no call of the expression / statement evaluator is made on a path that has not passed the clearing store. Otherwise an operand evaluated first (`outer: for (k in table()) ...`) runs script code while the labels are still pending, the body block of a function called there takes them, and `continue outer` in the loop no longer finds its target",
		Run: ruleLabelTake})
}

func ruleLabelTake(c *Ctx, r *R) {
	entries := map[*ssa.Function]bool{}
	for _, e := range evaluatorEntries(c) {
		if e != nil {
			entries[e] = true
		}
	}
	if len(entries) != 2 {
		r.undecided("unresolved:entries", "-", "UNRESOLVED evaluator entry functions")
		return
	}
	funcs := c.AllSrcFuncs("")
	// evaluating functions: the entries and what calls them directly (statement lists, the function body evaluator)
	evals := map[*ssa.Function]bool{}
	for e := range entries {
		evals[e] = true
	}
	for _, fn := range funcs {
		for _, b := range fn.Blocks {
			for _, ins := range b.Instrs {
				if call, ok := ins.(*ssa.Call); ok && entries[call.Call.StaticCallee()] {
					evals[fn] = true
				}
			}
		}
	}
	n := 0
	for _, fn := range funcs {
		if entries[fn] || fn.Parent() != nil {
			continue // the block statement arm of the statement evaluator: judged by PAIR-lexical / COMPLETION rules
		}
		var clear *ssa.Store
		takes := false
		for _, b := range fn.Blocks {
			for _, ins := range b.Instrs {
				switch x := ins.(type) {
				case *ssa.Store:
					if k, ok := x.Val.(*ssa.Const); ok && k.IsNil() && isFieldAddr(x.Addr, "runtime", "labels") && clear == nil {
						clear = x
					}
				case *ssa.UnOp:
					if isFieldAddr(x.X, "runtime", "labels") {
						takes = true
					}
				}
			}
		}
		if clear == nil || !takes {
			continue
		}
		n++
		bad := ""
		for _, b := range fn.Blocks {
			for i, ins := range b.Instrs {
				call, ok := ins.(*ssa.Call)
				if !ok || !evals[call.Call.StaticCallee()] {
					continue
				}
				dominated := clear.Block() != b && clear.Block().Dominates(b)
				if clear.Block() == b {
					for j, x := range b.Instrs {
						if x == ssa.Instruction(clear) && j < i {
							dominated = true
						}
					}
				}
				if !dominated && bad == "" {
					bad = c.Pos(instrPos(call))
				}
			}
		}
		r.check(bad == "", ssaFuncName(fn), c.Pos(instrPos(clear)), "the pending label set is taken before any part of the statement is evaluated",
			fmt.Sprintf("%s evaluates part of its statement (the call at %s) before it has taken the pending label set: script code run by that operand sees rt.labels still pending, the body block of a function called there consumes them, and a labelled continue / break of this statement loses its target (`outer: for (var k in table()) { for (;;) { continue outer } }` ends after the first key)", ssaFuncName(fn), bad))
	}
	r.note("label_taking_evaluators", n)
}
