package main

import (
	"fmt"
	"go/ast"
	"go/token"
	"go/types"
	"strings"

	"golang.org/x/tools/go/ssa"
)

func init() {
	register(&Rule{ID: "SCOPE-stale", Props: []string{"C01"}, Min: 2,
		Doc: "P (the execution context that is written is the current one): a function that reads the runtime's current scope (`scop := rt.scope`) and later writes through that pointer (the eval-code mark, the nesting depth) does not call anything that changes rt.scope in between (enterScope / leaveScope and what calls them: enterGlobalScope, enterFunctionScope). Otherwise the write lands on the scope that was current before - an indirect eval that has entered the global execution context would mark its *caller's* scope as eval code, and the bindings it declares in the global scope would not be deletable (ES5 10.4.2, 10.5 step 2)",
		Run: ruleScopeStale})
}

func ruleScopeStale(c *Ctx, r *R) {
	funcs := c.AllSrcFuncs("")
	// functions that change rt.scope: a store to runtime.scope, or a call of such a function (three levels)
	changes := map[*ssa.Function]bool{}
	for _, fn := range funcs {
		for _, b := range fn.Blocks {
			for _, ins := range b.Instrs {
				if st, ok := ins.(*ssa.Store); ok && isFieldAddr(st.Addr, "runtime", "scope") {
					changes[fn] = true
				}
			}
		}
	}
	if len(changes) == 0 {
		r.undecided("unresolved:writers", "-", "UNRESOLVED: no function stores to runtime.scope")
		return
	}
	for round := 0; round < 3; round++ {
		for _, fn := range funcs {
			if changes[fn] || fn.Parent() != nil {
				continue
			}
			for _, b := range fn.Blocks {
				for _, ins := range b.Instrs {
					if call, ok := ins.(*ssa.Call); ok && changes[call.Call.StaticCallee()] {
						// only the small wrappers (a function that does much else is judged at its own call sites)
						if len(fn.Blocks) <= 6 {
							changes[fn] = true
						}
					}
				}
			}
		}
	}
	pos := func(ins ssa.Instruction) int {
		for i, x := range ins.Block().Instrs {
			if x == ins {
				return i
			}
		}
		return -1
	}
	// after(a, b): some path executes a and later b
	after := func(a, b ssa.Instruction) bool {
		if a.Block() == b.Block() && pos(a) < pos(b) {
			return true
		}
		return reaches(a.Block(), b.Block(), map[*ssa.BasicBlock]bool{}) && (a.Block() != b.Block() || reaches2(a.Block(), a.Block()))
	}
	n := 0
	for _, fn := range funcs {
		if changes[fn] && len(fn.Blocks) <= 6 {
			continue // the writers themselves
		}
		var loads []*ssa.UnOp
		var calls []*ssa.Call
		for _, b := range fn.Blocks {
			for _, ins := range b.Instrs {
				switch x := ins.(type) {
				case *ssa.UnOp:
					if isFieldAddr(x.X, "runtime", "scope") {
						loads = append(loads, x)
					}
				case *ssa.Call:
					if changes[x.Call.StaticCallee()] {
						calls = append(calls, x)
					}
				}
			}
		}
		ord := 0
		for _, ld := range loads {
			// writes through the loaded pointer (directly or through a phi of it)
			var writes []ssa.Instruction
			seen := map[ssa.Value]bool{}
			var follow func(v ssa.Value)
			follow = func(v ssa.Value) {
				if seen[v] || v.Referrers() == nil {
					return
				}
				seen[v] = true
				for _, ref := range *v.Referrers() {
					switch x := ref.(type) {
					case *ssa.FieldAddr:
						if x.X == v {
							for _, r2 := range *x.Referrers() {
								if st, ok := r2.(*ssa.Store); ok && st.Addr == ssa.Value(x) {
									writes = append(writes, st)
								}
							}
						}
					case *ssa.Phi:
						follow(x)
					case *ssa.Store:
						// a local that a closure captures lives in a cell: the loads of the cell carry the pointer on
						if al, ok := x.Addr.(*ssa.Alloc); ok && x.Val == v && al.Referrers() != nil {
							for _, r2 := range *al.Referrers() {
								if u, ok := r2.(*ssa.UnOp); ok && u.X == ssa.Value(al) {
									follow(u)
								}
							}
						}
					}
				}
			}
			follow(ld)
			if len(writes) == 0 {
				continue
			}
			n++
			ord++
			key := fmt.Sprintf("%s:scope#%d", ssaFuncName(fn), ord)
			bad := ""
			for _, w := range writes {
				for _, cl := range calls {
					if after(ld, cl) && after(cl, w) {
						bad = fmt.Sprintf("the scope read at %s is written at %s after the call of %s at %s", c.Pos(instrPos(ld)), c.Pos(instrPos(w)), cl.Call.StaticCallee().Name(), c.Pos(instrPos(cl)))
					}
				}
			}
			r.check(bad == "", key, c.Pos(instrPos(ld)), "nothing changes rt.scope between the read of the current scope and the writes through it",
				fmt.Sprintf("%s writes to an execution context that is no longer the current one: %s, which changes rt.scope on that path. For an indirect eval (`var e = eval; e('var v = 1')`) the eval-code mark lands on the caller's scope instead of the global execution context it has entered: `delete v` is false (ES5 10.4.2, 10.5 step 2)", ssaFuncName(fn), bad))
		}
	}
	r.note("scope_reads_written_through", n)
}

func init() {
	register(&Rule{ID: "LABEL-take", Props: []string{"C01"}, Min: 4,
		Doc: "P (ES5 12.12: the label set belongs to the statement that follows the labels): an iteration or switch evaluator that takes the pending label set (reads rt.labels into a local and clears the field) does so before it evaluates any part of the statement - no call of the expression / statement evaluator is made on a path that has not passed the clearing store. Otherwise an operand evaluated first (`outer: for (k in table()) ...`) runs script code while the labels are still pending, the body block of a function called there takes them, and `continue outer` in the loop no longer finds its target",
		Run: ruleLabelTake})
}

func ruleLabelTake(c *Ctx, r *R) {
	entries := map[*ssa.Function]bool{}
	for _, e := range evaluatorEntries(c) {
		if e != nil {
			entries[e] = true
		}
	}
	if len(entries) != 2 {
		r.undecided("unresolved:entries", "-", "UNRESOLVED evaluator entry functions")
		return
	}
	funcs := c.AllSrcFuncs("")
	// evaluating functions: the entries and what calls them directly (statement lists, the function body evaluator)
	evals := map[*ssa.Function]bool{}
	for e := range entries {
		evals[e] = true
	}
	for _, fn := range funcs {
		for _, b := range fn.Blocks {
			for _, ins := range b.Instrs {
				if call, ok := ins.(*ssa.Call); ok && entries[call.Call.StaticCallee()] {
					evals[fn] = true
				}
			}
		}
	}
	n := 0
	for _, fn := range funcs {
		if entries[fn] || fn.Parent() != nil {
			continue // the block statement arm of the statement evaluator: judged by PAIR-lexical / COMPLETION rules
		}
		var clear *ssa.Store
		takes := false
		for _, b := range fn.Blocks {
			for _, ins := range b.Instrs {
				switch x := ins.(type) {
				case *ssa.Store:
					if k, ok := x.Val.(*ssa.Const); ok && k.IsNil() && isFieldAddr(x.Addr, "runtime", "labels") && clear == nil {
						clear = x
					}
				case *ssa.UnOp:
					if isFieldAddr(x.X, "runtime", "labels") {
						takes = true
					}
				}
			}
		}
		if clear == nil || !takes {
			continue
		}
		n++
		bad := ""
		for _, b := range fn.Blocks {
			for i, ins := range b.Instrs {
				call, ok := ins.(*ssa.Call)
				if !ok || !evals[call.Call.StaticCallee()] {
					continue
				}
				dominated := clear.Block() != b && clear.Block().Dominates(b)
				if clear.Block() == b {
					for j, x := range b.Instrs {
						if x == ssa.Instruction(clear) && j < i {
							dominated = true
						}
					}
				}
				if !dominated && bad == "" {
					bad = c.Pos(instrPos(call))
				}
			}
		}
		r.check(bad == "", ssaFuncName(fn), c.Pos(instrPos(clear)), "the pending label set is taken before any part of the statement is evaluated",
			fmt.Sprintf("%s evaluates part of its statement (the call at %s) before it has taken the pending label set: script code run by that operand sees rt.labels still pending, the body block of a function called there consumes them, and a labelled continue / break of this statement loses its target (`outer: for (var k in table()) { for (;;) { continue outer } }` ends after the first key)", ssaFuncName(fn), bad))
	}
	r.note("label_taking_evaluators", n)
}

func init() {
	register(&Rule{ID: "LEX-regexp-asi", Props: []string{"C03"}, Min: 2,
		Doc: "T (ES5 7.9.1 after a RegularExpressionLiteral): a regular expression literal is scanned outside the tokeniser - the parser sees the token that begins it (the tokens of the case clause that calls the regexp-literal parser: `/` and `/=`) and re-reads the characters itself, so the tokeniser must have armed automatic semicolon insertion when it produced *that* token, whichever of them it was. In the scanner, the statement that arms it (`insertSemicolon = true`) stands unconditionally beside the assignment that produces those tokens - not under a test of which one it is. Otherwise `var re = /=+/` followed by `var found` on the next line is a syntax error while `/a+/` is fine",
		Run: ruleLexRegexpASI})
}

func ruleLexRegexpASI(c *Ctx, r *R) {
	p := c.Pkg("parser")
	if p == nil {
		r.undecided("pkg", "-", "UNRESOLVED package parser")
		return
	}
	info := p.TypesInfo
	tokName := func(e ast.Expr) string {
		sel, ok := unparen(e).(*ast.SelectorExpr)
		if !ok {
			return ""
		}
		if k, isC := info.Uses[sel.Sel].(*types.Const); isC && k.Pkg() != nil && k.Pkg().Name() == "token" {
			return sel.Sel.Name
		}
		return ""
	}
	// the tokens that begin a regular expression literal: the case clause whose body calls a function returning *ast.RegExpLiteral
	starts := map[string]bool{}
	for _, f := range p.Syntax {
		ast.Inspect(f, func(n ast.Node) bool {
			cc, ok := n.(*ast.CaseClause)
			if !ok {
				return true
			}
			calls := false
			for _, st := range cc.Body {
				ast.Inspect(st, func(m ast.Node) bool {
					if call, ok := m.(*ast.CallExpr); ok {
						if tv, ok := info.Types[call]; ok && tv.Type != nil && typeStr(tv.Type) == "*ast.RegExpLiteral" {
							calls = true
						}
					}
					return true
				})
			}
			if calls {
				for _, e := range cc.List {
					if t := tokName(e); t != "" {
						starts[t] = true
					}
				}
			}
			return true
		})
	}
	if len(starts) == 0 {
		r.undecided("unresolved:starts", "-", "UNRESOLVED: no case clause of package parser calls a function returning *ast.RegExpLiteral")
		return
	}
	// where the scanner produces them: an assignment whose right side mentions the token, in a statement list
	found := map[string]bool{}
	armsSomewhere := func(fd *ast.FuncDecl) bool {
		yes := false
		ast.Inspect(fd, func(m ast.Node) bool {
			if a2, ok := m.(*ast.AssignStmt); ok && len(a2.Lhs) == 1 {
				if id, ok := unparen(a2.Lhs[0]).(*ast.Ident); ok && id.Name == "insertSemicolon" {
					yes = true
				}
			}
			return true
		})
		return yes
	}
	for _, f := range p.Syntax {
		ast.Inspect(f, func(n ast.Node) bool {
			if fd, ok := n.(*ast.FuncDecl); ok && (fd.Body == nil || !armsSomewhere(fd)) {
				return false // not the scanner
			}
			var list []ast.Stmt
			switch x := n.(type) {
			case *ast.BlockStmt:
				list = x.List
			case *ast.CaseClause:
				list = x.Body
			default:
				return true
			}
			for _, st := range list {
				as, ok := st.(*ast.AssignStmt)
				if !ok || len(as.Rhs) != 1 {
					continue
				}
				if _, isCall := unparen(as.Rhs[0]).(*ast.CallExpr); !isCall {
					if tokName(as.Rhs[0]) == "" {
						continue
					}
				}
				var made []string
				ast.Inspect(as.Rhs[0], func(m ast.Node) bool {
					if e, ok := m.(ast.Expr); ok {
						if t := tokName(e); t != "" && starts[t] {
							made = append(made, t)
						}
					}
					return true
				})
				if len(made) == 0 {
					continue
				}
				// the same list arms insertion unconditionally
				armed := false
				for _, st2 := range list {
					if a2, ok := st2.(*ast.AssignStmt); ok && len(a2.Lhs) == 1 && len(a2.Rhs) == 1 {
						name := ""
						switch l := unparen(a2.Lhs[0]).(type) {
						case *ast.Ident:
							name = l.Name
						case *ast.SelectorExpr:
							name = l.Sel.Name
						}
						if id, ok := unparen(a2.Rhs[0]).(*ast.Ident); ok && id.Name == "true" && name == "insertSemicolon" {
							armed = true
						}
					}
				}
				for _, t := range made {
					if found[t] {
						continue
					}
					found[t] = true
					r.check(armed, "arms:"+t, c.Pos(as.Pos()), "automatic semicolon insertion is armed unconditionally where the token is produced",
						fmt.Sprintf("the scanner produces %s, which can begin a regular expression literal, without arming automatic semicolon insertion beside it (no unconditional `insertSemicolon = true` in the same statement list): the literal is scanned outside the tokeniser, so a line break after `/=+/` does not end the statement - `var re = /=+/` followed by `var found = 1` on the next line is a syntax error (ES5 7.9.1)", t))
				}
			}
			return true
		})
	}
	for t := range starts {
		if !found[t] {
			r.undecided("unresolved:"+t, "-", "UNRESOLVED: no assignment of package parser produces "+t)
		}
	}
}

func init() {
	register(&Rule{ID: "LEX-keyword-lookup", Props: []string{"C04", "C03"}, Min: 1,
		Doc: "P (ES5 7.6: a unicode escape in an IdentifierName stands for the character, and 7.6.1: a reserved word is not an Identifier however it is spelled): the scanner decides whether an identifier is a reserved word from the *decoded* literal. The call of the keyword table (token.IsKeyword) is therefore not made to depend on a comparison of the raw source character (p.chr, or a copy of it): for `\\u0069f` the raw first character is a backslash. Tests of the literal itself (its length) and the selection of the identifier arm by a predicate call are what the pinned tree has",
		Run: ruleLexKeywordLookup})
}

func ruleLexKeywordLookup(c *Ctx, r *R) {
	n := 0
	fromChr := func(v ssa.Value) bool {
		for i := 0; i < 4; i++ {
			switch x := v.(type) {
			case *ssa.Convert:
				v = x.X
				continue
			case *ssa.UnOp:
				return isFieldAddr(x.X, "parser", "chr")
			}
			break
		}
		return false
	}
	for _, fn := range c.AllSrcFuncs("parser") {
		for _, b := range fn.Blocks {
			for _, ins := range b.Instrs {
				call, ok := ins.(*ssa.Call)
				if !ok {
					continue
				}
				cal := call.Call.StaticCallee()
				if cal == nil || cal.Name() != "IsKeyword" || cal.Pkg == nil || cal.Pkg.Pkg.Path() != ottoPath+"/token" {
					continue
				}
				n++
				bad := ""
				for _, d := range fn.Blocks {
					iff, ok := d.Instrs[len(d.Instrs)-1].(*ssa.If)
					if !ok || d == b || !d.Dominates(b) {
						continue
					}
					if reaches(d.Succs[0], b, map[*ssa.BasicBlock]bool{d: true}) && reaches(d.Succs[1], b, map[*ssa.BasicBlock]bool{d: true}) {
						continue
					}
					for _, cmp := range comparisonsOf(iff.Cond, 0) {
						if fromChr(cmp.X) || fromChr(cmp.Y) {
							bad = c.Pos(instrPos(iff))
						}
					}
				}
				r.check(bad == "", ssaFuncName(fn)+":IsKeyword", c.Pos(instrPos(call)), "the keyword lookup does not depend on a comparison of the raw source character",
					fmt.Sprintf("%s looks the identifier up in the keyword table only when a comparison of the raw source character holds (at %s): an identifier whose first character is written as a unicode escape begins with a backslash in the source, so `var \\u0069f = 1` (the reserved word `if`) is accepted as an identifier - ES5 7.6 / 7.6.1", ssaFuncName(fn), bad))
			}
		}
	}
	if n == 0 {
		r.undecided("unresolved:lookup", "-", "UNRESOLVED: no call of token.IsKeyword in package parser")
	}
}

func init() {
	register(&Rule{ID: "FORIN-reference", Props: []string{"C01"}, Min: 1,
		Doc: "P (ES5 12.6.4 steps 6.b-c / 7.b-c: for every property name the LeftHandSideExpression - or the declared variable - is evaluated again and the name is put through the reference that evaluation yields): in the for-in evaluator the reference handed to putValue inside the enumeration callback is computed inside that callback, per iteration; it is not a value captured from the enclosing function, where it would be resolved once. The body can change what the expression designates (`for (o[i++] in src)`, `with (scope) for (var k in src) { scope.k = ... }`)",
		Run: ruleForInReference})
}

func ruleForInReference(c *Ctx, r *R) {
	var fn *ssa.Function
	for _, f := range c.AllSrcFuncs("") {
		if f.Parent() != nil {
			continue
		}
		for _, p := range f.Params {
			if n := derefNamed(p.Type()); n != nil && n.Obj().Name() == "nodeForInStatement" && f.Signature.Recv() != nil && typeIs(f.Signature.Recv().Type(), ottoPath, "runtime") {
				fn = f
			}
		}
	}
	if fn == nil {
		r.undecided("unresolved:for-in", "-", "UNRESOLVED: evaluator of nodeForInStatement not found")
		return
	}
	n := 0
	var lits []*ssa.Function
	var collect func(f *ssa.Function)
	collect = func(f *ssa.Function) {
		for _, a := range f.AnonFuncs {
			lits = append(lits, a)
			collect(a)
		}
	}
	collect(fn)
	for _, lit := range append([]*ssa.Function{fn}, lits...) {
		for _, b := range lit.Blocks {
			for _, ins := range b.Instrs {
				call, ok := ins.(*ssa.Call)
				if !ok {
					continue
				}
				cal := call.Call.StaticCallee()
				if cal == nil || cal.Name() != "putValue" || len(call.Call.Args) < 3 {
					continue
				}
				n++
				key := fmt.Sprintf("%s:putValue#%d", ssaFuncName(lit), n)
				site := c.Pos(instrPos(call))
				if lit == fn {
					r.bad(key, site, "the for-in evaluator puts the property name outside the enumeration callback: the reference is not evaluated per property (ES5 12.6.4 step 6.b)")
					continue
				}
				// the reference operand: no path of its computation leads to a variable captured from outside
				captured := ""
				seen := map[ssa.Value]bool{}
				var walk func(v ssa.Value, d int)
				walk = func(v ssa.Value, d int) {
					if d > 8 || seen[v] || captured != "" {
						return
					}
					seen[v] = true
					switch x := v.(type) {
					case *ssa.FreeVar:
						// the node and the runtime are captured legitimately: only a captured *reference* (or Value holding
						// one) is a result computed before the loop
						t := typeStr(x.Type())
						if strings.Contains(t, "referencer") || t == "*Value" || t == "Value" {
							captured = x.Name()
						}
					case *ssa.Phi:
						for _, e := range x.Edges {
							walk(e, d+1)
						}
					case *ssa.UnOp:
						walk(x.X, d+1)
					case *ssa.Call:
						// the result of a call made here is computed here; only conversions of a value are followed
						if cc := x.Call.StaticCallee(); cc != nil && (cc.Name() == "reference" || cc.Name() == "toValue") {
							for _, a := range x.Call.Args {
								walk(a, d+1)
							}
						}
					case *ssa.MakeInterface:
						walk(x.X, d+1)
					case *ssa.ChangeInterface:
						walk(x.X, d+1)
					case *ssa.TypeAssert:
						walk(x.X, d+1)
					case *ssa.Alloc:
						if x.Referrers() != nil {
							for _, ref := range *x.Referrers() {
								if st, ok := ref.(*ssa.Store); ok && st.Addr == ssa.Value(x) {
									walk(st.Val, d+1)
								}
							}
						}
					}
				}
				walk(call.Call.Args[1], 0)
				r.check(captured == "", key, site, "the reference the name is put through is computed inside the enumeration callback, for every property",
					fmt.Sprintf("the for-in evaluator puts the property name through a reference captured from outside the enumeration callback (%s): it was resolved once, before the loop, but ES5 12.6.4 step 6.b evaluates the left-hand side for every property - `with (scope) { for (var k in {a:1,b:2}) { seen.push(k); scope.k = 'shadow' } }` must see a, b", captured))
			}
		}
	}
	if n == 0 {
		r.undecided("unresolved:putValue", c.Pos(fn.Pos()), "UNRESOLVED: no putValue call in the for-in evaluator")
	}
}

func init() {
	register(&Rule{ID: "OWN-rawread", Props: []string{"C07"}, Min: 1,
		Doc: "O (ES5 8.12.1 / 8.12.2 and the exotic [[GetOwnProperty]] of String objects 15.5.5.2, arguments objects 10.6 and the Go-backed classes): the raw reader of an object's property table (the method of *object that returns (property, bool) from the table) is what the *ordinary* [[GetOwnProperty]] is built on; an object of another class answers [[GetOwnProperty]] itself. So the raw reader is only ever applied to the object a class function was handed (its own *object parameter) - never to an object it reached by following a prototype link or any other field, whose class may be a different one. A prototype walk that reads the tables directly loses the index properties of a String prototype and the mapped arguments (`Object.create(new String('abc'))[1]`)",
		Run: ruleOwnRawRead})
}

func ruleOwnRawRead(c *Ctx, r *R) {
	// the raw reader: method of *object with results (property, bool)
	var reader *ssa.Function
	for _, fn := range c.AllSrcFuncs("") {
		if fn.Signature.Recv() == nil || typeStr(fn.Signature.Recv().Type()) != "*object" || fn.Signature.Results().Len() != 2 {
			continue
		}
		if typeStr(fn.Signature.Results().At(0).Type()) == "property" && typeStr(fn.Signature.Results().At(1).Type()) == "bool" && fn.Signature.Params().Len() == 1 {
			if reader != nil {
				r.undecided("unresolved:reader", "-", "UNRESOLVED: more than one method of *object returns (property, bool)")
				return
			}
			reader = fn
		}
	}
	if reader == nil {
		r.undecided("unresolved:reader", "-", "UNRESOLVED: no method of *object with results (property, bool) (the raw reader of the property table)")
		return
	}
	n := 0
	for _, fn := range c.AllSrcFuncs("") {
		ord := 0
		for _, b := range fn.Blocks {
			for _, ins := range b.Instrs {
				call, ok := ins.(*ssa.Call)
				if !ok || call.Call.StaticCallee() != reader || len(call.Call.Args) == 0 {
					continue
				}
				n++
				ord++
				key := fmt.Sprintf("%s:%s#%d", ssaFuncName(fn), reader.Name(), ord)
				_, isParam := normCell(call.Call.Args[0]).(*ssa.Parameter) // (a parameter a closure captures lives in a cell)
				r.check(isParam, key, c.Pos(instrPos(call)), "the raw table is read of the object the function was handed",
					fmt.Sprintf("%s reads the raw property table (%s) of an object it was not handed - one it reached through a field such as the prototype link: that object's class may answer [[GetOwnProperty]] itself (String index properties, mapped arguments, Go-backed objects), and a table read misses those - `Object.create(new String('abc'))[1]` must be 'b', `1 in Object.create(new String('abc'))` true (ES5 8.12.2 calls the prototype's [[GetProperty]])", ssaFuncName(fn), reader.Name()))
			}
		}
	}
	r.note("raw_reads", n)
}

func init() {
	register(&Rule{ID: "SPEC-hasinstance-order", Props: []string{"C05"}, Min: 1,
		Doc: "P (ES5 15.3.5.3 [[HasInstance]](V): step 1 `If V is not an object, return false` precedes step 2, the [[Get]] of `prototype`, and step 3, the TypeError for a prototype that is not an object): in the method that implements it (a method of *object taking a Value and returning bool that reads the property `prototype`), the [[Get]] of `prototype` is dominated by the test of the argument for being an object. `1 instanceof Math.max` is false, not a TypeError",
		Run: ruleHasInstanceOrder})
}

func ruleHasInstanceOrder(c *Ctx, r *R) {
	n := 0
	for _, fn := range c.AllSrcFuncs("") {
		if fn.Signature.Recv() == nil || typeStr(fn.Signature.Recv().Type()) != "*object" || fn.Signature.Params().Len() != 1 || fn.Signature.Results().Len() != 1 {
			continue
		}
		if typeStr(fn.Signature.Params().At(0).Type()) != "Value" || typeStr(fn.Signature.Results().At(0).Type()) != "bool" {
			continue
		}
		var getProto *ssa.Call
		for _, b := range fn.Blocks {
			for _, ins := range b.Instrs {
				if call, ok := ins.(*ssa.Call); ok {
					if cal := call.Call.StaticCallee(); cal != nil && cal.Name() == "get" && len(call.Call.Args) == 2 {
						if k, ok := call.Call.Args[1].(*ssa.Const); ok && k.Value != nil && k.Value.ExactString() == `"prototype"` {
							getProto = call
						}
					}
				}
			}
		}
		if getProto == nil {
			continue
		}
		n++
		arg := fn.Params[len(fn.Params)-1]
		tested := false
		for _, b := range fn.Blocks {
			iff, ok := b.Instrs[len(b.Instrs)-1].(*ssa.If)
			if !ok || !b.Dominates(getProto.Block()) || b == getProto.Block() {
				continue
			}
			cond, _ := normBool(iff.Cond)
			if call, ok := cond.(*ssa.Call); ok {
				if cal := call.Call.StaticCallee(); cal != nil && (cal.Name() == "IsObject" || cal.Name() == "isObject") && len(call.Call.Args) == 1 && sameSSA(call.Call.Args[0], arg, 0) {
					// the [[Get]] is reached only on one side
					if !(reaches(b.Succs[0], getProto.Block(), map[*ssa.BasicBlock]bool{b: true}) && reaches(b.Succs[1], getProto.Block(), map[*ssa.BasicBlock]bool{b: true})) {
						tested = true
					}
				}
			}
		}
		r.check(tested, ssaFuncName(fn), c.Pos(instrPos(getProto)), "the argument is tested for being an object before `prototype` is read",
			fmt.Sprintf("%s reads the `prototype` property (and raises the TypeError for one that is not an object) before it has tested the left operand for being an object: ES5 15.3.5.3 step 1 returns false first - `1 instanceof Math.max` (a function without a prototype) must be false, not a TypeError", ssaFuncName(fn)))
	}
	if n == 0 {
		r.undecided("unresolved:hasInstance", "-", "UNRESOLVED: no method of *object (Value) bool reads the property `prototype`")
	}
}

func init() {
	register(&Rule{ID: "REC-counter", Props: []string{"C11", "C02"}, Min: 1,
		Doc: "P (a nesting counter counts nesting): a function that calls itself and increments an integer field through a *pointer* parameter (a depth counter kept in a shared context) decrements the same field again - in a deferred function or before its returns; a counter in a context passed *by value* needs no decrement (each level has its own copy) and is not examined. Otherwise the field counts the values visited, not the depth: with a stack depth limit set, JSON.parse of a flat array of 200 numbers and a reviver raises a RangeError although the nesting depth is 1. (Expected count on the pinned tree is zero: its walkers pass their context by value; the positive example is the own mutant json-revive-context-pointer.)",
		Run: ruleRecCounter})
}

func ruleRecCounter(c *Ctx, r *R) {
	n := 0
	examined := 0
	for _, fn := range c.AllSrcFuncs("") {
		if fn.Parent() != nil {
			continue
		}
		recursive := false
		for _, b := range fn.Blocks {
			for _, ins := range b.Instrs {
				if call, ok := ins.(*ssa.Call); ok && call.Call.StaticCallee() == fn {
					recursive = true
				}
			}
		}
		if !recursive {
			continue
		}
		examined++
		family := append([]*ssa.Function{fn}, fn.AnonFuncs...)
		type fieldKey struct {
			p     *ssa.Parameter
			field int
		}
		incs := map[fieldKey]ssa.Instruction{}
		decs := map[fieldKey]bool{}
		for _, f := range family {
			for _, b := range f.Blocks {
				for _, ins := range b.Instrs {
					st, ok := ins.(*ssa.Store)
					if !ok {
						continue
					}
					fa, ok := st.Addr.(*ssa.FieldAddr)
					if !ok {
						continue
					}
					var p *ssa.Parameter
					if q, ok := normCell(fa.X).(*ssa.Parameter); ok {
						p = q // (a parameter that a closure captures lives in a cell)
					}
					switch x := fa.X.(type) {
					case *ssa.Parameter:
						p = x
					case *ssa.FreeVar:
						// a deferred closure capturing the parameter: find the parameter of the same name in fn
						for _, q := range fn.Params {
							if q.Name() == x.Name() {
								p = q
							}
						}
					case *ssa.UnOp:
						if fv, ok := x.X.(*ssa.FreeVar); ok {
							for _, q := range fn.Params {
								if q.Name() == fv.Name() {
									p = q
								}
							}
						}
					}
					if p == nil {
						continue
					}
					if _, isPtr := p.Type().Underlying().(*types.Pointer); !isPtr {
						continue
					}
					bo, ok := st.Val.(*ssa.BinOp)
					if !ok {
						continue
					}
					one := false
					for _, o := range []ssa.Value{bo.X, bo.Y} {
						if k, ok := constInt(o); ok && k == 1 {
							one = true
						}
					}
					if !one {
						continue
					}
					key := fieldKey{p, fa.Field}
					switch bo.Op {
					case token.ADD:
						incs[key] = ins
					case token.SUB:
						decs[key] = true
					}
				}
			}
		}
		for key, ins := range incs {
			n++
			r.check(decs[key], fmt.Sprintf("%s:%s#%d", ssaFuncName(fn), key.p.Name(), key.field), c.Pos(instrPos(ins)), "the counter incremented through the shared context is decremented again",
				fmt.Sprintf("%s calls itself and increments a field of the context it shares with its callers (the pointer parameter %s) without ever decrementing it: the field counts the values visited, not the nesting depth - with a stack depth limit a flat JSON array of a few hundred elements is refused as too deep (pass the context by value, or decrement in a deferred function)", ssaFuncName(fn), key.p.Name()))
		}
	}
	if examined < 8 {
		r.undecided("census", "-", fmt.Sprintf("only %d self-recursive functions found in package otto (16 on the pinned tree): the census no longer sees the walkers", examined))
		return
	}
	r.ok("census", "-", fmt.Sprintf("%d self-recursive functions of package otto examined, %d counters incremented through a pointer parameter", examined, n))
}

func init() {
	register(&Rule{ID: "EARLY-continue-outer", Props: []string{"C04"}, Min: 1,
		Doc: "P (ES5 12.7: `continue Identifier` is a syntax error unless the label belongs to an enclosing *iteration* statement; the parser collects labelled continue statements while the labelled statement is being parsed and judges those that name its label when it has the statement): a labelled statement must hand the continues that name *another* label on to the enclosing labelled statements - the list it stores back is filtered (rebuilt with append from the entries it did not judge), not simply cut back to its old length. Otherwise `a: { b: for (;;) { continue a } }` is accepted: the entry for `a` is dropped when `b:` is done",
		Run: ruleEarlyContinueOuter})
}

func ruleEarlyContinueOuter(c *Ctx, r *R) {
	n := 0
	for _, fn := range c.AllSrcFuncs("parser") {
		for _, b := range fn.Blocks {
			for _, ins := range b.Instrs {
				st, ok := ins.(*ssa.Store)
				if !ok {
					continue
				}
				fa, ok := st.Addr.(*ssa.FieldAddr)
				if !ok {
					continue
				}
				if nt, f := fieldOfAddr(fa); nt == nil || f == nil || f.Name() != "continues" {
					continue
				}
				// stores that cut the list back: the value derives from a slice expression with an upper bound of the old list
				cuts, appends := false, false
				seen := map[ssa.Value]bool{}
				var walk func(v ssa.Value, d int)
				walk = func(v ssa.Value, d int) {
					if d > 8 || seen[v] {
						return
					}
					seen[v] = true
					switch x := v.(type) {
					case *ssa.Slice:
						if x.High != nil {
							cuts = true
						}
					case *ssa.Phi:
						for _, e := range x.Edges {
							walk(e, d+1)
						}
					case *ssa.Call:
						if bi, ok := x.Call.Value.(*ssa.Builtin); ok && bi.Name() == "append" {
							appends = true
							walk(x.Call.Args[0], d+1)
						}
					}
				}
				walk(st.Val, 0)
				if !cuts {
					continue // the plain registration of a new continue statement
				}
				n++
				r.check(appends, ssaFuncName(fn)+":continues", c.Pos(instrPos(st)), "the pending continues are filtered: the ones that name another label are kept for the enclosing statements",
					fmt.Sprintf("%s cuts the list of pending labelled continue statements back to its old length when a labelled statement is done, dropping the entries that name an outer label unjudged: `a: { b: for (;;) { continue a } }` is accepted although `a` labels a block (ES5 12.7)", ssaFuncName(fn)))
			}
		}
	}
	if n == 0 {
		r.undecided("unresolved:store", "-", "UNRESOLVED: no labelled statement stores a cut-back list of pending continue statements (parser scope field `continues`)")
	}
}
