package main

import (
	"fmt"
	"os"
	"os/exec"
	"path/filepath"
	"sort"
	"strings"
	"sync"
)

// crossLoad re-runs the given (quick) rules on the program loaded under another GOOS/GOARCH and reports every
// obligation whose status differs from the native run: build-constrained files or size-dependent code must not
// change a verdict.
func crossLoad(repo string, sel []*Rule, native map[string]string) (summary []map[string]interface{}, diffs []string) {
	for _, env := range [][]string{{"GOARCH=386"}, {"GOOS=windows"}} {
		c2, err := loadCtx(repo, env)
		entry := map[string]interface{}{"env": strings.Join(env, " ")}
		if err != nil {
			entry["error"] = err.Error()
			diffs = append(diffs, fmt.Sprintf("%s: load failed: %v", strings.Join(env, " "), err))
			summary = append(summary, entry)
			continue
		}
		n, d := 0, 0
		for _, r := range sel {
			if tierOf(r) != "quick" {
				continue
			}
			res := runRule(c2, r)
			for _, o := range res.obs {
				n++
				if st, ok := native[o.Key]; !ok || st != o.Status {
					d++
					diffs = append(diffs, fmt.Sprintf("%s: %s is %s (native: %s)", strings.Join(env, " "), o.Key, o.Status, orDash(native[o.Key])))
				}
			}
		}
		entry["obligations"] = n
		entry["differences"] = d
		summary = append(summary, entry)
	}
	return
}

type selfVal struct {
	Name   string `json:"mutant"`
	Kind   string `json:"kind"` // own | fix-revert
	Rule   string `json:"expected_rule,omitempty"`
	Result string `json:"result"` // fires | silent | patch-failed | no-compile
	Detail string `json:"detail,omitempty"`
}

// selfValidate applies each seeded variant relevant to the selected rules to a scratch copy of the repository
// (under the system temp directory, removed immediately) and records whether the rule fires. Informational:
// the outcome is written to the evidence file and never turns into a VIOLATION.
func selfValidate(repo, verif string, sel []*Rule) []selfVal {
	ruleSel := map[string]*Rule{}
	for _, r := range sel {
		ruleSel[r.ID] = r
	}
	type job struct {
		name, kind, diff, rule string
		reverse                bool
	}
	var jobs []job
	own, _ := filepath.Glob(filepath.Join(verif, "mutants", "own", "*.diff"))
	for _, d := range own {
		rb, err := os.ReadFile(strings.TrimSuffix(d, ".diff") + ".rule")
		if err != nil {
			continue
		}
		rule := strings.TrimSpace(string(rb))
		if ruleSel[rule] == nil {
			continue
		}
		jobs = append(jobs, job{name: strings.TrimSuffix(filepath.Base(d), ".diff"), kind: "own", diff: d, rule: rule})
	}
	sort.Slice(jobs, func(i, j int) bool { return jobs[i].name < jobs[j].name })
	out := make([]selfVal, len(jobs))
	sem := make(chan struct{}, 4)
	var wg sync.WaitGroup
	for i, j := range jobs {
		wg.Add(1)
		go func(i int, j job) {
			defer wg.Done()
			sem <- struct{}{}
			defer func() { <-sem }()
			sv := selfVal{Name: j.name, Kind: j.kind, Rule: j.rule}
			tmp, err := os.MkdirTemp("", "ottocheck-self-")
			if err != nil {
				sv.Result = "patch-failed"
				out[i] = sv
				return
			}
			defer os.RemoveAll(tmp)
			if b, err := exec.Command("rsync", "-a", "--exclude", ".git", repo+"/", tmp+"/").CombinedOutput(); err != nil {
				sv.Result, sv.Detail = "patch-failed", string(b)
				out[i] = sv
				return
			}
			args := []string{"-p1", "-s", "--no-backup-if-mismatch", "-i", j.diff}
			if j.reverse {
				args = append([]string{"-R"}, args...)
			}
			cmd := exec.Command("patch", args...)
			cmd.Dir = tmp
			if b, err := cmd.CombinedOutput(); err != nil {
				sv.Result, sv.Detail = "patch-failed", strings.TrimSpace(string(b))
				out[i] = sv
				return
			}
			c2, err := loadCtx(tmp, nil)
			if err != nil {
				sv.Result, sv.Detail = "no-compile", err.Error()
				out[i] = sv
				return
			}
			res := runRule(c2, ruleSel[j.rule])
			sv.Result = "silent"
			for _, o := range res.obs {
				if o.status != Discharged {
					sv.Result = "fires"
					sv.Detail = o.Key
					break
				}
			}
			out[i] = sv
		}(i, j)
	}
	wg.Wait()
	return out
}
