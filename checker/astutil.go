package main

import (
	"go/ast"
	"go/constant"
	"go/types"
	"sort"

	"golang.org/x/tools/go/packages"
)

// namedIface returns the interface type named `name` in package suffix.
func (c *Ctx) namedIface(pkgSuffix, name string) (*types.Named, *types.Interface) {
	n := c.LookupType(pkgSuffix, name)
	if n == nil {
		return nil, nil
	}
	i, _ := n.Underlying().(*types.Interface)
	return n, i
}

// implementors lists the named (non-interface) types of the given packages whose pointer or value type implements iface.
func (c *Ctx) implementors(iface *types.Interface, pkgSuffixes ...string) []*types.Named {
	var out []*types.Named
	for _, suf := range pkgSuffixes {
		p := c.Pkg(suf)
		if p == nil {
			continue
		}
		sc := p.Types.Scope()
		for _, n := range sc.Names() {
			tn, ok := sc.Lookup(n).(*types.TypeName)
			if !ok || tn.IsAlias() {
				continue
			}
			named, ok := tn.Type().(*types.Named)
			if !ok {
				continue
			}
			if _, isI := named.Underlying().(*types.Interface); isI {
				continue
			}
			if types.Implements(named, iface) || types.Implements(types.NewPointer(named), iface) {
				out = append(out, named)
			}
		}
	}
	sort.Slice(out, func(i, j int) bool { return out[i].Obj().Name() < out[j].Obj().Name() })
	return out
}

type tswitch struct {
	pkg     *packages.Package
	fn      *ast.FuncDecl
	stmt    *ast.TypeSwitchStmt
	tagType types.Type
	tagExpr ast.Expr
	cases   []tcase
	hasDef  bool
	defBody []ast.Stmt
}

type tcase struct {
	clause *ast.CaseClause
	types  []types.Type
	bound  types.Object // implicit object bound in this clause (nil if none)
}

// typeSwitches returns every type switch in the package (suffix) together with the resolved case types.
func (c *Ctx) typeSwitches(pkgSuffix string) []*tswitch {
	p := c.Pkg(pkgSuffix)
	var out []*tswitch
	if p == nil {
		return nil
	}
	for _, f := range p.Syntax {
		for _, d := range f.Decls {
			fd, ok := d.(*ast.FuncDecl)
			if !ok || fd.Body == nil {
				continue
			}
			ast.Inspect(fd.Body, func(n ast.Node) bool {
				ts, ok := n.(*ast.TypeSwitchStmt)
				if !ok {
					return true
				}
				sw := &tswitch{pkg: p, fn: fd, stmt: ts}
				var ta *ast.TypeAssertExpr
				switch a := ts.Assign.(type) {
				case *ast.AssignStmt:
					ta, _ = a.Rhs[0].(*ast.TypeAssertExpr)
				case *ast.ExprStmt:
					ta, _ = a.X.(*ast.TypeAssertExpr)
				}
				if ta == nil {
					return true
				}
				sw.tagExpr = ta.X
				sw.tagType = p.TypesInfo.TypeOf(ta.X)
				for _, s := range ts.Body.List {
					cc := s.(*ast.CaseClause)
					if cc.List == nil {
						sw.hasDef = true
						sw.defBody = cc.Body
						continue
					}
					tc := tcase{clause: cc, bound: p.TypesInfo.Implicits[cc]}
					for _, e := range cc.List {
						tc.types = append(tc.types, p.TypesInfo.TypeOf(e))
					}
					sw.cases = append(sw.cases, tc)
				}
				out = append(out, sw)
				return true
			})
		}
	}
	return out
}

func typeIs(t types.Type, pkgPath, name string) bool {
	if p, ok := t.(*types.Pointer); ok {
		t = p.Elem()
	}
	n, ok := t.(*types.Named)
	return ok && n.Obj().Name() == name && n.Obj().Pkg() != nil && n.Obj().Pkg().Path() == pkgPath
}

func derefNamed(t types.Type) *types.Named {
	if t == nil {
		return nil
	}
	if p, ok := t.(*types.Pointer); ok {
		t = p.Elem()
	}
	n, _ := t.(*types.Named)
	return n
}

// usesFieldOf reports whether body contains a selector <obj>.<field>.
func usesFieldOf(info *types.Info, body []ast.Stmt, obj types.Object, field string) int {
	n := 0
	for _, s := range body {
		ast.Inspect(s, func(x ast.Node) bool {
			sel, ok := x.(*ast.SelectorExpr)
			if !ok || sel.Sel.Name != field {
				return true
			}
			if id, ok := unparen(sel.X).(*ast.Ident); ok && info.Uses[id] == obj {
				n++
			}
			return true
		})
	}
	return n
}

// containsPanicOnly reports whether a statement list is (possibly after trivial statements) a panic call.
func endsInPanic(info *types.Info, body []ast.Stmt) bool {
	if len(body) == 0 {
		return false
	}
	es, ok := body[len(body)-1].(*ast.ExprStmt)
	if !ok {
		return false
	}
	call, ok := es.X.(*ast.CallExpr)
	if !ok {
		return false
	}
	id, ok := call.Fun.(*ast.Ident)
	if !ok {
		return false
	}
	_, isB := info.Uses[id].(*types.Builtin)
	return isB && id.Name == "panic"
}

func constantInt64(cst *types.Const) (int64, bool) {
	return constant.Int64Val(cst.Val())
}
