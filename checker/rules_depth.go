package main

import (
	"fmt"
	"go/token"
	"sort"
	"strings"

	"golang.org/x/tools/go/ssa"
)

// REC-entry: the stack-depth limit is enforced by enterScope. The recursion rules (REC-slot, REC-residual,
// REC-data-depth) cut every cycle at (*object).call on the ground that a script-level call is counted there. This rule
// checks that ground: every point of (*object).call that hands control to a callee - the native function value, the
// compiled body of a script function - is reached only after depth accounting, on every path; the one exemption is the
// direct-eval path (selected by the `eval` flag alone), for which the obligation moves to the eval built-in itself.

func init() {
	register(&Rule{ID: "REC-entry", Props: []string{"C02", "C18"}, Min: 3,
		Doc: "P (must-pass-through, path-based): in (*object).call every invocation of a callee (the native function value of the payload, cmplCallNodeFunction) is preceded on every path by depth accounting - a call of enterScope or of a function that calls it on all its paths (enterFunctionScope, enterGlobalScope) - except along the branch taken only when the `eval` flag is true (a direct eval runs in its caller's scope); the eval built-in then reaches cmplEvaluateNodeProgram only after an enterScope-family call or after incrementing scope.depth under a comparison with runtime.stackLimit. A path that skips the accounting (a runtime at rest called from Go, a direct eval) lets native-to-native or eval-to-eval recursion run until the Go stack is exhausted, which is fatal, although a limit is configured",
		Run: ruleRecEntry})
}

func ruleRecEntry(c *Ctx, r *R) {
	var enterScope, objCall, evalFn, callNode, evalProgram *ssa.Function
	for _, fn := range c.AllSrcFuncs("") {
		switch ssaFuncName(fn) {
		case "(*runtime).enterScope":
			enterScope = fn
		case "(*object).call":
			objCall = fn
		case "builtinGlobalEval":
			evalFn = fn
		case "(*runtime).cmplCallNodeFunction":
			callNode = fn
		case "(*runtime).cmplEvaluateNodeProgram":
			evalProgram = fn
		}
	}
	for name, f := range map[string]*ssa.Function{"(*runtime).enterScope": enterScope, "(*object).call": objCall, "builtinGlobalEval": evalFn, "(*runtime).cmplCallNodeFunction": callNode, "(*runtime).cmplEvaluateNodeProgram": evalProgram} {
		if f == nil {
			r.undecided("unresolved:"+name, "-", "UNRESOLVED: "+name+" not found")
		}
	}
	if enterScope == nil || objCall == nil || evalFn == nil || callNode == nil || evalProgram == nil {
		return
	}
	// enterScope itself must compare depth with the limit
	limitRead := false
	for _, b := range enterScope.Blocks {
		for _, ins := range b.Instrs {
			if ld, ok := ins.(*ssa.UnOp); ok && ld.Op == token.MUL && isFieldAddr(ld.X, "runtime", "stackLimit") {
				limitRead = true
			}
		}
	}
	r.check(limitRead, "enterScope:limit", c.Pos(enterScope.Pos()), "enterScope reads runtime.stackLimit", "enterScope no longer reads runtime.stackLimit: the depth limit is not enforced at all")

	// family: functions that call a member on all paths (the call's block dominates every return)
	family := map[*ssa.Function]bool{enterScope: true}
	for changed := true; changed; {
		changed = false
		for _, fn := range c.AllSrcFuncs("") {
			if family[fn] {
				continue
			}
			for _, b := range fn.Blocks {
				for _, ins := range b.Instrs {
					call, ok := ins.(ssa.CallInstruction)
					if !ok || !family[call.Common().StaticCallee()] {
						continue
					}
					if _, isDefer := ins.(*ssa.Defer); isDefer {
						continue
					}
					all := true
					for _, b2 := range fn.Blocks {
						if _, isRet := b2.Instrs[len(b2.Instrs)-1].(*ssa.Return); isRet && !b.Dominates(b2) {
							all = false
						}
					}
					if all {
						family[fn] = true
						changed = true
					}
				}
			}
		}
	}
	isAccount := func(ins ssa.Instruction) bool {
		if call, ok := ins.(*ssa.Call); ok {
			return family[call.Call.StaticCallee()]
		}
		return false
	}
	// eval-like values of objCall
	var evalParam *ssa.Parameter
	for _, p := range objCall.Params {
		if p.Name() == "eval" {
			evalParam = p
		}
	}
	isEvalFlag := func(v ssa.Value) bool {
		if evalParam == nil {
			return false
		}
		if v == ssa.Value(evalParam) {
			return true
		}
		if phi, ok := v.(*ssa.Phi); ok {
			for _, e := range phi.Edges {
				if e == ssa.Value(evalParam) {
					return true
				}
			}
		}
		return false
	}
	// uncovered: is target reachable from entry without passing an accounting instruction, not following eval-true edges?
	uncovered := func(fn *ssa.Function, target ssa.Instruction, account func(ssa.Instruction) bool, pruneEval bool) bool {
		seen := map[*ssa.BasicBlock]bool{}
		var dfs func(b *ssa.BasicBlock) bool
		dfs = func(b *ssa.BasicBlock) bool {
			if seen[b] {
				return false
			}
			seen[b] = true
			for _, ins := range b.Instrs {
				if ins == target {
					return true
				}
				if account(ins) {
					return false
				}
			}
			skip := -1
			if pruneEval {
				if iff, ok := b.Instrs[len(b.Instrs)-1].(*ssa.If); ok {
					if v, neg := normBool(iff.Cond); isEvalFlag(v) {
						skip = 0
						if neg {
							skip = 1
						}
					}
				}
			}
			for i, s := range b.Succs {
				if i == skip {
					continue
				}
				if dfs(s) {
					return true
				}
			}
			return false
		}
		return dfs(fn.Blocks[0])
	}
	n := 0
	for _, b := range objCall.Blocks {
		for _, ins := range b.Instrs {
			call, ok := ins.(*ssa.Call)
			if !ok {
				continue
			}
			kind := ""
			if call.Call.StaticCallee() == callNode {
				kind = "script-body"
			} else if !call.Call.IsInvoke() && call.Call.StaticCallee() == nil {
				if _, isBuiltin := call.Call.Value.(*ssa.Builtin); !isBuiltin {
					kind = "native-function-value"
				}
			}
			if kind == "" {
				continue
			}
			n++
			bad := uncovered(objCall, call, isAccount, true)
			r.check(!bad, fmt.Sprintf("(*object).call:%s#%d", kind, n), c.Pos(instrPos(call)),
				"every path to this invocation passes through enterScope (or is the direct-eval branch)",
				fmt.Sprintf("(*object).call reaches the %s invocation on a path that enters no scope and is not the direct-eval branch: nothing counts that call against the stack depth limit, so recursion through it (Array.prototype.join on a self-containing array called from Go on a runtime at rest) exhausts the Go stack", kind))
		}
	}
	if n < 2 {
		r.undecided("unresolved:invocations", c.Pos(objCall.Pos()), fmt.Sprintf("UNRESOLVED: %d invocation points found in (*object).call (native function value and script body expected)", n))
	}
	// the eval flag is the identity test against runtime.eval
	flagOK := false
	for _, b := range objCall.Blocks {
		for _, ins := range b.Instrs {
			bo, ok := ins.(*ssa.BinOp)
			if !ok || bo.Op != token.EQL {
				continue
			}
			for _, v := range []ssa.Value{bo.X, bo.Y} {
				if ld, ok := v.(*ssa.UnOp); ok && ld.Op == token.MUL && isFieldAddr(ld.X, "runtime", "eval") {
					flagOK = true
				}
			}
		}
	}
	r.check(flagOK, "(*object).call:eval-flag", c.Pos(objCall.Pos()), "the direct-eval branch is taken only for the function object stored in runtime.eval", "the eval flag of (*object).call is no longer narrowed to `o == runtime.eval`: any native function called with eval=true skips the scope")
	// who writes scope.depth: enterScope (depth = outer.depth + 1) and the eval built-in's increment / deferred decrement.
	// Any other writer can take a frame out of the count (a native frame "kept at its caller's depth").
	for _, fn := range c.AllSrcFuncs("") {
		ordw := 0
		for _, b := range fn.Blocks {
			for _, ins := range b.Instrs {
				st, ok := ins.(*ssa.Store)
				if !ok || !isFieldAddr(st.Addr, "scope", "depth") {
					continue
				}
				ordw++
				owner := fn
				for owner.Parent() != nil {
					owner = owner.Parent()
				}
				key := fmt.Sprintf("depth-writer:%s#%d", ssaFuncName(fn), ordw)
				switch {
				case owner == enterScope:
					r.ok(key, c.Pos(instrPos(st)), "enterScope numbers the scope it pushes")
				case owner == evalFn:
					bo, isBin := st.Val.(*ssa.BinOp)
					switch {
					case isBin && bo.Op == token.ADD:
						r.ok(key, c.Pos(instrPos(st)), "the eval built-in counts a direct eval")
					case isBin && bo.Op == token.SUB:
						r.check(fn.Parent() != nil && isDeferredLiteral(fn), key, c.Pos(instrPos(st)), "the decrement runs in a deferred function: it also runs when the eval code throws",
							"builtinGlobalEval decrements scope.depth in straight-line code after evaluating: an exception (or the RangeError of the limit itself) leaving the eval code skips it, so every caught failure inside a direct eval leaks one level of the caller's depth and the limit no longer admits the configured nesting")
					default:
						r.bad(key, c.Pos(instrPos(st)), "builtinGlobalEval stores something other than depth+1 / depth-1 to scope.depth")
					}
				default:
					r.bad(key, c.Pos(instrPos(st)), fmt.Sprintf("%s writes scope.depth: only enterScope (and the eval built-in's paired increment / deferred decrement) may, otherwise frames drop out of the count the stack depth limit is compared with (native-only recursion such as join on a self-containing array then never reaches the limit and exhausts the Go stack)", ssaFuncName(fn)))
				}
			}
		}
	}
	// the eval built-in
	evalAccount := func(ins ssa.Instruction) bool {
		if isAccount(ins) {
			return true
		}
		if st, ok := ins.(*ssa.Store); ok && isFieldAddr(st.Addr, "scope", "depth") {
			if bo, ok := st.Val.(*ssa.BinOp); ok && bo.Op == token.ADD {
				// the increment must sit behind a comparison with the limit in the same function (or in a helper that only
				// this function calls: the check extracted into a method)
				fams := []*ssa.Function{evalFn}
				for _, b := range evalFn.Blocks {
					for _, i2 := range b.Instrs {
						if cl, ok := i2.(*ssa.Call); ok {
							if cal := cl.Call.StaticCallee(); cal != nil && cal.Blocks != nil && cal.Pkg == evalFn.Pkg && c.partOf(cal, evalFn.Name(), 0) {
								fams = append(fams, cal)
							}
						}
					}
				}
				for _, fam := range fams {
					for _, b := range fam.Blocks {
						for _, i2 := range b.Instrs {
							if ld, ok := i2.(*ssa.UnOp); ok && ld.Op == token.MUL && isFieldAddr(ld.X, "runtime", "stackLimit") {
								return true
							}
						}
					}
				}
			}
		}
		return false
	}
	m := 0
	for _, b := range evalFn.Blocks {
		for _, ins := range b.Instrs {
			call, ok := ins.(*ssa.Call)
			if !ok || call.Call.StaticCallee() != evalProgram {
				continue
			}
			m++
			// a nil scope (runtime at rest) cannot recurse: the branch `scope != nil` false side is harmless, so prune nothing
			// but accept a path on which rt.scope is nil
			bad := uncoveredNonNilScope(evalFn, call, evalAccount)
			r.check(!bad, fmt.Sprintf("builtinGlobalEval:evaluate#%d", m), c.Pos(instrPos(call)),
				"eval code is evaluated only after an enterScope-family call or a limit-checked increment of scope.depth",
				"builtinGlobalEval evaluates the program on a path with no depth accounting: `var s = \"eval(s)\"; eval(s)` recurses eval-in-eval without ever entering a scope and exhausts the Go stack (fatal) although a stack depth limit is set")
		}
	}
	if m == 0 {
		r.undecided("unresolved:eval-evaluate", c.Pos(evalFn.Pos()), "UNRESOLVED: builtinGlobalEval does not call cmplEvaluateNodeProgram")
	}
}

// uncoveredNonNilScope: like the path search above, but the edge on which a load of runtime.scope is nil is not followed
// (with no scope there is no caller to recurse from).
func uncoveredNonNilScope(fn *ssa.Function, target ssa.Instruction, account func(ssa.Instruction) bool) bool {
	seen := map[*ssa.BasicBlock]bool{}
	var dfs func(b *ssa.BasicBlock) bool
	dfs = func(b *ssa.BasicBlock) bool {
		if seen[b] {
			return false
		}
		seen[b] = true
		for _, ins := range b.Instrs {
			if ins == target {
				return true
			}
			if account(ins) {
				return false
			}
		}
		skip := -1
		if iff, ok := b.Instrs[len(b.Instrs)-1].(*ssa.If); ok {
			if bo, ok := iff.Cond.(*ssa.BinOp); ok && (bo.Op == token.NEQ || bo.Op == token.EQL) {
				var other ssa.Value
				if isNilConst(bo.Y) {
					other = bo.X
				} else if isNilConst(bo.X) {
					other = bo.Y
				}
				if other != nil {
					other = normCell(other)
				}
				if ld, ok := other.(*ssa.UnOp); ok && ld.Op == token.MUL && isFieldAddr(ld.X, "runtime", "scope") {
					skip = 1 // != nil: false side is nil
					if bo.Op == token.EQL {
						skip = 0
					}
				}
			}
		}
		for i, s := range b.Succs {
			if i == skip {
				continue
			}
			if dfs(s) {
				return true
			}
		}
		return false
	}
	return dfs(fn.Blocks[0])
}

// FRAME-file: the source file recorded in an activation's frame is what its offsets are resolved against. A function
// that has not entered a scope of its own writes into the frame of whoever called it.

func init() {
	register(&Rule{ID: "FRAME-file", Props: []string{"C19"}, Min: 2,
		Doc: "P (pairing, path-based): every store to scope.frame.file (or to the whole frame) is made on a scope the function has entered itself on every path to the store (enterScope family), or the function defers a store that writes the saved value back. cmplEvaluateNodeProgram runs direct eval code in the caller's scope: without the deferred restore the caller's frame keeps the eval text as its file and every later position of that activation is resolved against the wrong text (`at f (<unknown>)`, or a silently wrong `<anonymous>:27:1`)",
		Run: ruleFrameFile})
}

func ruleFrameFile(c *Ctx, r *R) {
	var enterScope *ssa.Function
	for _, fn := range c.AllSrcFuncs("") {
		if ssaFuncName(fn) == "(*runtime).enterScope" {
			enterScope = fn
		}
	}
	if enterScope == nil {
		r.undecided("unresolved:enterScope", "-", "UNRESOLVED: (*runtime).enterScope not found")
		return
	}
	family := enterFamily(c, enterScope)
	isFrameFileAddr := func(v ssa.Value) (whole bool, ok bool) {
		fa, isFA := v.(*ssa.FieldAddr)
		if !isFA {
			return false, false
		}
		if isFieldAddr(fa, "scope", "frame") {
			return true, true
		}
		if isFieldAddr(fa, "frame", "file") {
			if inner, ok := fa.X.(*ssa.FieldAddr); ok && isFieldAddr(inner, "scope", "frame") {
				return false, true
			}
		}
		return false, false
	}
	n := 0
	for _, fn := range c.AllSrcFuncs("") {
		ord := 0
		for _, b := range fn.Blocks {
			for _, ins := range b.Instrs {
				st, ok := ins.(*ssa.Store)
				if !ok {
					continue
				}
				_, isFF := isFrameFileAddr(st.Addr)
				if !isFF {
					continue
				}
				if fn.Parent() != nil && isDeferredLiteral(fn) {
					continue // the restoring store itself
				}
				n++
				ord++
				key := fmt.Sprintf("%s:store#%d", ssaFuncName(fn), ord)
				site := c.Pos(instrPos(st))
				own := !reachableWithout(fn, st, func(i ssa.Instruction) bool {
					call, ok := i.(*ssa.Call)
					return ok && family[call.Call.StaticCallee()]
				})
				if own {
					r.ok(key, site, "the function enters a scope of its own on every path to this store")
					continue
				}
				// a deferred literal that stores to scope.frame.file
				restored := false
				for _, b2 := range fn.Blocks {
					for _, i2 := range b2.Instrs {
						d, ok := i2.(*ssa.Defer)
						if !ok {
							continue
						}
						var lit *ssa.Function
						switch v := d.Call.Value.(type) {
						case *ssa.MakeClosure:
							lit, _ = v.Fn.(*ssa.Function)
						case *ssa.Function:
							lit = v
						}
						if lit == nil {
							continue
						}
						for _, b3 := range lit.Blocks {
							for _, i3 := range b3.Instrs {
								if s3, ok := i3.(*ssa.Store); ok {
									if fa, ok := s3.Addr.(*ssa.FieldAddr); ok && isFieldAddr(fa, "frame", "file") {
										restored = true
									}
								}
							}
						}
						// the defer must be reached on every path that reaches the store without an own scope
						if restored && reachableWithout(fn, st, func(i ssa.Instruction) bool {
							if i == i2 {
								return true
							}
							call, ok := i.(*ssa.Call)
							return ok && family[call.Call.StaticCallee()]
						}) {
							restored = false
						}
					}
				}
				r.check(restored, key, site, "the store is made on the caller's scope on some path, and a deferred store puts the saved file back",
					fmt.Sprintf("%s stores to scope.frame.file on a path where it has entered no scope of its own and nothing restores the previous value: the calling activation keeps the callee's file, so its later positions are resolved against the wrong source text (`function f(){ eval('1'); nosuch() }` reports `at f (<unknown>)`)", ssaFuncName(fn)))
			}
		}
	}
	if n == 0 {
		r.undecided("unresolved:stores", "-", "UNRESOLVED: no store to scope.frame / scope.frame.file found")
	}
}

func isDeferredLiteral(lit *ssa.Function) bool {
	p := lit.Parent()
	if p == nil {
		return false
	}
	for _, b := range p.Blocks {
		for _, ins := range b.Instrs {
			if d, ok := ins.(*ssa.Defer); ok {
				switch v := d.Call.Value.(type) {
				case *ssa.MakeClosure:
					if v.Fn == ssa.Value(lit) {
						return true
					}
				case *ssa.Function:
					if v == lit {
						return true
					}
				}
			}
		}
	}
	return false
}

// enterFamily: enterScope and every function that calls a member on all its paths.
func enterFamily(c *Ctx, enterScope *ssa.Function) map[*ssa.Function]bool {
	family := map[*ssa.Function]bool{enterScope: true}
	for changed := true; changed; {
		changed = false
		for _, fn := range c.AllSrcFuncs("") {
			if family[fn] {
				continue
			}
			for _, b := range fn.Blocks {
				for _, ins := range b.Instrs {
					call, ok := ins.(*ssa.Call)
					if !ok || !family[call.Call.StaticCallee()] {
						continue
					}
					all := true
					for _, b2 := range fn.Blocks {
						if _, isRet := b2.Instrs[len(b2.Instrs)-1].(*ssa.Return); isRet && !b.Dominates(b2) {
							all = false
						}
					}
					if all && !family[fn] {
						family[fn] = true
						changed = true
					}
				}
			}
		}
	}
	return family
}

// reachableWithout: target is reachable from the entry of fn without executing an instruction for which cut is true.
// The search is path-sensitive in the boolean parameters of fn: a branch on a parameter fixes its value for the rest of
// the path (two `if eval` tests cannot disagree).
func reachableWithout(fn *ssa.Function, target ssa.Instruction, cut func(ssa.Instruction) bool) bool {
	type state struct {
		b     *ssa.BasicBlock
		facts string
	}
	seen := map[state]bool{}
	var dfs func(b *ssa.BasicBlock, facts map[ssa.Value]bool) bool
	key := func(facts map[ssa.Value]bool) string {
		ks := []string{}
		for v, t := range facts {
			ks = append(ks, fmt.Sprintf("%s=%v", v.Name(), t))
		}
		sort.Strings(ks)
		return strings.Join(ks, ",")
	}
	dfs = func(b *ssa.BasicBlock, facts map[ssa.Value]bool) bool {
		st := state{b, key(facts)}
		if seen[st] {
			return false
		}
		seen[st] = true
		for _, ins := range b.Instrs {
			if ins == target {
				return true
			}
			if cut(ins) {
				return false
			}
		}
		if iff, ok := b.Instrs[len(b.Instrs)-1].(*ssa.If); ok {
			if v, neg := normBool(iff.Cond); v != nil {
				if p, isParam := v.(*ssa.Parameter); isParam {
					for i, s := range b.Succs {
						val := (i == 0) != neg // value of p on this edge
						if known, ok := facts[p]; ok && known != val {
							continue
						}
						nf := map[ssa.Value]bool{}
						for k, t := range facts {
							nf[k] = t
						}
						nf[p] = val
						if dfs(s, nf) {
							return true
						}
					}
					return false
				}
			}
		}
		for _, s := range b.Succs {
			if dfs(s, facts) {
				return true
			}
		}
		return false
	}
	return dfs(fn.Blocks[0], map[ssa.Value]bool{})
}
