package main

import (
	"fmt"
	"go/token"
	"go/types"
	"os"
	"sort"
	"strings"

	"golang.org/x/tools/go/ssa"
)

func init() {
	register(&Rule{ID: "INTERRUPT-unwind", Props: []string{"C18"}, Min: 5,
		Doc: "P (path simulation over every recover handler of package otto): a panic raised by the function received on Otto.Interrupt is never turned into a value the script can catch, and it leaves Run as the value that was panicked. Slots filled from the code: the poll sites (non-blocking receives on Otto.Interrupt), the wrapper they hand the received function to and the marker type its handler wraps the panic in, the recover handlers, and which of them sit directly under the exported API (reached from an exported function without passing an evaluator entry function). For the dynamic type of the marker (or, when the polls call the received function directly, for a type no handler names) each handler's control flow is followed through its type assertions, type switches and nil tests: every exit must be a panic; a handler inside the evaluator (the try statement's) must re-panic the marker itself so that enclosing try statements do not catch it either, and a handler directly under the API must panic with the value taken out of the marker",
		Run: ruleInterruptUnwind})
}

// fromRecover: v is (a copy, assertion or extraction of) the result of a recover() call.
func fromRecover(v ssa.Value) bool {
	seen := map[ssa.Value]bool{}
	var from func(v ssa.Value, d int) bool
	from = func(v ssa.Value, d int) bool {
		if d > 6 || seen[v] {
			return false
		}
		seen[v] = true
		switch x := v.(type) {
		case *ssa.Call:
			if bi, ok := x.Call.Value.(*ssa.Builtin); ok && bi.Name() == "recover" {
				return true
			}
		case *ssa.Parameter:
			// the handler's work moved into a helper: the parameter is the recovered value when every call site says so
			if curCtx != nil {
				return curCtx.argAtAllCallSites(x, func(a ssa.Value, _ ssa.CallInstruction) bool { return from(a, d+1) }, 0)
			}
		case *ssa.Phi:
			for _, e := range x.Edges {
				if from(e, d+1) {
					return true
				}
			}
		case *ssa.UnOp:
			if al, ok := x.X.(*ssa.Alloc); ok {
				for _, ref := range *al.Referrers() {
					if st, ok := ref.(*ssa.Store); ok && from(st.Val, d+1) {
						return true
					}
				}
			}
			return from(x.X, d+1)
		case *ssa.ChangeInterface:
			return from(x.X, d+1)
		case *ssa.MakeInterface:
			return from(x.X, d+1)
		case *ssa.TypeAssert:
			return from(x.X, d+1)
		case *ssa.Extract:
			return from(x.Tuple, d+1)
		}
		return false
	}
	return from(v, 0)
}

// recoverPanicMode classifies the operand of a panic inside a recover handler:
// "same" (the recovered value itself), "unwrap" (a field of the recovered value asserted to struct type T),
// "wrap" (a composite literal of struct type T holding the recovered value), "" otherwise.
func recoverPanicMode(p *ssa.Panic) (string, types.Type) {
	v := p.X
	if mi, ok := v.(*ssa.MakeInterface); ok {
		if ld, ok := mi.X.(*ssa.UnOp); ok && ld.Op == token.MUL {
			if al, ok := ld.X.(*ssa.Alloc); ok {
				for _, ref := range *al.Referrers() {
					fa, ok := ref.(*ssa.FieldAddr)
					if !ok {
						continue
					}
					for _, r2 := range *fa.Referrers() {
						if st, ok := r2.(*ssa.Store); ok && st.Addr == ssa.Value(fa) && fromRecover(st.Val) {
							return "wrap", mi.X.Type()
						}
					}
				}
			}
		}
	}
	if f, ok := v.(*ssa.Field); ok && fromRecover(f.X) {
		return "unwrap", f.X.Type()
	}
	if ld, ok := v.(*ssa.UnOp); ok && ld.Op == token.MUL {
		if fa, ok := ld.X.(*ssa.FieldAddr); ok {
			if l2, ok := fa.X.(*ssa.UnOp); ok && fromRecover(l2) {
				return "unwrap", l2.Type()
			}
			if al, ok := fa.X.(*ssa.Alloc); ok {
				for _, ref := range *al.Referrers() {
					if st, ok := ref.(*ssa.Store); ok && st.Addr == ssa.Value(al) && fromRecover(st.Val) {
						return "unwrap", st.Val.Type()
					}
				}
			}
		}
	}
	if fromRecover(v) {
		return "same", nil
	}
	return "", nil
}

type handlerExit struct {
	kind string // return | same | unwrap | wrap | other
	typ  types.Type
	at   ssa.Instruction
}

// simulateHandler follows the control flow of a recover handler for a recovered value whose dynamic type is dyn
// (nil: a type that no assertion in the handler names and that implements no non-empty interface).
func simulateHandler(h *ssa.Function, dyn types.Type) []handlerExit {
	return simulateHandlerX(h, dyn, false)
}

var simDepth int

// simulateHandlerX with any=true follows both sides of every type assertion (the recovered value is arbitrary).
func simulateHandlerX(h *ssa.Function, dyn types.Type, any bool) []handlerExit {
	var exits []handlerExit
	seen := map[*ssa.BasicBlock]bool{}
	var walk func(b *ssa.BasicBlock)
	walk = func(b *ssa.BasicBlock) {
		if seen[b] {
			return
		}
		seen[b] = true
		// a helper that receives the recovered value continues the handler: its exits are the handler's, except that
		// where it returns the handler goes on
		for _, ins := range b.Instrs {
			call, ok := ins.(*ssa.Call)
			if !ok {
				continue
			}
			callee := call.Call.StaticCallee()
			if callee == nil || len(callee.Blocks) == 0 || callee.Pkg != h.Pkg || callee == h || simDepth > 2 {
				continue
			}
			passes := false
			for _, a := range call.Call.Args {
				if fromRecover(a) {
					passes = true
				}
			}
			if !passes {
				continue
			}
			simDepth++
			inner := simulateHandlerX(callee, dyn, any)
			simDepth--
			returns := false
			for _, e := range inner {
				if e.kind == "return" {
					returns = true
				} else {
					exits = append(exits, e)
				}
			}
			if !returns && len(inner) > 0 {
				return // the helper never comes back on this input
			}
		}
		last := b.Instrs[len(b.Instrs)-1]
		switch x := last.(type) {
		case *ssa.Return:
			exits = append(exits, handlerExit{"return", nil, x})
		case *ssa.Panic:
			mode, t := recoverPanicMode(x)
			if mode == "" {
				mode = "other"
			}
			exits = append(exits, handlerExit{mode, t, x})
		case *ssa.If:
			take := -1
			switch cnd := x.Cond.(type) {
			case *ssa.Extract:
				if ta, ok := cnd.Tuple.(*ssa.TypeAssert); ok && ta.CommaOk && cnd.Index == 1 && fromRecover(ta.X) && !any {
					if it, ok := ta.AssertedType.Underlying().(*types.Interface); ok {
						switch {
						case it.Empty():
							take = 0
						case dyn == nil:
							take = 1
						case types.Implements(dyn, it):
							take = 0
						default:
							take = 1
						}
					} else if dyn != nil && types.Identical(dyn, ta.AssertedType) {
						take = 0
					} else {
						take = 1
					}
				}
			case *ssa.BinOp:
				if isNilConst(cnd.Y) && fromRecover(cnd.X) {
					if cnd.Op == token.NEQ {
						take = 0
					} else if cnd.Op == token.EQL {
						take = 1
					}
				}
			}
			if take >= 0 {
				walk(b.Succs[take])
			} else {
				walk(b.Succs[0])
				walk(b.Succs[1])
			}
		default:
			for _, s := range b.Succs {
				walk(s)
			}
		}
	}
	if len(h.Blocks) > 0 {
		walk(h.Blocks[0])
	}
	return exits
}

func callsRecover(fn *ssa.Function) bool {
	for _, b := range fn.Blocks {
		for _, ins := range b.Instrs {
			if call, ok := ins.(*ssa.Call); ok {
				if bi, ok := call.Call.Value.(*ssa.Builtin); ok && bi.Name() == "recover" {
					return true
				}
			}
		}
	}
	return false
}

func ruleInterruptUnwind(c *Ctx, r *R) {
	funcs := c.AllSrcFuncs("")
	// poll sites and the wrapper they use
	var wrapper *ssa.Function
	nPoll, nDirect := 0, 0
	for _, fn := range funcs {
		for _, b := range fn.Blocks {
			sel := selectsOnInterrupt(b)
			if sel == nil {
				continue
			}
			nPoll++
			for _, b2 := range fn.Blocks {
				for _, ins := range b2.Instrs {
					call, ok := ins.(*ssa.Call)
					if !ok {
						continue
					}
					if ex, ok := call.Call.Value.(*ssa.Extract); ok && ex.Tuple == ssa.Value(sel) && ex.Index >= 2 {
						nDirect++
						r.ok(fmt.Sprintf("poll:%s#%d", ssaFuncName(fn), nPoll), c.Pos(instrPos(call)), "the received function is called directly: its panic carries no marker (the handlers are simulated for an unnamed type)")
					}
					if callee := call.Call.StaticCallee(); callee != nil {
						for _, a := range call.Call.Args {
							if ex, ok := a.(*ssa.Extract); ok && ex.Tuple == ssa.Value(sel) && ex.Index >= 2 {
								if wrapper != nil && wrapper != callee {
									r.undecided("wrapper", c.Pos(instrPos(call)), "UNRESOLVED: poll sites use different wrappers: "+ssaFuncName(wrapper)+" and "+ssaFuncName(callee))
								}
								wrapper = callee
								r.ok(fmt.Sprintf("poll:%s#%d", ssaFuncName(fn), nPoll), c.Pos(instrPos(call)), "the received function is run by "+ssaFuncName(callee))
							}
						}
					}
				}
			}
		}
	}
	if nPoll == 0 {
		r.undecided("polls", "-", "UNRESOLVED: no receive on Otto.Interrupt found")
		return
	}
	// marker type: what the wrapper's handler wraps a foreign panic in
	var marker types.Type
	var wrapHandler *ssa.Function
	if wrapper != nil {
		if nDirect > 0 {
			r.bad("poll:mixed", c.Pos(wrapper.Pos()), "some poll sites call the received function directly and others through "+ssaFuncName(wrapper)+": the direct ones raise an unmarked panic that the try statement's handler converts into a catchable value")
		}
		for _, an := range deferredHandlers(wrapper) {
			wrapHandler = an
		}
		if wrapHandler == nil {
			r.bad("wrapper:"+ssaFuncName(wrapper), c.Pos(wrapper.Pos()), ssaFuncName(wrapper)+" runs the interrupt function without a recover handler: its panic is not marked, and the try statement's handler converts it into a value the script's catch clause receives")
		} else {
			okAll := true
			exits := simulateHandlerX(wrapHandler, nil, true)
			for _, e := range exits {
				if e.kind == "wrap" {
					if marker != nil && !types.Identical(marker, e.typ) {
						okAll = false
					}
					marker = e.typ
				} else {
					okAll = false
				}
			}
			if okAll && marker != nil {
				r.ok("wrapper:"+ssaFuncName(wrapper), c.Pos(wrapper.Pos()), "every panic of the interrupt function is re-panicked wrapped in "+typeStr(marker))
			} else {
				r.bad("wrapper:"+ssaFuncName(wrapper), c.Pos(wrapHandler.Pos()), "the handler of "+ssaFuncName(wrapper)+" does not re-panic every recovered value wrapped in one marker type ("+describeExits(c, exits)+"): an interrupt panic is swallowed or leaves unmarked")
				marker = nil
			}
		}
	}
	// callers (static calls, defers, closures belong to their parent)
	callers := map[*ssa.Function]map[*ssa.Function]bool{}
	add := func(callee, caller *ssa.Function) {
		if callee == nil {
			return
		}
		if callers[callee] == nil {
			callers[callee] = map[*ssa.Function]bool{}
		}
		callers[callee][caller] = true
	}
	for _, fn := range funcs {
		if p := fn.Parent(); p != nil {
			add(fn, p)
		}
		for _, b := range fn.Blocks {
			for _, ins := range b.Instrs {
				if ci, ok := ins.(ssa.CallInstruction); ok {
					add(ci.Common().StaticCallee(), fn)
				}
			}
		}
	}
	entries := map[*ssa.Function]bool{}
	for _, e := range evaluatorEntries(c) {
		entries[e] = true
	}
	if len(entries) != 2 {
		r.undecided("entries", "-", "UNRESOLVED evaluator entry functions")
		return
	}
	// the invocation of a function object is inside the evaluator as well (what it calls runs as part of a script)
	for _, fn := range funcs {
		if fn.Name() == "call" && fn.Signature.Recv() != nil && typeStr(fn.Signature.Recv().Type()) == "*object" {
			entries[fn] = true
		}
	}
	// unwrappers: functions that defer a handler with an unwrapping exit (catchPanic): what runs below one of them - the
	// function it is handed, too - is not the outermost handler
	unwrappers := map[*ssa.Function]bool{}
	if marker != nil {
		for _, fn := range funcs {
			if !callsRecover(fn) || fn == wrapHandler {
				continue
			}
			for _, e := range simulateHandler(fn, marker) {
				if e.kind == "unwrap" {
					for _, d := range deferrersOf(c, fn) {
						unwrappers[d] = true
					}
				}
			}
		}
	}
	handedToUnwrapper := func(f *ssa.Function) bool {
		p := f.Parent()
		if p == nil {
			return false
		}
		for _, b := range p.Blocks {
			for _, ins := range b.Instrs {
				ci, ok := ins.(ssa.CallInstruction)
				if !ok || !unwrappers[ci.Common().StaticCallee()] {
					continue
				}
				for _, a := range ci.Common().Args {
					if mc, ok := a.(*ssa.MakeClosure); ok && mc.Fn == ssa.Value(f) {
						return true
					}
				}
			}
		}
		return false
	}
	underAPI := func(fn *ssa.Function) bool {
		seen := map[*ssa.Function]bool{}
		var up func(f, from *ssa.Function) bool
		up = func(f, from *ssa.Function) bool {
			if seen[f] || entries[f] {
				return false
			}
			seen[f] = true
			if f != fn && handedToUnwrapper(f) {
				return false // an unwrapping handler lies between the API and fn on this path
			}
			if f != fn && unwrappers[f] {
				own := false // reached from f's own handler: that runs after f's recover, nothing of f protects it
				for _, h := range deferredHandlers(f) {
					own = own || h == from
				}
				if !own {
					return false
				}
			}
			if f.Parent() == nil && f.Object() != nil && f.Object().Exported() {
				if recv := f.Signature.Recv(); recv == nil {
					return true
				} else if n := derefNamed(recv.Type()); n != nil && n.Obj().Exported() {
					return true
				}
			}
			for cl := range callers[f] {
				if up(cl, f) {
					if os.Getenv("OTTOCHECK_APIPATH") != "" {
						fmt.Fprintln(os.Stderr, "  apipath:", ssaFuncName(f), "<-", ssaFuncName(cl))
					}
					return true
				}
			}
			return false
		}
		return up(fn, nil)
	}
	what := "the marker " + typeStrOrNone(marker)
	if marker == nil {
		what = "a panic value of a type the handler does not name (the interrupt function's panic is not marked)"
	}
	var handlers []*ssa.Function
	for _, fn := range funcs {
		if callsRecover(fn) && fn != wrapHandler {
			handlers = append(handlers, fn)
		}
	}
	sort.Slice(handlers, func(i, j int) bool { return ssaFuncName(handlers[i]) < ssaFuncName(handlers[j]) })
	for _, h := range handlers {
		exits := simulateHandler(h, marker)
		api := false
		for _, d := range deferrersOf(c, h) {
			api = api || underAPI(d)
		}
		// the guard of the API itself: a function the exported functions call directly (catchPanic). Only such a handler
		// is at fault when it passes the marker on; a handler further down (a helper that filters script exceptions and
		// re-panics everything else unchanged) is transparent - what is above it decides
		apiGuard := false
		var guardLevel func(d *ssa.Function, depth int) bool
		guardLevel = func(d *ssa.Function, depth int) bool {
			if depth > 2 {
				return false
			}
			for cl := range callers[d] {
				top := cl
				for top.Parent() != nil {
					top = top.Parent()
				}
				if top.Object() != nil && top.Object().Exported() {
					if recv := top.Signature.Recv(); recv == nil {
						return true
					} else if n := derefNamed(recv.Type()); n != nil && n.Obj().Exported() {
						return true
					}
				}
				// called from the handler of a guard (uncaughtString in catchPanic's handler): that runs after the guard's
				// recover, so it is at the guard's level itself
				if p := cl.Parent(); p != nil && cl != d {
					for _, hh := range deferredHandlers(p) {
						if hh == cl && guardLevel(p, depth+1) {
							return true
						}
					}
				}
			}
			return false
		}
		for _, d := range deferrersOf(c, h) {
			apiGuard = apiGuard || guardLevel(d, 0)
		}
		// inside the evaluator as well: some caller chain of the deferrer leads up to an evaluator entry without passing a
		// function that guards the API (an unwrapper, its handlers, or a closure handed to one) - a helper that error
		// construction or a built-in calls while a script runs. Such a handler must not unwrap, whatever else calls it
		evalSide := false
		{
			seen := map[*ssa.Function]bool{}
			var upE func(f *ssa.Function, start bool) bool
			upE = func(f *ssa.Function, start bool) bool {
				if seen[f] {
					return false
				}
				seen[f] = true
				if entries[f] {
					return true
				}
				if !start {
					if unwrappers[f] || handedToUnwrapper(f) {
						return false
					}
					if p := f.Parent(); p != nil && unwrappers[p] {
						return false
					}
				}
				for cl := range callers[f] {
					// a closure runs as part of its parent only when the parent calls it, defers it or hands it to a
					// call; a closure that is stored (a native function's body) is a value, not a call
					if cl == f.Parent() && !closureUsedInCall(f) {
						continue
					}
					if upE(cl, false) {
						if os.Getenv("OTTOCHECK_APIPATH") != "" {
							fmt.Fprintln(os.Stderr, "  evalpath:", ssaFuncName(f), "<-", ssaFuncName(cl))
						}
						return true
					}
				}
				return false
			}
			for _, d := range deferrersOf(c, h) {
				evalSide = evalSide || upE(d, true)
			}
		}
		key := "handler:" + ssaFuncName(h)
		site := c.Pos(h.Pos())
		var bad []string
		for _, e := range exits {
			switch {
			case e.kind == "return":
				bad = append(bad, "returns normally at "+c.Pos(instrPos(e.at)))
			case e.kind == "other":
				bad = append(bad, "panics with a different value at "+c.Pos(instrPos(e.at)))
			case e.kind == "wrap":
				bad = append(bad, "wraps the value again at "+c.Pos(instrPos(e.at)))
			case marker != nil && api && apiGuard && e.kind == "same":
				bad = append(bad, "re-panics the marker itself at "+c.Pos(instrPos(e.at))+" although nothing above it unwraps it: Run panics with the wrapper, not with the value the interrupt function panicked with")
			case marker != nil && (!api || evalSide) && e.kind == "unwrap":
				bad = append(bad, "unwraps the marker at "+c.Pos(instrPos(e.at))+" inside the evaluator: an enclosing try statement catches the bare value")
			}
		}
		// a handler under the exported API unwraps - but the API can be entered again while a script runs (a host function
		// that calls Value.Call / Value.String / Otto.Run; a conversion the evaluator itself asks of the API): there the
		// unwrapped value meets the try statements of the running script. The unwrap must depend on something that
		// tells the outermost entry from a nested one, not only on the type of the recovered value.
		if api && marker != nil {
			for _, e := range exits {
				if e.kind != "unwrap" {
					continue
				}
				guarded := false
				for _, b := range h.Blocks {
					iff, ok := b.Instrs[len(b.Instrs)-1].(*ssa.If)
					if !ok || !b.Dominates(e.at.Block()) {
						continue
					}
					if !condOnRecoveredOnly(iff.Cond, 0) {
						guarded = true
					}
				}
				r.check(guarded, "nested-unwrap:"+ssaFuncName(h), c.Pos(instrPos(e.at)), "the unwrap depends on a test that tells the outermost entry from a nested one",
					fmt.Sprintf("%s unwraps %s whenever it recovers it, but it also runs nested: the exported API it serves can be entered while a script is running (a host function calling Value.Call, Value.String or Otto.Run on the same runtime). A nested entry hands the bare value to the try statements of the running script, which treat it as a foreign panic and convert it (tryCatchEvaluate's default arm): `try { each(function(){ for(;;){} }) } catch (e) {}` with a Go `each` that uses Value.Call, interrupted with panic(halt), does not unwind Run with halt", ssaFuncName(h), what))
			}
		}
		role := "inside the evaluator"
		if api {
			role = "directly under the exported API"
		}
		if len(exits) == 0 {
			r.undecided(key, site, "UNRESOLVED: no exit found in the handler")
			continue
		}
		if len(bad) == 0 {
			r.ok(key, site, fmt.Sprintf("%s (%s): for %s every exit is a panic (%s)", ssaFuncName(h), role, what, describeExits(c, exits)))
		} else {
			r.bad(key, site, fmt.Sprintf("%s (%s): for %s the handler %s. A panic raised by the function sent on Otto.Interrupt must unwind Run with that value and the script must not continue (`try { for(;;){} } catch(e){}` interrupted with `panic(halt)`)", ssaFuncName(h), role, what, strings.Join(bad, "; ")))
		}
	}
	r.note("polls", nPoll)
	r.note("handlers", len(handlers))
}

func typeStrOrNone(t types.Type) string {
	if t == nil {
		return "(none)"
	}
	return typeStr(t)
}

func describeExits(c *Ctx, exits []handlerExit) string {
	var parts []string
	for _, e := range exits {
		s := e.kind
		if e.typ != nil {
			s += " " + typeStr(e.typ)
		}
		parts = append(parts, s)
	}
	sort.Strings(parts)
	return strings.Join(parts, ", ")
}

// condOnRecoveredOnly: the condition is computed from the recovered value alone - its type (comma-ok assertion, type
// switch), a nil test - and from nothing else (no field, no call result, no captured variable).
func condOnRecoveredOnly(v ssa.Value, depth int) bool {
	if depth > 6 {
		return false
	}
	switch x := v.(type) {
	case *ssa.Const:
		return true
	case *ssa.Extract:
		return condOnRecoveredOnly(x.Tuple, depth+1)
	case *ssa.TypeAssert:
		return condOnRecoveredOnly(x.X, depth+1)
	case *ssa.BinOp:
		return condOnRecoveredOnly(x.X, depth+1) && condOnRecoveredOnly(x.Y, depth+1)
	case *ssa.UnOp:
		return x.Op != token.MUL && condOnRecoveredOnly(x.X, depth+1)
	case *ssa.Phi:
		for _, e := range x.Edges {
			if !condOnRecoveredOnly(e, depth+1) {
				return false
			}
		}
		return true
	case *ssa.Call:
		if b, ok := x.Call.Value.(*ssa.Builtin); ok && b.Name() == "recover" {
			return true
		}
		// eject() of an exception wrapper and the like: a method of the recovered value
		if cal := x.Call.StaticCallee(); cal != nil && cal.Signature.Recv() != nil && len(x.Call.Args) == 1 {
			return condOnRecoveredOnly(x.Call.Args[0], depth+1)
		}
		return false
	case *ssa.MakeInterface:
		return condOnRecoveredOnly(x.X, depth+1)
	case *ssa.ChangeInterface:
		return condOnRecoveredOnly(x.X, depth+1)
	}
	return false
}

// closureUsedInCall: the parent of the closure calls it, defers it, or passes it as an argument of a call.
func closureUsedInCall(f *ssa.Function) bool {
	p := f.Parent()
	if p == nil {
		return false
	}
	for _, b := range p.Blocks {
		for _, ins := range b.Instrs {
			ci, ok := ins.(ssa.CallInstruction)
			if !ok {
				continue
			}
			cc := ci.Common()
			if mc, ok := cc.Value.(*ssa.MakeClosure); ok && mc.Fn == ssa.Value(f) {
				return true
			}
			if cc.Value == ssa.Value(f) {
				return true
			}
			for _, a := range cc.Args {
				if mc, ok := a.(*ssa.MakeClosure); ok && mc.Fn == ssa.Value(f) {
					return true
				}
				if a == ssa.Value(f) {
					return true
				}
			}
		}
	}
	return false
}
