package main

import (
	"fmt"
	"go/ast"
	"go/constant"
	"go/token"
	"go/types"
	"os"
	"path/filepath"
	"sort"
	"strings"

	"golang.org/x/tools/go/packages"
	"golang.org/x/tools/go/ssa"
	"golang.org/x/tools/go/ssa/ssautil"
)

const ottoPath = "github.com/robertkrimen/otto"

// Ctx is the loaded, type-checked program and the lazily built derived forms.
type Ctx struct {
	eVerdicts map[string]bool
	funcNames map[string]bool
	RepoDir   string
	Fset      *token.FileSet
	Pkgs      map[string]*packages.Package // by import path
	All       []*packages.Package          // packages of the otto module only
	Prog      *ssa.Program
	SSAPkgs   map[string]*ssa.Package

	funcDecls map[*types.Func]*ast.FuncDecl
	parents   map[ast.Node]ast.Node
	shape     *Shape
	tier      string
}

var corePkgs = []string{"", "/parser", "/ast", "/file", "/token", "/registry", "/dbg"}

func loadCtx(repo string, env []string) (*Ctx, error) {
	cfg := &packages.Config{
		Mode: packages.NeedName | packages.NeedFiles | packages.NeedCompiledGoFiles | packages.NeedImports |
			packages.NeedDeps | packages.NeedTypes | packages.NeedTypesInfo | packages.NeedSyntax | packages.NeedTypesSizes | packages.NeedModule,
		Dir:   repo,
		Fset:  token.NewFileSet(),
		Tests: false,
		Env:   append(append(os.Environ(), "GOFLAGS=-mod=mod", "GOPROXY=off", "GOSUMDB=off", "GOWORK=off", "GOTOOLCHAIN=local"), env...),
	}
	pkgs, err := packages.Load(cfg, "./...")
	if err != nil {
		return nil, fmt.Errorf("packages.Load: %w", err)
	}
	if len(pkgs) == 0 {
		return nil, fmt.Errorf("no packages loaded from %s", repo)
	}
	c := &Ctx{RepoDir: repo, Fset: cfg.Fset, Pkgs: map[string]*packages.Package{}, SSAPkgs: map[string]*ssa.Package{}}
	var nerr int
	packages.Visit(pkgs, nil, func(p *packages.Package) {
		if strings.HasPrefix(p.PkgPath, ottoPath) {
			for _, e := range p.Errors {
				fmt.Fprintf(os.Stderr, "CHECKER-ERROR type/load error in %s: %v\n", p.PkgPath, e)
				nerr++
			}
		}
		c.Pkgs[p.PkgPath] = p
	})
	if nerr > 0 {
		return nil, fmt.Errorf("%d load/type errors in the otto module", nerr)
	}
	for _, p := range pkgs {
		c.All = append(c.All, p)
	}
	sort.Slice(c.All, func(i, j int) bool { return c.All[i].PkgPath < c.All[j].PkgPath })
	for _, suf := range corePkgs {
		p := c.Pkgs[ottoPath+suf]
		if p == nil || p.Types == nil || len(p.Syntax) == 0 {
			return nil, fmt.Errorf("core package %s%s not loaded", ottoPath, suf)
		}
	}
	prog, _ := ssautil.AllPackages(pkgs, ssa.InstantiateGenerics)
	prog.Build()
	c.Prog = prog
	for _, p := range pkgs {
		if sp := prog.Package(p.Types); sp != nil {
			c.SSAPkgs[p.PkgPath] = sp
		}
	}
	c.funcDecls = map[*types.Func]*ast.FuncDecl{}
	for _, p := range c.All {
		for _, f := range p.Syntax {
			for _, d := range f.Decls {
				if fd, ok := d.(*ast.FuncDecl); ok {
					if obj, ok := p.TypesInfo.Defs[fd.Name].(*types.Func); ok {
						c.funcDecls[obj] = fd
					}
				}
			}
		}
	}
	return c, nil
}

// Pkg returns the package with the given suffix relative to the otto module ("" = root).
func (c *Ctx) Pkg(suffix string) *packages.Package {
	if suffix != "" && !strings.HasPrefix(suffix, "/") {
		suffix = "/" + suffix
	}
	return c.Pkgs[ottoPath+suffix]
}

func (c *Ctx) Otto() *packages.Package { return c.Pkg("") }

// Pos renders a position relative to the repository root.
func (c *Ctx) Pos(p token.Pos) string {
	if !p.IsValid() {
		return "-"
	}
	pos := c.Fset.Position(p)
	rel, err := filepath.Rel(c.RepoDir, pos.Filename)
	if err != nil {
		rel = pos.Filename
	}
	return fmt.Sprintf("%s:%d", rel, pos.Line)
}

func (c *Ctx) FileOf(p token.Pos) string {
	pos := c.Fset.Position(p)
	return filepath.Base(pos.Filename)
}

// LookupFunc finds a package-level function or a method "Recv.Name" / "(*Recv).Name" in pkg.
func (c *Ctx) LookupFunc(pkgSuffix, name string) *types.Func {
	p := c.Pkg(pkgSuffix)
	if p == nil {
		return nil
	}
	if i := strings.Index(name, "."); i >= 0 {
		recv, m := name[:i], name[i+1:]
		recv = strings.TrimPrefix(strings.TrimSuffix(strings.TrimPrefix(recv, "("), ")"), "*")
		obj := p.Types.Scope().Lookup(recv)
		if obj == nil {
			return nil
		}
		named, ok := obj.Type().(*types.Named)
		if !ok {
			return nil
		}
		for i := 0; i < named.NumMethods(); i++ {
			if named.Method(i).Name() == m {
				return named.Method(i)
			}
		}
		return nil
	}
	f, _ := p.Types.Scope().Lookup(name).(*types.Func)
	return f
}

func (c *Ctx) LookupType(pkgSuffix, name string) *types.Named {
	p := c.Pkg(pkgSuffix)
	if p == nil {
		return nil
	}
	tn, _ := p.Types.Scope().Lookup(name).(*types.TypeName)
	if tn == nil {
		return nil
	}
	n, _ := tn.Type().(*types.Named)
	return n
}

func (c *Ctx) Decl(f *types.Func) *ast.FuncDecl { return c.funcDecls[f] }

func (c *Ctx) SSAFunc(f *types.Func) *ssa.Function {
	if f == nil {
		return nil
	}
	return c.Prog.FuncValue(f)
}

// InfoFor returns the types.Info of the package that contains pos.
func (c *Ctx) InfoFor(n ast.Node) *types.Info {
	fn := c.Fset.Position(n.Pos()).Filename
	for _, p := range c.All {
		for i, f := range p.CompiledGoFiles {
			_ = i
			if f == fn {
				return p.TypesInfo
			}
		}
	}
	return nil
}

// FuncName renders a types.Func as Recv.Name or Name (no package qualifier for otto).
func funcName(f *types.Func) string {
	if f == nil {
		return "<nil>"
	}
	sig, _ := f.Type().(*types.Signature)
	pk := ""
	if f.Pkg() != nil && f.Pkg().Path() != ottoPath {
		pk = strings.TrimPrefix(f.Pkg().Path(), ottoPath+"/") + "."
	}
	if sig != nil && sig.Recv() != nil {
		t := sig.Recv().Type()
		star := ""
		if p, ok := t.(*types.Pointer); ok {
			t = p.Elem()
			star = "*"
		}
		if n, ok := t.(*types.Named); ok {
			return pk + "(" + star + n.Obj().Name() + ")." + f.Name()
		}
	}
	return pk + f.Name()
}

// ssaFuncName: name of an ssa.Function including enclosing function for closures.
func ssaFuncName(fn *ssa.Function) string {
	if fn == nil {
		return "<nil>"
	}
	if fn.Parent() != nil {
		return ssaFuncName(fn.Parent()) + "$" + strings.TrimPrefix(fn.Name(), fn.Parent().Name()+"$")
	}
	if obj, ok := fn.Object().(*types.Func); ok {
		return funcName(obj)
	}
	return fn.Name()
}

// AllSrcFuncs returns every source-level function (incl. closures) of the named otto packages.
func (c *Ctx) AllSrcFuncs(pkgSuffixes ...string) []*ssa.Function {
	want := map[*ssa.Package]bool{}
	for _, s := range pkgSuffixes {
		p := c.Pkg(s)
		if p != nil {
			if sp := c.SSAPkgs[p.PkgPath]; sp != nil {
				want[sp] = true
			}
		}
	}
	var out []*ssa.Function
	var addAnon func(f *ssa.Function)
	addAnon = func(f *ssa.Function) {
		for _, a := range f.AnonFuncs {
			out = append(out, a)
			addAnon(a)
		}
	}
	for sp := range want {
		for _, m := range sp.Members {
			switch m := m.(type) {
			case *ssa.Function:
				if m.Synthetic == "" || m.Name() == "init" {
					out = append(out, m)
					addAnon(m)
				}
			case *ssa.Type:
				for _, t := range []types.Type{m.Type(), types.NewPointer(m.Type())} {
					ms := c.Prog.MethodSets.MethodSet(t)
					for i := 0; i < ms.Len(); i++ {
						f := c.Prog.MethodValue(ms.At(i))
						if f == nil || f.Synthetic != "" || f.Pkg != sp {
							continue
						}
						out = append(out, f)
						addAnon(f)
					}
				}
			}
		}
	}
	// dedupe (methods with value receivers show up in both method sets)
	seen := map[*ssa.Function]bool{}
	var uniq []*ssa.Function
	for _, f := range out {
		if !seen[f] && f.Blocks != nil {
			seen[f] = true
			uniq = append(uniq, f)
		}
	}
	sort.Slice(uniq, func(i, j int) bool {
		pi, pj := c.Fset.Position(uniq[i].Pos()), c.Fset.Position(uniq[j].Pos())
		if pi.Filename != pj.Filename {
			return pi.Filename < pj.Filename
		}
		if pi.Offset != pj.Offset {
			return pi.Offset < pj.Offset
		}
		return uniq[i].Name() < uniq[j].Name()
	})
	return uniq
}

// Parent map over all syntax of the otto module (lazy).
func (c *Ctx) ParentOf(n ast.Node) ast.Node {
	if c.parents == nil {
		c.parents = map[ast.Node]ast.Node{}
		for _, p := range c.All {
			for _, f := range p.Syntax {
				var stack []ast.Node
				ast.Inspect(f, func(n ast.Node) bool {
					if n == nil {
						stack = stack[:len(stack)-1]
						return true
					}
					if len(stack) > 0 {
						c.parents[n] = stack[len(stack)-1]
					}
					stack = append(stack, n)
					return true
				})
			}
		}
	}
	return c.parents[n]
}

// EnclosingFuncDecl walks up the parent chain.
func (c *Ctx) EnclosingFuncDecl(n ast.Node) *ast.FuncDecl {
	for n != nil {
		if fd, ok := n.(*ast.FuncDecl); ok {
			return fd
		}
		n = c.ParentOf(n)
	}
	return nil
}

func declName(fd *ast.FuncDecl) string {
	if fd == nil {
		return "<pkg>"
	}
	if fd.Recv != nil && len(fd.Recv.List) > 0 {
		t := fd.Recv.List[0].Type
		star := ""
		if s, ok := t.(*ast.StarExpr); ok {
			t = s.X
			star = "*"
		}
		if id, ok := t.(*ast.Ident); ok {
			return "(" + star + id.Name + ")." + fd.Name.Name
		}
	}
	return fd.Name.Name
}

func unparen(e ast.Expr) ast.Expr {
	for {
		p, ok := e.(*ast.ParenExpr)
		if !ok {
			return e
		}
		e = p.X
	}
}

// VarInit returns the initialiser expression of a package-level variable of the otto module.
func (c *Ctx) VarInit(v types.Object) ast.Expr {
	for _, p := range c.All {
		if p.Types != v.Pkg() {
			continue
		}
		for _, f := range p.Syntax {
			for _, d := range f.Decls {
				gd, ok := d.(*ast.GenDecl)
				if !ok || gd.Tok != token.VAR {
					continue
				}
				for _, sp := range gd.Specs {
					vs := sp.(*ast.ValueSpec)
					for i, n := range vs.Names {
						if p.TypesInfo.Defs[n] == v && i < len(vs.Values) {
							return vs.Values[i]
						}
					}
				}
			}
		}
	}
	return nil
}

// ObjectClassOfClassName derives, from the constructor functions of package otto, which
// objectClass table goes with which [[Class]] name: a function that stores V into
// `.objectClass` and creates its object with newClassObject(C)/newObject(rt, C) for a
// constant C pairs C with V.
func (c *Ctx) ObjectClassOfClassName() map[string]types.Object {
	out := map[string]types.Object{}
	p := c.Otto()
	for _, f := range p.Syntax {
		for _, d := range f.Decls {
			fd, ok := d.(*ast.FuncDecl)
			if !ok || fd.Body == nil {
				continue
			}
			var oc types.Object
			var cls []string
			ast.Inspect(fd.Body, func(n ast.Node) bool {
				switch x := n.(type) {
				case *ast.AssignStmt:
					if len(x.Lhs) == 1 && len(x.Rhs) == 1 {
						if sel, ok := x.Lhs[0].(*ast.SelectorExpr); ok && sel.Sel.Name == "objectClass" {
							if id, ok := x.Rhs[0].(*ast.Ident); ok {
								oc = p.TypesInfo.Uses[id]
							}
						}
						if sel, ok := x.Lhs[0].(*ast.SelectorExpr); ok && sel.Sel.Name == "class" {
							if tv, ok := p.TypesInfo.Types[x.Rhs[0]]; ok && tv.Value != nil && tv.Value.Kind() == constant.String {
								cls = append(cls, constant.StringVal(tv.Value))
							}
						}
					}
				case *ast.CallExpr:
					name := ""
					switch fn := x.Fun.(type) {
					case *ast.Ident:
						name = fn.Name
					case *ast.SelectorExpr:
						name = fn.Sel.Name
					}
					if name == "newClassObject" || name == "newObject" {
						for _, a := range x.Args {
							if tv, ok := p.TypesInfo.Types[a]; ok && tv.Value != nil && tv.Value.Kind() == constant.String {
								cls = append(cls, constant.StringVal(tv.Value))
							}
						}
					}
				}
				return true
			})
			if oc != nil && len(cls) == 1 {
				out[cls[0]] = oc
			}
		}
	}
	return out
}

// nodeAt returns the innermost call expression `panic(...)` (or any node) starting at pos.
func (c *Ctx) nodeAt(pos token.Pos) ast.Node {
	if !pos.IsValid() {
		return nil
	}
	var found ast.Node
	for _, p := range c.All {
		for _, f := range p.Syntax {
			if f.Pos() <= pos && pos < f.End() {
				ast.Inspect(f, func(n ast.Node) bool {
					if n == nil || pos < n.Pos() || pos >= n.End() {
						return n != nil && !(pos < n.Pos() || pos >= n.End())
					}
					if call, ok := n.(*ast.CallExpr); ok {
						if id, ok := call.Fun.(*ast.Ident); ok && id.Name == "panic" && (call.Lparen == pos || call.Pos() == pos) {
							found = call
						}
					}
					return true
				})
				if found != nil {
					// return the enclosing statement
					if st, ok := c.ParentOf(found).(*ast.ExprStmt); ok {
						return st
					}
					return found
				}
			}
		}
	}
	return nil
}
