package main

import (
	"fmt"
	"go/types"
	"sort"
	"strings"

	"golang.org/x/tools/go/ssa"
)

func init() {
	register(&Rule{ID: "API-boundary", Props: []string{"C02", "C15"}, Min: 50,
		Doc: "P: for every exported function and method of the public types (Otto, Value, Object, Script, FunctionCall, Error), no path lets a panic escape: every call that may panic (contains a panic, makes a dynamic call into script-reachable code, or calls such a function) happens inside a function literal passed to the recovering boundary function (catchPanic), or in a callee for which the same holds. Computed as a fixpoint over the package's static call structure; dynamic calls are assumed to throw",
		Run: ruleAPIBoundary})
}

// deferredHandlers: the functions fn defers (function literals or named functions) that call recover() themselves
// (recover only has an effect when the deferred function calls it directly).
func deferredHandlers(fn *ssa.Function) []*ssa.Function {
	var out []*ssa.Function
	if fn == nil {
		return nil
	}
	for _, b := range fn.Blocks {
		for _, ins := range b.Instrs {
			if d, ok := ins.(*ssa.Defer); ok {
				if h := closureOf(&d.Call); h != nil && len(h.Blocks) > 0 && callsRecover(h) {
					out = append(out, h)
				}
			}
		}
	}
	return out
}

// deferrersOf: the functions that defer the recover handler h.
func deferrersOf(c *Ctx, h *ssa.Function) []*ssa.Function {
	if p := h.Parent(); p != nil {
		return []*ssa.Function{p}
	}
	var out []*ssa.Function
	for _, fn := range c.AllSrcFuncs("") {
		for _, d := range deferredHandlers(fn) {
			if d == h {
				out = append(out, fn)
			}
		}
	}
	return out
}

// isBoundaryFunc: defers a recover() handler that re-panics only what it does not understand (catchPanic by role).
func isBoundaryFunc(fn *ssa.Function) bool {
	if fn == nil || fn.Blocks == nil {
		return false
	}
	for _, h := range deferredHandlers(fn) {
		return len(fn.Params) >= 1 && isFuncType(fn.Params[len(fn.Params)-1].Type()) && handlerAbsorbs(h)
	}
	return false
}

// handlerAbsorbs: for some type the recover handler asserts, its control flow ends in a normal return
// (it turns that payload into a result); a handler that re-panics everything is no boundary.
func handlerAbsorbs(h *ssa.Function) bool {
	fns := []*ssa.Function{h}
	for _, b := range h.Blocks {
		for _, ins := range b.Instrs {
			if call, ok := ins.(*ssa.Call); ok {
				if callee := call.Call.StaticCallee(); callee != nil && callee.Pkg == h.Pkg && len(callee.Blocks) > 0 {
					for _, a := range call.Call.Args {
						if fromRecover(a) {
							fns = append(fns, callee)
						}
					}
				}
			}
		}
	}
	for _, f := range fns {
		for _, b := range f.Blocks {
			for _, ins := range b.Instrs {
				if ta, ok := ins.(*ssa.TypeAssert); ok && fromRecover(ta.X) {
					for _, e := range simulateHandler(h, ta.AssertedType) {
						if e.kind == "return" {
							return true
						}
					}
				}
			}
		}
	}
	return false
}

func isFuncType(t types.Type) bool {
	_, ok := t.Underlying().(*types.Signature)
	return ok
}

type escapeAnalysis struct {
	skipPanics  bool // handler analysis: explicit re-panics of payloads the handler does not understand are by design
	c           *Ctx
	may         map[*ssa.Function]string // function -> reason it may let a panic escape ("" = not yet)
	boundary    map[*ssa.Function]bool
	deadPanic   map[*ssa.Panic]bool            // panics PANIC-foreign proves/reviews as dead arms
	slotImpls   map[string][]*ssa.Function     // objectClass field name -> functions installed in that slot by any table
	hoParams    map[*ssa.Function]map[int]bool // higher-order functions: parameters they call
	implCache   map[*types.Func][]*ssa.Function
	stackOnly   map[*ssa.Function]bool // functions whose only escaping panic is the stack-depth RangeError raised under scope != nil
	ignoreStack bool
}

// slotOfCallee: the dynamic callee value is loaded from a field of an objectClass table: returns the field name.
func slotOfCallee(v ssa.Value) string {
	if a := loadAddr(v); a != nil {
		if nt, f := fieldOfAddr(a); nt != nil && nt.Obj().Name() == "objectClass" {
			return f.Name()
		}
	}
	return ""
}

// Dynamic calls that cannot panic with script data: reviewed callee shapes.
func benignDynamic(call ssa.CallInstruction) bool {
	cc := call.Common()
	if cc.IsInvoke() {
		// methods of interfaces from the standard library that do not call back (error.Error, fmt.Stringer on own types is not benign)
		if cc.Method.Name() == "Error" && cc.Method.Pkg() == nil {
			return true
		}
	}
	return false
}

// recoversExceptions: fn defers a function literal that calls recover(), checks the recovered value with a comma-ok
// assertion to *exception and re-panics everything else: script exceptions raised in fn's body stop there.
func recoversExceptions(fn *ssa.Function) *ssa.Function {
	for _, b := range fn.Blocks {
		for _, ins := range b.Instrs {
			d, ok := ins.(*ssa.Defer)
			if !ok {
				continue
			}
			lit := closureOf(&d.Call)
			if lit == nil {
				continue
			}
			var rec ssa.Value
			asserts := false
			for _, lb := range lit.Blocks {
				for _, li := range lb.Instrs {
					switch x := li.(type) {
					case *ssa.Call:
						if bi, ok := x.Call.Value.(*ssa.Builtin); ok && bi.Name() == "recover" {
							rec = x
						}
					case *ssa.TypeAssert:
						if x.CommaOk && rec != nil && x.X == rec {
							if n := derefNamed(x.AssertedType); n != nil && n.Obj().Name() == "exception" {
								asserts = true
							}
						}
					}
				}
			}
			if rec != nil && asserts {
				return lit
			}
			// the type tests moved into a helper the literal hands the recovered value to: decide by simulation - a
			// *exception is absorbed (some exit returns), a value of no named type is re-panicked on every exit
			if rec != nil && fn.Pkg != nil {
				if tn, ok := fn.Pkg.Pkg.Scope().Lookup("exception").(*types.TypeName); ok {
					absorbs := false
					for _, e := range simulateHandler(lit, types.NewPointer(tn.Type())) {
						if e.kind == "return" {
							absorbs = true
						}
					}
					foreign := simulateHandler(lit, nil)
					allPanic := len(foreign) > 0
					for _, e := range foreign {
						if e.kind == "return" {
							allPanic = false
						}
					}
					if absorbs && allPanic {
						return lit
					}
				}
			}
		}
	}
	return nil
}

func (ea *escapeAnalysis) ownReason(fn *ssa.Function) string {
	if recoversExceptions(fn) != nil {
		return "" // its body runs under its own deferred recover of script exceptions
	}
	// the recover literal itself re-panics only what is not a script exception: its explicit panics are by design,
	// its calls are examined like any others
	rePanicsOnly := false
	if p := fn.Parent(); p != nil && recoversExceptions(p) == fn {
		rePanicsOnly = true
	}
	// closures passed directly to a boundary function are protected
	protected := map[*ssa.Function]bool{}
	for _, b := range fn.Blocks {
		for _, ins := range b.Instrs {
			if call, ok := ins.(ssa.CallInstruction); ok {
				if callee := call.Common().StaticCallee(); callee != nil && ea.boundary[callee] {
					for _, a := range call.Common().Args {
						if mc, ok := a.(*ssa.MakeClosure); ok {
							if f, ok := mc.Fn.(*ssa.Function); ok {
								protected[f] = true
							}
						}
						if f, ok := a.(*ssa.Function); ok {
							protected[f] = true
						}
					}
				}
			}
		}
	}
	for _, b := range fn.Blocks {
		for _, ins := range b.Instrs {
			switch x := ins.(type) {
			case *ssa.Panic:
				if ea.deadPanic[x] || ea.skipPanics || rePanicsOnly || isRepanicOfRecover(x) {
					continue
				}
				if ea.ignoreStack && underScopeNonNil(x) {
					continue
				}
				return "panics at " + ea.c.Pos(instrPos(x))
			case *ssa.TypeAssert:
				// unchecked assertions are GUARD-assert's domain
			case *ssa.MakeClosure:
				f, _ := x.Fn.(*ssa.Function)
				if f != nil && !protected[f] && ea.may[f] != "" {
					return "creates the closure " + ssaFuncName(f) + " which " + ea.may[f]
				}
			case ssa.CallInstruction:
				cc := x.Common()
				if _, isBuiltin := cc.Value.(*ssa.Builtin); isBuiltin {
					continue
				}
				callee := cc.StaticCallee()
				if callee == nil {
					if benignDynamic(x) {
						continue
					}
					if cc.IsInvoke() {
						// interface method call: library interfaces are benign; the module's own interfaces resolve to their implementations
						if cc.Method.Pkg() == nil || !strings.HasPrefix(cc.Method.Pkg().Path(), ottoPath) {
							continue
						}
						bad := ""
						for _, impl := range ea.implsOf(cc.Method) {
							if r := ea.may[impl]; r != "" {
								bad = "calls interface method " + cc.Method.Name() + " at " + ea.c.Pos(instrPos(x)) + " (e.g. " + ssaFuncName(impl) + "), which " + r
								break
							}
						}
						if bad != "" {
							return bad
						}
						continue
					}
					if slot := slotOfCallee(cc.Value); slot != "" && len(ea.slotImpls[slot]) > 0 {
						bad := ""
						for _, impl := range ea.slotImpls[slot] {
							if r := ea.may[impl]; r != "" {
								bad = "calls the " + slot + " slot of the object's class table at " + ea.c.Pos(instrPos(x)) + " (e.g. " + ssaFuncName(impl) + "), which " + r
								break
							}
							// a callback passed to a slot function that calls it
							for pi := range ea.hoParams[impl] {
								if pi < len(cc.Args) {
									if r := ea.argMayEscape(cc.Args[pi]); r != "" {
										bad = "passes a callback to the " + slot + " slot at " + ea.c.Pos(instrPos(x)) + " that " + r
									}
								}
							}
						}
						if bad != "" {
							return bad
						}
						continue
					}
					if p, ok := cc.Value.(*ssa.Parameter); ok && isFuncType(p.Type()) {
						continue // higher-order: attributed to the call sites that supply the function (hoParams)
					}
					if fv, ok := cc.Value.(*ssa.FreeVar); ok && isFuncType(fv.Type()) {
						_ = fv
					}
					return "makes a dynamic call at " + ea.c.Pos(instrPos(x))
				}
				if ea.boundary[callee] {
					continue
				}
				// callbacks passed to a higher-order callee
				for pi := range ea.hoParams[callee] {
					ai := pi
					if ai < len(cc.Args) {
						if r := ea.argMayEscape(cc.Args[ai]); r != "" {
							return "passes to " + ssaFuncName(callee) + " at " + ea.c.Pos(instrPos(x)) + " a callback that " + r
						}
					}
				}
				if ea.boundary[callee] {
					continue
				}
				if callee.Pkg == nil || !strings.HasPrefix(callee.Pkg.Pkg.Path(), ottoPath) {
					continue // library code: not script-driven panics (LIB rules cover the panicking APIs)
				}
				if ea.stackOnly[callee] && (ea.ignoreStack || underScopeNil(x)) {
					continue // the callee's only panic needs a non-nil current scope; this call happens only when it is nil
				}
				if r := ea.may[callee]; r != "" {
					return "calls " + ssaFuncName(callee) + " at " + ea.c.Pos(instrPos(x)) + ", which " + r
				}
			}
		}
	}
	return ""
}

// argMayEscape: the function value passed as an argument may let a panic escape when called.
func (ea *escapeAnalysis) argMayEscape(a ssa.Value) string {
	switch x := a.(type) {
	case *ssa.MakeClosure:
		if f, ok := x.Fn.(*ssa.Function); ok {
			return ea.may[f]
		}
	case *ssa.Function:
		return ea.may[x]
	case *ssa.Const:
		return ""
	case *ssa.Parameter:
		return "" // forwarded: attributed further up
	}
	return "is not statically known"
}

func ruleAPIBoundary(c *Ctx, r *R) {
	funcs := c.AllSrcFuncs("")
	ea := &escapeAnalysis{c: c, may: map[*ssa.Function]string{}, boundary: map[*ssa.Function]bool{}, deadPanic: map[*ssa.Panic]bool{},
		slotImpls: map[string][]*ssa.Function{}, hoParams: map[*ssa.Function]map[int]bool{}}
	// dead panics (as classified by PANIC-foreign)
	for _, fn := range funcs {
		for _, b := range fn.Blocks {
			for _, ins := range b.Instrs {
				p, ok := ins.(*ssa.Panic)
				if !ok {
					continue
				}
				tname, _ := panicOperandType(p)
				if catchablePanicTypes[tname] {
					continue
				}
				ctx := ""
				if node := c.nodeAt(p.Pos()); node != nil {
					ctx = c.panicContext(node, c.InfoFor(node))
				}
				if deadArmReason(ctx) != "" || c.kindSwitchExhaustive(p) != "" || payloadExhausted(p) != "" {
					ea.deadPanic[p] = true
				}
				if why, ok := reviewedLookup(panicForeignReviewed, ssaFuncName(fn)+"|"+tname+"|"+ctx); ok && (strings.HasPrefix(why, "dead by") || strings.HasPrefix(why, "defensive") || strings.HasPrefix(why, "stasher protocol") || strings.HasPrefix(why, "operands are script-visible") || strings.HasPrefix(why, "both operands") || strings.HasPrefix(why, "kinds are equal") || strings.HasPrefix(why, "covers every kind") || strings.HasPrefix(why, "covers the three") || strings.HasPrefix(why, "array length is a data property")) {
					ea.deadPanic[p] = true
				}
			}
		}
	}
	// slot implementations and higher-order parameters
	for _, fn := range funcs {
		for _, b := range fn.Blocks {
			for _, ins := range b.Instrs {
				switch x := ins.(type) {
				case *ssa.Store:
					if nt, f := fieldOfAddr(x.Addr); nt != nil && nt.Obj().Name() == "objectClass" {
						if impl, ok := x.Val.(*ssa.Function); ok {
							ea.slotImpls[f.Name()] = append(ea.slotImpls[f.Name()], impl)
						}
					}
				case ssa.CallInstruction:
					if p, ok := x.Common().Value.(*ssa.Parameter); ok && isFuncType(p.Type()) {
						for i, fp := range fn.Params {
							if fp == p {
								if ea.hoParams[fn] == nil {
									ea.hoParams[fn] = map[int]bool{}
								}
								ea.hoParams[fn][i] = true
							}
						}
					}
				}
			}
		}
	}
	for _, fn := range funcs {
		if isBoundaryFunc(fn) {
			ea.boundary[fn] = true
		}
	}
	if len(ea.boundary) == 0 {
		r.undecided("boundary", "-", "UNRESOLVED: no recovering boundary function (catchPanic) found")
		return
	}
	fix := func() {
		for changed := true; changed; {
			changed = false
			for _, fn := range funcs {
				if ea.may[fn] != "" || ea.boundary[fn] {
					continue
				}
				if why := ea.ownReason(fn); why != "" {
					// keep reasons short: cut nested chains
					if len(why) > 300 {
						why = why[:300] + "..."
					}
					ea.may[fn] = why
					changed = true
				}
			}
		}
	}
	fix()
	// functions whose only escaping panic is the stack-depth check under scope != nil
	ea.stackOnly = map[*ssa.Function]bool{}
	ea.ignoreStack = true
	for _, fn := range funcs {
		if ea.may[fn] != "" && fn.Parent() == nil && fn.Signature.Recv() != nil && typeIs(fn.Signature.Recv().Type(), ottoPath, "runtime") {
			saved := ea.may[fn]
			delete(ea.may, fn)
			// iterate: a stack-only function may call another one
			if ea.ownReason(fn) == "" {
				ea.stackOnly[fn] = true
			}
			ea.may[fn] = saved
		}
	}
	for i := 0; i < 2; i++ { // wrappers of stack-only functions
		for _, fn := range funcs {
			if ea.may[fn] != "" && !ea.stackOnly[fn] && fn.Parent() == nil && fn.Signature.Recv() != nil && typeIs(fn.Signature.Recv().Type(), ottoPath, "runtime") {
				saved := ea.may[fn]
				delete(ea.may, fn)
				if ea.ownReason(fn) == "" {
					ea.stackOnly[fn] = true
				}
				ea.may[fn] = saved
			}
		}
	}
	ea.ignoreStack = false
	ea.may = map[*ssa.Function]string{}
	fix()
	public := map[string]bool{"Otto": true, "Value": true, "Object": true, "Script": true, "FunctionCall": true, "Error": true}
	var roots []*ssa.Function
	for _, fn := range funcs {
		if fn.Parent() != nil || fn.Object() == nil || !fn.Object().Exported() {
			continue
		}
		if recv := fn.Signature.Recv(); recv != nil {
			n := derefNamed(recv.Type())
			if n == nil || !public[n.Obj().Name()] {
				continue
			}
		}
		roots = append(roots, fn)
	}
	sort.Slice(roots, func(i, j int) bool { return ssaFuncName(roots[i]) < ssaFuncName(roots[j]) })
	for _, fn := range roots {
		key := "root:" + ssaFuncName(fn)
		site := c.Pos(fn.Pos())
		why := ea.may[fn]
		if why == "" {
			r.ok(key, site, "no panic can escape: every may-panic call is inside a catchPanic closure (or there is none)")
			continue
		}
		if rv, ok := apiBoundaryReviewed[ssaFuncName(fn)]; ok {
			r.ok("reviewed:"+key, site, rv)
			continue
		}
		r.bad(key, site, fmt.Sprintf("public API %s can let a panic escape to the embedding program: it %s", ssaFuncName(fn), why))
	}
	// the recovering handlers themselves: after recover() nothing protects the code that turns the caught value into an
	// error, so a call there that can throw (a string conversion that runs script code) lets the second panic out
	calledByRoot := map[*ssa.Function]bool{}
	for _, root := range roots {
		for _, g := range withAnon(root) {
			for _, b := range g.Blocks {
				for _, ins := range b.Instrs {
					if ci, ok := ins.(ssa.CallInstruction); ok {
						if callee := ci.Common().StaticCallee(); callee != nil {
							calledByRoot[callee] = true
						}
					}
				}
			}
		}
	}
	for _, fn := range funcs {
		if !ea.boundary[fn] || !calledByRoot[fn] {
			continue // only the boundary the public API relies on: a script-level try/catch that throws again is caught further out
		}
		for _, an := range deferredHandlers(fn) {
			ea.skipPanics = true
			why := ea.ownReason(an)
			ea.skipPanics = false
			key := "handler:" + ssaFuncName(fn)
			if why == "" {
				r.ok(key, c.Pos(an.Pos()), "the recover handler makes no call that can throw")
			} else {
				r.bad(key, c.Pos(an.Pos()), fmt.Sprintf("the recover handler of %s %s: a panic raised while the caught value is being turned into an error is not recovered by anything and escapes every public entry point that relies on this boundary (an uncaught exception whose toString throws: `throw {toString: function(){ throw 1 }}`)", ssaFuncName(fn), why))
			}
		}
	}
	r.note("boundary_functions", len(ea.boundary))
	r.note("may_escape_functions", len(ea.may))
}

// Reviewed API roots that deliberately propagate (documented) or whose escaping panic is not script-driven.
var apiBoundaryReviewed = map[string]string{
	"(*Otto).Compile":              "the compiler's only call that can panic is toValue on a number literal's value, which the parser produces as int64 or float64 (typed cases of toValue)",
	"(*Otto).CompileWithSourceMap": "see Compile",
	"(Otto).Run":                   "the resolve() after the boundary is dead: statement-list evaluation resolves every statement value before returning, so a program's completion value is never a reference",
	"(Otto).Object":                "see Run",
	"New":                          "host-side constructor: panics only if the constant console object or a registered extension source fails to load (not script-driven)",
	"Run":                          "convenience wrapper around New (see New) followed by Otto.Run",
	"(Otto).Eval":                  "enterGlobalScope is called only under scope == nil, where enterScope's depth test (its only panic) is skipped; evaluation itself runs under catchPanic",
	"(Otto).MakeCustomError":       "arguments of toValue are a Go string and an *object: toValue's typed cases, never its panicking reflect path",
	"(Otto).MakeRangeError":        "arguments of toValue are a Go string and an *object: typed cases only",
	"(Otto).MakeSyntaxError":       "arguments of toValue are a Go string and an *object: typed cases only",
	"(Otto).MakeTypeError":         "arguments of toValue are a Go string and an *object: typed cases only",
	"(Value).MarshalJSON":          "v.string() is called only under kind == valueString, where it returns the payload without calling into script; the object case delegates to Object.MarshalJSON, which recovers",
}

// implsOf: the module's concrete methods that can be the target of an invoke of interface method m.
func (ea *escapeAnalysis) implsOf(m *types.Func) []*ssa.Function {
	if v, ok := ea.implCache[m]; ok {
		return v
	}
	var out []*ssa.Function
	sig := m.Type().(*types.Signature)
	iface, _ := sig.Recv().Type().Underlying().(*types.Interface)
	for _, p := range ea.c.All {
		if !strings.HasPrefix(p.PkgPath, ottoPath) {
			continue
		}
		sc := p.Types.Scope()
		for _, n := range sc.Names() {
			tn, ok := sc.Lookup(n).(*types.TypeName)
			if !ok {
				continue
			}
			for _, t := range []types.Type{tn.Type(), types.NewPointer(tn.Type())} {
				if _, isI := t.Underlying().(*types.Interface); isI {
					continue
				}
				if iface != nil && !types.Implements(t, iface) {
					continue
				}
				ms := ea.c.Prog.MethodSets.MethodSet(t)
				if sel := ms.Lookup(m.Pkg(), m.Name()); sel != nil {
					if f := ea.c.Prog.MethodValue(sel); f != nil {
						out = append(out, f)
					}
				}
			}
		}
	}
	if ea.implCache == nil {
		ea.implCache = map[*types.Func][]*ssa.Function{}
	}
	ea.implCache[m] = out
	return out
}

// scopeNilTest: iff compares load(runtime.scope) with nil; returns the successor index on which scope == nil.
func scopeNilTest(iff *ssa.If) (int, bool) {
	bo, ok := iff.Cond.(*ssa.BinOp)
	if !ok || !isNilConst(bo.Y) {
		return 0, false
	}
	a := loadAddr(bo.X)
	if a == nil || !isFieldAddr(a, "runtime", "scope") {
		return 0, false
	}
	switch bo.Op.String() {
	case "==":
		return 0, true
	case "!=":
		return 1, true
	}
	return 0, false
}

func dominatedByScopeTest(ins ssa.Instruction, wantNil bool) bool {
	fn := ins.Parent()
	for _, b := range fn.Blocks {
		iff, ok := b.Instrs[len(b.Instrs)-1].(*ssa.If)
		if !ok {
			continue
		}
		nilSucc, ok := scopeNilTest(iff)
		if !ok {
			continue
		}
		succ := b.Succs[nilSucc]
		if !wantNil {
			succ = b.Succs[1-nilSucc]
		}
		if len(succ.Preds) == 1 && succ.Dominates(ins.Block()) {
			return true
		}
	}
	return false
}

func underScopeNil(ins ssa.Instruction) bool    { return dominatedByScopeTest(ins, true) }
func underScopeNonNil(ins ssa.Instruction) bool { return dominatedByScopeTest(ins, false) }
