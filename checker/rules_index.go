package main

import (
	"fmt"
	"go/token"
	"go/types"

	"golang.org/x/tools/go/ssa"
)

func init() {
	register(&Rule{ID: "GUARD-index", Props: []string{"C04", "C02"}, Min: 10,
		Doc: "G: in package parser (every byte of its input is attacker-controlled) indexing or slicing a string / byte slice at a constant position k must be dominated by a test that implies len > k (index) or len >= k (slice bound) for that same value - otherwise a truncated token (a backslash, `(?<`, a quote at end of input) is an index-out-of-range panic that escapes Run/Compile",
		Run: ruleGuardIndex})
}

// minLenAt: the largest n such that a test dominating `use` implies len(s) >= n.
func minLenAt(fn *ssa.Function, s ssa.Value, use ssa.Instruction) int64 {
	best := int64(0)
	// a value produced by slicing with constant bounds has a known length
	if sl, ok := s.(*ssa.Slice); ok && sl.Low == nil && sl.High != nil {
		if k, isC := constInt(sl.High); isC && k > best {
			best = k
		}
	}
	// a slice of a fixed-size array literal
	if sl, ok := s.(*ssa.Slice); ok && sl.High == nil && sl.Low == nil {
		if pt, ok := sl.X.Type().Underlying().(*types.Pointer); ok {
			if arr, ok := pt.Elem().Underlying().(*types.Array); ok && arr.Len() > best {
				best = arr.Len()
			}
		}
	}
	if k, ok := s.(*ssa.Const); ok && k.Value != nil {
		if str, isStr := constStringVal(k); isStr {
			return int64(len(str))
		}
	}
	for _, b := range fn.Blocks {
		iff, ok := b.Instrs[len(b.Instrs)-1].(*ssa.If)
		if !ok {
			continue
		}
		for _, cmp := range comparisonsOf(iff.Cond, 0) {
			// normalise to len(s) OP k
			var lenCall *ssa.Call
			var k int64
			op := cmp.Op
			if c1, ok := cmp.X.(*ssa.Call); ok {
				if kk, isC := constInt(cmp.Y); isC {
					lenCall, k = c1, kk
				}
			}
			if c2, ok := cmp.Y.(*ssa.Call); ok && lenCall == nil {
				if kk, isC := constInt(cmp.X); isC {
					lenCall, k = c2, kk
					switch op {
					case token.LSS:
						op = token.GTR
					case token.GTR:
						op = token.LSS
					case token.LEQ:
						op = token.GEQ
					case token.GEQ:
						op = token.LEQ
					}
				}
			}
			if lenCall == nil {
				continue
			}
			bi, ok := lenCall.Call.Value.(*ssa.Builtin)
			if !ok || bi.Name() != "len" || !sameSSA(lenCall.Call.Args[0], s, 0) {
				continue
			}
			// implied lower bound on each side
			var onTrue, onFalse int64 = -1, -1
			switch op {
			case token.GTR:
				onTrue = k + 1
			case token.GEQ:
				onTrue = k
			case token.LSS:
				onFalse = k
			case token.LEQ:
				onFalse = k + 1
			case token.EQL:
				onTrue = k
				if k == 0 {
					onFalse = 1
				}
			case token.NEQ:
				onFalse = k
				if k == 0 {
					onTrue = 1
				}
			}
			// only a plain condition (not part of || ) gives a sound implication on the true side; for && chains go/ssa
			// produces nested blocks, so the block structure already encodes the conjunction
			if cmp != iff.Cond.(ssa.Value) {
				if _, isBin := iff.Cond.(*ssa.BinOp); !isBin {
					continue
				}
			}
			for side, n := range map[int]int64{0: onTrue, 1: onFalse} {
				if n <= best {
					continue
				}
				succ, other := b.Succs[side], b.Succs[1-side]
				if (len(succ.Preds) == 1 && succ.Dominates(use.Block())) || (b.Dominates(use.Block()) && !reaches(other, use.Block(), map[*ssa.BasicBlock]bool{b: true})) {
					best = n
				}
			}
		}
	}
	return best
}

func constStringVal(k *ssa.Const) (string, bool) {
	if b, ok := k.Type().Underlying().(*types.Basic); ok && b.Info()&types.IsString != 0 && k.Value != nil {
		s := k.Value.ExactString()
		if len(s) >= 2 {
			return s[1 : len(s)-1], true
		}
	}
	return "", false
}

func ruleGuardIndex(c *Ctx, r *R) {
	isText := func(t types.Type) bool { return elemUnitOfContainer(t) == uBytes }
	for _, fn := range c.AllSrcFuncs("parser") {
		ord := map[string]int{}
		for _, b := range fn.Blocks {
			for _, ins := range b.Instrs {
				var s ssa.Value
				var need int64 = -1
				what := ""
				switch x := ins.(type) {
				case *ssa.Lookup:
					if isText(x.X.Type()) && !x.CommaOk {
						if k, isC := constInt(x.Index); isC {
							s, need, what = x.X, k+1, fmt.Sprintf("[%d]", k)
						}
					}
				case *ssa.Index: // s[k] on a string (go/ssa uses Index, not Lookup, for strings)
					if isText(x.X.Type()) {
						if k, isC := constInt(x.Index); isC {
							s, need, what = x.X, k+1, fmt.Sprintf("[%d]", k)
						}
					}
				case *ssa.IndexAddr:
					if isText(x.X.Type()) {
						if k, isC := constInt(x.Index); isC {
							s, need, what = x.X, k+1, fmt.Sprintf("[%d]", k)
						}
					}
				case *ssa.Slice:
					if isText(x.X.Type()) {
						for _, bound := range []ssa.Value{x.Low, x.High} {
							if bound == nil {
								continue
							}
							if k, isC := constInt(bound); isC && k > 0 && k > need {
								s, need, what = x.X, k, fmt.Sprintf("[..%d..]", k)
							}
						}
					}
				}
				if s == nil || need <= 0 {
					continue
				}
				base := fmt.Sprintf("%s:%s%s", ssaFuncName(fn), typeStr(s.Type()), what)
				ord[base]++
				key := fmt.Sprintf("%s#%d", base, ord[base])
				have := minLenAt(fn, s, ins)
				if have >= need {
					r.ok(key, c.Pos(instrPos(ins)), fmt.Sprintf("dominated by a test implying len >= %d", have))
					continue
				}
				if why, ok := guardIndexReviewed[base]; ok {
					r.ok("reviewed:"+key, c.Pos(instrPos(ins)), why)
					continue
				}
				r.bad(key, c.Pos(instrPos(ins)), fmt.Sprintf("%s indexes/slices a %s at constant position %s but no dominating test implies it is that long (best implied length: %d): input that ends right there panics with index out of range, and the panic escapes the parser", ssaFuncName(fn), typeStr(s.Type()), what, have))
			}
		}
	}
}

var guardIndexReviewed = map[string]string{
	"parser.(*parser).parsePrimaryExpression:string[..1..]": "the literal of a STRING token includes both quotes: the scanner downgrades an unterminated string to ILLEGAL",
	"parser.(*parser).parseObjectPropertyKey:string[..1..]": "the literal of a STRING token includes both quotes (see parsePrimaryExpression)",
	"parser.(*parser).parseRegExpLiteral:string[..1..]":     "under err == nil scanString returned a pattern that includes both delimiters",
	"parser.(*parser).parseRegExpLiteral:string[..22..]":    "regexp/syntax error strings start with the 22-byte prefix \"error parsing regexp: \" (library format)",
}
