package main

import (
	"fmt"
	"go/ast"
	"go/constant"
	"go/token"
	"go/types"
	"sort"
	"strings"

	"golang.org/x/tools/go/ssa"
)

func init() {
	register(&Rule{ID: "GUARD-index", Props: []string{"C04", "C02"}, Min: 10,
		Doc: "G: in package parser (every byte of its input is attacker-controlled) indexing or slicing a string / byte slice at a constant position k must be dominated by a test that implies len > k (index) or len >= k (slice bound) for that same value - otherwise a truncated token (a backslash, `(?<`, a quote at end of input) is an index-out-of-range panic that escapes Run/Compile",
		Run: ruleGuardIndex})
}

// minLenAt: the largest n such that a test dominating `use` implies len(s) >= n.
func minLenAt(fn *ssa.Function, s ssa.Value, use ssa.Instruction) int64 {
	best := int64(0)
	// a value produced by slicing with constant bounds has a known length
	if sl, ok := s.(*ssa.Slice); ok && sl.Low == nil && sl.High != nil {
		if k, isC := constInt(sl.High); isC && k > best {
			best = k
		}
	}
	// a slice of a fixed-size array literal
	if sl, ok := s.(*ssa.Slice); ok && sl.High == nil && sl.Low == nil {
		if pt, ok := sl.X.Type().Underlying().(*types.Pointer); ok {
			if arr, ok := pt.Elem().Underlying().(*types.Array); ok && arr.Len() > best {
				best = arr.Len()
			}
		}
	}
	if k, ok := s.(*ssa.Const); ok && k.Value != nil {
		if str, isStr := constStringVal(k); isStr {
			return int64(len(str))
		}
	}
	for _, b := range fn.Blocks {
		iff, ok := b.Instrs[len(b.Instrs)-1].(*ssa.If)
		if !ok {
			continue
		}
		// strings.HasPrefix(s, "lit") / HasSuffix on the true side imply len(s) >= len("lit")
		if call, ok := iff.Cond.(*ssa.Call); ok {
			if callee := call.Call.StaticCallee(); callee != nil && callee.Pkg != nil && callee.Pkg.Pkg.Path() == "strings" && (callee.Name() == "HasPrefix" || callee.Name() == "HasSuffix") && len(call.Call.Args) == 2 && sameSSA(call.Call.Args[0], s, 0) {
				if k, isK := call.Call.Args[1].(*ssa.Const); isK {
					if lit, isStr := constStringVal(k); isStr && int64(len(lit)) > best {
						if succ := b.Succs[0]; len(succ.Preds) == 1 && succ.Dominates(use.Block()) {
							best = int64(len(lit))
						}
					}
				}
			}
		}
		for _, cmp := range comparisonsOf(iff.Cond, 0) {
			// normalise to len(s) OP k
			var lenCall *ssa.Call
			var k int64
			op := cmp.Op
			if c1, ok := cmp.X.(*ssa.Call); ok {
				if kk, isC := constInt(cmp.Y); isC {
					lenCall, k = c1, kk
				}
			}
			if c2, ok := cmp.Y.(*ssa.Call); ok && lenCall == nil {
				if kk, isC := constInt(cmp.X); isC {
					lenCall, k = c2, kk
					switch op {
					case token.LSS:
						op = token.GTR
					case token.GTR:
						op = token.LSS
					case token.LEQ:
						op = token.GEQ
					case token.GEQ:
						op = token.LEQ
					}
				}
			}
			if lenCall == nil {
				continue
			}
			bi, ok := lenCall.Call.Value.(*ssa.Builtin)
			if !ok || bi.Name() != "len" || !sameSSA(lenCall.Call.Args[0], s, 0) {
				continue
			}
			// implied lower bound on each side
			var onTrue, onFalse int64 = -1, -1
			switch op {
			case token.GTR:
				onTrue = k + 1
			case token.GEQ:
				onTrue = k
			case token.LSS:
				onFalse = k
			case token.LEQ:
				onFalse = k + 1
			case token.EQL:
				onTrue = k
				if k == 0 {
					onFalse = 1
				}
			case token.NEQ:
				onFalse = k
				if k == 0 {
					onTrue = 1
				}
			}
			// only a plain condition (not part of || ) gives a sound implication on the true side; for && chains go/ssa
			// produces nested blocks, so the block structure already encodes the conjunction
			if cmp != iff.Cond.(ssa.Value) {
				if _, isBin := iff.Cond.(*ssa.BinOp); !isBin {
					continue
				}
			}
			for side, n := range map[int]int64{0: onTrue, 1: onFalse} {
				if n <= best {
					continue
				}
				succ, other := b.Succs[side], b.Succs[1-side]
				if (len(succ.Preds) == 1 && succ.Dominates(use.Block())) || (b.Dominates(use.Block()) && !reaches(other, use.Block(), map[*ssa.BasicBlock]bool{b: true})) {
					best = n
				}
			}
		}
	}
	return best
}

func constStringVal(k *ssa.Const) (string, bool) {
	if b, ok := k.Type().Underlying().(*types.Basic); ok && b.Info()&types.IsString != 0 && k.Value != nil {
		if k.Value.Kind() == constant.String {
			return constant.StringVal(k.Value), true
		}
	}
	return "", false
}

func ruleGuardIndex(c *Ctx, r *R) {
	isText := func(t types.Type) bool { return elemUnitOfContainer(t) == uBytes }
	for _, fn := range c.AllSrcFuncs("parser") {
		ord := map[string]int{}
		for _, b := range fn.Blocks {
			for _, ins := range b.Instrs {
				var s ssa.Value
				var need int64 = -1
				what := ""
				switch x := ins.(type) {
				case *ssa.Lookup:
					if isText(x.X.Type()) && !x.CommaOk {
						if k, isC := constInt(x.Index); isC {
							s, need, what = x.X, k+1, fmt.Sprintf("[%d]", k)
						}
					}
				case *ssa.Index: // s[k] on a string (go/ssa uses Index, not Lookup, for strings)
					if isText(x.X.Type()) {
						if k, isC := constInt(x.Index); isC {
							s, need, what = x.X, k+1, fmt.Sprintf("[%d]", k)
						}
					}
				case *ssa.IndexAddr:
					if isText(x.X.Type()) {
						if k, isC := constInt(x.Index); isC {
							s, need, what = x.X, k+1, fmt.Sprintf("[%d]", k)
						}
					}
				case *ssa.Slice:
					if isText(x.X.Type()) {
						for _, bound := range []ssa.Value{x.Low, x.High} {
							if bound == nil {
								continue
							}
							if k, isC := constInt(bound); isC && k > 0 && k > need {
								s, need, what = x.X, k, fmt.Sprintf("[..%d..]", k)
							}
						}
					}
				}
				if s == nil || need <= 0 {
					continue
				}
				base := fmt.Sprintf("%s:%s%s", ssaFuncName(fn), typeStr(s.Type()), what)
				ord[base]++
				key := fmt.Sprintf("%s#%d", base, ord[base])
				have := minLenAt(fn, s, ins)
				if have >= need {
					r.ok(key, c.Pos(instrPos(ins)), fmt.Sprintf("dominated by a test implying len >= %d", have))
					continue
				}
				if why, ok := reviewedLookup(guardIndexReviewed, base); ok {
					r.ok("reviewed:"+key, c.Pos(instrPos(ins)), why)
					continue
				}
				r.bad(key, c.Pos(instrPos(ins)), fmt.Sprintf("%s indexes/slices a %s at constant position %s but no dominating test implies it is that long (best implied length: %d): input that ends right there panics with index out of range, and the panic escapes the parser", ssaFuncName(fn), typeStr(s.Type()), what, have))
			}
		}
	}
}

var guardIndexReviewed = map[string]string{
	"parser.(*parser).parsePrimaryExpression:string[..1..]": "the literal of a STRING token includes both quotes: the scanner downgrades an unterminated string to ILLEGAL",
	"parser.(*parser).parseObjectPropertyKey:string[..1..]": "the literal of a STRING token includes both quotes (see parsePrimaryExpression)",
	"parser.(*parser).parseRegExpLiteral:string[..1..]":     "under err == nil scanString returned a pattern that includes both delimiters",
	"parser.(*parser).parseRegExpLiteral:string[..22..]":    "regexp/syntax error strings start with the 22-byte prefix \"error parsing regexp: \" (library format)",
}

func init() {
	register(&Rule{ID: "SPAN-total", Props: []string{"C04"}, Min: 4,
		Doc: "G: the span methods Idx0 / Idx1 of the ast node types are total on every tree the parser accepts: where one indexes a slice field (first or last element) either a dominating test implies the slice is non-empty, or the reviewed table names the parser loop that guarantees an element. A span method that panics on an accepted program (an empty program, a case clause without statements) breaks every consumer that walks the tree asking for positions",
		Run: ruleSpanTotal})
}

// nonEmptySlice: v is provably a slice with at least one element: a non-empty literal, the result of an append that
// adds something, a phi of such values, or the result of a function all of whose returns are such values.
func nonEmptySlice(v ssa.Value, seen map[ssa.Value]bool, depth int) bool {
	if v == nil || depth > 8 {
		return false
	}
	if seen[v] {
		return true // a cycle through a loop phi: decided by the other edges
	}
	seen[v] = true
	switch x := v.(type) {
	case *ssa.Slice:
		if al, ok := x.X.(*ssa.Alloc); ok {
			if pt, ok := al.Type().Underlying().(*types.Pointer); ok {
				if arr, ok := pt.Elem().Underlying().(*types.Array); ok && arr.Len() >= 1 && x.Low == nil && x.High == nil {
					return true
				}
			}
		}
	case *ssa.Phi:
		for _, e := range x.Edges {
			if !nonEmptySlice(e, seen, depth+1) {
				return false
			}
		}
		return true
	case *ssa.Call:
		if bi, ok := x.Call.Value.(*ssa.Builtin); ok && bi.Name() == "append" {
			if len(x.Call.Args) >= 2 {
				// append(s, e...): go/ssa passes the appended elements as one slice (a fresh array for explicit elements)
				return nonEmptySlice(x.Call.Args[1], seen, depth+1) || nonEmptySlice(x.Call.Args[0], seen, depth+1)
			}
			return false
		}
		if callee := x.Call.StaticCallee(); callee != nil && callee.Blocks != nil && callee.Signature.Results().Len() == 1 {
			all := true
			n := 0
			for _, b := range callee.Blocks {
				for _, ins := range b.Instrs {
					if ret, ok := ins.(*ssa.Return); ok && len(ret.Results) == 1 {
						n++
						if !nonEmptySlice(ret.Results[0], seen, depth+1) {
							all = false
						}
					}
				}
			}
			return all && n > 0
		}
	}
	return false
}

func ruleSpanTotal(c *Ctx, r *R) {
	type need struct {
		typ, field string
		site       string
		method     string
	}
	var needs []need
	for _, fn := range c.AllSrcFuncs("ast") {
		if fn.Parent() != nil || (fn.Name() != "Idx0" && fn.Name() != "Idx1") {
			continue
		}
		for _, b := range fn.Blocks {
			for _, ins := range b.Instrs {
				ia, ok := ins.(*ssa.IndexAddr)
				if !ok {
					continue
				}
				a := loadAddr(ia.X)
				if a == nil {
					continue
				}
				nt, f := fieldOfAddr(a)
				if f == nil || nt == nil {
					continue
				}
				key := fmt.Sprintf("%s:%s", ssaFuncName(fn), f.Name())
				site := c.Pos(instrPos(ia))
				if minLenAt(fn, ia.X, ia) >= 1 {
					r.ok(key, site, "dominated by a test implying the slice is non-empty")
					continue
				}
				needs = append(needs, need{nt.Obj().Name(), f.Name(), site, ssaFuncName(fn)})
			}
		}
	}
	// every place the parser gives the field a value must give it a provably non-empty slice
	for _, nd := range needs {
		key := fmt.Sprintf("%s:%s", nd.method, nd.field)
		stores := 0
		var bad []string
		for _, fn := range c.AllSrcFuncs("parser") {
			for _, b := range fn.Blocks {
				for _, ins := range b.Instrs {
					st, ok := ins.(*ssa.Store)
					if !ok {
						continue
					}
					nt, f := fieldOfAddr(st.Addr)
					if nt == nil || f == nil || nt.Obj().Name() != nd.typ || f.Name() != nd.field || nt.Obj().Pkg().Path() != ottoPath+"/ast" {
						continue
					}
					stores++
					if !nonEmptySlice(st.Val, map[ssa.Value]bool{}, 0) && minLenAt(fn, st.Val, st) < 1 {
						bad = append(bad, c.Pos(instrPos(st)))
					}
				}
			}
		}
		switch {
		case stores == 0:
			r.bad(key, nd.site, fmt.Sprintf("%s indexes the slice field %s without a test that it is non-empty, and the parser never stores into %s.%s", nd.method, nd.field, nd.typ, nd.field))
		case len(bad) > 0:
			r.bad(key, nd.site, fmt.Sprintf("%s indexes the slice field %s without a test that it is non-empty, but the parser can store a possibly empty slice there (%s): asking such a node for its span panics with index out of range", nd.method, nd.field, strings.Join(bad, ", ")))
		default:
			r.ok(key, nd.site, fmt.Sprintf("unguarded, but each of the %d parser store(s) into %s.%s provides a provably non-empty slice (literal, append, or under a length test)", stores, nd.typ, nd.field))
		}
	}
}

func init() {
	register(&Rule{ID: "SPAN-fields", Props: []string{"C04"}, Min: 30,
		Doc: "T (reader/writer agreement): every position field (type file.Idx) that a node type's Idx0 / Idx1 method reads is given a value at every place the parser constructs that node type - as a key of the composite literal or by an assignment to that field in the same function. A position left at its zero value makes the node report a span that starts or ends before the file (outside its parent's span)",
		Run: ruleSpanFields})
}

func ruleSpanFields(c *Ctx, r *R) {
	astPkg := c.Pkg("ast")
	parserPkg := c.Pkg("parser")
	if astPkg == nil || parserPkg == nil {
		r.undecided("unresolved:packages", "-", "UNRESOLVED: ast / parser packages not loaded")
		return
	}
	// fields read by the span methods, per node type
	reads := map[string]map[string]bool{}
	for _, f := range astPkg.Syntax {
		for _, d := range f.Decls {
			fd, ok := d.(*ast.FuncDecl)
			if !ok || fd.Recv == nil || fd.Body == nil || (fd.Name.Name != "Idx0" && fd.Name.Name != "Idx1") {
				continue
			}
			recvT := derefNamed(astPkg.TypesInfo.TypeOf(fd.Recv.List[0].Type))
			if recvT == nil || len(fd.Recv.List[0].Names) == 0 {
				continue
			}
			recvObj := astPkg.TypesInfo.Defs[fd.Recv.List[0].Names[0]]
			ast.Inspect(fd.Body, func(n ast.Node) bool {
				sel, ok := n.(*ast.SelectorExpr)
				if !ok {
					return true
				}
				id, ok := unparen(sel.X).(*ast.Ident)
				if !ok || astPkg.TypesInfo.Uses[id] != recvObj {
					return true
				}
				if fv, ok := astPkg.TypesInfo.Uses[sel.Sel].(*types.Var); ok && fv.IsField() {
					if n := derefNamed(fv.Type()); n != nil && n.Obj().Name() == "Idx" && n.Obj().Pkg().Path() == ottoPath+"/file" {
						if reads[recvT.Obj().Name()] == nil {
							reads[recvT.Obj().Name()] = map[string]bool{}
						}
						reads[recvT.Obj().Name()][sel.Sel.Name] = true
					}
				}
				return true
			})
		}
	}
	// construction sites in the parser
	info := parserPkg.TypesInfo
	// fields assigned per function, and who calls whom (a constructor helper's caller may complete the node)
	assignedIn := map[types.Object]map[string]map[string]bool{}
	callersOf := map[types.Object][]types.Object{}
	for _, f := range parserPkg.Syntax {
		for _, d := range f.Decls {
			fd, ok := d.(*ast.FuncDecl)
			if !ok || fd.Body == nil {
				continue
			}
			self := info.Defs[fd.Name]
			assignedIn[self] = map[string]map[string]bool{}
			ast.Inspect(fd.Body, func(n ast.Node) bool {
				switch x := n.(type) {
				case *ast.AssignStmt:
					for _, l := range x.Lhs {
						if sel, ok := unparen(l).(*ast.SelectorExpr); ok {
							if nt := derefNamed(info.TypeOf(sel.X)); nt != nil && nt.Obj().Pkg() != nil && nt.Obj().Pkg().Path() == ottoPath+"/ast" {
								if assignedIn[self][nt.Obj().Name()] == nil {
									assignedIn[self][nt.Obj().Name()] = map[string]bool{}
								}
								assignedIn[self][nt.Obj().Name()][sel.Sel.Name] = true
							}
						}
					}
				case *ast.CallExpr:
					if sel, ok := x.Fun.(*ast.SelectorExpr); ok {
						if callee, ok := info.Uses[sel.Sel].(*types.Func); ok {
							callersOf[callee] = append(callersOf[callee], self)
						}
					}
				}
				return true
			})
		}
	}
	for _, f := range parserPkg.Syntax {
		for _, d := range f.Decls {
			fd, ok := d.(*ast.FuncDecl)
			if !ok || fd.Body == nil {
				continue
			}
			// fields assigned anywhere in this function, per node type
			assigned := map[string]map[string]bool{}
			ast.Inspect(fd.Body, func(n ast.Node) bool {
				as, ok := n.(*ast.AssignStmt)
				if !ok {
					return true
				}
				for _, l := range as.Lhs {
					if sel, ok := unparen(l).(*ast.SelectorExpr); ok {
						if nt := derefNamed(info.TypeOf(sel.X)); nt != nil && nt.Obj().Pkg() != nil && nt.Obj().Pkg().Path() == ottoPath+"/ast" {
							if assigned[nt.Obj().Name()] == nil {
								assigned[nt.Obj().Name()] = map[string]bool{}
							}
							assigned[nt.Obj().Name()][sel.Sel.Name] = true
						}
					}
				}
				return true
			})
			ord := map[string]int{}
			ast.Inspect(fd.Body, func(n ast.Node) bool {
				cl, ok := n.(*ast.CompositeLit)
				if !ok {
					return true
				}
				nt := derefNamed(info.TypeOf(cl))
				if nt == nil || nt.Obj().Pkg() == nil || nt.Obj().Pkg().Path() != ottoPath+"/ast" {
					return true
				}
				want := reads[nt.Obj().Name()]
				if len(want) == 0 {
					return true
				}
				have := map[string]bool{}
				for _, el := range cl.Elts {
					if kv, ok := el.(*ast.KeyValueExpr); ok {
						if id, ok := kv.Key.(*ast.Ident); ok {
							have[id.Name] = true
						}
					}
				}
				var missing []string
				for fld := range want {
					if have[fld] || assigned[nt.Obj().Name()][fld] {
						continue
					}
					// completed by every caller of this helper?
					callers := callersOf[info.Defs[fd.Name]]
					byCallers := len(callers) > 0
					for _, cl := range callers {
						if !assignedIn[cl][nt.Obj().Name()][fld] {
							byCallers = false
						}
					}
					if !byCallers {
						missing = append(missing, fld)
					}
				}
				sort.Strings(missing)
				base := fmt.Sprintf("%s:%s", declName(fd), nt.Obj().Name())
				ord[base]++
				key := fmt.Sprintf("%s#%d", base, ord[base])
				if why, ok := spanFieldsReviewed[base+":"+strings.Join(missing, ",")]; ok && len(missing) > 0 {
					r.ok("reviewed:"+key, c.Pos(cl.Pos()), why)
					return true
				}
				r.check(len(missing) == 0, key, c.Pos(cl.Pos()), "every position its span methods read is set", fmt.Sprintf("the parser builds an ast.%s here without setting %s, which %s.Idx0/Idx1 read: the node reports a span that starts or ends at position 0, outside the file and its parent", nt.Obj().Name(), strings.Join(missing, ", "), nt.Obj().Name()))
				return true
			})
		}
	}
}

var spanFieldsReviewed = map[string]string{}

func init() {
	register(&Rule{ID: "COMPACT-index", Props: []string{"C11", "C02"}, Min: 1,
		Doc: "G (contradiction rule): a loop that filters elements into a slice and afterwards truncates the slice to the number of elements it accepted (`s[0:n]`, n incremented only on the accepting path) must write each accepted element at position n - the running count - not at the position of the loop variable: with a skipped element the accepted ones land beyond the truncation point and the kept prefix contains zero values. JSON.stringify's replacer array did this: `JSON.stringify({a:1,b:2}, [\"a\",\"a\",\"b\"])` lost b",
		Run: ruleCompactIndex})
}

func ruleCompactIndex(c *Ctx, r *R) {
	n := 0
	for _, fn := range c.AllSrcFuncs("", "parser", "file", "ast", "token", "registry") {
		ord := 0
		for _, b := range fn.Blocks {
			for _, ins := range b.Instrs {
				sl, ok := ins.(*ssa.Slice)
				if !ok || sl.High == nil {
					continue
				}
				if sl.Low != nil {
					if k, ok := constInt(sl.Low); !ok || k != 0 {
						continue
					}
				}
				if _, ok := sl.X.Type().Underlying().(*types.Slice); !ok {
					continue
				}
				// the bound is a loop counter: a phi with an edge phi+1
				cnt, ok := sl.High.(*ssa.Phi)
				if !ok {
					if cv, isConv := sl.High.(*ssa.Convert); isConv {
						cnt, ok = cv.X.(*ssa.Phi)
					}
				}
				if !ok {
					continue
				}
				counters := map[ssa.Value]bool{}
				var collect func(p *ssa.Phi, d int)
				collect = func(p *ssa.Phi, d int) {
					if d > 4 || counters[p] {
						return
					}
					counters[p] = true
					for _, e := range p.Edges {
						switch x := e.(type) {
						case *ssa.Phi:
							collect(x, d+1)
						case *ssa.BinOp:
							if x.Op == token.ADD {
								if p2, ok := x.X.(*ssa.Phi); ok {
									collect(p2, d+1)
								}
							}
						}
					}
				}
				collect(cnt, 0)
				incremented := false
				for p := range counters {
					for _, e := range p.(*ssa.Phi).Edges {
						if bo, ok := e.(*ssa.BinOp); ok && bo.Op == token.ADD && counters[bo.X] {
							if k, ok := constInt(bo.Y); ok && k == 1 {
								incremented = true
							}
						}
					}
				}
				if !incremented {
					continue
				}
				// stores into elements of the same slice value
				for _, b2 := range fn.Blocks {
					for _, i2 := range b2.Instrs {
						st, ok := i2.(*ssa.Store)
						if !ok {
							continue
						}
						ia, ok := st.Addr.(*ssa.IndexAddr)
						if !ok || !sameSSA(ia.X, sl.X, 0) {
							continue
						}
						idx := ia.Index
						if cv, ok := idx.(*ssa.Convert); ok {
							idx = cv.X
						}
						n++
						ord++
						key := fmt.Sprintf("%s:compaction#%d", ssaFuncName(fn), ord)
						atCount := counters[idx]
						r.check(atCount, key, c.Pos(instrPos(st)), "accepted elements are written at the running count",
							fmt.Sprintf("%s writes the accepted element at the loop position %s but keeps only the first %s elements (truncation at %s): once an element is skipped the accepted ones lie beyond the cut and the kept prefix holds zero values", ssaFuncName(fn), idx.Name(), cnt.Name(), c.Pos(instrPos(sl))))
					}
				}
			}
		}
	}
	if n == 0 {
		// a census of a hazardous idiom: where no loop filters into an index cursor and truncates, there is nothing to get
		// wrong (the replacer list built with append has no cursor); the rule needs the list to exist at all
		hasReplacerList := false
		for _, fn := range c.AllSrcFuncs("") {
			for _, b := range fn.Blocks {
				for _, ins := range b.Instrs {
					if st, ok := ins.(*ssa.Store); ok {
						if _, f := fieldOfAddr(st.Addr); f != nil && f.Name() == "propertyList" {
							hasReplacerList = true
						}
					}
				}
			}
		}
		if hasReplacerList {
			r.ok("sites", "-", "no loop filters elements into a slice by index cursor and truncates it afterwards: nothing to check (the JSON.stringify property list is built some other way)")
			return
		}
		r.undecided("unresolved:sites", "-", "UNRESOLVED: no filter-and-truncate loop found (JSON.stringify's replacer array is one)")
	}
}

func init() {
	register(&Rule{ID: "GUARD-node-index", Props: []string{"C02"}, Min: 1,
		Doc: "G: the lists of a compiled or parsed program (statement lists, argument lists, declaration lists - slices whose elements are nodes of the compiled tree or of the AST) have whatever length the script text gave them, including zero (a source that is only a comment). In package otto every constant index into such a slice is dominated by a test implying that length; otherwise an entry point that picks `program.body[0]` panics with index out of range on the empty program (`vm.Call(\"//\", nil)`)",
		Run: ruleGuardNodeIndex})
}

func ruleGuardNodeIndex(c *Ctx, r *R) {
	isNodeSlice := func(t types.Type) bool {
		sl, ok := t.Underlying().(*types.Slice)
		if !ok {
			return false
		}
		e := sl.Elem()
		if p, ok := e.(*types.Pointer); ok {
			e = p.Elem()
		}
		nt, ok := e.(*types.Named)
		if !ok || nt.Obj().Pkg() == nil {
			return false
		}
		path, name := nt.Obj().Pkg().Path(), nt.Obj().Name()
		if path == ottoPath && strings.HasPrefix(name, "node") {
			return true
		}
		return path == ottoPath+"/ast"
	}
	n := 0
	for _, fn := range c.AllSrcFuncs("") {
		ord := 0
		for _, b := range fn.Blocks {
			for _, ins := range b.Instrs {
				ia, ok := ins.(*ssa.IndexAddr)
				if !ok || !isNodeSlice(ia.X.Type()) {
					continue
				}
				k, isC := constInt(ia.Index)
				if !isC {
					continue
				}
				n++
				ord++
				key := fmt.Sprintf("%s:%s[%d]#%d", ssaFuncName(fn), typeStr(ia.X.Type()), k, ord)
				have := minLenAt(fn, ia.X, ins)
				r.check(have >= k+1, key, c.Pos(instrPos(ins)), fmt.Sprintf("dominated by a test implying len >= %d", have),
					fmt.Sprintf("%s takes element %d of a %s with no dominating test that the list is that long (best implied length %d): the list has the length the script text gave it, and a source without statements (`//`, the empty string) makes this an index-out-of-range panic that escapes the public API", ssaFuncName(fn), k, typeStr(ia.X.Type()), have))
			}
		}
	}
	if n == 0 {
		r.undecided("unresolved:sites", "-", "UNRESOLVED: no constant index into a node list found in package otto (Otto.Call has one)")
	}
}
