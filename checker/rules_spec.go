package main

import (
	"fmt"
	"go/constant"
	"go/types"
	"sort"

	"golang.org/x/tools/go/ssa"
)

// Spec-step rules: small structural facts, each a necessary condition of one ES5 algorithm step whose violation is
// observable by a script. Every rule names the clause it encodes.

func init() {
	register(&Rule{ID: "ORDER-operands", Props: []string{"C01", "C05"}, Min: 4,
		Doc: "P (ES5 §11.2.1, §11.2.2, §11.2.3, §11.5-11.11, §11.13.2): in the evaluator of bracket, new, call, binary and compound-assignment nodes, GetValue of the first operand (resolve() of its evaluation result) happens before the second operand is evaluated; evaluating the second operand first lets its side effects change what the first one reads",
		Run: ruleOrderOperands})
	register(&Rule{ID: "ORDER-coerce", Props: []string{"C05"}, Min: 8,
		Doc: "P (ES5 §11.5-11.10 step order): in every arm of the binary-operator implementation the left operand is converted (ToPrimitive/ToNumber/ToInt32/ToUint32/ToString/ToBoolean) before the right operand is; the order is observable through valueOf/toString side effects and through which exception wins",
		Run: ruleOrderCoerce})
	register(&Rule{ID: "SPEC-hint", Props: []string{"C05"}, Min: 2,
		Doc: "S (ES5 §9.3, §9.8, §8.12.8): ToString of an object calls [[DefaultValue]] with hint String and ToNumber with hint Number - the constant passed at the two call sites in Value.string / Value.float64",
		Run: ruleSpecHint})
	register(&Rule{ID: "SPEC-closure-env", Props: []string{"C01"}, Min: 1,
		Doc: "S (ES5 §13): evaluating a function expression creates the function object with the running context's LexicalEnvironment (scope.lexical, or a declaration environment made from it for named expressions), so closures created inside with/catch see the with-object / catch parameter",
		Run: ruleSpecClosureEnv})
	register(&Rule{ID: "SPEC-descriptor-has", Props: []string{"C07"}, Min: 6,
		Doc: "S (ES5 §8.10.5 ToPropertyDescriptor): each of the six descriptor fields is probed with [[HasProperty]] (inherited fields count), never with an own-property test",
		Run: ruleSpecDescriptorHas})
	register(&Rule{ID: "SPEC-search-lastindex", Props: []string{"C10"}, Min: 1,
		Doc: "S (ES5 §15.5.4.12): String.prototype.search ignores and leaves unchanged the regexp's lastIndex: nothing reachable from it by static calls reads or writes the property `lastIndex`",
		Run: ruleSpecSearchLastIndex})
	register(&Rule{ID: "POS-callsite", Props: []string{"C19"}, Min: 2,
		Doc: "P: in the call and new evaluators the store of the call-site offset into the current frame is followed by the invocation before any further expression evaluation: arguments are evaluated first, otherwise a nested call made while evaluating an argument overwrites it and the caller's frame in stack traces reports the argument's position",
		Run: rulePosCallsite})
	register(&Rule{ID: "SPEC-error-proto", Props: []string{"C19"}, Min: 1,
		Doc: "S (ES5 §15.11.7.2: 'the initial value of NativeError.prototype'): error objects the interpreter raises itself take their prototype from the runtime's intrinsics (rt.global.*Prototype), never from a property lookup on the global object, which scripts can rebind",
		Run: ruleSpecErrorProto})
}

// nodeFieldOfArg: the field of the node parameter that the evaluated expression comes from (through loads, range elements).
func nodeFieldOfArg(v ssa.Value, node *ssa.Parameter, depth int) string {
	if depth > 6 || v == nil {
		return ""
	}
	switch x := v.(type) {
	case *ssa.UnOp:
		return nodeFieldOfArg(x.X, node, depth+1)
	case *ssa.FieldAddr:
		if x.X == ssa.Value(node) {
			_, f := fieldOfAddr(x)
			return f.Name()
		}
		return nodeFieldOfArg(x.X, node, depth+1)
	case *ssa.IndexAddr:
		return nodeFieldOfArg(x.X, node, depth+1)
	case *ssa.Index:
		return nodeFieldOfArg(x.X, node, depth+1)
	case *ssa.Extract:
		return nodeFieldOfArg(x.Tuple, node, depth+1)
	case *ssa.Next:
		return nodeFieldOfArg(x.Iter, node, depth+1)
	case *ssa.Range:
		return nodeFieldOfArg(x.X, node, depth+1)
	case *ssa.Phi:
		for _, e := range x.Edges {
			if f := nodeFieldOfArg(e, node, depth+1); f != "" {
				return f
			}
		}
	case *ssa.ChangeInterface:
		return nodeFieldOfArg(x.X, node, depth+1)
	case *ssa.MakeInterface:
		return nodeFieldOfArg(x.X, node, depth+1)
	}
	return ""
}

func ruleOrderOperands(c *Ctx, r *R) {
	entries := map[*ssa.Function]bool{}
	for _, e := range evaluatorEntries(c) {
		entries[e] = true
	}
	// node type -> (first operand field, second operand field, ES5 clause)
	table := map[string][3]string{
		"nodeBracketExpression":  {"left", "member", "§11.2.1"},
		"nodeCallExpression":     {"callee", "argumentList", "§11.2.3"},
		"nodeNewExpression":      {"callee", "argumentList", "§11.2.2"},
		"nodeBinaryExpression":   {"left", "right", "§11.5-11.11"},
		"nodeAssignExpression":   {"left", "right", "§11.13.2 (compound assignment)"},
		"nodeSwitchStatement":    {"discriminant", "body", "§12.11 step 2 (GetValue of the discriminant once, before any clause)"},
		"nodeVariableExpression": {"name", "initializer", "§12.2 (VariableDeclaration : Identifier Initialiser, steps 1-2)"},
	}
	identRef := c.SSAFunc(c.LookupFunc("", "getIdentifierReference"))
	for _, fn := range c.AllSrcFuncs("") {
		if fn.Parent() != nil || fn.Signature.Recv() == nil || !typeIs(fn.Signature.Recv().Type(), ottoPath, "runtime") {
			continue
		}
		var node *ssa.Parameter
		var spec [3]string
		for _, p := range fn.Params {
			if n := derefNamed(p.Type()); n != nil {
				if sp, ok := table[n.Obj().Name()]; ok {
					node, spec = p, sp
				}
			}
		}
		if node == nil {
			continue
		}
		var first, second []*ssa.Call
		for _, b := range fn.Blocks {
			for _, ins := range b.Instrs {
				call, ok := ins.(*ssa.Call)
				if ok && spec[0] == "name" && identRef != nil && call.Call.StaticCallee() == identRef {
					first = append(first, call)
					continue
				}
				if !ok || !entries[call.Call.StaticCallee()] || len(call.Call.Args) < 2 {
					continue
				}
				switch nodeFieldOfArg(call.Call.Args[1], node, 0) {
				case spec[0]:
					first = append(first, call)
				case spec[1]:
					second = append(second, call)
				}
			}
		}
		if len(first) == 0 || len(second) == 0 {
			continue
		}
		key := ssaFuncName(fn)
		if spec[0] == "name" {
			// 12.2: `var x = init` resolves the identifier (step 1) before it evaluates the initialiser (step 2)
			okAll := true
			for _, s2 := range second {
				dom := false
				for _, f1 := range first {
					if dominatesInstr(f1, s2) {
						dom = true
					}
				}
				if !dom {
					okAll = false
				}
			}
			r.check(okAll, key, c.Pos(fn.Pos()), "the identifier is resolved before the initialiser is evaluated",
				fmt.Sprintf("%s evaluates the initialiser before it has resolved the variable's name (ES5 %s: the reference is taken first): an initialiser that adds or removes a binding in a `with` object or by eval changes which variable is written (`with(o){ var x = (o.x = 1, 2) }`)", ssaFuncName(fn), spec[2]))
			continue
		}
		site := c.Pos(fn.Pos())
		okAll := true
		for _, s2 := range second {
			// some resolve() of a first-operand result must dominate s2
			ok := false
			for _, f1 := range first {
				for _, ref := range *f1.Referrers() {
					if rc, isCall := ref.(*ssa.Call); isCall && rc.Call.StaticCallee() != nil && rc.Call.StaticCallee().Name() == "resolve" && dominatesInstr(rc, s2) {
						ok = true
					}
					// value spilled into a local before the method call
					if st, isStore := ref.(*ssa.Store); isStore {
						if al, isAl := st.Addr.(*ssa.Alloc); isAl {
							for _, r2 := range *al.Referrers() {
								if ld, isLd := r2.(*ssa.UnOp); isLd {
									for _, r3 := range *ld.Referrers() {
										if rc, isCall := r3.(*ssa.Call); isCall && rc.Call.StaticCallee() != nil && rc.Call.StaticCallee().Name() == "resolve" && dominatesInstr(rc, s2) {
											ok = true
										}
									}
								}
							}
						}
					}
				}
			}
			if !ok {
				okAll = false
			}
		}
		if spec[0] == "callee" {
			// 11.2.2 / 11.2.3: the arguments are evaluated (step 3) before the value is tested for being callable
			// (steps 4-5): no test that leads to a throw may come before an argument evaluation
			early := ""
			for _, b := range fn.Blocks {
				for _, ins := range b.Instrs {
					pn, ok := ins.(*ssa.Panic)
					if !ok {
						continue
					}
					if tn, _ := panicOperandType(pn); tn != "*exception" {
						continue
					}
					// the test that decides this throw: the nearest dominating block that ends in a branch
					var test *ssa.BasicBlock
					for d := b; d != nil; d = d.Idom() {
						if _, isIf := d.Instrs[len(d.Instrs)-1].(*ssa.If); isIf && d != b {
							test = d
							break
						}
					}
					if test == nil {
						continue
					}
					for _, s2 := range second {
						if reaches(test, s2.Block(), map[*ssa.BasicBlock]bool{}) && early == "" {
							early = c.Pos(instrPos(pn))
						}
					}
				}
			}
			r.check(early == "", key+":throw-after-arguments", site, "no TypeError is decided before the arguments are evaluated",
				fmt.Sprintf("%s decides a TypeError (at %s) before it has evaluated the arguments: ES5 %s evaluates the argument list (step 3) before it tests whether the value is callable (steps 4-5), so `o.nope(f())` must call f and `o.nope(undeclared)` must raise a ReferenceError, not a TypeError", ssaFuncName(fn), early, spec[2]))
		}
		r.check(okAll, key, site, fmt.Sprintf("GetValue(%s) precedes the evaluation of %s", spec[0], spec[1]),
			fmt.Sprintf("%s evaluates node.%s before it has taken the value of node.%s (ES5 %s: GetValue of the first operand comes first): side effects of the second operand change what the first one yields", ssaFuncName(fn), spec[1], spec[0], spec[2]))
	}
}

var conversionNames = map[string]bool{"toPrimitiveValue": true, "toPrimitive": true, "float64": true, "string": true, "bool": true, "toInt32": true, "toUint32": true, "toUint16": true, "toIntegerFloat": true, "number": true, "numberValue": true}

func ruleOrderCoerce(c *Ctx, r *R) {
	// the binary operator implementation: the function the evaluator passes node.operator to (see TAB-ops); resolved
	// structurally as the *runtime method with parameters (token.Token, Value, Value) containing a switch over the token
	var impl *ssa.Function
	for _, fn := range c.AllSrcFuncs("") {
		if fn.Parent() != nil || len(fn.Params) != 4 {
			continue
		}
		if typeStr(fn.Params[1].Type()) == "token.Token" && typeStr(fn.Params[2].Type()) == "Value" && typeStr(fn.Params[3].Type()) == "Value" && typeStr(fn.Signature.Results().At(0).Type()) == "Value" {
			impl = fn
		}
	}
	if impl == nil {
		r.undecided("impl", "-", "UNRESOLVED binary operator implementation (method (token.Token, Value, Value) Value)")
		return
	}
	left, right := impl.Params[2], impl.Params[3]
	// derivation: which operand does a value derive from?
	var derives func(v ssa.Value, p *ssa.Parameter, d int) bool
	derives = func(v ssa.Value, p *ssa.Parameter, d int) bool {
		if d > 6 || v == nil {
			return false
		}
		if v == ssa.Value(p) {
			return true
		}
		switch x := v.(type) {
		case *ssa.Call:
			if x.Call.StaticCallee() != nil && (x.Call.StaticCallee().Name() == "resolve" || conversionNames[x.Call.StaticCallee().Name()]) && len(x.Call.Args) > 0 {
				return derives(x.Call.Args[0], p, d+1)
			}
		case *ssa.Phi:
			for _, e := range x.Edges {
				if derives(e, p, d+1) {
					return true
				}
			}
		case *ssa.UnOp:
			if al, ok := x.X.(*ssa.Alloc); ok {
				for _, ref := range *al.Referrers() {
					if st, ok := ref.(*ssa.Store); ok && st.Addr == ssa.Value(al) && derives(st.Val, p, d+1) {
						return true
					}
				}
			}
		}
		return false
	}
	// per block: order of the first conversion call applied to each side
	arms := 0
	var blocks []*ssa.BasicBlock
	blocks = append(blocks, impl.Blocks...)
	sort.Slice(blocks, func(i, j int) bool { return blocks[i].Index < blocks[j].Index })
	for _, b := range blocks {
		firstL, firstR := -1, -1
		for i, ins := range b.Instrs {
			call, ok := ins.(*ssa.Call)
			if !ok || call.Call.StaticCallee() == nil || !conversionNames[call.Call.StaticCallee().Name()] || len(call.Call.Args) == 0 {
				continue
			}
			if derives(call.Call.Args[0], left, 0) && firstL < 0 {
				firstL = i
			}
			if derives(call.Call.Args[0], right, 0) && firstR < 0 {
				firstR = i
			}
		}
		if firstL < 0 || firstR < 0 {
			continue
		}
		arms++
		key := fmt.Sprintf("%s:arm#%d", ssaFuncName(impl), arms)
		r.check(firstL < firstR, key, c.Pos(instrPos(b.Instrs[firstR])), "left operand converted first", "the right operand is converted before the left one in this operator arm: with side-effecting valueOf/toString the calls happen in the wrong order and the wrong exception wins (ES5 §11.5-11.10: lnum/lprim is computed first)")
	}
	if arms == 0 {
		r.undecided("arms", c.Pos(impl.Pos()), "no arm converting both operands found")
	}
}

func ruleSpecHint(c *Ctx, r *R) {
	dv := c.SSAFunc(c.LookupFunc("", "object.DefaultValue"))
	if dv == nil {
		r.undecided("anchor", "-", "UNRESOLVED (*object).DefaultValue")
		return
	}
	hint := func(name string) int64 {
		if cst, ok := c.Otto().Types.Scope().Lookup(name).(*types.Const); ok {
			return constIntVal(cst)
		}
		return -99
	}
	want := map[string]int64{"string": hint("defaultValueHintString"), "float64": hint("defaultValueHintNumber")}
	for _, m := range []string{"string", "float64"} {
		fn := c.SSAFunc(c.LookupFunc("", "Value."+m))
		if fn == nil {
			r.undecided("anchor:"+m, "-", "UNRESOLVED (Value)."+m)
			continue
		}
		n := 0
		okAll := true
		for _, b := range fn.Blocks {
			for _, ins := range b.Instrs {
				if call, ok := ins.(*ssa.Call); ok && call.Call.StaticCallee() == dv {
					n++
					if k, isC := constInt(call.Call.Args[1]); !isC || k != want[m] {
						okAll = false
					}
				}
			}
		}
		if n == 0 {
			r.bad("hint:"+m, c.Pos(fn.Pos()), fmt.Sprintf("(Value).%s no longer converts an object through [[DefaultValue]] with a fixed hint", m))
			continue
		}
		r.check(okAll, "hint:"+m, c.Pos(fn.Pos()), "fixed hint", fmt.Sprintf("(Value).%s calls [[DefaultValue]] with the wrong hint: objects with distinct valueOf and toString convert through the wrong method (ES5 §9.3 / §9.8)", m))
	}
}

func ruleSpecClosureEnv(c *Ctx, r *R) {
	mk := c.SSAFunc(c.LookupFunc("", "runtime.newNodeFunction"))
	if mk == nil {
		r.undecided("anchor", "-", "UNRESOLVED (*runtime).newNodeFunction")
		return
	}
	n := 0
	for _, e := range evaluatorEntries(c) {
		for _, b := range e.Blocks {
			for _, ins := range b.Instrs {
				call, ok := ins.(*ssa.Call)
				if !ok || call.Call.StaticCallee() != mk {
					continue
				}
				n++
				env := call.Call.Args[2]
				ok2 := envFromLexical(env, 0)
				r.check(ok2, "function-expression:"+ssaFuncName(e), c.Pos(instrPos(ins)), "environment taken from scope.lexical", "a function expression is closed over something other than the current LexicalEnvironment (scope.lexical): closures created inside `with` or `catch` lose access to the with-object / catch parameter (ES5 §13)")
			}
		}
	}
	if n == 0 {
		r.undecided("sites", "-", "no function-object creation in the evaluator entry")
	}
	// Declaration binding instantiation (10.5 step 5, clause 13 FunctionDeclaration): the function object is created with
	// the VariableEnvironment as its scope. Only a named function *expression* gets an environment of its own holding
	// its name; a declaration that is evaluated like one closes over a private copy of its binding.
	entries := map[*ssa.Function]bool{}
	for _, e := range evaluatorEntries(c) {
		entries[e] = true
	}
	nDecl := 0
	for _, fn := range c.AllSrcFuncs("") {
		binder := false
		for _, p := range fn.Params {
			if sl, ok := p.Type().Underlying().(*types.Slice); ok {
				if pt, ok := sl.Elem().(*types.Pointer); ok && typeIs(pt.Elem(), ottoPath, "nodeFunctionLiteral") {
					binder = true
				}
			}
		}
		if !binder || fn.Parent() != nil {
			continue
		}
		for _, b := range fn.Blocks {
			for _, ins := range b.Instrs {
				call, ok := ins.(*ssa.Call)
				if !ok {
					continue
				}
				callee := call.Call.StaticCallee()
				switch {
				case entries[callee]:
					for _, a := range call.Call.Args {
						if mi, ok := a.(*ssa.MakeInterface); ok {
							if pt, ok := mi.X.Type().(*types.Pointer); ok && typeIs(pt.Elem(), ottoPath, "nodeFunctionLiteral") {
								nDecl++
								r.bad("function-declaration:"+ssaFuncName(fn), c.Pos(instrPos(ins)), ssaFuncName(fn)+" instantiates a function declaration by evaluating it as an expression: the evaluator gives every named function literal a declaration environment of its own that binds the name (correct for `var g = function f(){}` only), so inside a declared function its own name is a private binding - `function init(){ init = function(){ return 2 }; return 1 } init(); init()` returns 1 twice, and a memoising wrapper assigned over a recursive function is bypassed (ES5 13: a FunctionDeclaration is created with the VariableEnvironment as Scope)")
							}
						}
					}
				case callee == mk:
					nDecl++
					env := call.Call.Args[2]
					okEnv := false
					var chk func(v ssa.Value, d int) bool
					chk = func(v ssa.Value, d int) bool {
						if d > 5 {
							return false
						}
						switch x := v.(type) {
						case *ssa.UnOp:
							return isFieldAddr(x.X, "scope", "variable")
						case *ssa.MakeInterface:
							return chk(x.X, d+1)
						case *ssa.ChangeInterface:
							return chk(x.X, d+1)
						}
						return false
					}
					okEnv = chk(env, 0)
					r.check(okEnv, "function-declaration:"+ssaFuncName(fn), c.Pos(instrPos(ins)), "declared functions are created with scope.variable (the VariableEnvironment) as their scope", "a function declaration is closed over something other than the VariableEnvironment (scope.variable) of the running context (ES5 10.5 step 5, 13)")
				}
			}
		}
	}
	if nDecl == 0 {
		r.undecided("declaration-sites", "-", "no function-declaration instantiation found (a function taking []*nodeFunctionLiteral that creates function objects)")
	}
}

func envFromLexical(v ssa.Value, d int) bool {
	if d > 5 || v == nil {
		return false
	}
	switch x := v.(type) {
	case *ssa.UnOp:
		if isFieldAddr(x.X, "scope", "lexical") {
			return true
		}
	case *ssa.Phi:
		for _, e := range x.Edges {
			if !envFromLexical(e, d+1) {
				return false
			}
		}
		return true
	case *ssa.MakeInterface:
		return envFromLexical(x.X, d+1)
	case *ssa.ChangeInterface:
		return envFromLexical(x.X, d+1)
	case *ssa.Call:
		// newDeclarationStash(outer): the outer must be the lexical environment
		if x.Call.StaticCallee() != nil && x.Call.StaticCallee().Name() == "newDeclarationStash" && len(x.Call.Args) >= 2 {
			return envFromLexical(x.Call.Args[1], d+1)
		}
	}
	return false
}

func ruleSpecDescriptorHas(c *Ctx, r *R) {
	fn := c.SSAFunc(c.LookupFunc("", "toPropertyDescriptor"))
	if fn == nil {
		r.undecided("anchor", "-", "UNRESOLVED toPropertyDescriptor")
		return
	}
	fields := map[string]string{}
	for _, b := range fn.Blocks {
		for _, ins := range b.Instrs {
			call, ok := ins.(*ssa.Call)
			if !ok || call.Call.StaticCallee() == nil || len(call.Call.Args) != 2 {
				continue
			}
			k, ok := call.Call.Args[1].(*ssa.Const)
			if !ok || k.Value == nil || k.Value.Kind() != constant.String {
				continue
			}
			name := call.Call.StaticCallee().Name()
			if name == "get" {
				continue
			}
			// a presence probe returning bool
			if b, ok := call.Type().Underlying().(*types.Basic); ok && b.Kind() == types.Bool {
				fields[constant.StringVal(k.Value)] = name
			}
		}
	}
	for _, f := range []string{"enumerable", "configurable", "writable", "value", "get", "set"} {
		got, ok := fields[f]
		if (!ok || got != "hasProperty") && c.eClean("SPEC-define-own") {
			// probed in a helper, through a table of names, ...: SPEC-define-own runs ToPropertyDescriptor on descriptor
			// objects with each field absent, undefined or set (its model of the descriptor object answers
			// [[HasProperty]] and [[Get]] only)
			r.ok("field:"+f, c.Pos(fn.Pos()), subsumedBy("SPEC-define-own"))
			continue
		}
		if !ok {
			r.bad("field:"+f, c.Pos(fn.Pos()), fmt.Sprintf("ToPropertyDescriptor does not probe the field %q", f))
			continue
		}
		r.check(got == "hasProperty", "field:"+f, c.Pos(fn.Pos()), "[[HasProperty]]", fmt.Sprintf("descriptor field %q is probed with %s: ES5 §8.10.5 uses [[HasProperty]], so a field inherited from the descriptor object's prototype must count", f, got))
	}
}

func ruleSpecSearchLastIndex(c *Ctx, r *R) {
	fn := c.Shape().boundSSA(c, "String.prototype")["search"]
	if fn == nil {
		r.undecided("anchor", "-", "UNRESOLVED String.prototype.search")
		return
	}
	seen := map[*ssa.Function]bool{}
	var bad ssa.Instruction
	var walk func(f *ssa.Function, d int)
	walk = func(f *ssa.Function, d int) {
		if f == nil || f.Blocks == nil || seen[f] || d > 4 || bad != nil {
			return
		}
		seen[f] = true
		for _, b := range f.Blocks {
			for _, ins := range b.Instrs {
				call, ok := ins.(*ssa.Call)
				if !ok {
					continue
				}
				for _, a := range call.Call.Args {
					if k, ok := a.(*ssa.Const); ok && k.Value != nil && k.Value.Kind() == constant.String && constant.StringVal(k.Value) == "lastIndex" {
						bad = ins
					}
				}
				if callee := call.Call.StaticCallee(); callee != nil && callee.Pkg == fn.Pkg && callee.Signature.Recv() == nil {
					walk(callee, d+1)
				}
			}
		}
	}
	walk(fn, 0)
	detail := ""
	if bad != nil {
		detail = fmt.Sprintf("String.prototype.search reaches an access of the regexp's lastIndex at %s (%s): search must start at 0 and leave lastIndex untouched, otherwise a global regexp gives position-dependent results and a following exec/test loop is corrupted", c.Pos(instrPos(bad)), ssaFuncName(bad.Parent()))
	}
	r.check(bad == nil, "search", c.Pos(fn.Pos()), "no access to lastIndex is reachable", detail)
}

func rulePosCallsite(c *Ctx, r *R) {
	entries := map[*ssa.Function]bool{}
	for _, e := range evaluatorEntries(c) {
		entries[e] = true
	}
	n := 0
	for _, fn := range c.AllSrcFuncs("") {
		for _, b := range fn.Blocks {
			for _, ins := range b.Instrs {
				st, ok := ins.(*ssa.Store)
				if !ok || !isFieldAddr(st.Addr, "frame", "offset") {
					continue
				}
				// only stores into the current scope's frame (rt.scope.frame.offset), not a local frame under construction
				fa := st.Addr.(*ssa.FieldAddr)
				inner, ok := fa.X.(*ssa.FieldAddr)
				if !ok || !isFieldAddr(inner, "scope", "frame") {
					continue
				}
				n++
				if isDeferredLiteral(fn) {
					// a deferred function putting a saved frame back (after eval code ran in the caller's scope): it records
					// no call site
					r.ok("offset-restore:"+ssaFuncName(fn), c.Pos(instrPos(ins)), "deferred restore of a saved frame position, not a call-site record")
					continue
				}
				res := mustReachBefore(ins, func(i ssa.Instruction) bool {
					call, ok := i.(ssa.CallInstruction)
					if !ok {
						return false
					}
					cl := call.Common().StaticCallee()
					return cl != nil && (cl.Name() == "call" || cl.Name() == "construct") && cl.Signature.Recv() != nil
				}, func(i ssa.Instruction) bool {
					call, ok := i.(ssa.CallInstruction)
					return ok && entries[call.Common().StaticCallee()]
				})
				// the position stored must be a real one on every path: a negative constant makes newError and
				// Context skip the caller's frame altogether
				neg := false
				{
					seen := map[ssa.Value]bool{}
					var walk func(v ssa.Value)
					walk = func(v ssa.Value) {
						if seen[v] {
							return
						}
						seen[v] = true
						switch y := v.(type) {
						case *ssa.Const:
							if k, ok := constInt(y); ok && k < 0 {
								neg = true
							}
						case *ssa.Convert:
							walk(y.X)
						case *ssa.ChangeType:
							walk(y.X)
						case *ssa.Phi:
							for _, e := range y.Edges {
								walk(e)
							}
						}
					}
					walk(st.Val)
				}
				r.check(!neg, "offset-valid:"+ssaFuncName(fn), c.Pos(instrPos(ins)), "the stored call-site offset is a node position on every path (never the `no position` constant)", "on some path the offset stored into the caller's frame is the constant -1 (callee that is not an identifier or member expression: `(function(){ null.x })()`, `g()()`): newError and Context skip frames with a negative offset, so the calling activation disappears from the stack trace")
				r.check(res.ok, "offset-store:"+ssaFuncName(fn), c.Pos(instrPos(ins)), "call-site offset stored after the arguments are evaluated, right before the invocation", "the call-site offset is stored into the caller's frame before further expressions are evaluated: a call made while evaluating an argument overwrites it, so stack traces report the argument's position for the outer call")
			}
		}
	}
	if n == 0 {
		r.undecided("sites", "-", "no store of the call-site offset found")
	}
}

func ruleSpecErrorProto(c *Ctx, r *R) {
	n := 0
	for _, fn := range c.AllSrcFuncs("") {
		if fn.Parent() != nil {
			continue
		}
		// functions that build an error object from an internal error: store ottoError-derived value + set prototype
		setsProto := false
		takesErr := false
		for _, p := range fn.Params {
			if typeStr(p.Type()) == "ottoError" {
				takesErr = true
			}
		}
		if !takesErr {
			continue
		}
		var bad ssa.Instruction
		for _, b := range fn.Blocks {
			for _, ins := range b.Instrs {
				st, ok := ins.(*ssa.Store)
				if !ok || !isFieldAddr(st.Addr, "object", "prototype") {
					continue
				}
				setsProto = true
				// value must be a load of a field of struct global
				okSrc := false
				if a := loadAddr(st.Val); a != nil {
					if nt, _ := fieldOfAddr(a); nt != nil && nt.Obj().Name() == "global" {
						okSrc = true
					}
				}
				if !okSrc {
					bad = ins
				}
			}
		}
		if !setsProto {
			continue
		}
		n++
		r.check(bad == nil, "proto-source:"+ssaFuncName(fn), c.Pos(fn.Pos()), "prototype taken from the runtime's intrinsics", fmt.Sprintf("%s takes the prototype of an internally raised error from somewhere other than rt.global.*Prototype: after a script rebinds or deletes the global constructor, `e instanceof TypeError` and e.name are wrong for errors the interpreter itself raises", ssaFuncName(fn)))
	}
	if n == 0 {
		r.undecided("sites", "-", "no function converting an internal error into an error object found")
	}
}
