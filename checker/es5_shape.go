package main

import (
	"fmt"
	"strconv"
	"strings"
)

// es5ShapeTable is the ES5.1 standard-library shape, written from the specification
// (section numbers on the `obj` lines). Independent of otto's source.
//
//	obj <path> class=<[[Class]]> proto=<path|null> [callable] [ctor] ; §clause
//	  <name> fn <length>            function-valued, attributes w-c (clause 15 preamble)
//	  <name> ctor <length>          constructor-valued, attributes w-c
//	  <name> obj <path> <attrs>     object-valued data property that must point at <path>
//	  <name> num|str|undef <attrs>  primitive-valued
//
// Attributes: w = writable, e = enumerable, c = configurable, - = off.
// Clause 15 preamble: "every other property described in this clause has the attributes
// {W:true, E:false, C:true} unless otherwise specified"; every built-in function has a
// `length` data property {W:false, E:false, C:false}.
const es5ShapeTable = `
obj <global> class=* proto=* ; §15.1
  NaN num ---
  Infinity num ---
  undefined undef ---
  eval fn 1
  parseInt fn 2
  parseFloat fn 1
  isNaN fn 1
  isFinite fn 1
  decodeURI fn 1
  decodeURIComponent fn 1
  encodeURI fn 1
  encodeURIComponent fn 1
  escape fn 1
  unescape fn 1
  Object ctor 1
  Function ctor 1
  Array ctor 1
  String ctor 1
  Boolean ctor 1
  Number ctor 1
  Date ctor 7
  RegExp ctor 2
  Error ctor 1
  EvalError ctor 1
  RangeError ctor 1
  ReferenceError ctor 1
  SyntaxError ctor 1
  TypeError ctor 1
  URIError ctor 1
  Math obj Math w-c
  JSON obj JSON w-c

obj Object class=Function proto=Function.prototype callable ctor ; §15.2.3
  prototype obj Object.prototype ---
  getPrototypeOf fn 1
  getOwnPropertyDescriptor fn 2
  getOwnPropertyNames fn 1
  create fn 2
  defineProperty fn 3
  defineProperties fn 2
  seal fn 1
  freeze fn 1
  preventExtensions fn 1
  isSealed fn 1
  isFrozen fn 1
  isExtensible fn 1
  keys fn 1

obj Object.prototype class=Object proto=null ; §15.2.4
  constructor obj Object w-c
  toString fn 0
  toLocaleString fn 0
  valueOf fn 0
  hasOwnProperty fn 1
  isPrototypeOf fn 1
  propertyIsEnumerable fn 1

obj Function class=Function proto=Function.prototype callable ctor ; §15.3.3
  prototype obj Function.prototype ---

obj Function.prototype class=Function proto=Object.prototype callable ; §15.3.4
  length num ---
  constructor obj Function w-c
  toString fn 0
  apply fn 2
  call fn 1
  bind fn 1

obj Array class=Function proto=Function.prototype callable ctor ; §15.4.3
  prototype obj Array.prototype ---
  isArray fn 1

obj Array.prototype class=Array proto=Object.prototype ; §15.4.4
  length num w--
  constructor obj Array w-c
  toString fn 0
  toLocaleString fn 0
  concat fn 1
  join fn 1
  pop fn 0
  push fn 1
  reverse fn 0
  shift fn 0
  slice fn 2
  sort fn 1
  splice fn 2
  unshift fn 1
  indexOf fn 1
  lastIndexOf fn 1
  every fn 1
  some fn 1
  forEach fn 1
  map fn 1
  filter fn 1
  reduce fn 1
  reduceRight fn 1

obj String class=Function proto=Function.prototype callable ctor ; §15.5.3
  prototype obj String.prototype ---
  fromCharCode fn 1

obj String.prototype class=String proto=Object.prototype ; §15.5.4
  length num ---
  constructor obj String w-c
  toString fn 0
  valueOf fn 0
  charAt fn 1
  charCodeAt fn 1
  concat fn 1
  indexOf fn 1
  lastIndexOf fn 1
  localeCompare fn 1
  match fn 1
  replace fn 2
  search fn 1
  slice fn 2
  split fn 2
  substring fn 2
  toLowerCase fn 0
  toLocaleLowerCase fn 0
  toUpperCase fn 0
  toLocaleUpperCase fn 0
  trim fn 0
  substr fn 2

obj Boolean class=Function proto=Function.prototype callable ctor ; §15.6.3
  prototype obj Boolean.prototype ---

obj Boolean.prototype class=Boolean proto=Object.prototype ; §15.6.4
  constructor obj Boolean w-c
  toString fn 0
  valueOf fn 0

obj Number class=Function proto=Function.prototype callable ctor ; §15.7.3
  prototype obj Number.prototype ---
  MAX_VALUE num ---
  MIN_VALUE num ---
  NaN num ---
  NEGATIVE_INFINITY num ---
  POSITIVE_INFINITY num ---

obj Number.prototype class=Number proto=Object.prototype ; §15.7.4
  constructor obj Number w-c
  toString fn 1
  toLocaleString fn 0
  valueOf fn 0
  toFixed fn 1
  toExponential fn 1
  toPrecision fn 1

obj Math class=Math proto=Object.prototype ; §15.8
  E num ---
  LN10 num ---
  LN2 num ---
  LOG2E num ---
  LOG10E num ---
  PI num ---
  SQRT1_2 num ---
  SQRT2 num ---
  abs fn 1
  acos fn 1
  asin fn 1
  atan fn 1
  atan2 fn 2
  ceil fn 1
  cos fn 1
  exp fn 1
  floor fn 1
  log fn 1
  max fn 2
  min fn 2
  pow fn 2
  random fn 0
  round fn 1
  sin fn 1
  sqrt fn 1
  tan fn 1

obj Date class=Function proto=Function.prototype callable ctor ; §15.9.4
  prototype obj Date.prototype ---
  parse fn 1
  UTC fn 7
  now fn 0

obj Date.prototype class=Date proto=Object.prototype ; §15.9.5, B.2.4-6
  constructor obj Date w-c
  toString fn 0
  toDateString fn 0
  toTimeString fn 0
  toLocaleString fn 0
  toLocaleDateString fn 0
  toLocaleTimeString fn 0
  valueOf fn 0
  getTime fn 0
  getFullYear fn 0
  getUTCFullYear fn 0
  getMonth fn 0
  getUTCMonth fn 0
  getDate fn 0
  getUTCDate fn 0
  getDay fn 0
  getUTCDay fn 0
  getHours fn 0
  getUTCHours fn 0
  getMinutes fn 0
  getUTCMinutes fn 0
  getSeconds fn 0
  getUTCSeconds fn 0
  getMilliseconds fn 0
  getUTCMilliseconds fn 0
  getTimezoneOffset fn 0
  setTime fn 1
  setMilliseconds fn 1
  setUTCMilliseconds fn 1
  setSeconds fn 2
  setUTCSeconds fn 2
  setMinutes fn 3
  setUTCMinutes fn 3
  setHours fn 4
  setUTCHours fn 4
  setDate fn 1
  setUTCDate fn 1
  setMonth fn 2
  setUTCMonth fn 2
  setFullYear fn 3
  setUTCFullYear fn 3
  toUTCString fn 0
  toISOString fn 0
  toJSON fn 1
  getYear fn 0
  setYear fn 1
  toGMTString fn 0

obj RegExp class=Function proto=Function.prototype callable ctor ; §15.10.5
  prototype obj RegExp.prototype ---

obj RegExp.prototype class=RegExp proto=Object.prototype ; §15.10.6, §15.10.7
  constructor obj RegExp w-c
  exec fn 1
  test fn 1
  toString fn 0
  source str ---
  global bool ---
  ignoreCase bool ---
  multiline bool ---
  lastIndex num w--

obj Error class=Function proto=Function.prototype callable ctor ; §15.11.3
  prototype obj Error.prototype ---

obj Error.prototype class=Error proto=Object.prototype ; §15.11.4
  constructor obj Error w-c
  name str w-c
  message str w-c
  toString fn 0

obj JSON class=JSON proto=Object.prototype ; §15.12
  parse fn 2
  stringify fn 3
`

// The six NativeError objects (§15.11.6, §15.11.7) share one template.
var es5NativeErrors = []string{"EvalError", "RangeError", "ReferenceError", "SyntaxError", "TypeError", "URIError"}

const es5NativeErrorTemplate = `
obj NAME class=Function proto=Function.prototype callable ctor ; §15.11.7.5
  prototype obj NAME.prototype ---

obj NAME.prototype class=Error proto=Error.prototype ; §15.11.7.7
  constructor obj NAME w-c
  name str w-c
  message str w-c
`

type es5Prop struct {
	Name   string
	Kind   string // fn ctor obj num str bool undef
	Length int    // fn/ctor
	Target string // obj
	Attrs  string
}

type es5Obj struct {
	Path     string
	Class    string
	Proto    string
	Callable bool
	Ctor     bool
	Clause   string
	Props    []es5Prop
}

func parseES5Shape() ([]*es5Obj, error) {
	text := es5ShapeTable
	for _, n := range es5NativeErrors {
		text += strings.ReplaceAll(es5NativeErrorTemplate, "NAME", n)
	}
	var out []*es5Obj
	var cur *es5Obj
	for ln, line := range strings.Split(text, "\n") {
		clause := ""
		if i := strings.Index(line, ";"); i >= 0 {
			clause = strings.TrimSpace(line[i+1:])
			line = line[:i]
		}
		f := strings.Fields(line)
		if len(f) == 0 {
			continue
		}
		if f[0] == "obj" {
			cur = &es5Obj{Path: f[1], Clause: clause}
			for _, a := range f[2:] {
				switch {
				case strings.HasPrefix(a, "class="):
					cur.Class = a[6:]
				case strings.HasPrefix(a, "proto="):
					cur.Proto = a[6:]
				case a == "callable":
					cur.Callable = true
				case a == "ctor":
					cur.Ctor = true
				default:
					return nil, fmt.Errorf("es5 table line %d: bad attribute %q", ln, a)
				}
			}
			out = append(out, cur)
			continue
		}
		if cur == nil || len(f) < 3 {
			return nil, fmt.Errorf("es5 table line %d: malformed", ln)
		}
		p := es5Prop{Name: f[0], Kind: f[1]}
		switch f[1] {
		case "fn", "ctor":
			n, err := strconv.Atoi(f[2])
			if err != nil {
				return nil, fmt.Errorf("es5 table line %d: %v", ln, err)
			}
			p.Length, p.Attrs = n, "w-c"
		case "obj":
			if len(f) != 4 {
				return nil, fmt.Errorf("es5 table line %d: obj needs target and attrs", ln)
			}
			p.Target, p.Attrs = f[2], f[3]
		default:
			p.Attrs = f[2]
		}
		cur.Props = append(cur.Props, p)
	}
	return out, nil
}
