package main

import (
	"fmt"
	"go/types"
	"sort"
	"strconv"
	"strings"

	"golang.org/x/tools/go/ssa"
)

// SPEC-array-define: the Array [[DefineOwnProperty]] of ES5 15.4.5.1 - the coupling between `length` and the index
// properties - evaluated abstractly on small arrays.

func init() {
	register(&Rule{ID: "SPEC-array-define", Props: []string{"C08", "C07"}, Min: 6,
		Doc: "S (abstract evaluation over a finite domain): arrayDefineOwnProperty is evaluated, through the array class table, on every array of length 0..3 whose elements are each absent / configurable / non-configurable and whose length is writable or not, for (a) every definition of `length` with a value 0..4 or an invalid one (-1), writable absent / true / false, and the attribute-only forms, and (b) every definition of an index 0..4 with a value, with full attributes, or with configurable:false. The outcome - TypeError / RangeError, the new length and its writability, which elements survive and their attributes - equals ES5 15.4.5.1 steps 3.a-3.n and 4.a-4.f (with 8.12.9 for the ordinary part): truncation stops at the first non-configurable element and leaves length one above it, a request for a read-only length takes effect after the truncation (also when the truncation is blocked), a non-writable length blocks growth but accepts its own value. Numbers are exact small integers; the ToUint32 conversion of the new length (arrayUint32) is modelled as the identity on 0..2^32-1 and RangeError otherwise",
		Run: ruleSpecArrayDefine})
}

type arrElem int // 0 absent, 1 configurable, 2 non-configurable

type arrState struct {
	length   int
	writable bool
	elems    [5]arrElem
	val      [5]string // value atom of present elements
}

func (a arrState) String() string {
	var parts []string
	for i := 0; i < 5; i++ {
		switch a.elems[i] {
		case 1:
			parts = append(parts, fmt.Sprintf("%d:%s", i, a.val[i]))
		case 2:
			parts = append(parts, fmt.Sprintf("%d:%s(non-configurable)", i, a.val[i]))
		}
	}
	return fmt.Sprintf("array{length:%d writable:%v [%s]}", a.length, a.writable, strings.Join(parts, " "))
}

func ruleSpecArrayDefine(c *Ctx, r *R) {
	w := defineWorldFor(c)
	if w == nil {
		r.undecided("unresolved:world", "-", "UNRESOLVED: SPEC-define-own could not set up the abstract model")
		return
	}
	m, in := w.m, w.in
	var fArrDef *ssa.Function
	for _, fn := range c.AllSrcFuncs("") {
		if ssaFuncName(fn) == "arrayDefineOwnProperty" {
			fArrDef = fn
		}
	}
	if fArrDef == nil {
		r.undecided("unresolved:arrayDefineOwnProperty", "-", "UNRESOLVED: arrayDefineOwnProperty")
		return
	}
	classTable, why := classTableOf(c, in, "classArray")
	if why != "" {
		r.undecided("unresolved:classArray", "-", "UNRESOLVED: "+why)
		return
	}
	ost := m.tObject.Underlying().(*types.Struct)
	field := func(name string) int {
		for i := 0; i < ost.NumFields(); i++ {
			if ost.Field(i).Name() == name {
				return i
			}
		}
		return -1
	}
	fClass, fOrder := field("objectClass"), field("propertyOrder")

	hooks := w.hooks
	hooks["arrayUint32"] = func(in *absInterp, call *ssa.CallCommon, args []aval) (aval, bool) {
		a := m.valueAtom(args[1])
		var n int64
		if _, err := fmt.Sscanf(a, "n:%d", &n); err != nil || n < 0 || n > 4294967295 {
			panic(absPanic{aAtom{"RangeError"}})
		}
		return aInt(n), true
	}
	hooks["strconv.FormatInt"] = func(in *absInterp, call *ssa.CallCommon, args []aval) (aval, bool) {
		n, _ := args[0].(aInt)
		return aStr(strconv.FormatInt(int64(n), 10)), true
	}
	hooks["stringToArrayIndex"] = func(in *absInterp, call *ssa.CallCommon, args []aval) (aval, bool) {
		s, _ := args[0].(aStr)
		n, err := strconv.ParseInt(string(s), 10, 64)
		if err != nil || n < 0 || strconv.FormatInt(n, 10) != string(s) {
			return aInt(-1), true
		}
		return aInt(n), true
	}
	defer func() {
		delete(hooks, "arrayUint32")
		delete(hooks, "strconv.FormatInt")
		delete(hooks, "stringToArrayIndex")
	}()

	mkLenValue := func(n int) aval {
		v := in.zero(m.tValue).(aStruct)
		v.f[m.valueFieldKind] = aInt(m.kNumber)
		v.f[m.valueFieldValue] = aIface{dyn: types.Typ[types.Uint32], v: aInt(int64(n))}
		return v
	}
	mkArray := func(a arrState) *acell {
		obj := in.zero(m.tObject).(aStruct)
		pm := newAMap()
		order := []aval{aStr("length")}
		lp := in.zero(m.tProperty).(aStruct)
		lmode := int64(0)
		if a.writable {
			lmode = 0o100
		}
		lp.f[0], lp.f[1] = aIface{dyn: m.tValue, v: mkLenValue(a.length)}, aInt(lmode)
		pm.m["length"] = lp
		for i := 0; i < 5; i++ {
			if a.elems[i] == 0 {
				continue
			}
			ep := in.zero(m.tProperty).(aStruct)
			mode := int64(0o111)
			if a.elems[i] == 2 {
				mode = 0o110
			}
			ep.f[0], ep.f[1] = aIface{dyn: m.tValue, v: m.mkValue(in, a.val[i])}, aInt(mode)
			pm.m[strconv.Itoa(i)] = ep
			order = append(order, aStr(strconv.Itoa(i)))
		}
		obj.f[w.fProp], obj.f[w.fExt], obj.f[w.fRt] = pm, aBool(true), aAtom{"rt"}
		obj.f[fClass] = classTable
		obj.f[fOrder] = aSlice{arr: aRef{root: &acell{v: aArr{e: order}, name: "order"}}, n: len(order)}
		return &acell{v: obj, name: "arr"}
	}
	readArray := func(cell *acell) (arrState, string) {
		var a arrState
		pm := cell.v.(aStruct).f[w.fProp].(aMap)
		lp, ok := pm.m["length"]
		if !ok {
			return a, "length property disappeared"
		}
		ls := lp.(aStruct)
		lst, why := w.decode(&storedProp{value: ls.f[0], mode: int64(ls.f[1].(aInt))})
		if why != "" {
			return a, "length: " + why
		}
		if lst.kind != "data" || lst.e || lst.c {
			return a, "length is no longer a non-enumerable non-configurable data property: " + lst.String()
		}
		var n int64
		if _, err := fmt.Sscanf(lst.v, "n:%d", &n); err != nil {
			return a, "length value is " + lst.v
		}
		// the payload of a stored length must stay a uint32 (objectLength asserts it)
		if iv, ok := ls.f[0].(aIface); ok {
			if vs, ok := iv.v.(aStruct); ok {
				if pl, ok := vs.f[m.valueFieldValue].(aIface); ok && pl.dyn != nil && !types.Identical(pl.dyn, types.Typ[types.Uint32]) {
					return a, "length is stored with a payload of Go type " + typeStr(pl.dyn) + " (objectLength asserts uint32)"
				}
			}
		}
		a.length, a.writable = int(n), lst.w
		for name, pv := range pm.m {
			if name == "length" {
				continue
			}
			i, err := strconv.Atoi(name)
			if err != nil || i < 0 || i > 4 {
				return a, "unexpected property " + name
			}
			ps := pv.(aStruct)
			st, why := w.decode(&storedProp{value: ps.f[0], mode: int64(ps.f[1].(aInt))})
			if why != "" || st.kind != "data" {
				return a, "element " + name + ": " + why + st.kind
			}
			a.val[i] = st.v
			if st.c {
				a.elems[i] = 1
			} else {
				a.elems[i] = 2
			}
			if !st.w || !st.e {
				a.val[i] += fmt.Sprintf("(w:%v,e:%v)", st.w, st.e)
			}
		}
		return a, ""
	}

	// ---- the ES5 model (15.4.5.1) ----
	lengthState := func(a arrState) pdState {
		return pdState{kind: "data", v: fmt.Sprintf("n:%d", a.length), w: a.writable}
	}
	type result struct {
		err string // "", "TypeError", "RangeError"
		a   arrState
	}
	defineLength := func(a arrState, d pdDesc) result {
		if d.isAccessor() && d.isData() {
			return result{"TypeError", a}
		}
		if d.value == "" { // 3.a
			rej, st := es5Define(lengthState(a), true, d)
			if rej {
				return result{"TypeError", a}
			}
			a.writable = st.w
			return result{"", a}
		}
		var newLen int64
		if _, err := fmt.Sscanf(d.value, "n:%d", &newLen); err != nil || newLen < 0 {
			return result{"RangeError", a} // 3.d
		}
		if int(newLen) >= a.length { // 3.f
			rej, st := es5Define(lengthState(a), true, d)
			if rej {
				return result{"TypeError", a}
			}
			a.length, a.writable = int(newLen), st.w
			return result{"", a}
		}
		if !a.writable { // 3.g
			return result{"TypeError", a}
		}
		newWritable := d.w != 2 // 3.h
		nd := d
		if !newWritable {
			nd.w = 1 // 3.i
		}
		rej, st := es5Define(lengthState(a), true, nd) // 3.j
		if rej {
			return result{"TypeError", a}
		}
		a.writable = st.w
		old := a.length
		a.length = int(newLen)
		for int(newLen) < old { // 3.l
			old--
			if old < 5 && a.elems[old] == 2 {
				a.length = old + 1
				if !newWritable {
					a.writable = false
				}
				return result{"TypeError", a}
			}
			if old < 5 {
				a.elems[old], a.val[old] = 0, ""
			}
		}
		if !newWritable { // 3.m
			a.writable = false
		}
		return result{"", a}
	}
	defineIndex := func(a arrState, idx int, d pdDesc) result {
		if d.isAccessor() && d.isData() {
			return result{"TypeError", a}
		}
		if idx >= a.length && !a.writable { // 4.b
			return result{"TypeError", a}
		}
		cur := pdState{kind: "absent"}
		if a.elems[idx] != 0 {
			cur = pdState{kind: "data", v: a.val[idx], w: true, e: true, c: a.elems[idx] == 1}
		}
		rej, st := es5Define(cur, true, d) // 4.c
		if rej {
			return result{"TypeError", a}
		}
		if st.kind != "data" {
			return result{"", a} // not modelled further (no accessor descriptors are used here)
		}
		a.val[idx] = st.v
		if !st.w || !st.e {
			a.val[idx] += fmt.Sprintf("(w:%v,e:%v)", st.w, st.e)
		}
		if st.c {
			a.elems[idx] = 1
		} else {
			a.elems[idx] = 2
		}
		if idx >= a.length { // 4.e
			a.length = idx + 1
		}
		return result{"", a}
	}

	// ---- enumerate ----
	var states []arrState
	for L := 0; L <= 3; L++ {
		for _, wr := range []bool{true, false} {
			n := 1
			for i := 0; i < L; i++ {
				n *= 3
			}
			for code := 0; code < n; code++ {
				a := arrState{length: L, writable: wr}
				x := code
				for i := 0; i < L; i++ {
					a.elems[i] = arrElem(x % 3)
					if a.elems[i] != 0 {
						a.val[i] = fmt.Sprintf("E%d", i)
					}
					x /= 3
				}
				states = append(states, a)
			}
		}
	}
	var lenDescs []pdDesc
	for _, v := range []string{"", "n:0", "n:1", "n:2", "n:3", "n:4", "n:-1"} {
		for wv := 0; wv < 3; wv++ {
			lenDescs = append(lenDescs, pdDesc{value: v, w: wv})
		}
	}
	lenDescs = append(lenDescs, pdDesc{e: 1}, pdDesc{c: 1}, pdDesc{e: 2, c: 2}, pdDesc{value: "n:1", e: 1}, pdDesc{get: "fn:G0"})
	idxDescs := []pdDesc{{value: "V1"}, {value: "V1", w: 1, e: 1, c: 1}, {c: 2}, {value: "V1", c: 2, w: 1, e: 1}}

	type stat struct {
		cases int
		bad   []string
		fail  string
	}
	stats := map[string]*stat{}
	get := func(cat string) *stat {
		if stats[cat] == nil {
			stats[cat] = &stat{}
		}
		return stats[cat]
	}
	run := func(a arrState, name string, d pdDesc, want result, cat string) {
		st := get(cat)
		st.cases++
		js := fmt.Sprintf("%s; Object.defineProperty(a, '%s', %s)", a, name, strings.ReplaceAll(d.js(), "n:", ""))
		desc, typeErr, fail := w.convert(d)
		if fail != "" {
			if st.fail == "" {
				st.fail = fail
			}
			return
		}
		got := result{a: a}
		if typeErr {
			got.err = "TypeError"
		} else {
			cell := mkArray(a)
			ret, pan, fail := absRun(in, fArrDef, []aval{aRef{root: cell}, aStr(name), desc, aBool(true)})
			if fail != "" {
				if st.fail == "" {
					st.fail = fail + " [" + js + "]"
				}
				return
			}
			_ = ret
			if pan != nil {
				pv := pan
				if i, ok := pv.(aIface); ok {
					pv = i.v
				}
				if at, ok := pv.(aAtom); ok && (at.name == "TypeError" || at.name == "RangeError") {
					got.err = at.name
				} else {
					st.bad = append(st.bad, fmt.Sprintf("`%s` panics in the host (%s)", js, describeAval(pan)))
					return
				}
			}
			var why string
			got.a, why = readArray(cell)
			if why != "" {
				st.bad = append(st.bad, fmt.Sprintf("`%s` leaves the array in a state that cannot be read back: %s", js, why))
				return
			}
		}
		if got.err != want.err || got.a != want.a {
			st.bad = append(st.bad, fmt.Sprintf("`%s` -> %s %s; ES5 15.4.5.1 requires %s %s", js, orNone(got.err), got.a, orNone(want.err), want.a))
		}
	}
	n := 0
	for _, a := range states {
		for _, d := range lenDescs {
			n++
			cat := "15.4.5.1 step 3 (length, "
			switch {
			case d.value == "":
				cat += "attributes only)"
			case d.value == "n:-1":
				cat += "invalid value)"
			default:
				var nl int
				fmt.Sscanf(d.value, "n:%d", &nl)
				switch {
				case nl > a.length:
					cat += "grow)"
				case nl == a.length:
					cat += "same value)"
				default:
					cat += "shrink)"
				}
			}
			run(a, "length", d, defineLength(a, d), cat)
		}
		for idx := 0; idx <= 4; idx++ {
			for _, d := range idxDescs {
				n++
				cat := "15.4.5.1 step 4 (index below length)"
				if idx >= a.length {
					cat = "15.4.5.1 step 4 (index at or above length)"
				}
				run(a, strconv.Itoa(idx), d, defineIndex(a, idx, d), cat)
			}
		}
	}
	var cats []string
	for k := range stats {
		cats = append(cats, k)
	}
	sort.Strings(cats)
	site := c.Pos(fArrDef.Pos())
	for _, cat := range cats {
		st := stats[cat]
		switch {
		case st.fail != "":
			r.undecided(cat, site, "UNDECIDED: the abstract evaluator does not model "+st.fail)
		case len(st.bad) > 0:
			r.bad(cat, site, fmt.Sprintf("%d of %d cases deviate from ES5; first: %s", len(st.bad), st.cases, st.bad[0]))
		default:
			r.ok(cat, site, fmt.Sprintf("%d cases agree with ES5", st.cases))
		}
	}
	r.ok("coverage", "-", fmt.Sprintf("%d cases over %d array states", n, len(states)))
	if n < 1000 {
		r.undecided("coverage-low", "-", fmt.Sprintf("UNDECIDED: only %d cases", n))
	}
}

func orNone(s string) string {
	if s == "" {
		return "ok"
	}
	return s
}
