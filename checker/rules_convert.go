package main

import (
	"fmt"
	"go/token"
	"go/types"
	"sort"
	"strings"

	"golang.org/x/tools/go/ssa"
)

func init() {
	register(&Rule{ID: "LIB-convert", Props: []string{"C16", "C15", "C02"}, Min: 30,
		Doc: "G (library precondition, kind dataflow): reflect.Value.Convert panics when the value is not convertible to the target type - and, for a slice converted to an array (or pointer to array), when it is too short even though Type.ConvertibleTo says yes. For every Convert(T) in package otto the set of reflect.Kinds the operand and the target can have at that point is computed by a forward dataflow over the function (refined on the edges of `x.Kind() == K`, switch arms over a Kind, `a.Kind() == b.Kind()`; joined at merges; parameters start with the union of what the call sites pass; closures start with the facts at their creation), and the call must be one of: numeric to numeric, string to string, bool to bool (conversions that cannot fail); under a true X.CanConvert(T); under a true X.Type().ConvertibleTo(T) with a target that cannot be an array or a pointer; or the operand is the result of a kind-faithful constructor (a function returning, for the Kind it is given, a basic value of exactly that kind) called with T's own Kind. A script string held as UTF-16 (`String.fromCharCode(72)`) reaching Convert as []uint16, or a short script array stored into a [2]int64, otherwise crash the host",
		Run: ruleLibConvert})
}

const (
	kBool      = 1
	kInt       = 2
	kFloat64   = 14
	kArray     = 17
	kInterface = 20
	kPointer   = 22
	kString    = 24
	kAll       = uint32(1<<27 - 1)
)

var kNum = func() uint32 {
	var m uint32
	for k := kInt; k <= kFloat64; k++ {
		m |= 1 << uint(k)
	}
	return m
}()

var kindNames = []string{"Invalid", "Bool", "Int", "Int8", "Int16", "Int32", "Int64", "Uint", "Uint8", "Uint16", "Uint32", "Uint64", "Uintptr", "Float32", "Float64", "Complex64", "Complex128", "Array", "Chan", "Func", "Interface", "Map", "Pointer", "Slice", "String", "Struct", "UnsafePointer"}

func kindSetString(m uint32) string {
	if m == kAll {
		return "any kind"
	}
	if m&kAll == kNum {
		return "numeric kinds"
	}
	var out []string
	inv := false
	if bitsCount(m) > 14 {
		inv = true
		m = ^m & kAll
	}
	for k, n := range kindNames {
		if m&(1<<uint(k)) != 0 {
			out = append(out, n)
		}
	}
	if inv {
		return "any kind but " + strings.Join(out, ",")
	}
	return "{" + strings.Join(out, ",") + "}"
}

func bitsCount(m uint32) int {
	n := 0
	for ; m != 0; m &= m - 1 {
		n++
	}
	return n
}

func isReflectKind(t types.Type) bool { return typeIs(t, "reflect", "Kind") }

// staticKind: the reflect.Kind of a Go static type (0 when it is an interface: dynamic).
func staticKind(t types.Type) uint32 {
	switch u := t.Underlying().(type) {
	case *types.Basic:
		switch u.Kind() {
		case types.Bool, types.UntypedBool:
			return 1 << kBool
		case types.Int:
			return 1 << 2
		case types.Int8:
			return 1 << 3
		case types.Int16:
			return 1 << 4
		case types.Int32, types.UntypedRune:
			return 1 << 5
		case types.Int64:
			return 1 << 6
		case types.Uint:
			return 1 << 7
		case types.Uint8:
			return 1 << 8
		case types.Uint16:
			return 1 << 9
		case types.Uint32:
			return 1 << 10
		case types.Uint64:
			return 1 << 11
		case types.Uintptr:
			return 1 << 12
		case types.Float32:
			return 1 << 13
		case types.Float64, types.UntypedFloat:
			return 1 << 14
		case types.Complex64:
			return 1 << 15
		case types.Complex128:
			return 1 << 16
		case types.String, types.UntypedString:
			return 1 << kString
		case types.UnsafePointer:
			return 1 << 26
		}
	case *types.Array:
		return 1 << kArray
	case *types.Chan:
		return 1 << 18
	case *types.Signature:
		return 1 << 19
	case *types.Map:
		return 1 << 21
	case *types.Pointer:
		return 1 << kPointer
	case *types.Slice:
		return 1 << 23
	case *types.Struct:
		return 1 << 25
	}
	return 0
}

type kindFacts map[string]uint32 // subject -> possible kinds (absent = any)

func (f kindFacts) get(s string) uint32 {
	if s == "" {
		return kAll
	}
	if v, ok := f[s]; ok {
		return v
	}
	return kAll
}

func (f kindFacts) clone() kindFacts {
	o := kindFacts{}
	for k, v := range f {
		o[k] = v
	}
	return o
}

// joinInto: dst := dst ∪ src (absent = any). Returns whether dst changed.
func joinFacts(dst, src kindFacts) (kindFacts, bool) {
	if dst == nil {
		return src.clone(), true
	}
	changed := false
	for k, v := range dst {
		nv := v | src.get(k)
		if nv&kAll == kAll {
			delete(dst, k)
			changed = true
		} else if nv != v {
			dst[k] = nv
			changed = true
		}
	}
	return dst, changed
}

type kindFlow struct {
	x        *rfx
	c        *Ctx
	in       map[*ssa.BasicBlock]kindFacts
	entry    map[*ssa.Function]kindFacts // facts at function entry (parameters, closures)
	faithful map[*ssa.Function]int       // kind-faithful constructors: index of the Kind parameter
}

// subject of a reflect.Type / reflect.Value / reflect.Kind ssa value.
func (kf *kindFlow) typeSubject(v ssa.Value) string {
	if e := kf.x.typeExpr(v, 0); e != "" {
		return "T:" + e
	}
	v = normCell(v)
	if v.Parent() != nil {
		return "T@" + v.Parent().RelString(nil) + ":" + v.Name()
	}
	return ""
}

func (kf *kindFlow) valueSubject(v ssa.Value) string {
	v = normCell(v)
	if c, ok := v.(*ssa.Call); ok {
		// the kind of Zero(T), New(T).Elem(), X.Convert(T) is the kind of T
		switch isReflectFn(c.Call.StaticCallee(), "Zero", "Convert") {
		case "Zero":
			return kf.typeSubject(c.Call.Args[0])
		case "Convert":
			return kf.typeSubject(c.Call.Args[1])
		}
	}
	if fe := fieldExpr(v); fe != "" {
		return "V:" + fe
	}
	if v.Parent() != nil {
		return "V@" + v.Parent().RelString(nil) + ":" + v.Name()
	}
	return ""
}

// kindSubject: the subject whose kind the reflect.Kind value k holds.
func (kf *kindFlow) kindSubject(k ssa.Value) string {
	k = normCell(k)
	switch y := k.(type) {
	case *ssa.Call:
		if y.Call.IsInvoke() && y.Call.Method.Name() == "Kind" && isReflectType(y.Call.Value.Type()) {
			return kf.typeSubject(y.Call.Value)
		}
		if isReflectFn(y.Call.StaticCallee(), "Kind") != "" && len(y.Call.Args) == 1 && isReflectValue(y.Call.Args[0].Type()) {
			// v.Kind() == v.Type().Kind()
			if c2, ok := normCell(y.Call.Args[0]).(*ssa.Call); ok && isReflectFn(c2.Call.StaticCallee(), "Zero", "Convert") != "" {
				return kf.valueSubject(y.Call.Args[0])
			}
			return kf.valueSubject(y.Call.Args[0])
		}
	case *ssa.Parameter:
		for i, p := range y.Parent().Params {
			if p == y {
				return fmt.Sprintf("K:%s:param:%d", y.Parent().RelString(nil), i)
			}
		}
	}
	return ""
}

// staticKindsOfValue: kinds a reflect.Value can have from the way it was made (kAll when unknown).
func (kf *kindFlow) staticKindsOfValue(v ssa.Value, depth int, facts kindFacts) uint32 {
	if depth > 6 {
		return kAll
	}
	v = normCell(v)
	switch y := v.(type) {
	case *ssa.Call:
		switch isReflectFn(y.Call.StaticCallee(), "ValueOf", "Zero", "Convert") {
		case "ValueOf":
			if mi, ok := y.Call.Args[0].(*ssa.MakeInterface); ok {
				if k := staticKind(mi.X.Type()); k != 0 {
					return k
				}
			}
			return kAll
		case "Zero":
			return facts.get(kf.typeSubject(y.Call.Args[0]))
		case "Convert":
			return facts.get(kf.typeSubject(y.Call.Args[1]))
		}
	case *ssa.Extract:
		// result of a kind-faithful constructor: the kind it was asked for
		if c, ok := y.Tuple.(*ssa.Call); ok && y.Index == 0 {
			if i, ok := kf.faithful[c.Call.StaticCallee()]; ok {
				return facts.get(kf.kindSubject(c.Call.Args[i]))
			}
		}
	case *ssa.Phi:
		var m uint32
		for _, e := range y.Edges {
			m |= kf.staticKindsOfValue(e, depth+1, facts)
		}
		return m
	}
	return kAll
}

func (kf *kindFlow) kindsOfValue(v ssa.Value, facts kindFacts) uint32 {
	return kf.staticKindsOfValue(v, 0, facts) & facts.get(kf.valueSubject(v))
}

// refine: facts on the true/false edge of `if cond`.
// kindPredicate: for a function of the module func(reflect.Kind) bool, the set of kinds for which it answers true
// (evaluated by the abstract interpreter on every kind); ok is false when it is not such a function or cannot be run.
var kindPredicateMemo = map[*ssa.Function]int64{}

func kindPredicate(f *ssa.Function) (uint32, bool) {
	if f == nil || f.Blocks == nil || len(f.Params) != 1 || f.Signature.Results().Len() != 1 || !isReflectKind(f.Params[0].Type()) || typeStr(f.Signature.Results().At(0).Type()) != "bool" {
		return 0, false
	}
	if m, ok := kindPredicateMemo[f]; ok {
		return uint32(m), m >= 0
	}
	in := newAbsInterp(map[string]absHook{})
	var set uint32
	for k := 0; k <= 26; k++ {
		ret, pan, fail := absRun(in, f, []aval{aInt(k)})
		b, isB := ret.(aBool)
		if fail != "" || pan != nil || !isB {
			kindPredicateMemo[f] = -1
			return 0, false
		}
		if bool(b) {
			set |= 1 << uint(k)
		}
	}
	kindPredicateMemo[f] = int64(set)
	return set, true
}

func (kf *kindFlow) refine(cond ssa.Value, facts kindFacts, branch bool) kindFacts {
	// a predicate of the module over a kind: isSignedKind(k)
	if inner, neg := normBool(cond); inner != nil {
		if call, ok := inner.(*ssa.Call); ok && len(call.Call.Args) == 1 {
			if m, ok := kindPredicate(call.Call.StaticCallee()); ok {
				truth := branch != neg
				out := facts.clone()
				s := kf.kindSubject(call.Call.Args[0])
				cur := kf.curKinds(call.Call.Args[0], facts)
				if s != "" {
					if truth {
						cur &= m
					} else {
						cur &^= m
					}
					if cur&kAll == kAll {
						delete(out, s)
					} else {
						out[s] = cur
					}
				}
				return out
			}
		}
	}
	bo, ok := cond.(*ssa.BinOp)
	if !ok || (bo.Op != token.EQL && bo.Op != token.NEQ) || !isReflectKind(bo.X.Type()) {
		return facts
	}
	eq := (bo.Op == token.EQL) == branch
	out := facts.clone()
	set := func(s string, m uint32) {
		if s == "" {
			return
		}
		if m&kAll == kAll {
			delete(out, s)
		} else {
			out[s] = m
		}
	}
	kx, isKx := constInt(bo.X)
	ky, isKy := constInt(bo.Y)
	switch {
	case isKy && !isKx:
		s := kf.kindSubject(bo.X)
		cur := kf.curKinds(bo.X, facts)
		if eq {
			set(s, cur&(1<<uint(ky)))
		} else {
			set(s, cur&^(1<<uint(ky)))
		}
	case isKx && !isKy:
		s := kf.kindSubject(bo.Y)
		cur := kf.curKinds(bo.Y, facts)
		if eq {
			set(s, cur&(1<<uint(kx)))
		} else {
			set(s, cur&^(1<<uint(kx)))
		}
	case !isKx && !isKy && eq:
		a, b := kf.curKinds(bo.X, facts), kf.curKinds(bo.Y, facts)
		set(kf.kindSubject(bo.X), a&b)
		set(kf.kindSubject(bo.Y), a&b)
	}
	return out
}

// curKinds: kinds the subject of the Kind value k can have.
func (kf *kindFlow) curKinds(k ssa.Value, facts kindFacts) uint32 {
	k = normCell(k)
	if y, ok := k.(*ssa.Call); ok && isReflectFn(y.Call.StaticCallee(), "Kind") != "" && len(y.Call.Args) == 1 {
		return kf.kindsOfValue(y.Call.Args[0], facts)
	}
	return facts.get(kf.kindSubject(k))
}

func (kf *kindFlow) analyse(fn *ssa.Function) {
	if len(fn.Blocks) == 0 {
		return
	}
	start := kf.entry[fn]
	if start == nil {
		start = kindFacts{}
	}
	kf.in[fn.Blocks[0]] = start.clone()
	work := []*ssa.BasicBlock{fn.Blocks[0]}
	for len(work) > 0 {
		b := work[0]
		work = work[1:]
		facts := kf.in[b]
		last := b.Instrs[len(b.Instrs)-1]
		for i, s := range b.Succs {
			out := facts
			if iff, ok := last.(*ssa.If); ok {
				out = kf.refine(iff.Cond, facts, i == 0)
			}
			nv, changed := joinFacts(kf.in[s], out)
			kf.in[s] = nv
			if changed {
				work = append(work, s)
			}
		}
	}
}

func ruleLibConvert(c *Ctx, r *R) {
	x := &rfx{c: c, typedRet: map[*ssa.Function]string{}, failRet: map[*ssa.Function]string{}, equiv: map[string]string{}, valRet: map[*ssa.Function]string{}}
	x.computeEquiv()
	x.summariseGetters()
	kf := &kindFlow{x: x, c: c, entry: map[*ssa.Function]kindFacts{}, faithful: map[*ssa.Function]int{}}
	funcs := c.AllSrcFuncs("")
	usesReflect := func(fn *ssa.Function) bool {
		for _, b := range fn.Blocks {
			for _, ins := range b.Instrs {
				if v, ok := ins.(ssa.Value); ok && (isReflectKind(v.Type()) || isReflectType(v.Type()) || isReflectValue(v.Type())) {
					return true
				}
			}
		}
		for _, p := range fn.Params {
			if isReflectKind(p.Type()) || isReflectType(p.Type()) {
				return true
			}
		}
		return false
	}
	var rfuncs []*ssa.Function
	for _, fn := range funcs {
		if usesReflect(fn) {
			rfuncs = append(rfuncs, fn)
		}
	}
	// static callers of each function, to seed parameter facts; functions whose value is taken get no seed
	valueTaken := map[*ssa.Function]bool{}
	for _, fn := range funcs {
		for _, b := range fn.Blocks {
			for _, ins := range b.Instrs {
				for _, op := range ins.Operands(nil) {
					if f, ok := (*op).(*ssa.Function); ok {
						if ci, isCall := ins.(ssa.CallInstruction); isCall && ci.Common().Value == ssa.Value(f) {
							continue
						}
						valueTaken[f] = true
					}
				}
			}
		}
	}
	for round := 0; round < 4; round++ {
		kf.in = map[*ssa.BasicBlock]kindFacts{}
		for _, fn := range rfuncs {
			kf.analyse(fn)
		}
		// kind-faithful constructors: func(..., kind reflect.Kind) (reflect.Value, error) whose every successful
		// return is ValueOf(a basic value) of exactly the one kind the parameter can have there
		for _, fn := range rfuncs {
			ki := -1
			for i, p := range fn.Params {
				if isReflectKind(p.Type()) {
					ki = i
				}
			}
			if ki < 0 || fn.Signature.Results().Len() != 2 || !isReflectValue(fn.Signature.Results().At(0).Type()) {
				continue
			}
			okAll, n := true, 0
			for _, b := range fn.Blocks {
				ret, ok := b.Instrs[len(b.Instrs)-1].(*ssa.Return)
				if !ok {
					continue
				}
				if definitelyError(ret.Results[1]) || isZeroStruct(ret.Results[0]) {
					continue // failure: the invalid Value is returned with the error
				}
				facts := kf.in[b]
				if facts == nil {
					continue
				}
				n++
				have := facts.get(kf.kindSubject(fn.Params[ki]))
				got := kf.staticKindsOfValue(ret.Results[0], 0, facts)
				basic := kNum | 1<<kBool | 1<<kString
				if bitsCount(have) != 1 || got != have || got&^uint32(basic) != 0 {
					okAll = false
				}
			}
			if okAll && n > 0 {
				kf.faithful[fn] = ki
			} else {
				delete(kf.faithful, fn)
			}
		}
		// seed entries for the next round
		next := map[*ssa.Function]kindFacts{}
		seeded := map[*ssa.Function]bool{}
		for _, fn := range rfuncs {
			for _, b := range fn.Blocks {
				facts := kf.in[b]
				if facts == nil {
					continue
				}
				for _, ins := range b.Instrs {
					switch y := ins.(type) {
					case *ssa.MakeClosure:
						cl := y.Fn.(*ssa.Function)
						nv, _ := joinFacts(next[cl], facts)
						next[cl] = nv
						seeded[cl] = true
					case ssa.CallInstruction:
						callee := y.Common().StaticCallee()
						if callee == nil || callee.Pkg != fn.Pkg || len(callee.Blocks) == 0 || callee.Parent() != nil {
							continue
						}
						pf := kindFacts{}
						for i, a := range y.Common().Args {
							if i >= len(callee.Params) {
								break
							}
							var s string
							var m uint32 = kAll
							switch {
							case isReflectType(a.Type()):
								s = kf.typeSubjectIn(callee, i)
								m = facts.get(kf.typeSubject(a))
							case isReflectKind(a.Type()):
								s = kf.kindSubject(callee.Params[i])
								if k, ok := constInt(a); ok {
									m = 1 << uint(k)
								} else {
									m = kf.curKinds(a, facts)
								}
							}
							if s != "" && m&kAll != kAll {
								pf[s] = m
							}
						}
						nv, _ := joinFacts(next[callee], pf)
						next[callee] = nv
						seeded[callee] = true
					}
				}
			}
		}
		for fn := range seeded {
			if valueTaken[fn] && fn.Parent() == nil {
				delete(next, fn)
			}
		}
		kf.entry = next
	}
	var fnames []string
	for f, i := range kf.faithful {
		fnames = append(fnames, fmt.Sprintf("%s(kind = parameter %d)", ssaFuncName(f), i))
	}
	sort.Strings(fnames)
	r.ok("summaries", "-", fmt.Sprintf("kind-faithful constructors: %v", fnames))

	basicSame := func(kx, kt uint32) (bool, string) {
		switch {
		case kx&^kNum == 0 && kt&^kNum == 0 && kx != 0 && kt != 0:
			return true, "numeric to numeric"
		case kx == 1<<kString && kt == 1<<kString:
			return true, "string to string"
		case kx == 1<<kBool && kt == 1<<kBool:
			return true, "bool to bool"
		}
		return false, ""
	}
	nConv := 0
	for _, fn := range rfuncs {
		ord := 0
		for _, b := range fn.Blocks {
			for _, ins := range b.Instrs {
				call, ok := ins.(*ssa.Call)
				if !ok || isReflectFn(call.Call.StaticCallee(), "Convert") == "" {
					continue
				}
				ord++
				nConv++
				key := fmt.Sprintf("%s:Convert#%d", ssaFuncName(fn), ord)
				site := c.Pos(instrPos(call))
				facts := kf.in[b]
				if facts == nil {
					r.ok(key, site, "unreachable block")
					continue
				}
				X, T := call.Call.Args[0], call.Call.Args[1]
				kx := kf.kindsOfValue(X, facts)
				kt := facts.get(kf.typeSubject(T))
				if ok, how := basicSame(kx, kt); ok {
					r.ok(key, site, fmt.Sprintf("%s: operand %s, target %s - cannot fail", how, kindSetString(kx), kindSetString(kt)))
					continue
				}
				// kind-faithful constructor called with the target's own kind
				if ex, ok := normCell(X).(*ssa.Extract); ok && ex.Index == 0 {
					if c2, ok := ex.Tuple.(*ssa.Call); ok {
						if i, ok := kf.faithful[c2.Call.StaticCallee()]; ok {
							if ks := kf.kindSubject(c2.Call.Args[i]); ks != "" && ks == kf.typeSubject(T) {
								r.ok(key, site, fmt.Sprintf("operand made by %s for the target's own Kind: a basic value of exactly that kind, converted to the (possibly named) type of the same kind", ssaFuncName(c2.Call.StaticCallee())))
								continue
							}
						}
					}
				}
				guard := kf.convertGuard(fn, call, X, T)
				switch {
				case guard == "CanConvert":
					r.ok(key, site, "under a true CanConvert of this operand and target")
				case guard != "" && kt&(1<<kArray|1<<kPointer) == 0:
					r.ok(key, site, fmt.Sprintf("under a true %s, and the target (%s) cannot be an array or pointer type", guard, kindSetString(kt)))
				case guard != "":
					r.bad(key, site, fmt.Sprintf("%s: Convert is guarded only by Type.%s, and the target can be %s: a slice converts to an array (or pointer to array) at the type level, but Convert panics when the slice is shorter than the array - `points[0] = [5]` for a Go [][2]int64 crashes the host (\"reflect: cannot convert slice with length 1 to array with length 2\"); Value.CanConvert tests the value", ssaFuncName(fn), guard, kindSetString(kt)))
				default:
					r.bad(key, site, fmt.Sprintf("%s: Convert of an operand that can be %s to a target that can be %s, with no CanConvert / ConvertibleTo test on the path: reflect panics when the dynamic type is not convertible (a script string held as UTF-16 units - `String.fromCharCode(72)` - is a []uint16, not a Go string) and the panic escapes Run", ssaFuncName(fn), kindSetString(kx), kindSetString(kt)))
				}
			}
		}
	}
	r.note("converts", nConv)
}

// typeSubjectIn: the subject name parameter i of callee has inside callee.
func (kf *kindFlow) typeSubjectIn(callee *ssa.Function, i int) string {
	return fmt.Sprintf("T:param:%d", i)
}

// convertGuard: the Convert call is dominated by the true edge of X.CanConvert(T), or of
// X.Type().ConvertibleTo(T) / AssignableTo(T) / Implements(T) for the same operand and target.
func (kf *kindFlow) convertGuard(fn *ssa.Function, conv *ssa.Call, X, T ssa.Value) string {
	sameT := func(t ssa.Value) bool {
		if normCell(t) == normCell(T) {
			return true
		}
		a, b := kf.x.typeExpr(t, 0), kf.x.typeExpr(T, 0)
		return a != "" && a == b
	}
	sameX := func(v ssa.Value) bool {
		if normCell(v) == normCell(X) {
			return true
		}
		a, b := kf.x.valueExpr(v, 0), kf.x.valueExpr(X, 0)
		return a != "" && a == b
	}
	for _, b := range fn.Blocks {
		iff, ok := b.Instrs[len(b.Instrs)-1].(*ssa.If)
		if !ok {
			continue
		}
		g, ok := iff.Cond.(*ssa.Call)
		if !ok {
			continue
		}
		name := ""
		switch {
		case isReflectFn(g.Call.StaticCallee(), "CanConvert") != "" && sameX(g.Call.Args[0]) && sameT(g.Call.Args[1]):
			name = "CanConvert"
		case g.Call.IsInvoke() && isReflectType(g.Call.Value.Type()) && len(g.Call.Args) == 1 && sameT(g.Call.Args[0]):
			switch g.Call.Method.Name() {
			case "ConvertibleTo", "AssignableTo", "Implements":
				if tc, ok := normCell(g.Call.Value).(*ssa.Call); ok && isReflectFn(tc.Call.StaticCallee(), "Type") != "" && sameX(tc.Call.Args[0]) {
					name = g.Call.Method.Name()
				}
			}
		}
		if name == "" {
			continue
		}
		ts := b.Succs[0]
		if len(ts.Preds) == 1 && ts.Dominates(conv.Block()) {
			return name
		}
	}
	return ""
}
