package main

import (
	"fmt"
	"go/constant"
	"go/token"
	"go/types"
	"sort"
	"strings"

	"golang.org/x/tools/go/ssa"
)

// LIB-reflect: the preconditions of the reflect calls the Go bridge makes.
//
// reflect panics (in the host, outside any script-catchable exception) when
//
//	Value.Set(x)            receiver not settable, or x not assignable to the receiver's type
//	Value.SetLen(n)         receiver not settable
//	Value.SetMapIndex(k,e)  k not assignable to the key type, e not assignable to the element type, map nil
//	Value.MapIndex(k)       k not assignable to the key type
//	Value.Call / CallSlice  an argument not assignable to the parameter type
//	reflect.Append(s, x)    x not assignable to the element type
//	reflect.MakeSlice(t,n)  n negative
//
// The receivers come from the host program (a slice passed by value is not addressable, key and element types may be
// named types) and the operands from scripts, so every one of these is a host crash a script reaches with an ordinary
// property operation on a bridged value unless the code establishes the precondition. The rule computes, per function,
// a *type expression* for reflect.Type values (parameter, field of the wrapper, Elem()/Key()/Type() chains) and the type
// expression each reflect.Value is known to be assignable to (Convert(T), Zero(T), New(T), MakeSlice(T) ..., an
// AssignableTo test on the path, or the result of a module function all of whose successful returns are so typed - a
// coinductive summary, which is sound for every finite execution). Operands must be typed, and where the expected
// expression is known the two must be equal after normalisation (constructor-established equalities such as
// goMapObject.keyType == value.Type().Key() are read from the composite literals).

func init() {
	register(&Rule{ID: "LIB-reflect", Props: []string{"C16", "C15", "C02"}, Min: 25,
		Doc: "G (library preconditions, typed-value dataflow): every reflect Set/SetLen/SetMapIndex/MapIndex/Call/CallSlice/Append/MakeSlice of the Go bridge has its precondition established on the path: operands are values the code has made assignable to a type expression (Convert(T), Zero(T), New(T), Make*(T), an AssignableTo(T) test, or the result of a module function whose every successful return is so typed) that equals the expression expected by the receiver where both are known; Set/SetLen receivers are settable by construction (element of a slice, of a freshly made value, field chain of New(T).Elem()) or tested with CanSet/CanAddr (or the wrapper's `writable` flag, itself computed from CanSet); SetMapIndex with an element is dominated by an IsNil test or acts on a MakeMap; MakeSlice lengths are len(...) or range-tested. A missing Convert/test is an ordinary script operation (`s.pop()` on a []int passed by value, `m.k` on a map[Color]int, `f(\"x\")` for func(Color)) panicking in reflect outside any catchable exception",
		Run: ruleLibReflect})
}

// libReflectReviewed: facts about values that the dataflow cannot derive, each read in the code.
var libReflectReviewed = map[string]string{
	"settable:index(field:goSliceObject.value)": "goSliceObject.value is a reflect.Value of kind Slice (newGoSliceObject is reached only from toValue's `case reflect.Slice` and from Array.prototype methods re-wrapping such a value); elements of a slice are always addressable and settable (reflect.Value.Index)",
	"typed:(Value).export:ValueOf":              "the typed-slice branch runs only in state 1, which the loop leaves as soon as an element's reflect.Type differs from the first one (`first != t`); so every element has type t = the element type of the slice made (the comparison of reflect.Type values is checked to exist: export-typecmp)",
}

type rfx struct {
	c        *Ctx
	typedRet map[*ssa.Function]string // template in terms of param:<i> / field:S.f
	failRet  map[*ssa.Function]string // why a function is not typed-return
	equiv    map[string]string
	valRet   map[*ssa.Function]string // value-expression summary of helper getters
}

func isReflectFn(f *ssa.Function, names ...string) string {
	if f == nil || f.Pkg == nil || f.Pkg.Pkg.Path() != "reflect" {
		return ""
	}
	for _, n := range names {
		if f.Name() == n {
			return n
		}
	}
	return ""
}

func isReflectType(t types.Type) bool  { return typeIs(t, "reflect", "Type") }
func isReflectValue(t types.Type) bool { return typeIs(t, "reflect", "Value") }

func canonT(e string) string {
	for {
		n := e
		for _, pr := range [][2]string{{"ptr(elem(", "))"}, {"elem(ptr(", "))"}, {"elem(sliceof(", "))"}} {
			for {
				i := strings.Index(n, pr[0])
				if i < 0 {
					break
				}
				// find matching close of inner
				depth, j := 0, i+len(pr[0])
				for ; j < len(n); j++ {
					if n[j] == '(' {
						depth++
					} else if n[j] == ')' {
						if depth == 0 {
							break
						}
						depth--
					}
				}
				if j+1 >= len(n) || n[j] != ')' || n[j+1] != ')' {
					break
				}
				n = n[:i] + n[i+len(pr[0]):j] + n[j+2:]
			}
		}
		if n == e {
			return e
		}
		e = n
	}
}

func (x *rfx) norm(e string) string {
	if e == "" {
		return ""
	}
	for i := 0; i < 4; i++ {
		changed := false
		for k, v := range x.equiv {
			if strings.Contains(e, k) {
				e = strings.ReplaceAll(e, k, v)
				changed = true
			}
		}
		if !changed {
			break
		}
	}
	return canonT(e)
}

func fieldExpr(v ssa.Value) string {
	switch y := v.(type) {
	case *ssa.UnOp:
		if y.Op == token.MUL {
			if nt, f := fieldOfAddr(y.X); nt != nil {
				return "field:" + nt.Obj().Name() + "." + f.Name()
			}
		}
	case *ssa.Field:
		if nt := derefNamed(y.X.Type()); nt != nil {
			if st, ok := nt.Underlying().(*types.Struct); ok {
				return "field:" + nt.Obj().Name() + "." + st.Field(y.Field).Name()
			}
		}
	}
	return ""
}

// typeExpr: canonical expression of a reflect.Type value ("" = unknown).
func (x *rfx) typeExpr(v ssa.Value, d int) string {
	if d > 8 {
		return ""
	}
	v = normCell(v)
	if fe := fieldExpr(v); fe != "" && isReflectType(v.Type()) {
		return x.norm(fe)
	}
	switch y := v.(type) {
	case *ssa.Parameter:
		for i, p := range y.Parent().Params {
			if p == y {
				return fmt.Sprintf("param:%d", i)
			}
		}
	case *ssa.Call:
		if y.Call.IsInvoke() && isReflectType(y.Call.Value.Type()) {
			in := x.typeExpr(y.Call.Value, d+1)
			if in == "" {
				return ""
			}
			switch y.Call.Method.Name() {
			case "Elem":
				return x.norm("elem(" + in + ")")
			case "Key":
				return x.norm("key(" + in + ")")
			}
			return ""
		}
		cal := y.Call.StaticCallee()
		switch isReflectFn(cal, "Type", "SliceOf", "PointerTo", "PtrTo", "TypeOf") {
		case "Type":
			return x.norm(x.typeOfValue(y.Call.Args[0], d+1))
		case "SliceOf":
			if in := x.typeExpr(y.Call.Args[0], d+1); in != "" {
				return x.norm("sliceof(" + in + ")")
			}
		case "PointerTo", "PtrTo":
			if in := x.typeExpr(y.Call.Args[0], d+1); in != "" {
				return x.norm("ptr(" + in + ")")
			}
		case "TypeOf":
			if mi, ok := y.Call.Args[0].(*ssa.MakeInterface); ok {
				return "static:" + typeStr(mi.X.Type())
			}
		}
	case *ssa.UnOp:
		if g, ok := y.X.(*ssa.Global); ok && y.Op == token.MUL {
			return "global:" + g.Name()
		}
	}
	return ""
}

// valueExpr: identity expression of a reflect.Value.
func (x *rfx) valueExpr(v ssa.Value, d int) string {
	if d > 8 {
		return ""
	}
	v = normCell(v)
	if fe := fieldExpr(v); fe != "" && isReflectValue(v.Type()) {
		return fe
	}
	switch y := v.(type) {
	case *ssa.Extract:
		if c, ok := y.Tuple.(*ssa.Call); ok && y.Index == 0 {
			return x.valueExprCall(c, d)
		}
	case *ssa.Call:
		return x.valueExprCall(y, d)
	case *ssa.Phi:
		e := ""
		for _, ed := range y.Edges {
			ee := x.valueExpr(ed, d+1)
			if ee == "" || (e != "" && ee != e) {
				return ""
			}
			e = ee
		}
		return e
	}
	return ""
}

func (x *rfx) valueExprCall(c *ssa.Call, d int) string {
	cal := c.Call.StaticCallee()
	switch isReflectFn(cal, "Indirect", "Index", "Elem", "Field", "New", "MakeSlice", "MakeMap") {
	case "Indirect":
		if in := x.valueExpr(c.Call.Args[0], d+1); in != "" {
			return "indirect(" + in + ")"
		}
	case "Index":
		if in := x.valueExpr(c.Call.Args[0], d+1); in != "" {
			return "index(" + in + ")"
		}
	case "Elem":
		if in := x.valueExpr(c.Call.Args[0], d+1); in != "" {
			return "elemv(" + in + ")"
		}
	case "Field":
		if in := x.valueExpr(c.Call.Args[0], d+1); in != "" {
			return "fieldv(" + in + ")"
		}
	case "New":
		return "new"
	case "MakeSlice":
		return "makeslice"
	case "MakeMap":
		return "makemap"
	}
	if cal != nil && cal.Blocks != nil {
		if s, ok := x.valRet[cal]; ok {
			return s
		}
	}
	return ""
}

// summariseGetter: a module function whose every valid reflect.Value return is the same value expression over the
// receiver's fields (goSliceObject.getValue -> index(field:goSliceObject.value)).
func (x *rfx) summariseGetters() {
	for round := 0; round < 3; round++ {
		for _, fn := range x.c.AllSrcFuncs("") {
			if _, done := x.valRet[fn]; done || fn.Signature.Results().Len() == 0 || !isReflectValue(fn.Signature.Results().At(0).Type()) {
				continue
			}
			e, ok := "", true
			for _, b := range fn.Blocks {
				ret, isRet := b.Instrs[len(b.Instrs)-1].(*ssa.Return)
				if !isRet {
					continue
				}
				if isZeroStruct(ret.Results[0]) {
					continue
				}
				ee := x.valueExpr(ret.Results[0], 0)
				if ee == "" || (e != "" && e != ee) {
					ok = false
					break
				}
				e = ee
			}
			if ok && e != "" && strings.Contains(e, "field:") {
				x.valRet[fn] = e
			}
		}
	}
}

func isZeroStruct(v ssa.Value) bool {
	switch y := v.(type) {
	case *ssa.Const:
		return y.Value == nil
	case *ssa.UnOp:
		if al, ok := y.X.(*ssa.Alloc); ok && y.Op == token.MUL {
			for _, r := range *al.Referrers() {
				if _, isStore := r.(*ssa.Store); isStore {
					return false
				}
				if _, isFA := r.(*ssa.FieldAddr); isFA {
					return false
				}
			}
			return true
		}
	}
	return false
}

// typeOfValue: type expression of a reflect.Value's Type().
func (x *rfx) typeOfValue(v ssa.Value, d int) string {
	if t, _ := x.typedTo(nil, v, d+1); t != "" && t != "?" {
		return t
	}
	if c, ok := normCell(v).(*ssa.Call); ok && isReflectFn(c.Call.StaticCallee(), "Index") != "" {
		if in := x.typeOfValue(c.Call.Args[0], d+1); in != "" {
			return x.norm("elem(" + in + ")")
		}
	}
	ve := x.valueExpr(v, d+1)
	switch {
	case ve == "":
		return ""
	case strings.HasPrefix(ve, "index("):
		return x.norm("elem(typeof(" + ve[len("index("):len(ve)-1] + "))")
	}
	return x.norm("typeof(" + ve + ")")
}

// typedTo: the type expression v is known to be assignable to. "" = not typed, "?" = typed but the expression is not
// expressible. `use` (may be nil) is the instruction at which the fact is needed, for path-sensitive guards.
func (x *rfx) typedTo(use ssa.Instruction, v ssa.Value, d int) (string, string) {
	if d > 10 {
		return "", "depth"
	}
	v = normCell(v)
	switch y := v.(type) {
	case *ssa.Extract:
		if y.Index == 0 {
			if c, ok := y.Tuple.(*ssa.Call); ok {
				return x.typedToCall(use, c, d)
			}
		}
	case *ssa.Call:
		return x.typedToCall(use, y, d)
	case *ssa.Phi:
		e := ""
		for _, ed := range y.Edges {
			ee, why := x.typedTo(use, ed, d+1)
			if ee == "" {
				return "", why
			}
			if e == "" {
				e = ee
			} else if e != ee {
				e = "?"
			}
		}
		return e, ""
	}
	// path guards
	if fn := valueParent(v); fn != nil && use != nil {
		if e := x.guardTyped(fn, v, use); e != "" {
			return e, ""
		}
	}
	return "", "value " + v.Name() + " is not produced by a typed construction"
}

func valueParent(v ssa.Value) *ssa.Function {
	if ins, ok := v.(ssa.Instruction); ok {
		return ins.Parent()
	}
	if p, ok := v.(*ssa.Parameter); ok {
		return p.Parent()
	}
	return nil
}

func (x *rfx) typedToCall(use ssa.Instruction, c *ssa.Call, d int) (string, string) {
	cal := c.Call.StaticCallee()
	args := c.Call.Args
	switch isReflectFn(cal, "Convert", "Zero", "New", "MakeSlice", "MakeMap", "MakeMapWithSize", "MakeFunc", "Elem", "Addr", "Append", "ValueOf", "Indirect") {
	case "Convert":
		if e := x.typeExpr(args[1], d+1); e != "" {
			return e, ""
		}
		return "?", ""
	case "Zero", "MakeSlice", "MakeMap", "MakeMapWithSize", "MakeFunc":
		if e := x.typeExpr(args[0], d+1); e != "" {
			return e, ""
		}
		return "?", ""
	case "New":
		if e := x.typeExpr(args[0], d+1); e != "" {
			return x.norm("ptr(" + e + ")"), ""
		}
		return "?", ""
	case "Elem":
		if e, _ := x.typedTo(use, args[0], d+1); e != "" && e != "?" {
			if strings.HasPrefix(e, "ptr(") {
				return x.norm(e[4 : len(e)-1]), ""
			}
			return x.norm("elem(" + e + ")"), ""
		}
	case "Addr":
		if e, _ := x.typedTo(use, args[0], d+1); e != "" && e != "?" {
			return x.norm("ptr(" + e + ")"), ""
		}
	case "Append":
		return x.typedTo(use, args[0], d+1)
	case "ValueOf":
		if fn := c.Parent(); fn != nil && use != nil {
			if e := x.guardTyped(fn, c, use); e != "" {
				return e, ""
			}
		}
		return "", "reflect.ValueOf of a plain Go value: its type is the value's dynamic type, not the type required"
	}
	if cal != nil {
		if tmpl, ok := x.typedRet[cal]; ok {
			e := tmpl
			if strings.HasPrefix(tmpl, "param:") {
				var i int
				fmt.Sscanf(tmpl, "param:%d", &i)
				if i < len(args) {
					e = x.typeExpr(args[i], d+1)
					if e == "" {
						e = "?"
					}
				}
			}
			return x.norm(e), ""
		}
		if why, ok := x.failRet[cal]; ok {
			return "", ssaFuncName(cal) + " is not typed-return: " + why
		}
	}
	if use != nil {
		if e := x.guardTyped(c.Parent(), c, use); e != "" {
			return e, ""
		}
	}
	return "", "result of " + calleeName(c) + " carries no type guarantee"
}

func calleeName(c *ssa.Call) string {
	if cal := c.Call.StaticCallee(); cal != nil {
		return ssaFuncName(cal)
	}
	if c.Call.IsInvoke() {
		return c.Call.Method.Name()
	}
	return c.Call.Value.Name()
}

// guardTyped: a dominating test `v.Type().AssignableTo(T)` (true side) or, for ValueOf(x), `T == G` with the package-level
// G initialised to reflect.TypeOf(S{}) and x's static type assignable to S.
func (x *rfx) guardTyped(fn *ssa.Function, v ssa.Value, use ssa.Instruction) string {
	if fn == nil {
		return ""
	}
	for _, b := range fn.Blocks {
		iff, ok := b.Instrs[len(b.Instrs)-1].(*ssa.If)
		if !ok {
			continue
		}
		cond, neg := normBool(iff.Cond)
		side := 0
		if neg {
			side = 1
		}
		s := b.Succs[side]
		other := b.Succs[1-side]
		dominates := (len(s.Preds) == 1 && s.Dominates(use.Block())) || (b.Dominates(use.Block()) && b != use.Block() && !reaches(other, use.Block(), map[*ssa.BasicBlock]bool{b: true}))
		if !dominates {
			continue
		}
		switch cnd := cond.(type) {
		case *ssa.Call:
			if cnd.Call.IsInvoke() && cnd.Call.Method.Name() == "AssignableTo" {
				// receiver: (reflect.Value).Type(X)
				if tc, ok := cnd.Call.Value.(*ssa.Call); ok && isReflectFn(tc.Call.StaticCallee(), "Type") != "" && sameSSA(tc.Call.Args[0], v, 0) {
					if e := x.typeExpr(cnd.Call.Args[0], 0); e != "" {
						return e
					}
					return "?"
				}
			}
		case *ssa.BinOp:
			if cnd.Op != token.EQL || neg {
				continue
			}
			vo, isCall := v.(*ssa.Call)
			if !isCall || isReflectFn(vo.Call.StaticCallee(), "ValueOf") == "" {
				continue
			}
			mi, ok := vo.Call.Args[0].(*ssa.MakeInterface)
			if !ok {
				continue
			}
			for _, pr := range [][2]ssa.Value{{cnd.X, cnd.Y}, {cnd.Y, cnd.X}} {
				te := x.typeExpr(unwrapIface(pr[0]), 0)
				ge := x.typeExpr(unwrapIface(pr[1]), 0)
				if te == "" || !strings.HasPrefix(ge, "global:") {
					continue
				}
				if st := x.globalTypeOf(fn.Pkg, ge[len("global:"):]); st != nil && types.AssignableTo(mi.X.Type(), st) {
					return te
				}
			}
		}
	}
	return ""
}

// globalTypeOf: the static type S when package-level var g is initialised with reflect.TypeOf(S{...}).
func (x *rfx) globalTypeOf(pkg *ssa.Package, name string) types.Type {
	if pkg == nil {
		return nil
	}
	init := pkg.Func("init")
	if init == nil {
		return nil
	}
	for _, b := range init.Blocks {
		for _, ins := range b.Instrs {
			st, ok := ins.(*ssa.Store)
			if !ok {
				continue
			}
			g, ok := st.Addr.(*ssa.Global)
			if !ok || g.Name() != name {
				continue
			}
			if c, ok := st.Val.(*ssa.Call); ok && isReflectFn(c.Call.StaticCallee(), "TypeOf") != "" {
				if mi, ok := c.Call.Args[0].(*ssa.MakeInterface); ok {
					return mi.X.Type()
				}
			}
		}
	}
	return nil
}

// computeEquiv reads constructor-established equalities from composite literals: a reflect.Type field stored with an
// expression over the value stored in a reflect.Value field of the same literal.
func (x *rfx) computeEquiv() {
	for _, fn := range x.c.AllSrcFuncs("") {
		for _, b := range fn.Blocks {
			for _, ins := range b.Instrs {
				al, ok := ins.(*ssa.Alloc)
				if !ok {
					continue
				}
				nt := derefNamed(al.Type())
				if nt == nil {
					continue
				}
				if _, ok := nt.Underlying().(*types.Struct); !ok {
					continue
				}
				valFields := map[ssa.Value]string{}
				typeStores := map[string]ssa.Value{}
				for _, r := range *al.Referrers() {
					fa, ok := r.(*ssa.FieldAddr)
					if !ok {
						continue
					}
					_, f := fieldOfAddr(fa)
					for _, r2 := range *fa.Referrers() {
						st, ok := r2.(*ssa.Store)
						if !ok || st.Addr != fa {
							continue
						}
						name := "field:" + nt.Obj().Name() + "." + f.Name()
						if isReflectValue(f.Type()) {
							valFields[st.Val] = name
						} else if isReflectType(f.Type()) {
							typeStores[name] = st.Val
						}
					}
				}
				if len(valFields) == 0 || len(typeStores) == 0 {
					continue
				}
				for name, tv := range typeStores {
					e := x.typeExprOver(tv, valFields, 0)
					if e != "" {
						if old, ok := x.equiv[name]; ok && old != e {
							x.equiv[name] = "conflict(" + name + ")"
						} else {
							x.equiv[name] = e
						}
					}
				}
			}
		}
	}
}

// typeExprOver: like typeExpr but with designated SSA values standing for fields.
func (x *rfx) typeExprOver(v ssa.Value, leaves map[ssa.Value]string, d int) string {
	if d > 6 {
		return ""
	}
	c, ok := v.(*ssa.Call)
	if !ok {
		return ""
	}
	if c.Call.IsInvoke() && isReflectType(c.Call.Value.Type()) {
		in := x.typeExprOver(c.Call.Value, leaves, d+1)
		if in == "" {
			return ""
		}
		switch c.Call.Method.Name() {
		case "Elem":
			return "elem(" + in + ")"
		case "Key":
			return "key(" + in + ")"
		}
		return ""
	}
	if isReflectFn(c.Call.StaticCallee(), "Type") != "" {
		if name, ok := leaves[c.Call.Args[0]]; ok {
			return "typeof(" + name + ")"
		}
	}
	return ""
}

// computeTypedRet: coinductive summaries of module functions returning a reflect.Value.
func (x *rfx) computeTypedRet() {
	type cand struct {
		fn    *ssa.Function
		exprs []string
	}
	var cands []cand
	for _, fn := range x.c.AllSrcFuncs("") {
		res := fn.Signature.Results()
		if res.Len() == 0 || !isReflectValue(res.At(0).Type()) || fn.Blocks == nil {
			continue
		}
		var exprs []string
		for i, p := range fn.Params {
			if isReflectType(p.Type()) {
				exprs = append(exprs, fmt.Sprintf("param:%d", i))
			}
		}
		// fields of the receiver of type reflect.Type
		if len(fn.Params) > 0 && fn.Signature.Recv() != nil {
			if nt := derefNamed(fn.Params[0].Type()); nt != nil {
				if st, ok := nt.Underlying().(*types.Struct); ok {
					for i := 0; i < st.NumFields(); i++ {
						if isReflectType(st.Field(i).Type()) {
							exprs = append(exprs, "field:"+nt.Obj().Name()+"."+st.Field(i).Name())
						}
					}
				}
			}
		}
		if len(exprs) > 0 {
			cands = append(cands, cand{fn, exprs})
		}
	}
	// optimistic: try each expression as the function's own summary; repeat until stable (a callee may be summarised later)
	for round := 0; round < 4; round++ {
		for _, cd := range cands {
			if _, ok := x.typedRet[cd.fn]; ok {
				continue
			}
			lastWhy := ""
			for _, e := range cd.exprs {
				x.typedRet[cd.fn] = e // assumption for recursive calls
				ok, why := x.returnsTyped(cd.fn, e)
				if ok {
					delete(x.failRet, cd.fn)
					lastWhy = ""
					break
				}
				delete(x.typedRet, cd.fn)
				lastWhy = why
			}
			if lastWhy != "" {
				x.failRet[cd.fn] = lastWhy
			}
		}
	}
}

// definitelyError: the returned error is freshly made (fmt.Errorf, errors.New, a conversion to error): never nil.
func definitelyError(v ssa.Value) bool {
	switch y := v.(type) {
	case *ssa.MakeInterface:
		return true
	case *ssa.Call:
		if cal := y.Call.StaticCallee(); cal != nil && cal.Pkg != nil {
			switch cal.Pkg.Pkg.Path() + "." + cal.Name() {
			case "fmt.Errorf", "errors.New":
				return true
			}
		}
	}
	return false
}

// nonNilOnPath: the error value is known to be non-nil where block b runs - b lies on the not-nil side of a test
// `e != nil` / `e == nil` of the same value (an error handed on from a helper: `if err := f(); err != nil { return zero, err }`).
func nonNilOnPath(fn *ssa.Function, e ssa.Value, at *ssa.BasicBlock) bool {
	for _, d := range fn.Blocks {
		iff, ok := d.Instrs[len(d.Instrs)-1].(*ssa.If)
		if !ok {
			continue
		}
		bo, ok := iff.Cond.(*ssa.BinOp)
		if !ok || (bo.Op != token.NEQ && bo.Op != token.EQL) || bo.X != e || !isNilConst(bo.Y) {
			continue
		}
		side := d.Succs[0]
		if bo.Op == token.EQL {
			side = d.Succs[1]
		}
		if len(side.Preds) == 1 && (side == at || side.Dominates(at)) {
			return true
		}
	}
	return false
}

func (x *rfx) returnsTyped(fn *ssa.Function, want string) (bool, string) {
	wantN := x.norm(want)
	n := 0
	for _, b := range fn.Blocks {
		ret, ok := b.Instrs[len(b.Instrs)-1].(*ssa.Return)
		if !ok {
			continue
		}
		if len(ret.Results) > 1 {
			if definitelyError(ret.Results[len(ret.Results)-1]) || nonNilOnPath(fn, ret.Results[len(ret.Results)-1], b) {
				continue // an error return: the value is not used by callers that test err
			}
			if k, ok := ret.Results[len(ret.Results)-1].(*ssa.Const); ok && k.Value != nil && k.Value.Kind() == constant.Bool && !constant.BoolVal(k.Value) {
				continue // the comma-ok form of the same: `return reflect.Value{}, false`
			}
		}
		n++
		got, why := x.typedTo(ret, ret.Results[0], 0)
		if got == "" {
			return false, fmt.Sprintf("return at %s: %s", x.c.Pos(ret.Pos()), why)
		}
		if got != "?" && x.norm(got) != wantN {
			return false, fmt.Sprintf("return at %s is typed to %s, not %s", x.c.Pos(ret.Pos()), got, wantN)
		}
		if got == "?" {
			return false, fmt.Sprintf("return at %s is typed to an expression that cannot be related to %s", x.c.Pos(ret.Pos()), wantN)
		}
	}
	return n > 0, "no successful return"
}

func ruleLibReflect(c *Ctx, r *R) {
	x := &rfx{c: c, typedRet: map[*ssa.Function]string{}, failRet: map[*ssa.Function]string{}, equiv: map[string]string{}, valRet: map[*ssa.Function]string{}}
	x.computeEquiv()
	x.summariseGetters()
	x.computeTypedRet()

	// evidence: the summaries
	var sums []string
	for f, e := range x.typedRet {
		sums = append(sums, ssaFuncName(f)+" -> "+x.norm(e))
	}
	sort.Strings(sums)
	var eqs []string
	for k, v := range x.equiv {
		eqs = append(eqs, k+" == "+v)
	}
	sort.Strings(eqs)
	var gets []string
	for f, e := range x.valRet {
		gets = append(gets, ssaFuncName(f)+" = "+e)
	}
	sort.Strings(gets)
	r.ok("summaries", "-", fmt.Sprintf("typed-return functions: %v; constructor equalities: %v; getters: %v", sums, eqs, gets))
	if len(x.typedRet) < 4 {
		r.undecided("unresolved:typed-return", "-", fmt.Sprintf("UNRESOLVED: only %d typed-return conversion functions found (toReflectValue, convertCallParameter, convertNumeric, reflectAssignable, toKey, toValue expected)", len(x.typedRet)))
	}
	var fails []string
	for f, why := range x.failRet {
		fails = append(fails, ssaFuncName(f)+": "+why)
	}
	sort.Strings(fails)
	if len(fails) > 0 {
		r.ok("not-typed-return", "-", fmt.Sprintf("functions returning a reflect.Value without a type guarantee (their results are untyped at use sites): %v", fails))
	}

	cmpSeen := map[*ssa.Function]bool{}
	for _, fn := range c.AllSrcFuncs("") {
		ord := map[string]int{}
		emit := func(kind string, call ssa.Instruction, okPre bool, detail, reviewedKey string) {
			base := fmt.Sprintf("%s:%s", ssaFuncName(fn), kind)
			ord[base]++
			key := fmt.Sprintf("%s#%d", base, ord[base])
			site := c.Pos(instrPos(call))
			if okPre {
				r.ok(key, site, detail)
				return
			}
			if why, ok := libReflectReviewed[reviewedKey]; ok && reviewedKey != "" {
				r.ok("reviewed:"+key, site, why)
				return
			}
			r.bad(key, site, fmt.Sprintf("%s: %s; when the host value or the script operand does not satisfy the precondition reflect panics and the panic escapes Run", ssaFuncName(fn), detail))
		}
		// operand check helper
		operand := func(kind string, call ssa.Instruction, v ssa.Value, expected string, reviewedKey string) {
			got, why := x.typedTo(call, v, 0)
			switch {
			case got == "":
				emit(kind, call, false, "operand is not made assignable to the required type ("+why+")", reviewedKey)
			case got == "?" || expected == "":
				emit(kind, call, true, "operand is typed (expressions not compared: operand "+got+", expected "+expected+")", "")
			case x.norm(got) == x.norm(expected):
				emit(kind, call, true, "operand typed to "+x.norm(got)+" = the type the receiver requires", "")
			default:
				emit(kind, call, false, "operand is typed to "+x.norm(got)+" but the receiver requires "+x.norm(expected), reviewedKey)
			}
		}
		for _, b := range fn.Blocks {
			for _, ins := range b.Instrs {
				call, ok := ins.(*ssa.Call)
				if !ok {
					continue
				}
				m := isReflectFn(call.Call.StaticCallee(), "Set", "SetLen", "SetMapIndex", "MapIndex", "MakeSlice", "Call", "CallSlice", "Append", "FieldByName", "FieldByIndex", "FieldByNameFunc", "FieldByIndexErr")
				if m == "" {
					continue
				}
				args := call.Call.Args
				switch m {
				case "FieldByIndexErr":
					emit("reflect.FieldByIndexErr:nil-embedded", call, true, "promoted field reached with the error-returning walk: a nil embedded pointer is reported, not dereferenced", "")
				case "FieldByName", "FieldByIndex", "FieldByNameFunc":
					// Value.FieldByName/FieldByIndex walk embedded pointers and panic
					// ("indirection through nil pointer to embedded struct") when one is nil;
					// the host decides the struct, so no guard in otto can rule it out.
					single := false
					if m == "FieldByIndex" {
						if elems, known := variadicElems(args[1]); known && len(elems) == 1 {
							single = true
						}
					}
					emit("reflect."+m+":nil-embedded", call, single, "a multi-step field walk on a host struct dereferences embedded pointers, and a nil one panics in reflect (`vm.Set(\"o\", &Outer{})` with `type Outer struct{ *Inner }`, then `o.X`); only a single-step index or FieldByIndexErr is safe", "")
				case "Set", "SetLen":
					recv := args[0]
					ve := x.valueExpr(recv, 0)
					settable, how := x.settable(fn, recv, call, ve)
					emit("reflect."+m+":settable", call, settable, how, "settable:"+ve)
					if m == "Set" {
						rk := ""
						if c2, ok := args[1].(*ssa.Call); ok && isReflectFn(c2.Call.StaticCallee(), "ValueOf") != "" {
							rk = "typed:" + ssaFuncName(fn) + ":ValueOf"
							if rk == "typed:(Value).export:ValueOf" && !cmpSeen[fn] {
								cmpSeen[fn] = true
								hasCmp := false
								for _, b2 := range fn.Blocks {
									for _, i2 := range b2.Instrs {
										if bo, ok := i2.(*ssa.BinOp); ok && (bo.Op == token.NEQ || bo.Op == token.EQL) && isReflectType(bo.X.Type()) && isReflectType(bo.Y.Type()) && !isNilConst(bo.X) && !isNilConst(bo.Y) {
											hasCmp = true
										}
									}
								}
								if hasCmp {
									r.ok(ssaFuncName(fn)+":export-typecmp", c.Pos(fn.Pos()), "the element types are compared as reflect.Type values (not only by Kind)")
								} else {
									r.bad(ssaFuncName(fn)+":export-typecmp", c.Pos(fn.Pos()), "Value.export builds a typed slice from elements it compares only by reflect.Kind: `[[[1]],[[\"a\"]]]` has elements of kind slice-of-slice but of types [][]int64 and [][]string, and Set of the second panics in reflect (Export() crashes the host)")
								}
							}
						}
						operand("reflect.Set:operand", call, args[1], x.typeOfValue(recv, 0), rk)
					}
				case "SetMapIndex", "MapIndex":
					mt := x.typeOfValue(args[0], 0)
					exp := ""
					if mt != "" {
						exp = x.norm("key(" + mt + ")")
					}
					operand("reflect."+m+":key", call, args[1], exp, "")
					if m == "SetMapIndex" && !isZeroStruct(args[2]) {
						expE := ""
						if mt != "" {
							expE = x.norm("elem(" + mt + ")")
						}
						operand("reflect.SetMapIndex:elem", call, args[2], expE, "")
						nonNil := strings.HasPrefix(x.valueExpr(args[0], 0), "makemap") || x.guardedByMethod(fn, args[0], call, true, "IsNil")
						emit("reflect.SetMapIndex:non-nil-map", call, nonNil, "map is freshly made or tested with IsNil on this path", "")
					}
				case "MakeSlice":
					okLen := true
					for _, a := range args[1:] {
						if !x.nonNegative(fn, a, call) {
							okLen = false
						}
					}
					emit("reflect.MakeSlice:length", call, okLen, "length is len(...), a constant, or range-tested on this path", "")
				case "Append":
					st := x.typeOfValue(args[0], 0)
					exp := ""
					if st != "" {
						exp = x.norm("elem(" + st + ")")
					}
					if elems, known := variadicElems(args[1]); known {
						for _, e := range elems {
							operand("reflect.Append:elem", call, e, exp, "")
						}
					} else {
						emit("reflect.Append:elem", call, false, "appended values are not built at the call", "")
					}
				case "Call", "CallSlice":
					// the function value must not be nil: reflect panics with "call of nil function"
					emit("reflect."+m+":non-nil-func", call, x.funcNonNil(fn, args[0], call), "precondition: the function value is not nil - an IsNil test before the call, or before the wrapper that makes the call is created (a nil func field or map element of a bridged Go value is an ordinary host value: `job.OnDone(1)` with OnDone == nil panics with `call of nil function`)", "")
					// every store into the argument slice must be typed
					n := 0
					for _, st := range storesInto(args[1]) {
						n++
						operand("reflect."+m+":arg", st, st.Val, "", "")
					}
					if n == 0 {
						emit("reflect."+m+":arg", call, false, "the argument slice is not filled in this function", "")
					}
				}
			}
		}
	}
}

// storesInto: the stores into elements of a slice built by make([]T, n) in the same function.
func storesInto(sl ssa.Value) []*ssa.Store {
	var out []*ssa.Store
	sl = normCell(sl)
	refs := sl.Referrers()
	if refs == nil {
		return nil
	}
	for _, r := range *refs {
		ia, ok := r.(*ssa.IndexAddr)
		if !ok {
			continue
		}
		for _, r2 := range *ia.Referrers() {
			if st, ok := r2.(*ssa.Store); ok && st.Addr == ia {
				out = append(out, st)
			}
		}
	}
	return out
}

// guardedByMethod: a dominating test of reflect method `name` on the same receiver; wantFalse selects the false side.
func (x *rfx) guardedByMethod(fn *ssa.Function, recv ssa.Value, use ssa.Instruction, wantFalse bool, names ...string) bool {
	for _, b := range fn.Blocks {
		iff, ok := b.Instrs[len(b.Instrs)-1].(*ssa.If)
		if !ok {
			continue
		}
		cond, neg := normBool(iff.Cond)
		call, ok := cond.(*ssa.Call)
		if !ok || len(call.Call.Args) == 0 {
			continue
		}
		if isReflectFn(call.Call.StaticCallee(), names...) == "" || !sameSSA(call.Call.Args[0], recv, 0) {
			continue
		}
		side := 0
		if neg != wantFalse {
			side = 1
		}
		s, other := b.Succs[side], b.Succs[1-side]
		if (len(s.Preds) == 1 && s.Dominates(use.Block())) || (b.Dominates(use.Block()) && b != use.Block() && !reaches(other, use.Block(), map[*ssa.BasicBlock]bool{b: true})) {
			return true
		}
		// `v < 0 || more` used as a value (a switch case): the out-of-range side feeds `true` into a phi that is then
		// branched on; the phi being false implies v >= 0
		if iff2, ok := other.Instrs[len(other.Instrs)-1].(*ssa.If); ok {
			if phi, ok := iff2.Cond.(*ssa.Phi); ok && phi.Block() == other {
				for i, p := range other.Preds {
					if p != b {
						continue
					}
					if k, ok := phi.Edges[i].(*ssa.Const); ok && k.Value != nil && k.Value.Kind() == constant.Bool && constant.BoolVal(k.Value) {
						f := other.Succs[1]
						if (len(f.Preds) == 1 && f.Dominates(use.Block())) || (other.Dominates(use.Block()) && other != use.Block() && !reaches(other.Succs[0], use.Block(), map[*ssa.BasicBlock]bool{other: true})) {
							return true
						}
					}
				}
			}
		}
	}
	return false
}

// settable: the receiver of Set/SetLen is settable by construction or by test.
func (x *rfx) settable(fn *ssa.Function, recv ssa.Value, use ssa.Instruction, ve string) (bool, string) {
	if x.guardedByMethod(fn, recv, use, false, "CanSet", "CanAddr") {
		return true, "receiver tested with CanSet/CanAddr on this path"
	}
	// construction: index(makeslice), elemv(new), fieldv(...elemv(new)), index(elemv(new))
	e := ve
	for e != "" {
		switch {
		case e == "elemv(new)" || e == "index(makeslice)":
			return true, "receiver is an element of a value made here (" + ve + "): settable by construction"
		case strings.HasPrefix(e, "fieldv(") || strings.HasPrefix(e, "index("):
			e = e[strings.Index(e, "(")+1 : len(e)-1]
			continue
		}
		break
	}
	// struct walk in convertCallParameter: ss = s (phi of Elem/Field chain over New(t))
	if x.derivesFromNew(recv, 0, map[ssa.Value]bool{}) {
		return true, "receiver is reached from reflect.New(...) through Elem/Field/Index only: addressable by construction"
	}
	// the wrapper's writable flag (computed from CanSet by its constructor)
	if strings.Contains(ve, "field:goArrayObject.value") {
		if ok, how := x.writableGate(fn, use); ok {
			return true, how
		}
	}
	if ve == "" {
		return false, "receiver of unknown provenance is not tested with CanSet"
	}
	return false, "receiver " + ve + " is not tested with CanSet/CanAddr and is not settable by construction"
}

func (x *rfx) derivesFromNew(v ssa.Value, d int, seen map[ssa.Value]bool) bool {
	if d > 12 || seen[v] {
		return d <= 12
	}
	seen[v] = true
	v = normCell(v)
	switch y := v.(type) {
	case *ssa.Phi:
		for _, e := range y.Edges {
			if !x.derivesFromNew(e, d+1, seen) {
				return false
			}
		}
		return true
	case *ssa.Call:
		switch isReflectFn(y.Call.StaticCallee(), "Elem", "Field", "Index", "New") {
		case "New":
			return true
		case "Elem", "Field", "Index":
			return x.derivesFromNew(y.Call.Args[0], d+1, seen)
		}
	}
	return false
}

// writableGate: use is dominated by a true test of goArrayObject.writable in fn, or every caller's call of fn is; and the
// only function storing that field computes it with CanSet.
func (x *rfx) writableGate(fn *ssa.Function, use ssa.Instruction) (bool, string) {
	gated := func(f *ssa.Function, at ssa.Instruction) bool {
		for _, b := range f.Blocks {
			iff, ok := b.Instrs[len(b.Instrs)-1].(*ssa.If)
			if !ok {
				continue
			}
			cond, neg := normBool(iff.Cond)
			if fieldExpr(cond) != "field:goArrayObject.writable" {
				continue
			}
			side := 0
			if neg {
				side = 1
			}
			s, other := b.Succs[side], b.Succs[1-side]
			if (len(s.Preds) == 1 && s.Dominates(at.Block())) || (b.Dominates(at.Block()) && b != at.Block() && !reaches(other, at.Block(), map[*ssa.BasicBlock]bool{b: true})) {
				return true
			}
		}
		return false
	}
	// the flag's definition
	defOK, defs := true, 0
	for _, f := range x.c.AllSrcFuncs("") {
		for _, b := range f.Blocks {
			for _, ins := range b.Instrs {
				st, ok := ins.(*ssa.Store)
				if !ok {
					continue
				}
				if nt, fld := fieldOfAddr(st.Addr); nt != nil && nt.Obj().Name() == "goArrayObject" && fld.Name() == "writable" {
					defs++
					usesCanSet := false
					for _, b2 := range f.Blocks {
						for _, i2 := range b2.Instrs {
							if c2, ok := i2.(*ssa.Call); ok && isReflectFn(c2.Call.StaticCallee(), "CanSet", "CanAddr") != "" {
								usesCanSet = true
							}
						}
					}
					if _, isConst := st.Val.(*ssa.Const); isConst || !usesCanSet {
						defOK = false
					}
				}
			}
		}
	}
	if defs == 0 || !defOK {
		return false, "goArrayObject.writable is not computed from CanSet"
	}
	if gated(fn, use) {
		return true, "dominated by a true test of goArrayObject.writable, which its constructor computes from Kind()==Ptr || CanSet()"
	}
	callers := 0
	for _, f := range x.c.AllSrcFuncs("") {
		for _, b := range f.Blocks {
			for _, ins := range b.Instrs {
				if c2, ok := ins.(ssa.CallInstruction); ok && c2.Common().StaticCallee() == fn {
					callers++
					if !gated(f, c2) {
						return false, "caller " + ssaFuncName(f) + " does not test goArrayObject.writable"
					}
				}
			}
		}
	}
	if callers > 0 {
		return true, "every caller tests goArrayObject.writable (computed from Kind()==Ptr || CanSet()) before the call"
	}
	return false, "not gated by goArrayObject.writable"
}

// nonNegative: len(...), a constant >= 0, or a value (possibly converted) that a dominating comparison bounds below.
func (x *rfx) nonNegative(fn *ssa.Function, v ssa.Value, use ssa.Instruction) bool {
	root := v
	for {
		switch y := root.(type) {
		case *ssa.Convert:
			root = y.X
			continue
		case *ssa.ChangeType:
			root = y.X
			continue
		}
		break
	}
	if n, ok := constInt(root); ok {
		return n >= 0
	}
	if c, ok := root.(*ssa.Call); ok {
		if bi, ok := c.Call.Value.(*ssa.Builtin); ok && (bi.Name() == "len" || bi.Name() == "cap") {
			return true
		}
	}
	if b, ok := root.Type().Underlying().(*types.Basic); ok && b.Info()&types.IsUnsigned != 0 {
		return true
	}
	for _, b := range fn.Blocks {
		iff, ok := b.Instrs[len(b.Instrs)-1].(*ssa.If)
		if !ok {
			continue
		}
		bo, ok := iff.Cond.(*ssa.BinOp)
		if !ok {
			continue
		}
		side := -1
		zero := func(z ssa.Value) bool { n, ok := constInt(z); return ok && n == 0 }
		switch {
		case bo.Op == token.LSS && sameSSA(bo.X, root, 0) && zero(bo.Y): // v < 0 -> false side
			side = 1
		case bo.Op == token.GEQ && sameSSA(bo.X, root, 0) && zero(bo.Y): // v >= 0 -> true side
			side = 0
		case bo.Op == token.GTR && zero(bo.X) && sameSSA(bo.Y, root, 0): // 0 > v -> false side
			side = 1
		case bo.Op == token.LEQ && zero(bo.X) && sameSSA(bo.Y, root, 0): // 0 <= v -> true side
			side = 0
		}
		if side < 0 {
			continue
		}
		s, other := b.Succs[side], b.Succs[1-side]
		if (len(s.Preds) == 1 && s.Dominates(use.Block())) || (b.Dominates(use.Block()) && b != use.Block() && !reaches(other, use.Block(), map[*ssa.BasicBlock]bool{b: true})) {
			return true
		}
		// `v < 0 || more` used as a value (a switch case): the out-of-range side feeds `true` into a phi that is then
		// branched on; the phi being false implies v >= 0
		if iff2, ok := other.Instrs[len(other.Instrs)-1].(*ssa.If); ok {
			if phi, ok := iff2.Cond.(*ssa.Phi); ok && phi.Block() == other {
				for i, p := range other.Preds {
					if p != b {
						continue
					}
					if k, ok := phi.Edges[i].(*ssa.Const); ok && k.Value != nil && k.Value.Kind() == constant.Bool && constant.BoolVal(k.Value) {
						f := other.Succs[1]
						if (len(f.Preds) == 1 && f.Dominates(use.Block())) || (other.Dominates(use.Block()) && other != use.Block() && !reaches(other.Succs[0], use.Block(), map[*ssa.BasicBlock]bool{other: true})) {
							return true
						}
					}
				}
			}
		}
	}
	return false
}

// funcNonNil: the receiver of Call/CallSlice is known not to be a nil func: guarded by IsNil here, or - when the
// call sits in a closure over a variable of the enclosing function - the closure is created only on the side of an
// IsNil test of that variable where it is false.
func (x *rfx) funcNonNil(fn *ssa.Function, recv ssa.Value, use ssa.Instruction) bool {
	if x.guardedByMethod(fn, recv, use, true, "IsNil") {
		return true
	}
	ld, ok := recv.(*ssa.UnOp)
	if !ok {
		return false
	}
	fv, ok := ld.X.(*ssa.FreeVar)
	if !ok {
		return false
	}
	cell := freeVarBinding(fv)
	parent := fn.Parent()
	if cell == nil || parent == nil {
		return false
	}
	var mk *ssa.MakeClosure
	for _, b := range parent.Blocks {
		for _, ins := range b.Instrs {
			if mc, ok := ins.(*ssa.MakeClosure); ok && mc.Fn == ssa.Value(fn) {
				mk = mc
			}
		}
	}
	if mk == nil {
		return false
	}
	for _, b := range parent.Blocks {
		iff, ok := b.Instrs[len(b.Instrs)-1].(*ssa.If)
		if !ok {
			continue
		}
		call, ok := iff.Cond.(*ssa.Call)
		if !ok || isReflectFn(call.Call.StaticCallee(), "IsNil") == "" {
			continue
		}
		a := loadAddr(call.Call.Args[0])
		if a != ssa.Value(cell) {
			continue
		}
		// no store to the cell between the test and the closure is checked coarsely: the false side dominates the
		// closure and contains no store to the cell
		f := b.Succs[1]
		if len(f.Preds) == 1 && f.Dominates(mk.Block()) {
			stored := false
			for _, ref := range *cell.Referrers() {
				if st, ok := ref.(*ssa.Store); ok && f.Dominates(st.Block()) {
					stored = true
				}
			}
			if !stored {
				return true
			}
		}
	}
	return false
}
