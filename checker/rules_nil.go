package main

import (
	"fmt"
	"go/ast"
	"go/constant"
	"go/token"
	"go/types"
	"sort"

	"golang.org/x/tools/go/ssa"
)

func init() {
	register(&Rule{ID: "GUARD-nil", Props: []string{"C02", "C09", "C10"}, Min: 60,
		Doc: "G: every call of a function of package otto that can return nil (Value.object, Value.reference, object.stringValue, getOwnProperty, ... computed from their return statements) is examined: if the result is dereferenced (field access, method call that dereferences its receiver, interface method call, passed to a callee that dereferences the parameter) the dereference must be dominated by a nil test of that result or by a kind/class test on the value it was taken from (IsObject, kind == valueObject, isCallable, ...). The values are script-controlled (this / arguments / property lookups), so an unguarded dereference is a host crash a script can trigger",
		Run: ruleGuardNil})
}

// mayReturnNil: fn (package otto, single pointer/interface result) has a path returning nil.
func mayReturnNil(fn *ssa.Function) bool {
	if fn == nil || fn.Blocks == nil || fn.Signature.Results().Len() != 1 {
		return false
	}
	switch fn.Signature.Results().At(0).Type().Underlying().(type) {
	case *types.Pointer, *types.Interface:
	default:
		return false
	}
	var isNilish func(v ssa.Value, seen map[ssa.Value]bool) bool
	isNilish = func(v ssa.Value, seen map[ssa.Value]bool) bool {
		if seen[v] {
			return false
		}
		seen[v] = true
		switch x := v.(type) {
		case *ssa.Const:
			return x.Value == nil
		case *ssa.Extract:
			if ta, ok := x.Tuple.(*ssa.TypeAssert); ok && ta.CommaOk && x.Index == 0 {
				return true // zero value when the assertion fails
			}
		case *ssa.Phi:
			for _, e := range x.Edges {
				if isNilish(e, seen) {
					return true
				}
			}
		case *ssa.MakeInterface:
			return false
		case *ssa.ChangeInterface:
			return isNilish(x.X, seen)
		case *ssa.UnOp:
			// load of a local variable cell
			if al, ok := x.X.(*ssa.Alloc); ok {
				for _, ref := range *al.Referrers() {
					if st, ok := ref.(*ssa.Store); ok && st.Addr == ssa.Value(al) && isNilish(st.Val, seen) {
						return true
					}
				}
			}
		}
		return false
	}
	for _, b := range fn.Blocks {
		for _, ins := range b.Instrs {
			if ret, ok := ins.(*ssa.Return); ok && len(ret.Results) == 1 {
				if isNilish(ret.Results[0], map[ssa.Value]bool{}) {
					return true
				}
			}
		}
	}
	return false
}

// sameSSA: structural equality of two SSA values (no CSE in go/ssa): identical, or the same pure expression
// over the same operands (loads of the same field path, field extractions, calls of the same accessor with equal arguments).
// normCell: a load of a local variable cell that is stored exactly once stands for the stored value.
func normCell(v ssa.Value) ssa.Value {
	for i := 0; i < 4; i++ {
		u, ok := v.(*ssa.UnOp)
		if !ok || u.Op != token.MUL {
			return v
		}
		al, ok := u.X.(*ssa.Alloc)
		if !ok {
			// a captured variable read inside the closure: the cell is the binding in the enclosing function
			if fv, isFV := u.X.(*ssa.FreeVar); isFV {
				al = freeVarBinding(fv)
			}
			if al == nil {
				return v
			}
		}
		s := soleStoreAny(al)
		if s == nil {
			return v
		}
		v = s
	}
	return v
}

// freeVarBinding: the Alloc bound to a closure's free variable, when every MakeClosure of that function binds an Alloc
// and there is exactly one MakeClosure.
func freeVarBinding(fv *ssa.FreeVar) *ssa.Alloc {
	fn := fv.Parent()
	if fn == nil || fn.Parent() == nil {
		return nil
	}
	idx := -1
	for i, f := range fn.FreeVars {
		if f == fv {
			idx = i
		}
	}
	if idx < 0 {
		return nil
	}
	var found *ssa.Alloc
	n := 0
	for _, b := range fn.Parent().Blocks {
		for _, ins := range b.Instrs {
			mc, ok := ins.(*ssa.MakeClosure)
			if !ok || mc.Fn != ssa.Value(fn) || idx >= len(mc.Bindings) {
				continue
			}
			n++
			if al, ok := mc.Bindings[idx].(*ssa.Alloc); ok {
				found = al
			}
		}
	}
	if n == 1 {
		return found
	}
	return nil
}

// soleStoreAny: the single value ever stored into the cell, counting stores made through closures' free variables.
func soleStoreAny(a *ssa.Alloc) ssa.Value {
	var v ssa.Value
	n := 0
	for _, ref := range *a.Referrers() {
		switch x := ref.(type) {
		case *ssa.Store:
			if x.Addr == ssa.Value(a) {
				v = x.Val
				n++
			}
		case *ssa.MakeClosure:
			fn, ok := x.Fn.(*ssa.Function)
			if !ok {
				return nil
			}
			for bi, bv := range x.Bindings {
				if bv == ssa.Value(a) && bi < len(fn.FreeVars) {
					for _, fref := range *fn.FreeVars[bi].Referrers() {
						if st, ok := fref.(*ssa.Store); ok && st.Addr == ssa.Value(fn.FreeVars[bi]) {
							n += 2 // reassigned inside a closure
						}
					}
				}
			}
		}
	}
	if n == 1 {
		return v
	}
	return nil
}

func sameSSA(a, b ssa.Value, depth int) bool {
	a, b = normCell(a), normCell(b)
	if a == b {
		return true
	}
	if depth > 6 || a == nil || b == nil {
		return false
	}
	switch x := a.(type) {
	case *ssa.UnOp:
		y, ok := b.(*ssa.UnOp)
		return ok && x.Op == y.Op && sameSSA(x.X, y.X, depth+1)
	case *ssa.FieldAddr:
		y, ok := b.(*ssa.FieldAddr)
		return ok && x.Field == y.Field && sameSSA(x.X, y.X, depth+1)
	case *ssa.Field:
		y, ok := b.(*ssa.Field)
		return ok && x.Field == y.Field && sameSSA(x.X, y.X, depth+1)
	case *ssa.IndexAddr:
		y, ok := b.(*ssa.IndexAddr)
		return ok && sameSSA(x.X, y.X, depth+1) && sameSSA(x.Index, y.Index, depth+1)
	case *ssa.Const:
		y, ok := b.(*ssa.Const)
		return ok && x.Value != nil && y.Value != nil && x.Value.ExactString() == y.Value.ExactString() && types.Identical(x.Type(), y.Type())
	case *ssa.Call:
		y, ok := b.(*ssa.Call)
		if !ok || x.Call.StaticCallee() == nil || x.Call.StaticCallee() != y.Call.StaticCallee() || len(x.Call.Args) != len(y.Call.Args) {
			return false
		}
		if !pureAccessor(x.Call.StaticCallee()) {
			return false
		}
		for i := range x.Call.Args {
			if !sameSSA(x.Call.Args[i], y.Call.Args[i], depth+1) {
				return false
			}
		}
		return true
	case *ssa.Alloc:
		// two spills of the same parameter value
		y, ok := b.(*ssa.Alloc)
		if !ok {
			return false
		}
		sx, sy := soleStore(x), soleStore(y)
		return sx != nil && sy != nil && sameSSA(sx, sy, depth+1)
	}
	return false
}

func soleStore(a *ssa.Alloc) ssa.Value {
	var v ssa.Value
	n := 0
	for _, ref := range *a.Referrers() {
		if st, ok := ref.(*ssa.Store); ok && st.Addr == ssa.Value(a) {
			v = st.Val
			n++
		}
	}
	if n == 1 {
		return v
	}
	return nil
}

// pureAccessor: small side-effect-free accessors whose repeated calls yield the same value.
func pureAccessor(fn *ssa.Function) bool {
	if fn == nil || fn.Blocks == nil {
		return false
	}
	n := 0
	for _, b := range fn.Blocks {
		for _, ins := range b.Instrs {
			n++
			switch x := ins.(type) {
			case *ssa.Store, *ssa.MapUpdate, *ssa.Send, *ssa.Go, *ssa.Defer, *ssa.Panic:
				return false
			case *ssa.Call:
				if _, isBuiltin := x.Call.Value.(*ssa.Builtin); !isBuiltin {
					if !pureAccessorShallow(x.Call.StaticCallee()) {
						return false
					}
				}
			}
		}
	}
	return n < 40
}

func pureAccessorShallow(fn *ssa.Function) bool {
	if fn == nil || fn.Blocks == nil {
		return false
	}
	for _, b := range fn.Blocks {
		for _, ins := range b.Instrs {
			switch ins.(type) {
			case *ssa.Store, *ssa.MapUpdate, *ssa.Send, *ssa.Go, *ssa.Defer, *ssa.Panic, *ssa.Call:
				return false
			}
		}
	}
	return true
}

// nilTestSucc: iff tests v against nil; returns the successor index on which v is non-nil.
func nilTestSucc(iff *ssa.If, v ssa.Value) (int, bool) {
	bo, ok := iff.Cond.(*ssa.BinOp)
	if !ok || (bo.Op != token.NEQ && bo.Op != token.EQL) {
		return 0, false
	}
	var other ssa.Value
	switch {
	case isNilConst(bo.Y):
		other = bo.X
	case isNilConst(bo.X):
		other = bo.Y
	default:
		return 0, false
	}
	if !sameSSA(other, v, 0) {
		return 0, false
	}
	if bo.Op == token.NEQ {
		return 0, true
	}
	return 1, true
}

// condImpliesNonNil: the boolean value cond (possibly under negation) being true/false implies r != nil.
// Returns (truthValueThatImpliesNonNil, ok).
type nilGuardCtx struct {
	r      ssa.Value // the may-nil result
	src    ssa.Value // the Value/object it was taken from (receiver of the accessor), may be nil
	getter *ssa.Function
}

// getterKind: accessor name -> the kind whose payload the accessor returns (non-nil exactly for that kind, by REPR-value).
var getterKind = map[string]string{"object": "valueObject", "Object": "valueObject", "reference": "valueReference"}

func kindValue(fn *ssa.Function, name string) int64 {
	if fn.Pkg == nil {
		return -1
	}
	if cst, ok := fn.Pkg.Pkg.Scope().Lookup(name).(*types.Const); ok {
		v, _ := constant.Int64Val(cst.Val())
		return v
	}
	return -1
}

var predicateMemo = map[*ssa.Function]bool{}

// predicateImpliesObject: fn is a bool method on Value that can return true only when the receiver is an object:
// every return of something other than the constant false is dominated by `recv.kind == valueObject` or by a
// non-nil test of recv.object(). Verified from the function body, not assumed from its name.
func predicateImpliesObject(fn *ssa.Function) bool {
	if v, ok := predicateMemo[fn]; ok {
		return v
	}
	predicateMemo[fn] = false
	if fn == nil || fn.Blocks == nil || fn.Signature.Recv() == nil || !typeIs(fn.Signature.Recv().Type(), ottoPath, "Value") {
		return false
	}
	if b, ok := fn.Signature.Results().At(0).Type().Underlying().(*types.Basic); fn.Signature.Results().Len() != 1 || !ok || b.Kind() != types.Bool {
		return false
	}
	recv := fn.Params[0]
	objGetter := fn.Pkg.Func("object")
	_ = objGetter
	guardedBlock := func(b *ssa.BasicBlock) bool {
		for _, gb := range fn.Blocks {
			iff, isIf := gb.Instrs[len(gb.Instrs)-1].(*ssa.If)
			if !isIf {
				continue
			}
			var whenTrue, found bool
			switch cnd := iff.Cond.(type) {
			case *ssa.BinOp:
				if cnd.Op == token.EQL || cnd.Op == token.NEQ {
					if k, isC := constInt(cnd.Y); isC && k == kindValue(fn, "valueObject") && isKindOf(cnd.X, recv) {
						whenTrue, found = cnd.Op == token.EQL, true
					}
					if isNilConst(cnd.Y) {
						if call, ok := cnd.X.(*ssa.Call); ok && call.Call.StaticCallee() != nil && getterKind[call.Call.StaticCallee().Name()] == "valueObject" && len(call.Call.Args) > 0 && sameSSA(call.Call.Args[0], recv, 0) {
							whenTrue, found = cnd.Op == token.NEQ, true
						}
					}
				}
			case *ssa.Call:
				if callee := cnd.Call.StaticCallee(); callee != nil && callee != fn && len(cnd.Call.Args) > 0 && sameSSA(cnd.Call.Args[0], recv, 0) && predicateImpliesObject(callee) {
					whenTrue, found = true, true
				}
			case *ssa.Extract:
				// v, ok := recv.value.(*object)
				if ta, ok := cnd.Tuple.(*ssa.TypeAssert); ok && ta.CommaOk && cnd.Index == 1 && typeStr(ta.AssertedType) == "*object" {
					whenTrue, found = true, true
				}
			}
			if !found {
				continue
			}
			succ := gb.Succs[0]
			if !whenTrue {
				succ = gb.Succs[1]
			}
			if len(succ.Preds) == 1 && succ.Dominates(b) {
				return true
			}
		}
		return false
	}
	var okValue func(v ssa.Value, at *ssa.BasicBlock, depth int) bool
	okValue = func(v ssa.Value, at *ssa.BasicBlock, depth int) bool {
		if cst, ok := v.(*ssa.Const); ok && cst.Value != nil && !constant.BoolVal(cst.Value) {
			return true
		}
		if bo, ok := v.(*ssa.BinOp); ok && bo.Op == token.EQL {
			if k, isC := constInt(bo.Y); isC && k == kindValue(fn, "valueObject") && isKindOf(bo.X, recv) {
				return true
			}
		}
		if phi, ok := v.(*ssa.Phi); ok && depth < 3 {
			for i, e := range phi.Edges {
				if !okValue(e, phi.Block().Preds[i], depth+1) {
					return false
				}
			}
			return true
		}
		return guardedBlock(at)
	}
	for _, b := range fn.Blocks {
		for _, ins := range b.Instrs {
			if ret, ok := ins.(*ssa.Return); ok {
				if !okValue(ret.Results[0], b, 0) {
					return false
				}
			}
		}
	}
	predicateMemo[fn] = true
	return true
}

func (g *nilGuardCtx) impliesNonNil(cond ssa.Value, depth int) (whenTrue bool, ok bool) {
	if depth > 4 {
		return false, false
	}
	switch x := cond.(type) {
	case *ssa.BinOp:
		if x.Op == token.NEQ || x.Op == token.EQL {
			var other ssa.Value
			switch {
			case isNilConst(x.Y):
				other = x.X
			case isNilConst(x.X):
				other = x.Y
			}
			if other != nil && sameSSA(other, g.r, 0) {
				return x.Op == token.NEQ, true
			}
			// kind test on the source: src.kind == valueObject (resp. valueReference)
			if g.src != nil && g.getter != nil {
				if wantKind, ok := getterKind[g.getter.Name()]; ok {
					for _, pair := range [][2]ssa.Value{{x.X, x.Y}, {x.Y, x.X}} {
						if k, isC := constInt(pair[1]); isC && typeStr(pair[1].Type()) == "valueKind" && k == kindValue(g.getter, wantKind) {
							if isKindOf(pair[0], g.src) {
								return x.Op == token.EQL, true
							}
						}
					}
				}
			}
		}
	case *ssa.UnOp:
		if x.Op == token.NOT {
			if t, ok := g.impliesNonNil(x.X, depth+1); ok {
				return !t, true
			}
		}
	case *ssa.Call:
		callee := x.Call.StaticCallee()
		if callee != nil && g.src != nil && g.getter != nil && len(x.Call.Args) >= 1 && getterKind[g.getter.Name()] == "valueObject" {
			if sameSSA(x.Call.Args[0], g.src, 0) && predicateImpliesObject(callee) {
				return true, true
			}
		}
	}
	return false, false
}

// isKindOf: v is the kind field of src (a Value): Field(src, kind) or load(FieldAddr(&src, kind)).
func isKindOf(v, src ssa.Value) bool {
	switch x := v.(type) {
	case *ssa.Field:
		if st, ok := x.X.Type().Underlying().(*types.Struct); ok && st.Field(x.Field).Name() == "kind" {
			return sameSSA(x.X, src, 0)
		}
	case *ssa.UnOp:
		if fa, ok := x.X.(*ssa.FieldAddr); ok && isFieldAddr(fa, "Value", "kind") {
			// fa.X is the address of a Value; src may be the loaded value of the same address or a spill
			if ld := loadAddr(src); ld != nil && sameSSA(fa.X, ld, 0) {
				return true
			}
			if al, ok := fa.X.(*ssa.Alloc); ok {
				if s := soleStore(al); s != nil && sameSSA(s, src, 0) {
					return true
				}
			}
		}
	}
	return false
}

// guardedAt: the instruction use is dominated by a branch that implies g.r != nil.
func (g *nilGuardCtx) guardedAt(use ssa.Instruction) bool {
	ub := use.Block()
	fn := ub.Parent()
	for _, b := range fn.Blocks {
		iff, ok := b.Instrs[len(b.Instrs)-1].(*ssa.If)
		if !ok {
			continue
		}
		whenTrue, ok := g.impliesNonNil(iff.Cond, 0)
		if !ok {
			continue
		}
		succ := b.Succs[0]
		other := b.Succs[1]
		if !whenTrue {
			succ, other = other, succ
		}
		// the non-nil successor must dominate the use, and be reachable only through this edge
		if succ != other && len(succ.Preds) == 1 && succ.Dominates(ub) {
			return true
		}
		// short-circuit form `!P(v) || r.f ...`: the use sits in the block entered only when the first test passed

		// early exit form: the nil side never reaches the use (it returns/panics) and the test block dominates the use
		if b.Dominates(ub) && !reaches(other, ub, map[*ssa.BasicBlock]bool{b: true}) {
			return true
		}
	}
	return false
}

func reaches(from, to *ssa.BasicBlock, seen map[*ssa.BasicBlock]bool) bool {
	if from == to {
		return true
	}
	if seen[from] {
		return false
	}
	seen[from] = true
	for _, s := range from.Succs {
		if reaches(s, to, seen) {
			return true
		}
	}
	return false
}

// derefsParam: callee dereferences parameter i without testing it for nil first.
func derefsParam(fn *ssa.Function, i int, depth int, memo map[string]bool) bool {
	if fn == nil || fn.Blocks == nil || i >= len(fn.Params) || depth > 3 {
		return false
	}
	key := fmt.Sprintf("%p/%d", fn, i)
	if v, ok := memo[key]; ok {
		return v
	}
	memo[key] = false
	p := fn.Params[i]
	g := &nilGuardCtx{r: p}
	res := false
	for _, du := range derefUses(p, depth, memo) {
		if !g.guardedAt(du.guard) {
			res = true
			break
		}
	}
	memo[key] = res
	return res
}

type derefUse struct {
	use   ssa.Instruction // the dereferencing instruction
	guard ssa.Instruction // the program point at which the value must be known non-nil (use itself, or the end of the block feeding a phi)
}

// derefUses: instructions that dereference v (directly, through a phi, or by passing it to a callee that does).
func derefUses(v ssa.Value, depth int, memo map[string]bool) []derefUse {
	var out []derefUse
	refs := v.Referrers()
	if refs == nil {
		return nil
	}
	for _, ref := range *refs {
		switch x := ref.(type) {
		case *ssa.FieldAddr:
			if x.X == v {
				out = append(out, derefUse{x, x})
			}
		case *ssa.UnOp:
			if x.Op == token.MUL && x.X == v {
				out = append(out, derefUse{x, x})
			}
		case *ssa.TypeAssert:
			if x.X == v && !x.CommaOk {
				out = append(out, derefUse{x, x})
			}
		case ssa.CallInstruction:
			cc := x.Common()
			if cc.IsInvoke() {
				if cc.Value == v {
					out = append(out, derefUse{x, x}) // interface method call on a possibly nil interface
				}
				continue
			}
			callee := cc.StaticCallee()
			for ai, a := range cc.Args {
				if a != v || callee == nil {
					continue
				}
				if derefsParam(callee, ai, depth+1, memo) {
					out = append(out, derefUse{x, x})
				}
			}
		case *ssa.Store:
			// stored into a local variable cell (a variable captured by a closure): follow the cell's loads
			cell, ok := x.Addr.(*ssa.Alloc)
			if !ok || x.Val != v || depth > 3 {
				continue
			}
			for _, cref := range *cell.Referrers() {
				switch y := cref.(type) {
				case *ssa.UnOp:
					out = append(out, unguardedFor(y, derefUses(y, depth+1, memo))...)
				case *ssa.MakeClosure:
					fn, ok := y.Fn.(*ssa.Function)
					if !ok {
						continue
					}
					for bi, bv := range y.Bindings {
						if bv != ssa.Value(cell) || bi >= len(fn.FreeVars) {
							continue
						}
						for _, fref := range *fn.FreeVars[bi].Referrers() {
							if ld, ok := fref.(*ssa.UnOp); ok {
								if inner := derefUses(ld, depth+1, memo); len(inner) > 0 {
									// the value must be non-nil when the closure is created
									out = append(out, derefUse{inner[0].use, y})
								}
							}
						}
					}
				}
			}
		case *ssa.Phi:
			if depth > 3 {
				continue
			}
			inner := unguardedFor(x, derefUses(x, depth+1, memo))
			if len(inner) == 0 {
				continue // not dereferenced, or every dereference of the merged value is itself nil-tested (loop variables)
			}
			// the value must be non-nil where it enters the phi: at the end of each predecessor block carrying it
			for i, e := range x.Edges {
				if e == v {
					pred := x.Block().Preds[i]
					out = append(out, derefUse{inner[0].use, pred.Instrs[len(pred.Instrs)-1]})
				}
			}
		}
	}
	return out
}

func ruleGuardNil(c *Ctx, r *R) {
	funcs := c.AllSrcFuncs("")
	maynil := map[*ssa.Function]bool{}
	for _, fn := range funcs {
		if fn.Parent() == nil && mayReturnNil(fn) {
			maynil[fn] = true
		}
	}
	var names []string
	for f := range maynil {
		names = append(names, ssaFuncName(f))
	}
	sort.Strings(names)
	r.note("may_return_nil", names)
	memo := map[string]bool{}
	for _, fn := range funcs {
		ord := map[string]int{}
		for _, b := range fn.Blocks {
			for _, ins := range b.Instrs {
				call, ok := ins.(*ssa.Call)
				if !ok {
					continue
				}
				callee := call.Call.StaticCallee()
				if !maynil[callee] {
					continue
				}
				g := &nilGuardCtx{r: call, getter: callee}
				if callee.Signature.Recv() != nil && len(call.Call.Args) > 0 {
					g.src = call.Call.Args[0]
				}
				uses := derefUses(call, 0, memo)
				base := fmt.Sprintf("%s:%s", ssaFuncName(fn), callee.Name())
				ord[base]++
				key := fmt.Sprintf("%s#%d", base, ord[base])
				if len(uses) == 0 {
					r.ok(key, c.Pos(instrPos(call)), "result is not dereferenced here")
					continue
				}
				var bad ssa.Instruction
				for _, u := range uses {
					if !g.guardedAt(u.guard) {
						bad = u.use
						break
					}
				}
				if bad == nil {
					r.ok(key, c.Pos(instrPos(call)), fmt.Sprintf("%d dereference(s), all dominated by a nil/kind test", len(uses)))
					continue
				}
				if why, ok := reviewedLookup(guardNilReviewed, base); ok {
					r.ok("reviewed:"+key, c.Pos(instrPos(call)), why)
					continue
				}
				// the code moved into a helper: the receiver is a parameter, and every caller is a function whose own
				// calls of this accessor are reviewed (the reviewed fact is about the values that function handles)
				if p, isParam := g.src.(*ssa.Parameter); isParam && g.src != nil {
					var whys []string
					if c.argAtAllCallSites(p, func(_ ssa.Value, site ssa.CallInstruction) bool {
						owner := site.Parent()
						for owner.Parent() != nil {
							owner = owner.Parent()
						}
						why, ok := reviewedLookup(guardNilReviewed, fmt.Sprintf("%s:%s", ssaFuncName(owner), callee.Name()))
						if ok {
							whys = append(whys, why)
						}
						return ok
					}, 0) && len(whys) > 0 {
						r.ok("reviewed-caller:"+key, c.Pos(instrPos(call)), "the receiver is a parameter bound at every call site by a function for which this holds: "+whys[0])
						continue
					}
				}
				// ... or every call of the helper is itself made under the kind test of the value it hands over
				if p, isParam := g.src.(*ssa.Parameter); isParam {
					if c.argAtAllCallSites(p, func(arg ssa.Value, site ssa.CallInstruction) bool {
						g2 := &nilGuardCtx{r: call, src: arg, getter: callee}
						return g2.guardedAt(site)
					}, 0) {
						r.ok("caller-guard:"+key, c.Pos(instrPos(call)), "the receiver is a parameter, and every call of this function is dominated by the kind test of the value it passes")
						continue
					}
				}
				r.bad(key, c.Pos(instrPos(call)), fmt.Sprintf("%s can return nil (e.g. when the value is not an object); its result is dereferenced at %s (%s) with no dominating nil/kind test: a script passing the other kind of value crashes the host with a nil dereference", ssaFuncName(callee), c.Pos(instrPos(bad)), describeInstr(bad)))
			}
		}
	}
}

// Reviewed call sites (function:accessor) where the result is non-nil for a reason the analysis cannot see.
var guardNilReviewed = map[string]string{
	"builtinNewFunctionNative:parseExpression":              "the argument is the *ast.FunctionLiteral returned by parser.ParseFunction, non-nil once parseThrow(err) has returned; the compiler returns nil only for a nil or Empty expression",
	"(*compiler).parseExpression:parseExpression":           "argument is FunctionDeclaration.Function, a FunctionLiteral the parser always sets; the compiler returns nil only for a nil or Empty expression",
	"(*compiler).parse:parseExpression":                     "argument is FunctionDeclaration.Function (always set by the parser)",
	"(*runtime).cmplEvaluateNodeAssignExpression:reference": "the left operand of an assignment is an Identifier/Dot/Bracket expression (parser early error otherwise, EARLY-guards), which evaluates to a reference",
	"(*runtime).cmplEvaluateNodeUnaryExpression:reference":  "++/-- operands are Identifier/Dot/Bracket expressions (parser early error otherwise), which evaluate to a reference; typeof/delete test the kind or nil first",
	"(*runtime).cmplEvaluateNodeForInStatement$1:reference": "`into` is replaced by an identifier reference when reference() was nil two lines above (path-sensitive)",
	"argumentsGetOwnProperty:objectGetOwnProperty":          "a parameter mapping exists only while the indexed own property exists: argumentsDelete removes the mapping together with the property, and mappings are created with the properties",
	"stringGetOwnProperty:stringValue":                      "objects that use the classString table always carry a stringObjecter payload (newStringObject; the String.prototype literal)",
}

func init() {
	register(&Rule{ID: "NIL-field", Props: []string{"C02", "C10"}, Min: 5,
		Doc: "P (contradiction rule): a pointer/interface field of one of the package's own struct types that some composite literal explicitly sets to nil (a stated belief that it can be nil) must not be dereferenced by any reader without a dominating nil test of that same field value",
		Run: ruleNilField})
}

func ruleNilField(c *Ctx, r *R) {
	p := c.Otto()
	info := p.TypesInfo
	// fields with an explicit nil in some literal
	nilFields := map[*types.Var]string{}
	for _, f := range p.Syntax {
		ast.Inspect(f, func(n ast.Node) bool {
			cl, ok := n.(*ast.CompositeLit)
			if !ok {
				return true
			}
			nt := derefNamed(info.TypeOf(cl))
			if nt == nil || nt.Obj().Pkg() == nil || nt.Obj().Pkg().Path() != ottoPath {
				return true
			}
			st, ok := nt.Underlying().(*types.Struct)
			if !ok {
				return true
			}
			for _, el := range cl.Elts {
				kv, ok := el.(*ast.KeyValueExpr)
				if !ok {
					continue
				}
				id, ok := unparen(kv.Value).(*ast.Ident)
				if !ok || id.Name != "nil" {
					continue
				}
				if _, isNil := info.Uses[id].(*types.Nil); !isNil {
					continue
				}
				key, ok := kv.Key.(*ast.Ident)
				if !ok {
					continue
				}
				for i := 0; i < st.NumFields(); i++ {
					if st.Field(i).Name() == key.Name {
						switch st.Field(i).Type().Underlying().(type) {
						case *types.Pointer: // interface payloads are GUARD-assert's domain
							if _, seen := nilFields[st.Field(i)]; !seen {
								nilFields[st.Field(i)] = c.Pos(kv.Pos())
							}
						}
					}
				}
			}
			return true
		})
	}
	if len(nilFields) == 0 {
		r.undecided("no-nil-fields", "-", "no literal sets a pointer field to nil explicitly: anchor lost")
		return
	}
	memo := map[string]bool{}
	nReaders := map[*types.Var]int{}
	for _, fn := range c.AllSrcFuncs("") {
		ord := map[string]int{}
		for _, b := range fn.Blocks {
			for _, ins := range b.Instrs {
				var fld *types.Var
				var nt *types.Named
				var val ssa.Value
				switch x := ins.(type) {
				case *ssa.UnOp:
					if x.Op != token.MUL {
						continue
					}
					nt, fld = fieldOfAddr(x.X)
					val = x
				case *ssa.Field:
					if st, ok := x.X.Type().Underlying().(*types.Struct); ok {
						fld = st.Field(x.Field)
						nt, _ = x.X.Type().(*types.Named)
					}
					val = x
				default:
					continue
				}
				if fld == nil || nt == nil {
					continue
				}
				if _, tracked := nilFields[fld]; !tracked {
					continue
				}
				nReaders[fld]++
				uses := derefUses(val, 0, memo)
				base := fmt.Sprintf("%s:%s.%s", ssaFuncName(fn), nt.Obj().Name(), fld.Name())
				ord[base]++
				key := fmt.Sprintf("%s#%d", base, ord[base])
				if len(uses) == 0 {
					r.ok(key, c.Pos(instrPos(ins)), "read but not dereferenced here")
					continue
				}
				g := &nilGuardCtx{r: val}
				var bad ssa.Instruction
				for _, u := range uses {
					if !g.guardedAt(u.guard) {
						bad = u.use
						break
					}
				}
				if bad == nil {
					r.ok(key, c.Pos(instrPos(ins)), "dereference dominated by a nil test of the field")
					continue
				}
				if why, ok := nilFieldReviewed[base]; ok {
					r.ok("reviewed:"+key, c.Pos(instrPos(ins)), why)
					continue
				}
				r.bad(key, c.Pos(instrPos(ins)), fmt.Sprintf("field %s.%s is explicitly nil in the literal at %s, yet it is dereferenced here at %s (%s) without a nil test: the object built from that literal crashes the host when a script reaches this reader", nt.Obj().Name(), fld.Name(), nilFields[fld], c.Pos(instrPos(bad)), describeInstr(bad)))
			}
		}
	}
	for fld, site := range nilFields {
		r.ok("tracked:"+fld.Name(), site, fmt.Sprintf("explicitly nil in a literal; %d reader(s) examined", nReaders[fld]))
	}
}

var nilFieldReviewed = map[string]string{
	"objectClone:object.prototype": "out is a bulk copy of in, so the dominating test out.prototype != nil is a test of in.prototype",
}

// unguardedFor keeps the dereferences of v that are not dominated by a nil test of v itself.
func unguardedFor(v ssa.Value, uses []derefUse) []derefUse {
	g := &nilGuardCtx{r: v}
	var out []derefUse
	for _, u := range uses {
		if !g.guardedAt(u.guard) {
			out = append(out, u)
		}
	}
	return out
}

func init() {
	register(&Rule{ID: "GUARD-assert", Props: []string{"C02", "C16"}, Min: 40,
		Doc: "G: census of every single-value type assertion x.(T) in package otto (each one panics when the dynamic type differs). Each must be justified: (a) operand is Value.value under a dominating kind test whose legal payload is T (REPR-value), (b) operand is object.value of an object that provably uses the objectClass table / class name whose constructors all store a T payload (CLASS-PAYLOAD), (c) a dominating comma-ok assertion or type-switch case on the same operand, (d) the operand was produced in the same function with static type T, or (e) the reviewed table; anything else is a host crash when a script supplies a value of another type",
		Run: ruleGuardAssert})
}

// classPayloads: for every objectClass variable V, the set of payload types stored into object.value by the functions
// that install V into object.objectClass (CLASS-PAYLOAD fact), and the slot functions of V.
type classFacts struct {
	payloadOfClassVar map[string]map[string]bool // objectClass var name -> payload types
	slotFuncs         map[*ssa.Function]string   // function installed in a slot of table V -> V
	payloadOfClassStr map[string]map[string]bool // class-name constant -> payload types stored by functions that set that class
}

func computeClassFacts(c *Ctx) *classFacts {
	cf := &classFacts{payloadOfClassVar: map[string]map[string]bool{}, slotFuncs: map[*ssa.Function]string{}, payloadOfClassStr: map[string]map[string]bool{}}
	for _, fn := range c.AllSrcFuncs("") {
		var classVars []string
		var classNames []string
		var payloads []string
		for _, b := range fn.Blocks {
			for _, ins := range b.Instrs {
				switch x := ins.(type) {
				case *ssa.Store:
					if isFieldAddr(x.Addr, "object", "objectClass") {
						if g := rootGlobal(x.Val, 0); g != nil {
							classVars = append(classVars, g.Name())
						}
					}
					if isFieldAddr(x.Addr, "object", "value") {
						if mi, ok := x.Val.(*ssa.MakeInterface); ok {
							payloads = append(payloads, typeStr(mi.X.Type()))
						} else if isNilConst(x.Val) {
							payloads = append(payloads, "nil")
						} else {
							payloads = append(payloads, "?")
						}
					}
					if isFieldAddr(x.Addr, "object", "class") {
						if cst, ok := x.Val.(*ssa.Const); ok && cst.Value != nil {
							classNames = append(classNames, constant.StringVal(cst.Value))
						}
					}
					// slot table initialisation: store of a function into a field of an objectClass literal
					if nt, _ := fieldOfAddr(x.Addr); nt != nil && nt.Obj().Name() == "objectClass" {
						if f, ok := x.Val.(*ssa.Function); ok {
							// which global is this literal assigned to? find the store of the alloc into a global
							if fa, ok := x.Addr.(*ssa.FieldAddr); ok {
								if al, ok := fa.X.(*ssa.Alloc); ok {
									for _, ref := range *al.Referrers() {
										if st, ok := ref.(*ssa.Store); ok && st.Val == ssa.Value(al) {
											if g, ok := st.Addr.(*ssa.Global); ok {
												cf.slotFuncs[f] = g.Name()
											}
										}
									}
								}
							}
						}
					}
				case *ssa.Call:
					// newClassObject(C) / newObject(rt, C)
					if callee := x.Call.StaticCallee(); callee != nil && (callee.Name() == "newClassObject" || callee.Name() == "newObject") {
						for _, a := range x.Call.Args {
							if cst, ok := a.(*ssa.Const); ok && cst.Value != nil && cst.Value.Kind() == constant.String {
								classNames = append(classNames, constant.StringVal(cst.Value))
							}
						}
					}
				}
			}
		}
		for _, v := range classVars {
			if cf.payloadOfClassVar[v] == nil {
				cf.payloadOfClassVar[v] = map[string]bool{}
			}
			if len(payloads) == 0 {
				cf.payloadOfClassVar[v]["<none in "+ssaFuncName(fn)+">"] = true
			}
			for _, p := range payloads {
				cf.payloadOfClassVar[v][p] = true
			}
		}
		for _, n := range classNames {
			if cf.payloadOfClassStr[n] == nil {
				cf.payloadOfClassStr[n] = map[string]bool{}
			}
			for _, p := range payloads {
				cf.payloadOfClassStr[n][p] = true
			}
		}
	}
	return cf
}

func ruleGuardAssert(c *Ctx, r *R) {
	cf := computeClassFacts(c)
	r.note("class_payloads", fmt.Sprint(cf.payloadOfClassVar))
	for _, fn := range c.AllSrcFuncs("", "parser", "ast", "file", "token") {
		ord := map[string]int{}
		for _, b := range fn.Blocks {
			for _, ins := range b.Instrs {
				ta, ok := ins.(*ssa.TypeAssert)
				if !ok || ta.CommaOk {
					continue
				}
				if !ta.Pos().IsValid() {
					continue // synthesized (type switch lowering uses comma-ok forms; range etc.)
				}
				T := typeStr(ta.AssertedType)
				src := describeAssertSource(ta.X)
				base := fmt.Sprintf("%s:%s.(%s)", ssaFuncName(fn), src, T)
				ord[base]++
				key := fmt.Sprintf("%s#%d", base, ord[base])
				site := c.Pos(ta.Pos())
				if why := justifyAssert(c, cf, fn, ta); why != "" {
					r.ok(key, site, why)
					continue
				}
				if why, ok := reviewedLookup(guardAssertReviewed, base); ok {
					r.ok("reviewed:"+key, site, why)
					continue
				}
				r.bad(key, site, fmt.Sprintf("unchecked type assertion %s.(%s) in %s: nothing dominating it establishes the dynamic type, so a value of another type (which scripts can arrange for payloads and descriptors) panics the host", src, T, ssaFuncName(fn)))
			}
		}
	}
}

func describeAssertSource(v ssa.Value) string {
	switch x := v.(type) {
	case *ssa.UnOp:
		if nt, f := fieldOfAddr(x.X); nt != nil {
			return nt.Obj().Name() + "." + f.Name()
		}
		return "load"
	case *ssa.Field:
		if st, ok := x.X.Type().Underlying().(*types.Struct); ok {
			name := ""
			if n, ok := x.X.Type().(*types.Named); ok {
				name = n.Obj().Name()
			}
			return name + "." + st.Field(x.Field).Name()
		}
	case *ssa.Call:
		if f := x.Call.StaticCallee(); f != nil {
			return "call:" + f.Name()
		}
		return "call"
	case *ssa.Parameter:
		return "param:" + typeStr(x.Type())
	case *ssa.Phi:
		return "phi"
	case *ssa.Extract:
		return "extract"
	case *ssa.MakeInterface:
		return "fresh:" + typeStr(x.X.Type())
	}
	return fmt.Sprintf("%T", v)
}

func justifyAssert(c *Ctx, cf *classFacts, fn *ssa.Function, ta *ssa.TypeAssert) string {
	T := typeStr(ta.AssertedType)
	// (d) produced here with that static type
	if mi, ok := ta.X.(*ssa.MakeInterface); ok && typeStr(mi.X.Type()) == T {
		return "operand was boxed from a " + T + " in this function"
	}
	// asserting to an interface type the operand's static type already implements cannot fail (except nil)
	// (c) dominating comma-ok assertion / successful earlier assertion on the same operand
	for _, b := range fn.Blocks {
		for _, ins := range b.Instrs {
			other, ok := ins.(*ssa.TypeAssert)
			if !ok || other == ta || !sameSSA(other.X, ta.X, 0) || typeStr(other.AssertedType) != T {
				continue
			}
			if !other.CommaOk && dominatesInstr(other, ta) {
				return "an earlier assertion of the same operand to the same type dominates it"
			}
			if other.CommaOk {
				// find the If on extract #1
				for _, ref := range *other.Referrers() {
					ex, ok := ref.(*ssa.Extract)
					if !ok || ex.Index != 1 {
						continue
					}
					for _, eref := range *ex.Referrers() {
						iff, ok := eref.(*ssa.If)
						if !ok {
							continue
						}
						if succ := iff.Block().Succs[0]; len(succ.Preds) == 1 && succ.Dominates(ta.Block()) {
							return "dominated by a successful comma-ok assertion of the same operand"
						}
					}
				}
			}
		}
	}
	// (a) Value.value under a kind test
	if src := valueOfPayload(ta.X); src != nil {
		for kind, legal := range legalPayload {
			if !legal(ta.AssertedType) {
				continue
			}
			kv := kindValueByName(fn, kind)
			if kv < 0 {
				continue
			}
			if dominatedByKindTest(fn, ta, src, kv) {
				return "Value payload asserted under a dominating test kind == " + kind + " (payload type fixed by REPR-value)"
			}
		}
	}
	// (b) object.value inside a slot function of a class table, or under a class-name test
	if ld, ok := ta.X.(*ssa.UnOp); ok && isFieldAddr(ld.X, "object", "value") {
		if tbl, ok := cf.slotFuncs[fn]; ok {
			pl := cf.payloadOfClassVar[tbl]
			if len(pl) > 0 && onlyType(pl, T) {
				return "slot function of " + tbl + ": every constructor that installs this table stores a " + T + " payload (CLASS-PAYLOAD)"
			}
		}
		// (f) the object is captured by (or passed to the function that creates) this closure, and whoever made the object
		// stored a T into its payload on every path before that
		if why := payloadStoredByMaker(c, fn, ld.X.(*ssa.FieldAddr).X, ta, T); why != "" {
			return why
		}
		// (g) a helper split out of slot functions: the object is a parameter, and at every call site the caller is a slot
		// function of a table whose constructors all store a T (or such a helper itself) handing on its own object parameter
		if p, ok := ld.X.(*ssa.FieldAddr).X.(*ssa.Parameter); ok {
			if tbl := slotHelperTable(c, cf, p, T, 0); tbl != "" {
				return "helper of the slot functions of " + tbl + " (every call site passes the slot function's own object): every constructor that installs this table stores a " + T + " payload (CLASS-PAYLOAD)"
			}
		}
		// closures/helpers called only from slot functions are not handled: reviewed table
		// class-name test: obj.class == C dominating, and all setters of class C store T
		fa := ld.X.(*ssa.FieldAddr)
		for _, b := range fn.Blocks {
			iff, ok := b.Instrs[len(b.Instrs)-1].(*ssa.If)
			if !ok {
				continue
			}
			bo, ok := iff.Cond.(*ssa.BinOp)
			if !ok || (bo.Op != token.EQL && bo.Op != token.NEQ) {
				continue
			}
			cst, ok := bo.Y.(*ssa.Const)
			if !ok || cst.Value == nil || cst.Value.Kind() != constant.String {
				continue
			}
			cl := loadAddr(bo.X)
			if cl == nil || !isFieldAddr(cl, "object", "class") || !sameSSA(cl.(*ssa.FieldAddr).X, fa.X, 0) {
				continue
			}
			succ, other := b.Succs[0], b.Succs[1]
			if bo.Op == token.NEQ {
				succ, other = other, succ
			}
			okDom := (len(succ.Preds) == 1 && succ.Dominates(ta.Block())) || (b.Dominates(ta.Block()) && !reaches(other, ta.Block(), map[*ssa.BasicBlock]bool{b: true}))
			if okDom {
				name := constant.StringVal(cst.Value)
				if pl := cf.payloadOfClassStr[name]; len(pl) > 0 && onlyType(pl, T) {
					return "dominated by class == " + name + ", and every constructor of that class stores a " + T + " payload (CLASS-PAYLOAD)"
				}
			}
		}
	}
	return ""
}

func onlyType(set map[string]bool, T string) bool {
	for k := range set {
		if k != T {
			return false
		}
	}
	return true
}

func kindValueByName(fn *ssa.Function, name string) int64 {
	if fn.Pkg == nil {
		if fn.Parent() != nil {
			return kindValueByName(fn.Parent(), name)
		}
		return -1
	}
	return kindValue(fn, name)
}

// valueOfPayload: if v is a load of <Value>.value, return the Value (address or struct value) it belongs to.
func valueOfPayload(v ssa.Value) ssa.Value {
	switch x := v.(type) {
	case *ssa.UnOp:
		if fa, ok := x.X.(*ssa.FieldAddr); ok && isFieldAddr(fa, "Value", "value") {
			return fa.X // address of the Value
		}
	case *ssa.Field:
		if n, ok := x.X.Type().(*types.Named); ok && n.Obj().Name() == "Value" {
			if st := n.Underlying().(*types.Struct); st.Field(x.Field).Name() == "value" {
				return x.X
			}
		}
	}
	return nil
}

// dominatedByKindTest: some If testing <src>.kind == kv dominates ta on its true side (or its false side exits).
func dominatedByKindTest(fn *ssa.Function, ta *ssa.TypeAssert, src ssa.Value, kv int64) bool {
	isKind := func(v ssa.Value) bool {
		switch x := v.(type) {
		case *ssa.UnOp:
			if fa, ok := x.X.(*ssa.FieldAddr); ok && isFieldAddr(fa, "Value", "kind") {
				return sameSSA(fa.X, src, 0)
			}
		case *ssa.Field:
			if st, ok := x.X.Type().Underlying().(*types.Struct); ok && st.Field(x.Field).Name() == "kind" {
				return sameSSA(x.X, src, 0)
			}
		}
		return false
	}
	for _, b := range fn.Blocks {
		iff, ok := b.Instrs[len(b.Instrs)-1].(*ssa.If)
		if !ok {
			continue
		}
		bo, ok := iff.Cond.(*ssa.BinOp)
		if !ok || (bo.Op != token.EQL && bo.Op != token.NEQ) {
			continue
		}
		k, isC := constInt(bo.Y)
		if !isC || k != kv || !isKind(bo.X) {
			continue
		}
		succ, other := b.Succs[0], b.Succs[1]
		if bo.Op == token.NEQ {
			succ, other = other, succ
		}
		if len(succ.Preds) == 1 && succ.Dominates(ta.Block()) {
			return true
		}
		if b.Dominates(ta.Block()) && !reaches(other, ta.Block(), map[*ssa.BasicBlock]bool{b: true}) {
			return true
		}
	}
	return false
}

var guardAssertReviewed = map[string]string{
	"builtinNewFunctionNative:call:parseExpression.(*nodeFunctionLiteral)":               "the compiler maps *ast.FunctionLiteral (what parser.ParseFunction returns) to *nodeFunctionLiteral and nothing else (EXH-ast2node case)",
	"(*compiler).parseExpression:call:parseExpression.(*nodeFunctionLiteral)":            "argument is FunctionDeclaration.Function, an *ast.FunctionLiteral: compiled to *nodeFunctionLiteral",
	"(*compiler).parse:call:parseExpression.(*nodeFunctionLiteral)":                      "argument is FunctionDeclaration.Function, an *ast.FunctionLiteral: compiled to *nodeFunctionLiteral",
	"builtinJSONStringifyWalk:object.value.(Value)":                                      "under `case classBooleanName`: every constructor of class Boolean (newPrimitiveObject, the Boolean.prototype literal) stores a Value payload (CLASS-PAYLOAD)",
	"newContext:property.value.(Value)":                                                  "global property `eval` is the data property built by the literal three statements above (SHAPE-es5)",
	"newContext:Value.value.(*object)":                                                   "global property `eval` holds a function object (SHAPE-es5)",
	"(*runtime).cmplEvaluateNodeObjectLiteral:nodeProperty.value.(*nodeFunctionLiteral)": "property kinds get/set are built by the parser only with a FunctionLiteral value, which the compiler maps to *nodeFunctionLiteral",
	"(*runtime).cmplEvaluateNodeStatement:load.(*nodeVariableExpression)":                "nodeVariableStatement.list is compiled from ast.VariableStatement.List, whose elements the parser builds as *ast.VariableExpression only",
	"newError:load.(string)":                                                             "internal calling convention: the first variadic argument is the format string at every call site (checked by EXH-errname: format-first)",
	"objectDefineOwnProperty:property.value.(Value)":                                     "reached only when the existing property holds a Value and descriptor.isDataDescriptor() with descriptor.value != nil. Script descriptors: toPropertyDescriptor rejects an accessor combined with value/writable, so a data descriptor carries a Value. Internal callers that pass an accessor pair with the write bits set (caller, arguments, stack: mode 0o000) only define new properties on objects they have just created, never redefine an existing non-configurable, non-writable data property",
	"(*runtime).convertCallParameter:call:Interface.(encoding.TextUnmarshaler)":          "guarded by reflect.PointerTo(t).Implements(TextUnmarshaler) on the line above",
	"(*fnStash).clone:call:clone.(*dclStash)":                                            "(*dclStash).clone returns its *dclStash on every path",
	"objectLength:Value.value.(uint32)":                                                  "class Array: length is always stored through uint32Value (LENGTH-repr)",
	"objectLength:Value.value.(int)":                                                     "class String / GoArray / GoSlice: length is produced by intValue(...) (LENGTH-repr)",
	"arrayDefineOwnProperty:Value.value.(uint32)":                                        "slot function of classArray: length is always stored through uint32Value (LENGTH-repr)",
	"(Value).export:Value.value.(uint32)":                                                "under obj.class == Array: length is always stored through uint32Value (LENGTH-repr)",
	"(Value).evaluateBreakContinue:Value.value.(result)":                                 "every caller tests value.kind == valueResult first; a result Value always carries a result payload (REPR-value)",
	"(Value).evaluateBreak:Value.value.(result)":                                         "every caller tests value.kind == valueResult first (REPR-value)",
}

// payloadStoredByMaker: ta asserts <obj>.value.(T) inside a closure, where obj is a captured variable. The variable is
// assigned once; what it is assigned is either an object on which the enclosing function stored a T payload on every
// path before creating the closure, or a parameter of the enclosing function for which every call site did so before
// the call. (Later stores to the payload of an object are the business of CLASS-PAYLOAD: constructors fix the type.)
func payloadStoredByMaker(c *Ctx, fn *ssa.Function, obj ssa.Value, ta *ssa.TypeAssert, T string) string {
	ld, ok := obj.(*ssa.UnOp)
	if !ok || ld.Op != token.MUL {
		return ""
	}
	fv, ok := ld.X.(*ssa.FreeVar)
	if !ok || fn.Parent() == nil {
		return ""
	}
	cell := freeVarBinding(fv)
	if cell == nil {
		return ""
	}
	v := soleStoreAny(cell)
	if v == nil {
		return ""
	}
	parent := fn.Parent()
	var mk ssa.Instruction
	for _, b := range parent.Blocks {
		for _, ins := range b.Instrs {
			if mc, ok := ins.(*ssa.MakeClosure); ok && mc.Fn == ssa.Value(fn) {
				mk = ins
			}
		}
	}
	if mk == nil {
		return ""
	}
	if storedPayloadBefore(parent, v, cell, mk, T) {
		return "the captured object had a " + T + " stored into its payload on every path of " + ssaFuncName(parent) + " before this closure was created"
	}
	if p, ok := v.(*ssa.Parameter); ok {
		n := 0
		if c.argAtAllCallSites(p, func(arg ssa.Value, site ssa.CallInstruction) bool {
			n++
			var acell *ssa.Alloc
			if l, ok := arg.(*ssa.UnOp); ok && l.Op == token.MUL {
				acell, _ = l.X.(*ssa.Alloc)
			}
			return storedPayloadBefore(site.Parent(), arg, acell, site, T)
		}, 0) && n > 0 {
			return fmt.Sprintf("the captured object is parameter %s of %s, and each of its %d call sites stored a %s into the payload of the argument on every path before the call", p.Name(), ssaFuncName(parent), n, T)
		}
	}
	return ""
}

// storedPayloadBefore: every path of fn from its entry to `at` executes a store of a T into <obj>.value, and no store
// into <obj>.value in fn is of another type. obj is the object value itself or (cell != nil) what a once-assigned
// variable holds.
func storedPayloadBefore(fn *ssa.Function, obj ssa.Value, cell *ssa.Alloc, at ssa.Instruction, T string) bool {
	if cell != nil && soleStoreAny(cell) == nil {
		return false
	}
	same := func(base ssa.Value) bool {
		if base == obj {
			return true
		}
		if cell != nil {
			if l, ok := base.(*ssa.UnOp); ok && l.Op == token.MUL && l.X == ssa.Value(cell) {
				return true
			}
			if soleStoreAny(cell) == base {
				return true
			}
		}
		return false
	}
	good := map[ssa.Instruction]bool{}
	for _, b := range fn.Blocks {
		for _, ins := range b.Instrs {
			st, ok := ins.(*ssa.Store)
			if !ok || !isFieldAddr(st.Addr, "object", "value") || !same(st.Addr.(*ssa.FieldAddr).X) {
				continue
			}
			mi, ok := st.Val.(*ssa.MakeInterface)
			if !ok || typeStr(mi.X.Type()) != T {
				return false
			}
			good[ins] = true
		}
	}
	if len(good) == 0 {
		return false
	}
	return !reachableWithout(fn, at, func(i ssa.Instruction) bool { return good[i] })
}

// slotHelperTable: parameter p (an *object) is, at every call site of its function, the object parameter of a slot
// function of one class table whose payload is always T - directly or through another such helper. Returns the table.
func slotHelperTable(c *Ctx, cf *classFacts, p *ssa.Parameter, T string, depth int) string {
	if depth > 2 {
		return ""
	}
	table := ""
	ok := c.argAtAllCallSites(p, func(arg ssa.Value, site ssa.CallInstruction) bool {
		q, isParam := arg.(*ssa.Parameter)
		if !isParam {
			return false
		}
		caller := site.Parent()
		tbl, isSlot := cf.slotFuncs[caller]
		if !isSlot {
			tbl = slotHelperTable(c, cf, q, T, depth+1)
			if tbl == "" {
				return false
			}
		} else if pl := cf.payloadOfClassVar[tbl]; len(pl) == 0 || !onlyType(pl, T) {
			return false
		}
		if table != "" && table != tbl {
			return false
		}
		table = tbl
		return true
	}, 0)
	if !ok {
		return ""
	}
	return table
}
