package main

import (
	"fmt"
	"go/token"
	"go/types"
	"strings"

	"golang.org/x/tools/go/ssa"
)

func init() {
	register(&Rule{ID: "PAIR-scope", Props: []string{"C01", "C18"}, Min: 8,
		Doc: "P: every call that pushes a scope (enterScope/enterGlobalScope/enterFunctionScope) is followed on every CFG path - before any instruction that can panic and before any return - by a defer whose callee calls leaveScope exactly once; leaveScope is called nowhere else; so the call stack is restored on every unwinding path, wherever the abnormal exit is injected",
		Run: rulePairScope})
	register(&Rule{ID: "PAIR-labels", Props: []string{"C01", "C18"}, Min: 8,
		Doc: "P: every store that grows runtime.labels (an append) is followed, before any may-panic instruction, by a defer that shrinks it; every other store to runtime.labels is nil or a reslice",
		Run: rulePairLabels})
	register(&Rule{ID: "PAIR-lexical", Props: []string{"C01", "C18"}, Min: 2,
		Doc: "P: every store to scope.lexical on an existing scope (with, catch) is followed, before any may-panic instruction, by a defer whose closure stores the saved environment back",
		Run: rulePairLexical})
	register(&Rule{ID: "PAIR-lock", Props: []string{"C17", "C20"}, Min: 1,
		Doc: "P: every Lock() of the runtime mutex is immediately followed by `defer Unlock()` on the same mutex; there is no other Lock/Unlock",
		Run: rulePairLock})
	register(&Rule{ID: "STACK-guard", Props: []string{"C02", "C18"}, Min: 4,
		Doc: "P: the only store that pushes onto runtime.scope is in one function, where on every path with a non-nil current scope it is preceded by the comparison against stackLimit whose failing side panics with a RangeError; every other store to runtime.scope pops (stores <scope>.outer)",
		Run: ruleStackGuard})
	register(&Rule{ID: "POLL-entry", Props: []string{"C18"}, Min: 2,
		Doc: "P: each evaluator entry function (the *runtime method whose body is the type switch over all compiled node types of a kind) tests Interrupt != nil in its entry block and on the non-nil side performs a non-blocking receive on the Interrupt channel and calls the received function, before the node is dispatched",
		Run: rulePollEntry})
	register(&Rule{ID: "POLL-loops", Props: []string{"C18"}, Min: 5,
		Doc: "P: in every function that evaluates compiled nodes, every feasible CFG cycle (assuming Interrupt != nil; a range loop over a slice tested non-empty runs at least once) passes through a call of an evaluator entry function or an inline interrupt poll - so a function sent on the channel runs before the script makes unbounded progress, including `for(;;);`",
		Run: rulePollLoops})
}

func (c *Ctx) rtMethod(name string) *ssa.Function {
	return c.SSAFunc(c.LookupFunc("", "runtime."+name))
}

// isDeferOf: ins is a Defer whose callee is target directly, or a closure that calls target exactly once.
func deferCalls(ins ssa.Instruction, target *ssa.Function) (bool, int) {
	d, ok := ins.(*ssa.Defer)
	if !ok {
		return false, 0
	}
	if d.Call.StaticCallee() == target {
		return true, 1
	}
	if cl := closureOf(&d.Call); cl != nil {
		n := callsTo(cl, target)
		return n > 0, n
	}
	return false, 0
}

func rulePairScope(c *Ctx, r *R) {
	leave := c.rtMethod("leaveScope")
	enters := map[*ssa.Function]bool{}
	for _, n := range []string{"enterScope", "enterGlobalScope", "enterFunctionScope"} {
		if f := c.rtMethod(n); f != nil {
			enters[f] = true
		} else {
			r.undecided("anchor:"+n, "-", "UNRESOLVED (*runtime)."+n)
		}
	}
	if leave == nil {
		r.undecided("anchor:leaveScope", "-", "UNRESOLVED (*runtime).leaveScope")
		return
	}
	deferredClosures := map[*ssa.Function]bool{}
	funcs := c.AllSrcFuncs("")
	for _, fn := range funcs {
		for _, b := range fn.Blocks {
			for _, ins := range b.Instrs {
				if d, ok := ins.(*ssa.Defer); ok {
					if cl := closureOf(&d.Call); cl != nil {
						deferredClosures[cl] = true
					}
				}
			}
		}
	}
	for _, fn := range funcs {
		if enters[fn] {
			continue // the wrappers themselves push through enterScope and return with the scope pushed
		}
		ord := 0
		for _, b := range fn.Blocks {
			for _, ins := range b.Instrs {
				call, ok := ins.(ssa.CallInstruction)
				if !ok {
					continue
				}
				callee := call.Common().StaticCallee()
				if enters[callee] {
					if _, isDefer := ins.(*ssa.Defer); isDefer {
						r.bad(fmt.Sprintf("enter:%s:deferred", ssaFuncName(fn)), c.Pos(ins.Pos()), "scope push inside a defer")
						continue
					}
					ord++
					key := fmt.Sprintf("enter:%s:%s", ssaFuncName(fn), callee.Name())
					var count int
					res := mustReachBefore(ins, func(i ssa.Instruction) bool {
						ok, n := deferCalls(i, leave)
						if ok {
							count = n
						}
						return ok
					}, mayPanic)
					switch {
					case !res.ok:
						r.bad(key, c.Pos(ins.Pos()), fmt.Sprintf("after the scope push in %s a path reaches %s at %s before `defer leaveScope` is registered: an exception/interrupt there leaves the scope on the runtime's call stack", ssaFuncName(fn), describeInstr(res.witness), c.Pos(instrPos(res.witness))))
					case count != 1:
						r.bad(key, c.Pos(ins.Pos()), fmt.Sprintf("the deferred function pops the scope %d times for one push", count))
					default:
						r.ok(key, c.Pos(ins.Pos()), "defer leaveScope registered before anything can panic")
					}
				}
				if callee == leave {
					key := fmt.Sprintf("leave:%s", ssaFuncName(fn))
					_, isDefer := ins.(*ssa.Defer)
					inDeferredClosure := deferredClosures[fn]
					if !isDefer && !inDeferredClosure {
						r.bad(key, c.Pos(ins.Pos()), "leaveScope is called outside a defer: an abnormal exit before this point skips it, a normal exit after a deferred pop pops twice")
						continue
					}
					// the defer must be dominated by a push in the same (parent) function
					host := fn
					var deferIns ssa.Instruction = ins
					if inDeferredClosure && !isDefer {
						host = fn.Parent()
						deferIns = nil
						for _, hb := range host.Blocks {
							for _, hi := range hb.Instrs {
								if d, ok := hi.(*ssa.Defer); ok && closureOf(&d.Call) == fn {
									deferIns = hi
								}
							}
						}
					}
					dominated := false
					if deferIns != nil {
						for _, hb := range host.Blocks {
							for _, hi := range hb.Instrs {
								if ci, ok := hi.(ssa.CallInstruction); ok && enters[ci.Common().StaticCallee()] && dominatesInstr(hi, deferIns) {
									dominated = true
								}
							}
						}
					}
					r.check(dominated, key, c.Pos(ins.Pos()), "deferred pop is dominated by a push in "+ssaFuncName(host), "deferred leaveScope is not dominated by a scope push in the same function: it can pop a scope it did not push")
				}
			}
		}
	}
}

func describeInstr(ins ssa.Instruction) string {
	switch x := ins.(type) {
	case nil:
		return "?"
	case *ssa.Return:
		return "a return"
	case *ssa.Panic:
		return "a panic"
	case ssa.CallInstruction:
		if f := x.Common().StaticCallee(); f != nil {
			return "the call of " + ssaFuncName(f)
		}
		return "a dynamic call (" + x.Common().Value.Name() + ")"
	case *ssa.TypeAssert:
		return "an unchecked type assertion"
	}
	return fmt.Sprintf("%T", ins)
}

func rulePairLabels(c *Ctx, r *R) {
	for _, fn := range c.AllSrcFuncs("") {
		for _, b := range fn.Blocks {
			for _, ins := range b.Instrs {
				st, ok := ins.(*ssa.Store)
				if !ok || !isFieldAddr(st.Addr, "runtime", "labels") {
					continue
				}
				site := c.Pos(st.Pos())
				key := "store:" + ssaFuncName(fn)
				switch v := st.Val.(type) {
				case *ssa.Const:
					r.check(v.Value == nil, key+":nil", site, "reset to nil", "constant non-nil store")
				case *ssa.Slice:
					r.ok(key+":reslice", site, "reslice (shrinks)")
				case *ssa.Call:
					if bi, ok := v.Call.Value.(*ssa.Builtin); ok && bi.Name() == "append" {
						if fn.Parent() != nil {
							r.bad(key+":grow", site, "labels grown inside a closure")
							continue
						}
						res := mustReachBefore(ins, func(i ssa.Instruction) bool {
							d, ok := i.(*ssa.Defer)
							if !ok {
								return false
							}
							cl := closureOf(&d.Call)
							if cl == nil {
								return false
							}
							for _, cb := range cl.Blocks {
								for _, ci := range cb.Instrs {
									if s2, ok := ci.(*ssa.Store); ok && isFieldAddr(s2.Addr, "runtime", "labels") {
										return true
									}
								}
							}
							return false
						}, mayPanic)
						r.check(res.ok, key+":grow", site, "push followed by a deferred pop before anything can panic",
							fmt.Sprintf("label pushed, but a path reaches %s at %s before the deferred pop is registered: an abnormal exit leaves a stale label that later break/continue statements match", describeInstr(res.witness), c.Pos(instrPos(res.witness))))
						continue
					}
					r.bad(key+":other", site, "labels assigned from a call result")
				default:
					r.bad(key+":other", site, fmt.Sprintf("store of %T to runtime.labels is neither nil, a reslice nor a guarded push", st.Val))
				}
			}
		}
	}
}

func rulePairLexical(c *Ctx, r *R) {
	for _, fn := range c.AllSrcFuncs("") {
		for _, b := range fn.Blocks {
			for _, ins := range b.Instrs {
				st, ok := ins.(*ssa.Store)
				if !ok || !isFieldAddr(st.Addr, "scope", "lexical") {
					continue
				}
				// construction of a fresh scope: the struct is allocated in this function
				if fa, ok := st.Addr.(*ssa.FieldAddr); ok {
					if _, fresh := fa.X.(*ssa.Alloc); fresh {
						continue
					}
				}
				site := c.Pos(st.Pos())
				if fn.Parent() != nil {
					// the restoring store inside the deferred closure: must store a captured variable
					_, isFree := storedFreeVar(st.Val)
					r.check(isFree, "restore:"+ssaFuncName(fn), site, "restores a value captured before the switch", "deferred closure stores something other than the saved environment")
					continue
				}
				if isLexicalRestore(st) {
					// putting back the environment saved earlier in this function: the end of the switch, not a new one
					r.ok("restore:"+ssaFuncName(fn), site, "stores back the environment this function saved from scope.lexical")
					continue
				}
				// ES5 12.14: the Finally block runs in the environment the try statement was entered with - the catch
				// environment is taken off (step 7 of Catch) before it. A restore that only happens in a deferred
				// closure runs after the finally block.
				if fin := finallyEvaluation(fn); fin != nil {
					cut := map[*ssa.BasicBlock]bool{}
					for _, b2 := range fn.Blocks {
						for _, i2 := range b2.Instrs {
							if s2, ok := i2.(*ssa.Store); ok && s2 != st && isFieldAddr(s2.Addr, "scope", "lexical") && isLexicalRestore(s2) {
								cut[b2] = true
							}
						}
					}
					reach := false
					seenB := map[*ssa.BasicBlock]bool{}
					var dfs func(b2 *ssa.BasicBlock)
					dfs = func(b2 *ssa.BasicBlock) {
						if seenB[b2] || reach {
							return
						}
						seenB[b2] = true
						if b2 == fin.Block() {
							reach = true
							return
						}
						if cut[b2] {
							return
						}
						for _, s2 := range b2.Succs {
							dfs(s2)
						}
					}
					// the rest of the block holding the switch itself
					restoredHere, after := false, false
					for _, i2 := range b.Instrs {
						if i2 == ins {
							after = true
							continue
						}
						if !after {
							continue
						}
						if s2, ok := i2.(*ssa.Store); ok && isFieldAddr(s2.Addr, "scope", "lexical") && isLexicalRestore(s2) {
							restoredHere = true
							break
						}
						if i2 == ssa.Instruction(fin) {
							reach = true
							break
						}
					}
					if !restoredHere && !reach {
						for _, s2 := range b.Succs {
							dfs(s2)
						}
					}
					r.check(!reach, "finally-env:"+ssaFuncName(fn), site, "every path from the catch environment switch to the evaluation of the finally block stores the saved environment back first",
						"the finally block is evaluated (at "+c.Pos(instrPos(fin))+") while the catch environment is still the LexicalEnvironment (it is only restored by the deferred closure, when the whole statement returns): `var e = 'outer'; try { throw 'inner' } catch (e) {} finally { seen = e }` sees 'inner', an assignment to the name in finally is lost, and closures created there capture the catch parameter (ES5 12.14)")
				}
				res := mustReachBefore(ins, func(i ssa.Instruction) bool {
					d, ok := i.(*ssa.Defer)
					if !ok {
						return false
					}
					cl := closureOf(&d.Call)
					if cl == nil {
						return false
					}
					for _, cb := range cl.Blocks {
						for _, ci := range cb.Instrs {
							if s2, ok := ci.(*ssa.Store); ok && isFieldAddr(s2.Addr, "scope", "lexical") {
								return true
							}
						}
					}
					return false
				}, mayPanic)
				r.check(res.ok, "switch:"+ssaFuncName(fn), site, "environment switch followed by a deferred restore before anything can panic",
					fmt.Sprintf("lexical environment replaced, but a path reaches %s at %s before a deferred restore is registered: an exception thrown from there and caught by an enclosing try leaves the with/catch environment on the scope chain", describeInstr(res.witness), c.Pos(instrPos(res.witness))))
			}
		}
	}
}

// isLexicalRestore: the store puts back a value this function loaded from scope.lexical (directly or through the
// local cell a deferred closure shares).
func isLexicalRestore(st *ssa.Store) bool {
	v := normCell(st.Val)
	if a := loadAddr(v); a != nil && isFieldAddr(a, "scope", "lexical") {
		return true
	}
	return false
}

// finallyEvaluation: the call that evaluates the `finally` field of a try node in fn (nil if none).
func finallyEvaluation(fn *ssa.Function) *ssa.Call {
	for _, b := range fn.Blocks {
		for _, ins := range b.Instrs {
			call, ok := ins.(*ssa.Call)
			if !ok {
				continue
			}
			for _, a := range call.Call.Args {
				if ld := loadAddr(a); ld != nil && isFieldAddr(ld, "nodeTryStatement", "finally") {
					return call
				}
			}
		}
	}
	return nil
}

func storedFreeVar(v ssa.Value) (*ssa.FreeVar, bool) {
	if a := loadAddr(v); a != nil {
		fv, ok := a.(*ssa.FreeVar)
		return fv, ok
	}
	fv, ok := v.(*ssa.FreeVar)
	return fv, ok
}

func rulePairLock(c *Ctx, r *R) {
	isMutexMethod := func(f *ssa.Function, name string) bool {
		return f != nil && f.Name() == name && f.Pkg != nil && f.Pkg.Pkg.Path() == "sync"
	}
	for _, fn := range c.AllSrcFuncs("", "parser", "ast", "file", "token", "registry") {
		for _, b := range fn.Blocks {
			for i, ins := range b.Instrs {
				call, ok := ins.(ssa.CallInstruction)
				if !ok {
					continue
				}
				callee := call.Common().StaticCallee()
				switch {
				case isMutexMethod(callee, "Lock") || isMutexMethod(callee, "RLock"):
					if _, isDefer := ins.(*ssa.Defer); isDefer {
						r.bad("lock:"+ssaFuncName(fn), c.Pos(ins.Pos()), "deferred Lock")
						continue
					}
					okNext := false
					j := i + 1
					for j < len(b.Instrs) {
						if _, isFA := b.Instrs[j].(*ssa.FieldAddr); !isFA {
							break
						}
						j++
					}
					if j < len(b.Instrs) {
						if d, ok := b.Instrs[j].(*ssa.Defer); ok && (isMutexMethod(d.Call.StaticCallee(), "Unlock") || isMutexMethod(d.Call.StaticCallee(), "RUnlock")) &&
							len(d.Call.Args) == 1 && len(call.Common().Args) == 1 && sameAddr(d.Call.Args[0], call.Common().Args[0]) {
							okNext = true
						}
					}
					r.check(okNext, "lock:"+ssaFuncName(fn), c.Pos(ins.Pos()), "Lock immediately followed by defer Unlock on the same mutex", "Lock is not immediately followed by `defer Unlock()` on the same mutex: a panic while cloning leaves the runtime locked forever")
				case isMutexMethod(callee, "Unlock") || isMutexMethod(callee, "RUnlock"):
					_, isDefer := ins.(*ssa.Defer)
					r.check(isDefer, "unlock:"+ssaFuncName(fn), c.Pos(ins.Pos()), "deferred", "Unlock outside a defer")
				}
			}
		}
	}
}

func ruleStackGuard(c *Ctx, r *R) {
	var pushFns []*ssa.Function
	for _, fn := range c.AllSrcFuncs("") {
		for _, b := range fn.Blocks {
			for _, ins := range b.Instrs {
				st, ok := ins.(*ssa.Store)
				if !ok || !isFieldAddr(st.Addr, "runtime", "scope") {
					continue
				}
				site := c.Pos(st.Pos())
				// pop: stored value is load(<x>.outer)
				if a := loadAddr(st.Val); a != nil && isFieldAddr(a, "scope", "outer") {
					r.ok("pop:"+ssaFuncName(fn), site, "stores <scope>.outer (pop)")
					continue
				}
				if fa, ok := st.Addr.(*ssa.FieldAddr); ok {
					if _, fresh := fa.X.(*ssa.Alloc); fresh {
						r.ok("init:"+ssaFuncName(fn), site, "initialises a freshly allocated runtime")
						continue
					}
				}
				pushFns = append(pushFns, fn)
				// push: must be guarded
				key := "push:" + ssaFuncName(fn)
				// find the If on stackLimit and the If on rt.scope != nil
				var limitBlocks []*ssa.BasicBlock
				var cmpBlock *ssa.BasicBlock
				var nilIf *ssa.If
				for _, bb := range fn.Blocks {
					iff, ok := bb.Instrs[len(bb.Instrs)-1].(*ssa.If)
					if !ok {
						continue
					}
					if condMentionsField(iff.Cond, "runtime", "stackLimit", 3) {
						limitBlocks = append(limitBlocks, bb)
						if condMentionsField(iff.Cond, "scope", "depth", 4) {
							cmpBlock = bb
						}
					}
					if bo, ok := iff.Cond.(*ssa.BinOp); ok && (bo.Op == token.NEQ || bo.Op == token.EQL) && isNilConst(bo.Y) {
						if a := loadAddr(bo.X); a != nil && isFieldAddr(a, "runtime", "scope") {
							nilIf = iff
						}
					}
				}
				if cmpBlock == nil || nilIf == nil {
					r.bad(key, site, "a store pushes onto runtime.scope in a function with no stack-depth test (comparison of scope.depth with runtime.stackLimit under scope != nil): recursion through this path is never limited")
					continue
				}
				// the failing side of the limit test panics via panicRangeError before reaching the store
				lb := cmpBlock
				panics := false
				for _, s := range lb.Succs {
					if blockPanicsWith(s, "panicRangeError") {
						panics = true
					}
				}
				r.check(panics, key+":panics", c.Pos(instrPos(lb.Instrs[len(lb.Instrs)-1])), "limit exceeded => panic(RangeError)", "the failing side of the stack-limit comparison does not panic with a RangeError")
				// from the non-nil successor of nilIf, the store is unreachable without passing a limit block
				bo := nilIf.Cond.(*ssa.BinOp)
				nonNil := nilIf.Block().Succs[0]
				if bo.Op == token.EQL {
					nonNil = nilIf.Block().Succs[1]
				}
				cut := map[*ssa.BasicBlock]bool{cmpBlock: true}
				// the "limit disabled" edge (stackLimit compared with the constant 0) is exempt: cut those blocks' zero side by cutting the block and re-adding its other successor
				for _, l := range limitBlocks {
					if l == cmpBlock {
						continue
					}
					iff := l.Instrs[len(l.Instrs)-1].(*ssa.If)
					if bo, ok := iff.Cond.(*ssa.BinOp); ok {
						if n, isC := constInt(bo.Y); isC && n == 0 {
							cut[l] = true // both sides handled: enabled side must reach cmpBlock (checked by dominance below), disabled side is exempt
							enabled := l.Succs[0]
							if bo.Op == token.EQL {
								enabled = l.Succs[1]
							}
							if !(enabled == cmpBlock) {
								r.bad(key+":enabled-side", c.Pos(instrPos(iff)), "with a non-zero stackLimit the depth comparison is not the next step")
							}
						}
					}
				}
				reach := reachableAvoiding(nonNil, cut)
				r.check(!reach[st.Block()], key+":order", site, "depth test precedes the push on every non-nil path", "the push is reachable with a non-nil current scope without passing the stack-depth comparison")
				// the depth of the new scope is set from the old one before the push
				depthSet := false
				for _, bb := range fn.Blocks {
					for _, i2 := range bb.Instrs {
						if s2, ok := i2.(*ssa.Store); ok && isFieldAddr(s2.Addr, "scope", "depth") && dominatesOrSameBefore(i2, st) == false {
							_ = s2
						}
						if s2, ok := i2.(*ssa.Store); ok && isFieldAddr(s2.Addr, "scope", "depth") {
							depthSet = true
						}
					}
				}
				r.check(depthSet, key+":depth", site, "new scope's depth is derived from the current one", "the pushed scope's depth is never set: every frame has depth 0 and the limit never triggers")
				outerSet := false
				for _, bb := range fn.Blocks {
					for _, i2 := range bb.Instrs {
						if s2, ok := i2.(*ssa.Store); ok && isFieldAddr(s2.Addr, "scope", "outer") && dominatesInstr(i2, st) {
							outerSet = true
						}
					}
				}
				r.check(outerSet, key+":outer", site, "outer link set before the push", "the pushed scope's outer link is not set before the push: leaveScope would drop the whole stack")
			}
		}
	}
	r.check(len(pushFns) == 1, "single-push-site", "runtime.go", fmt.Sprintf("%d push site", len(pushFns)), fmt.Sprintf("%d functions push onto runtime.scope; only one guarded function may", len(pushFns)))
}

func dominatesOrSameBefore(a, b ssa.Instruction) bool { return dominatesInstr(a, b) }

func reachableAvoiding(from *ssa.BasicBlock, cut map[*ssa.BasicBlock]bool) map[*ssa.BasicBlock]bool {
	seen := map[*ssa.BasicBlock]bool{}
	var dfs func(b *ssa.BasicBlock)
	dfs = func(b *ssa.BasicBlock) {
		if seen[b] {
			return
		}
		seen[b] = true // a cut block is reached (its instructions before the terminator execute) but not passed through
		if cut[b] {
			return
		}
		for _, s := range b.Succs {
			dfs(s)
		}
	}
	dfs(from)
	return seen
}

// condMentionsField: the value's operand tree (to depth) contains a load of the named field.
func condMentionsField(v ssa.Value, typeName, field string, depth int) bool {
	if depth < 0 || v == nil {
		return false
	}
	if a := loadAddr(v); a != nil && isFieldAddr(a, typeName, field) {
		return true
	}
	ins, ok := v.(ssa.Instruction)
	if !ok {
		return false
	}
	for _, op := range ins.Operands(nil) {
		if *op != nil && condMentionsField(*op, typeName, field, depth-1) {
			return true
		}
	}
	return false
}

// blockPanicsWith: the block (straight-line) ends in a panic whose operand comes from a call of a function named helper.
func blockPanicsWith(b *ssa.BasicBlock, helper string) bool {
	hasCall := false
	for _, ins := range b.Instrs {
		if call, ok := ins.(*ssa.Call); ok {
			if f := call.Call.StaticCallee(); f != nil && f.Name() == helper {
				hasCall = true
			}
		}
		if _, ok := ins.(*ssa.Panic); ok {
			return hasCall
		}
	}
	return false
}

// ---------------------------------------------------------------------------------------------
// POLL

// evaluatorEntries: the *runtime methods containing the type switch over nodeExpression / nodeStatement with the most cases.
func evaluatorEntries(c *Ctx) []*ssa.Function {
	en, _, sn, _ := ottoNodeIfaces(c)
	var out []*ssa.Function
	for _, named := range []*types.Named{en, sn} {
		var best *tswitch
		for _, sw := range c.typeSwitches("") {
			if sw.tagType != nil && named != nil && types.Identical(sw.tagType, named) && sw.fn.Recv != nil {
				if best == nil || len(sw.cases) > len(best.cases) {
					best = sw
				}
			}
		}
		if best != nil {
			if obj, ok := c.Otto().TypesInfo.Defs[best.fn.Name].(*types.Func); ok {
				out = append(out, c.SSAFunc(obj))
			}
		}
	}
	return out
}

// pollInBlock: the block performs a receive (Select or blocking-free UnOp ARROW) on a channel loaded from field Interrupt.
func selectsOnInterrupt(b *ssa.BasicBlock) *ssa.Select {
	for _, ins := range b.Instrs {
		if sel, ok := ins.(*ssa.Select); ok && !sel.Blocking {
			for _, st := range sel.States {
				if a := loadAddr(st.Chan); a != nil && isFieldAddr(a, "Otto", "Interrupt") && st.Dir == types.RecvOnly {
					return sel
				}
			}
		}
	}
	return nil
}

// pollComplete: after the select, on the received branch, the received value is called.
func pollCallsReceived(fn *ssa.Function, sel *ssa.Select) bool {
	for _, b := range fn.Blocks {
		for _, ins := range b.Instrs {
			call, ok := ins.(*ssa.Call)
			if !ok {
				continue
			}
			if ex, ok := call.Call.Value.(*ssa.Extract); ok && ex.Tuple == ssa.Value(sel) && ex.Index >= 2 {
				return true
			}
			// the received function handed to a wrapper that calls it unconditionally (in its entry block)
			if callee := call.Call.StaticCallee(); callee != nil && len(callee.Blocks) > 0 {
				for i, a := range call.Call.Args {
					ex, ok := a.(*ssa.Extract)
					if !ok || ex.Tuple != ssa.Value(sel) || ex.Index < 2 || i >= len(callee.Params) {
						continue
					}
					for _, ins2 := range callee.Blocks[0].Instrs {
						if c2, ok := ins2.(*ssa.Call); ok && c2.Call.Value == ssa.Value(callee.Params[i]) {
							return true
						}
					}
				}
			}
		}
	}
	return false
}

func isInterruptNilTest(iff *ssa.If) (nonNilSucc int, ok bool) {
	bo, isBo := iff.Cond.(*ssa.BinOp)
	if !isBo || !isNilConst(bo.Y) {
		return 0, false
	}
	a := loadAddr(bo.X)
	if a == nil || !isFieldAddr(a, "Otto", "Interrupt") {
		return 0, false
	}
	switch bo.Op {
	case token.NEQ:
		return 0, true
	case token.EQL:
		return 1, true
	}
	return 0, false
}

// entryPolls: fn polls the Interrupt channel before doing anything else: either inline (entry block ends in the
// Interrupt != nil test whose non-nil side does a non-blocking receive on Otto.Interrupt and calls the received
// function) or by calling, first thing, a helper that has exactly that shape.
func entryPolls(fn *ssa.Function, depth int) (bool, string) {
	if fn == nil || len(fn.Blocks) == 0 {
		return false, "no body"
	}
	b0 := fn.Blocks[0]
	for _, ins := range b0.Instrs {
		switch x := ins.(type) {
		case *ssa.Call:
			if callee := x.Call.StaticCallee(); callee != nil && depth == 0 && callee.Parent() == nil {
				if ok, _ := entryPolls(callee, 1); ok {
					return true, "calls the poll helper " + ssaFuncName(callee) + " first"
				}
			}
			return false, "work (a call) happens before the Interrupt channel is polled"
		case *ssa.TypeAssert:
			return false, "the node is dispatched before the Interrupt channel is polled"
		case *ssa.If:
			nn, ok := isInterruptNilTest(x)
			if !ok {
				return false, "the first branch is not the nil test of otto.Interrupt (the poll is conditional on something else, or reads another field)"
			}
			var sel *ssa.Select
			b := b0.Succs[nn]
			for steps := 0; steps < 4 && b != nil && sel == nil; steps++ {
				sel = selectsOnInterrupt(b)
				if sel == nil {
					if len(b.Succs) == 1 {
						b = b.Succs[0]
					} else {
						b = nil
					}
				}
			}
			if sel == nil {
				return false, "with a non-nil Interrupt channel no non-blocking receive on otto.Interrupt follows"
			}
			if !pollCallsReceived(fn, sel) {
				return false, "the function received from the Interrupt channel is not called"
			}
			return true, "Interrupt != nil => non-blocking receive => call of the received function"
		case *ssa.Return, *ssa.Jump, *ssa.Panic:
			return false, "no poll"
		}
	}
	return false, "no poll"
}

func rulePollEntry(c *Ctx, r *R) {
	entries := evaluatorEntries(c)
	if len(entries) != 2 {
		r.undecided("entries", "-", fmt.Sprintf("UNRESOLVED: found %d evaluator entry functions, expected 2", len(entries)))
	}
	for _, fn := range entries {
		if fn == nil || len(fn.Blocks) == 0 {
			continue
		}
		ok, why := entryPolls(fn, 0)
		r.check(ok, "entry:"+ssaFuncName(fn), c.Pos(fn.Pos()), why+", before dispatch", "evaluator entry does not poll for an interrupt before dispatching the node: "+why)
	}
}

func rulePollLoops(c *Ctx, r *R) {
	entries := map[*ssa.Function]bool{}
	for _, e := range evaluatorEntries(c) {
		entries[e] = true
	}
	if len(entries) != 2 {
		r.undecided("entries", "-", "UNRESOLVED evaluator entry functions")
		return
	}
	_, ei, _, si := ottoNodeIfaces(c)
	isNodeType := func(t types.Type) bool {
		if sl, ok := t.(*types.Slice); ok {
			t = sl.Elem()
		}
		if types.Implements(t, ei) || types.Implements(t, si) {
			return true
		}
		if n := derefNamed(t); n != nil && (n.Obj().Name() == "nodeProgram" || n.Obj().Name() == "nodeFunctionLiteral") {
			return true
		}
		return false
	}
	// callees that poll on every path: entry functions, and functions that call an entry function in their entry block... keep to direct: entry functions and cmplEvaluateNodeStatementList-like wrappers are handled through their own loops.
	for _, fn := range c.AllSrcFuncs("") {
		if fn.Signature.Recv() == nil || !typeIs(fn.Signature.Recv().Type(), ottoPath, "runtime") {
			continue
		}
		takesNode := false
		for _, p := range fn.Params {
			if isNodeType(p.Type()) {
				takesNode = true
			}
		}
		if !takesNode || isCompilerFunc(fn) {
			continue
		}
		// loop headers: targets of back edges
		headers := map[*ssa.BasicBlock]bool{}
		for _, b := range fn.Blocks {
			for _, s := range b.Succs {
				if s.Dominates(b) {
					headers[s] = true
				}
			}
		}
		if len(headers) == 0 {
			continue
		}
		cut := map[*ssa.BasicBlock]bool{}
		for _, b := range fn.Blocks {
			for _, ins := range b.Instrs {
				if call, ok := ins.(*ssa.Call); ok {
					callee := call.Call.StaticCallee()
					if entries[callee] {
						cut[b] = true
					} else if callee != nil && callee.Parent() == nil && callee.Pkg == fn.Pkg {
						if ok, _ := entryPolls(callee, 1); ok {
							cut[b] = true
						}
					}
				}
			}
			if sel := selectsOnInterrupt(b); sel != nil && pollCallsReceived(fn, sel) {
				cut[b] = true
			}
		}
		for h := range headers {
			key := fmt.Sprintf("loop:%s:%s", ssaFuncName(fn), loopDesc(h))
			site := c.Pos(instrPos(h.Instrs[0]))
			if isRangeHeader(h) && !rangeOverScriptSized(h) {
				// a range loop over a compile-time-sized collection (node lists): bounded by program size,
				// but it still participates in outer cycles (handled by the path search from outer headers).
			}
			if prototypeWalk(fn, h) {
				r.ok(key, site, "prototype-chain walk: bounded by the (finite, acyclic) prototype chain")
				continue
			}
			if path := pollFreeCycle(fn, h, cut); path != nil {
				var desc []string
				for _, pb := range path {
					desc = append(desc, fmt.Sprintf("%d(%s)", pb.Index, pb.Comment))
				}
				if isRangeHeader(h) {
					// the range loop itself is bounded; only report if it is not nested in a reported outer cycle
					r.ok(key, site, "bounded range loop over a node list (its own iterations are bounded by program size)")
					continue
				}
				if why, ok := boundedCounterLoop(h, loopBody(h)); ok {
					// the same loop written with a counter (`for i := k; i < len(x); i++`)
					r.ok(key, site, "bounded counter loop: "+why)
					continue
				}
				r.bad(key, site, fmt.Sprintf("a feasible cycle returns to this loop head without passing a call of an evaluator entry function or an interrupt poll: blocks %s. A script spinning on this path (e.g. an empty-bodied loop) can never be interrupted", strings.Join(desc, " -> ")))
			} else {
				r.ok(key, site, "every feasible cycle through this loop head polls the Interrupt channel")
			}
		}
	}
}

func loopDesc(h *ssa.BasicBlock) string {
	if h.Comment != "" {
		return h.Comment
	}
	return "loop"
}

func isRangeHeader(b *ssa.BasicBlock) bool {
	// go/ssa labels the blocks of range loops; `for range n` is rotated so its back edge targets the body block
	return strings.HasPrefix(b.Comment, "rangeindex.loop") || strings.HasPrefix(b.Comment, "rangeiter.loop") || strings.HasPrefix(b.Comment, "rangeint.loop") || strings.HasPrefix(b.Comment, "rangeint.body")
}

func rangeOverScriptSized(b *ssa.BasicBlock) bool { return false }

// rangeLenOperand: for a rangeindex.loop header, the slice whose length bounds the loop.
func rangeLenOperand(h *ssa.BasicBlock) ssa.Value {
	iff, ok := h.Instrs[len(h.Instrs)-1].(*ssa.If)
	if !ok {
		return nil
	}
	bo, ok := iff.Cond.(*ssa.BinOp)
	if !ok || bo.Op != token.LSS {
		return nil
	}
	if call, ok := bo.Y.(*ssa.Call); ok {
		if bi, ok := call.Call.Value.(*ssa.Builtin); ok && bi.Name() == "len" && len(call.Call.Args) == 1 {
			return call.Call.Args[0]
		}
	}
	return nil
}

// lenZeroTest: iff tests len(S) == 0 (or != 0); returns S and the successor index on which S is non-empty.
func lenZeroTest(iff *ssa.If) (ssa.Value, int, bool) {
	bo, ok := iff.Cond.(*ssa.BinOp)
	if !ok {
		return nil, 0, false
	}
	n, isC := constInt(bo.Y)
	if !isC || n != 0 {
		return nil, 0, false
	}
	call, ok := bo.X.(*ssa.Call)
	if !ok {
		return nil, 0, false
	}
	bi, ok := call.Call.Value.(*ssa.Builtin)
	if !ok || bi.Name() != "len" {
		return nil, 0, false
	}
	switch bo.Op {
	case token.EQL:
		return call.Call.Args[0], 1, true
	case token.NEQ, token.GTR:
		return call.Call.Args[0], 0, true
	}
	return nil, 0, false
}

// pollFreeCycle searches a feasible path from header h back to h that avoids cut blocks.
// Feasibility: (1) the Interrupt == nil side of a nil test is infeasible (property is stated under a configured channel);
// (2) after `len(S) == 0` was observed false, the zero-iteration exit of a range loop over S entered from outside is infeasible.
func pollFreeCycle(fn *ssa.Function, h *ssa.BasicBlock, cut map[*ssa.BasicBlock]bool) []*ssa.BasicBlock {
	type state struct {
		b        *ssa.BasicBlock
		from     *ssa.BasicBlock
		nonEmpty string
	}
	if cut[h] {
		return nil
	}
	seen := map[string]bool{}
	var path []*ssa.BasicBlock
	var dfs func(b, from *ssa.BasicBlock, nonEmpty map[ssa.Value]bool) bool
	keyOf := func(b, from *ssa.BasicBlock, ne map[ssa.Value]bool) string {
		k := fmt.Sprintf("%d/", b.Index)
		if isRangeHeader(b) && from != nil {
			k += fmt.Sprintf("f%d/", from.Index)
		}
		for v := range ne {
			k += v.Name() + ","
		}
		return k
	}
	dfs = func(b, from *ssa.BasicBlock, nonEmpty map[ssa.Value]bool) bool {
		if b == h && from != nil {
			return true
		}
		if cut[b] {
			return false
		}
		k := keyOf(b, from, nonEmpty)
		if seen[k] {
			return false
		}
		seen[k] = true
		path = append(path, b)
		last := b.Instrs[len(b.Instrs)-1]
		feasible := make([]bool, len(b.Succs))
		for i := range feasible {
			feasible[i] = true
		}
		ne := nonEmpty
		var neBySucc []map[ssa.Value]bool
		if iff, ok := last.(*ssa.If); ok {
			if nn, ok := isInterruptNilTest(iff); ok {
				feasible[1-nn] = false
			}
			if s, idx, ok := lenZeroTest(iff); ok {
				neBySucc = make([]map[ssa.Value]bool, 2)
				m := map[ssa.Value]bool{}
				for v := range ne {
					m[v] = true
				}
				m[s] = true
				neBySucc[idx] = m
			}
			if isRangeHeader(b) && from != nil && !b.Dominates(from) {
				// entered from outside the loop: first test; zero iterations infeasible if the slice is known non-empty
				if s := rangeLenOperand(b); s != nil && ne[s] {
					feasible[1] = false
				}
			}
		}
		for i, s := range b.Succs {
			if !feasible[i] {
				continue
			}
			next := ne
			if neBySucc != nil && neBySucc[i] != nil {
				next = neBySucc[i]
			}
			if dfs(s, b, next) {
				return true
			}
		}
		path = path[:len(path)-1]
		return false
	}
	_ = state{}
	if dfs(h, nil, map[ssa.Value]bool{}) {
		return append([]*ssa.BasicBlock(nil), path...)
	}
	return nil
}

func sameAddr(a, b ssa.Value) bool {
	if a == b {
		return true
	}
	fa, ok1 := a.(*ssa.FieldAddr)
	fb, ok2 := b.(*ssa.FieldAddr)
	return ok1 && ok2 && fa.Field == fb.Field && sameAddr(fa.X, fb.X)
}

// prototypeWalk: the loop at header h is `for x != nil { ...; x = x.prototype }` over a variable that is otherwise only
// set to nil inside the loop (also from closures): bounded by the prototype chain, which is finite and acyclic because
// object.prototype is only ever stored on freshly created objects (rule PROTO-acyclic).
func prototypeWalk(fn *ssa.Function, h *ssa.BasicBlock) bool {
	iff, ok := h.Instrs[len(h.Instrs)-1].(*ssa.If)
	if !ok {
		return false
	}
	bo, ok := iff.Cond.(*ssa.BinOp)
	if !ok || bo.Op != token.NEQ || !isNilConst(bo.Y) {
		return false
	}
	addr := loadAddr(bo.X)
	alloc, ok := addr.(*ssa.Alloc)
	if !ok {
		return false
	}
	advances := false
	for _, b := range fn.Blocks {
		if !h.Dominates(b) {
			continue
		}
		for _, ins := range b.Instrs {
			st, ok := ins.(*ssa.Store)
			if !ok || st.Addr != ssa.Value(alloc) {
				continue
			}
			if isNilConst(st.Val) {
				continue
			}
			if a := loadAddr(st.Val); a != nil && isFieldAddr(a, "object", "prototype") {
				advances = true
				continue
			}
			return false
		}
	}
	// stores through captured references inside closures must be nil
	for _, an := range fn.AnonFuncs {
		for i, fv := range an.FreeVars {
			_ = i
			// match free var to alloc via MakeClosure bindings
			bound := false
			for _, b := range fn.Blocks {
				for _, ins := range b.Instrs {
					if mc, ok := ins.(*ssa.MakeClosure); ok && mc.Fn == ssa.Value(an) {
						for j, bv := range mc.Bindings {
							if bv == ssa.Value(alloc) && an.FreeVars[j] == fv {
								bound = true
							}
						}
					}
				}
			}
			if !bound {
				continue
			}
			for _, b := range an.Blocks {
				for _, ins := range b.Instrs {
					if st, ok := ins.(*ssa.Store); ok && st.Addr == ssa.Value(fv) && !isNilConst(st.Val) {
						return false
					}
				}
			}
		}
	}
	return advances
}
