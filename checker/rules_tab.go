package main

import (
	"fmt"
	"go/ast"
	"go/constant"
	"go/token"
	"go/types"
	"sort"
	"strings"

	"golang.org/x/tools/go/ssa"
)

func init() {
	register(&Rule{ID: "REPR-value", Props: []string{"C02", "C05", "C15"}, Min: 40,
		Doc: "T: for each kind, the set of Go payload types any construction site can put into Value.value (composite literals, the typed xxxValue helpers, toValue including its reflect path, field stores) is a subset of the types handled by every total reader of that kind (the Value methods that type-switch on the payload and end in a panic: ToNumber, ToString, ToBoolean); and each construction pairs the kind with a payload type legal for it",
		Run: ruleReprValue})
	register(&Rule{ID: "TAB-small", Props: []string{"C01", "C02"}, Min: 6,
		Doc: "T: small writer/reader tables - the property kinds the parser writes into ast.Property.Kind and the branch tokens it writes into BranchStatement.Token are all handled by the evaluator switches that read them; only two types implement ast.Declaration and both are handled wherever a declaration list is compiled",
		Run: ruleTabSmall})
	register(&Rule{ID: "PROP-PAYLOAD", Props: []string{"C07", "C02"}, Min: 12,
		Doc: "T: the static type of every value stored into property.value (literals and field stores) is Value or propertyGetSet - the two cases every reader of a property handles",
		Run: rulePropPayload})
	register(&Rule{ID: "KIND-order", Props: []string{"C05"}, Min: 4,
		Doc: "S: ordered comparisons on valueKind are evaluated over the declared constants: `<= valueNull` selects exactly {undefined,null}, `<= valueString` exactly {undefined,null,number,string}; the six ES5 kinds precede the three internal ones",
		Run: ruleKindOrder})
	register(&Rule{ID: "EXH-errname", Props: []string{"C19"}, Min: 10,
		Doc: "T: every constant error name passed to newError / newErrorObject / runtime.newError is one of the seven ES5 native error names, and each of those names has an arm in every switch that maps a name to a constructor/prototype",
		Run: ruleExhErrName})
	register(&Rule{ID: "EXH-payload", Props: []string{"C02", "C18", "C19"}, Min: 5,
		Doc: "T: every JS-catchable payload type that the code can panic with (*exception ejecting to ottoError or Value, *Error) has a case in each recover site that converts panics (catchPanic, tryCatchEvaluate); and recover sites re-panic what they do not understand",
		Run: ruleExhPayload})
	register(&Rule{ID: "EXH-objclass", Props: []string{"C07", "C02"}, Min: 8,
		Doc: "T: every objectClass table fills all mandatory slots with a non-nil function (a nil slot is a nil-func call the first time a script touches such an object)",
		Run: ruleExhObjClass})
}

func typeStr(t types.Type) string { return types.TypeString(t, relQual) }

// kindOfLit returns the kind constant name and the payload expression of a Value composite literal.
func valueLitParts(info *types.Info, cl *ast.CompositeLit) (kind string, payload ast.Expr, ok bool) {
	if nt := derefNamed(info.TypeOf(cl)); nt == nil || nt.Obj().Name() != "Value" || nt.Obj().Pkg().Path() != ottoPath {
		return "", nil, false
	}
	kind = "valueUndefined"
	for _, el := range cl.Elts {
		kv, isKV := el.(*ast.KeyValueExpr)
		if !isKV {
			return "", nil, false
		}
		switch kv.Key.(*ast.Ident).Name {
		case "kind":
			if id, isID := unparen(kv.Value).(*ast.Ident); isID {
				if cobj, isC := info.Uses[id].(*types.Const); isC {
					kind = cobj.Name()
				} else {
					kind = "?"
				}
			} else {
				kind = "?"
			}
		case "value":
			payload = kv.Value
		}
	}
	return kind, payload, true
}

var legalPayload = map[string]func(t types.Type) bool{
	"valueUndefined": func(t types.Type) bool { return false },
	"valueNull":      func(t types.Type) bool { return false },
	"valueEmpty":     func(t types.Type) bool { return false },
	"valueNumber": func(t types.Type) bool {
		b, ok := t.(*types.Basic) // unnamed basic numeric types only: readers switch on exact dynamic type
		return ok && b.Info()&types.IsNumeric != 0 && b.Info()&types.IsComplex == 0
	},
	"valueString": func(t types.Type) bool {
		if b, ok := t.(*types.Basic); ok {
			return b.Kind() == types.String
		}
		if sl, ok := t.(*types.Slice); ok {
			b, ok := sl.Elem().(*types.Basic)
			return ok && b.Kind() == types.Uint16
		}
		return false
	},
	"valueBoolean": func(t types.Type) bool { b, ok := t.(*types.Basic); return ok && b.Kind() == types.Bool },
	"valueObject":  func(t types.Type) bool { return typeStr(t) == "*object" },
	"valueReference": func(t types.Type) bool {
		return typeStr(t) == "referencer" || strings.HasSuffix(typeStr(t), "Reference")
	},
	"valueResult": func(t types.Type) bool { return typeStr(t) == "result" },
}

func ruleReprValue(c *Ctx, r *R) {
	p := c.Otto()
	info := p.TypesInfo
	producers := map[string]map[string]token.Pos{} // kind -> payload type -> first site
	add := func(kind string, t types.Type, pos token.Pos) {
		if producers[kind] == nil {
			producers[kind] = map[string]token.Pos{}
		}
		if _, ok := producers[kind][typeStr(t)]; !ok {
			producers[kind][typeStr(t)] = pos
		}
	}
	nLits := 0
	for _, f := range p.Syntax {
		ast.Inspect(f, func(n ast.Node) bool {
			cl, ok := n.(*ast.CompositeLit)
			if !ok {
				return true
			}
			kind, payload, ok := valueLitParts(info, cl)
			if !ok {
				return true
			}
			nLits++
			site := c.Pos(cl.Pos())
			fd := c.EnclosingFuncDecl(cl)
			if kind == "?" {
				r.undecided("lit-kind:"+declName(fd), site, "Value literal with a non-constant kind")
				return true
			}
			if payload == nil {
				if kind != "valueUndefined" && kind != "valueNull" && kind != "valueEmpty" {
					r.bad("lit:"+declName(fd)+":"+kind+":nil", site, "Value literal of kind "+kind+" has no payload")
				}
				return true
			}
			tv := info.Types[payload]
			t := tv.Type
			if t == nil {
				return true
			}
			// an untyped nil / interface-typed payload: look through a parameter of the typed helpers
			if _, isIface := t.Underlying().(*types.Interface); isIface && typeStr(t) != "referencer" {
				r.undecided("lit:"+declName(fd)+":"+kind+":"+typeStr(t), site, "payload has interface type "+typeStr(t)+": its dynamic type is not visible here")
				return true
			}
			add(kind, t, cl.Pos())
			legal := legalPayload[kind]
			if inl := c.FileOf(cl.Pos()); inl == "inline.go" && legal != nil && legal(t) {
				return true // thousands of generated literals: counted, reported only when wrong
			}
			r.check(legal != nil && legal(t), "lit:"+declName(fd)+":"+kind+":"+typeStr(t), site, "payload type legal for the kind",
				fmt.Sprintf("Value{kind: %s} is built with a payload of type %s; readers that test the kind then assert/switch on the payload would panic or mis-convert", kind, typeStr(t)))
			return true
		})
	}
	// stores to the value field of a Value outside literals
	for _, fn := range c.AllSrcFuncs("") {
		for _, b := range fn.Blocks {
			for _, ins := range b.Instrs {
				st, ok := ins.(*ssa.Store)
				if !ok || !isFieldAddr(st.Addr, "Value", "value") {
					continue
				}
				fa := st.Addr.(*ssa.FieldAddr)
				if al, ok := fa.X.(*ssa.Alloc); ok && al.Comment == "complit" {
					continue // literal, handled above
				}
				if isPkgInit(fn) {
					continue // initialiser literal of a package-level variable, handled above
				}
				site := c.Pos(instrPos(ins))
				if mi, ok := st.Val.(*ssa.MakeInterface); ok {
					// kind unknown statically here: the only such stores re-point an object payload (cloner.value)
					r.check(typeStr(mi.X.Type()) == "*object", "store:"+ssaFuncName(fn)+":"+typeStr(mi.X.Type()), site, "replaces an object payload by an object payload",
						"Value.value is overwritten with a "+typeStr(mi.X.Type())+" without touching the kind")
				} else {
					r.undecided("store:"+ssaFuncName(fn), site, "Value.value overwritten with an interface value of unknown dynamic type")
				}
			}
		}
	}
	// readers: methods on Value with a type switch over <recv>.value that end in panic
	type reader struct {
		fd    *ast.FuncDecl
		cases map[string]bool
		total bool
	}
	var readers []reader
	byFn := map[*ast.FuncDecl]*reader{}
	for _, sw := range c.typeSwitches("") {
		if sw.fn.Recv == nil || len(sw.fn.Recv.List) != 1 || !typeIs(info.TypeOf(sw.fn.Recv.List[0].Type), ottoPath, "Value") {
			continue
		}
		sel, ok := unparen(sw.tagExpr).(*ast.SelectorExpr)
		if !ok || sel.Sel.Name != "value" {
			continue
		}
		if !endsInPanic(info, sw.fn.Body.List) {
			continue
		}
		// a total reader: one of its type switches on the payload is a top-level statement of the body
		top := false
		for _, s := range sw.fn.Body.List {
			if s == ast.Stmt(sw.stmt) {
				top = true
			}
		}
		rd := byFn[sw.fn]
		if rd == nil {
			rd = &reader{fd: sw.fn, cases: map[string]bool{}}
			byFn[sw.fn] = rd
		}
		if top {
			rd.total = true
		}
		for _, tc := range sw.cases {
			for _, t := range tc.types {
				rd.cases[typeStr(t)] = true
			}
		}
	}
	for _, rd := range byFn {
		if rd.total {
			readers = append(readers, *rd)
		}
	}
	sort.Slice(readers, func(i, j int) bool { return readers[i].fd.Name.Name < readers[j].fd.Name.Name })
	if len(readers) < 3 {
		r.undecided("readers", "-", fmt.Sprintf("found %d total readers of Value payloads (expected ToNumber, ToString, ToBoolean)", len(readers)))
	}
	for _, rd := range readers {
		for _, kind := range []string{"valueNumber", "valueString", "valueBoolean"} {
			for _, tn := range sortedKeysPos(producers[kind]) {
				key := fmt.Sprintf("reader:%s:%s:%s", declName(rd.fd), kind, tn)
				r.check(rd.cases[tn], key, c.Pos(producers[kind][tn]), "handled",
					fmt.Sprintf("a %s Value can carry a %s payload (constructed here), but %s has no case for %s and ends in a Go panic: converting such a value crashes the host", strings.TrimPrefix(kind, "value"), tn, declName(rd.fd), tn))
			}
		}
	}
	r.note("value_literals", nLits)
}

func sortedKeysPos(m map[string]token.Pos) []string {
	var ks []string
	for k := range m {
		ks = append(ks, k)
	}
	sort.Strings(ks)
	return ks
}

func ruleTabSmall(c *Ctx, r *R) {
	pp := c.Pkg("parser")
	pinfo := pp.TypesInfo
	// writer: Property.Kind constants, BranchStatement.Token constants
	kinds := map[string]token.Pos{}
	branches := map[string]token.Pos{}
	t := newTokInfo(c, "parser")
	for _, f := range pp.Syntax {
		ast.Inspect(f, func(n ast.Node) bool {
			cl, ok := n.(*ast.CompositeLit)
			if !ok {
				return true
			}
			nt := derefNamed(pinfo.TypeOf(cl))
			if nt == nil || nt.Obj().Pkg().Path() != ottoPath+"/ast" {
				return true
			}
			switch nt.Obj().Name() {
			case "Property":
				if k := litField(cl, "Kind"); k != nil {
					if tv := pinfo.Types[k]; tv.Value != nil {
						kinds[constant.StringVal(tv.Value)] = cl.Pos()
					} else if id, ok := unparen(k).(*ast.Ident); ok {
						// a local assigned constants
						obj := pinfo.Uses[id]
						fd := c.EnclosingFuncDecl(cl)
						found := false
						ast.Inspect(fd.Body, func(x ast.Node) bool {
							if as, ok := x.(*ast.AssignStmt); ok {
								for i, l := range as.Lhs {
									if lid, ok := l.(*ast.Ident); ok && (pinfo.Defs[lid] == obj || pinfo.Uses[lid] == obj) && i < len(as.Rhs) {
										if tv := pinfo.Types[as.Rhs[i]]; tv.Value != nil && tv.Value.Kind() == constant.String {
											kinds[constant.StringVal(tv.Value)] = as.Pos()
											found = true
										} else if isLiteralField(as.Rhs[i]) {
											// kind taken from the scanned identifier text under a guard `literal == "get" || "set"`: collect compared constants
											found = collectComparedStrings(pinfo, fd, as.Rhs[i], kinds)
										}
									}
								}
							}
							return true
						})
						if !found {
							// a parameter of a helper: what the callers pass (constants, or a value they compared with constants)
							if fobj, ok := pinfo.Defs[fd.Name].(*types.Func); ok {
								pidx := -1
								k := 0
								for _, fl := range fd.Type.Params.List {
									for _, nm := range fl.Names {
										if pinfo.Defs[nm] == obj {
											pidx = k
										}
										k++
									}
								}
								if pidx >= 0 {
									calls := 0
									allOK := true
									for _, f2 := range pp.Syntax {
										ast.Inspect(f2, func(x ast.Node) bool {
											ce, ok := x.(*ast.CallExpr)
											if !ok || pidx >= len(ce.Args) {
												return true
											}
											var callee types.Object
											switch fx := unparen(ce.Fun).(type) {
											case *ast.Ident:
												callee = pinfo.Uses[fx]
											case *ast.SelectorExpr:
												callee = pinfo.Uses[fx.Sel]
											}
											if callee != fobj {
												return true
											}
											calls++
											arg := ce.Args[pidx]
											if tv := pinfo.Types[arg]; tv.Value != nil && tv.Value.Kind() == constant.String {
												kinds[constant.StringVal(tv.Value)] = arg.Pos()
											} else if cfd := c.EnclosingFuncDecl(ce); cfd == nil || !collectComparedStrings(pinfo, cfd, arg, kinds) {
												allOK = false
											}
											return true
										})
									}
									found = calls > 0 && allOK
								}
							}
						}
						if !found {
							r.undecided("writer:Property.Kind", c.Pos(cl.Pos()), "kind comes from a non-constant")
						}
					} else {
						r.undecided("writer:Property.Kind", c.Pos(cl.Pos()), "kind is not a constant or local")
					}
				}
			case "BranchStatement":
				if k := litField(cl, "Token"); k != nil {
					if lx, ok := t.lexemeOf(k); ok {
						branches[lx] = cl.Pos()
					} else {
						r.undecided("writer:BranchStatement.Token", c.Pos(cl.Pos()), "token is not a constant")
					}
				}
			}
			return true
		})
	}
	// readers in package otto
	op := c.Otto()
	oinfo := op.TypesInfo
	ot := &tokInfo{c: c, info: oinfo, byVal: t.byVal}
	kindReader := map[string]bool{}
	branchReader := map[string]bool{}
	for _, f := range op.Syntax {
		ast.Inspect(f, func(n ast.Node) bool {
			sw, ok := n.(*ast.SwitchStmt)
			if !ok || sw.Tag == nil {
				return true
			}
			sel, ok := unparen(sw.Tag).(*ast.SelectorExpr)
			if !ok {
				return true
			}
			s, ok := oinfo.Selections[sel]
			if !ok {
				return true
			}
			recv := derefNamed(s.Recv())
			if recv == nil {
				return true
			}
			for _, cs := range sw.Body.List {
				for _, e := range cs.(*ast.CaseClause).List {
					switch {
					case recv.Obj().Name() == "nodeProperty" && sel.Sel.Name == "kind":
						if tv := oinfo.Types[e]; tv.Value != nil {
							kindReader[constant.StringVal(tv.Value)] = true
						}
					case recv.Obj().Name() == "nodeBranchStatement" && sel.Sel.Name == "branch":
						if lx, ok := ot.lexemeOf(e); ok {
							branchReader[lx] = true
						}
					}
				}
			}
			return true
		})
	}
	if len(kinds) == 0 {
		r.undecided("writer:Property.Kind", "parser/expression.go", "no Property literal found")
	}
	for _, k := range sortedKeysPos(kinds) {
		r.check(kindReader[k], "propkind:"+k, c.Pos(kinds[k]), "handled by the object-literal evaluator", fmt.Sprintf("parser writes property kind %q but the evaluator's switch on nodeProperty.kind has no arm for it (host panic on such an object literal)", k))
	}
	r.check(sameSet(sortedKeysPos(kinds), []string{"value", "get", "set"}), "propkind:es5", "parser/expression.go", strings.Join(sortedKeysPos(kinds), " "), "ES5 §11.1.5 has exactly value/get/set property assignments; parser writes {"+strings.Join(sortedKeysPos(kinds), " ")+"}")
	for _, k := range sortedKeysPos(branches) {
		r.check(branchReader[k], "branch:"+k, c.Pos(branches[k]), "handled by the statement evaluator", fmt.Sprintf("parser writes branch token %q but the evaluator has no arm for it", k))
	}
	r.check(sameSet(sortedKeysPos(branches), []string{"break", "continue"}), "branch:es5", "parser/statement.go", strings.Join(sortedKeysPos(branches), " "), "branch statements are break/continue")
	// Declaration implementors
	_, decl := c.namedIface("ast", "Declaration")
	if decl == nil {
		r.undecided("decl", "-", "UNRESOLVED ast.Declaration")
		return
	}
	impl := c.implementors(decl, "ast")
	var names []string
	for _, n := range impl {
		names = append(names, n.Obj().Name())
	}
	declN, _ := c.namedIface("ast", "Declaration")
	for _, sw := range c.typeSwitches("") {
		if sw.tagType == nil || !types.Identical(sw.tagType, declN) {
			continue
		}
		has := map[string]bool{}
		for _, tc := range sw.cases {
			for _, ty := range tc.types {
				if n := derefNamed(ty); n != nil {
					has[n.Obj().Name()] = true
				}
			}
		}
		for _, n := range names {
			r.check(has[n], "decl:"+declName(sw.fn)+":"+n, c.Pos(sw.stmt.Pos()), "handled", "ast."+n+" implements Declaration but is not handled here: hoisting such a declaration panics")
		}
	}
}

func isLiteralField(e ast.Expr) bool {
	sel, ok := unparen(e).(*ast.SelectorExpr)
	return ok && sel.Sel.Name == "literal"
}

// collectComparedStrings: string constants that `e` (or a local holding it) is compared with (==) in fd.
func collectComparedStrings(info *types.Info, fd *ast.FuncDecl, e ast.Expr, out map[string]token.Pos) bool {
	found := false
	ast.Inspect(fd.Body, func(n ast.Node) bool {
		if b, ok := n.(*ast.BinaryExpr); ok && b.Op == token.EQL {
			if tv := info.Types[b.Y]; tv.Value != nil && tv.Value.Kind() == constant.String {
				if types.ExprString(unparen(b.X)) == types.ExprString(unparen(e)) || isLiteralField(b.X) {
					out[constant.StringVal(tv.Value)] = b.Pos()
					found = true
				}
			}
		}
		return true
	})
	return found
}

func rulePropPayload(c *Ctx, r *R) {
	okT := func(t types.Type) bool { s := typeStr(t); return s == "Value" || s == "propertyGetSet" }
	funcs := c.AllSrcFuncs("")
	// callers index for parameter pass-through
	callers := map[*ssa.Function][]*ssa.Call{}
	for _, fn := range funcs {
		for _, b := range fn.Blocks {
			for _, ins := range b.Instrs {
				if call, ok := ins.(*ssa.Call); ok {
					if callee := call.Call.StaticCallee(); callee != nil {
						callers[callee] = append(callers[callee], call)
					}
				}
			}
		}
	}
	var payloadOK func(v ssa.Value, depth int, seen map[ssa.Value]bool) (bool, string)
	payloadOK = func(v ssa.Value, depth int, seen map[ssa.Value]bool) (bool, string) {
		if depth > 6 {
			return false, "too deep"
		}
		if seen[v] {
			return true, ""
		}
		seen[v] = true
		switch x := v.(type) {
		case *ssa.Const:
			return x.Value == nil, "constant"
		case *ssa.MakeInterface:
			return okT(x.X.Type()), "payload of type " + typeStr(x.X.Type())
		case *ssa.UnOp:
			if isFieldAddr(x.X, "property", "value") {
				return true, ""
			}
			if al, ok := x.X.(*ssa.Alloc); ok { // local interface variable
				for _, ref := range *al.Referrers() {
					if st, ok := ref.(*ssa.Store); ok && st.Addr == ssa.Value(al) {
						if ok, why := payloadOK(st.Val, depth+1, seen); !ok {
							return false, why
						}
					}
				}
				return true, ""
			}
			return false, "load of unknown origin"
		case *ssa.Field:
			if n := derefNamed(x.X.Type()); n != nil && n.Obj().Name() == "property" {
				return true, ""
			}
			return false, "field of " + typeStr(x.X.Type())
		case *ssa.Phi:
			for _, e := range x.Edges {
				if ok, why := payloadOK(e, depth+1, seen); !ok {
					return false, why
				}
			}
			return true, ""
		case *ssa.Parameter:
			fn := x.Parent()
			idx := -1
			for i, p := range fn.Params {
				if p == x {
					idx = i
				}
			}
			cs := callers[fn]
			if idx < 0 || len(cs) == 0 {
				return false, "parameter " + x.Name() + " of a function with no static callers"
			}
			for _, call := range cs {
				if idx >= len(call.Call.Args) {
					return false, "arity"
				}
				if ok, why := payloadOK(call.Call.Args[idx], depth+1, seen); !ok {
					return false, "via caller " + ssaFuncName(call.Parent()) + ": " + why
				}
			}
			return true, ""
		case *ssa.TypeAssert:
			return payloadOK(x.X, depth+1, seen)
		case *ssa.Extract:
			if call, ok := x.Tuple.(*ssa.Call); ok {
				return payloadOfCall(call, x.Index, payloadOK, depth, seen)
			}
			return payloadOK(x.Tuple, depth+1, seen)
		case *ssa.Call:
			return payloadOfCall(x, 0, payloadOK, depth, seen)
		}
		return false, fmt.Sprintf("value of kind %T", v)
	}
	n := 0
	perFn := map[string]int{}
	for _, fn := range funcs {
		for _, b := range fn.Blocks {
			for _, ins := range b.Instrs {
				st, ok := ins.(*ssa.Store)
				if !ok || !isFieldAddr(st.Addr, "property", "value") {
					continue
				}
				n++
				fname := ssaFuncName(fn)
				ok2, why := payloadOK(st.Val, 0, map[ssa.Value]bool{})
				if ok2 {
					perFn[fname]++
					continue
				}
				r.bad("store:"+fname, c.Pos(instrPos(ins)), "property.value receives something other than a Value or propertyGetSet ("+why+"): every reader of a property (get, put, clone, descriptors) handles only those two")
			}
		}
	}
	for _, f := range sortedKeys(perFn) {
		r.ok("stores:"+f, "-", fmt.Sprintf("%d store(s), all Value / propertyGetSet / copies of another property's payload", perFn[f]))
	}
	r.note("sites", n)
}

func ruleKindOrder(c *Ctx, r *R) {
	sc := c.Otto().Types.Scope()
	val := map[string]int64{}
	for _, n := range sc.Names() {
		if cobj, ok := sc.Lookup(n).(*types.Const); ok && typeStr(cobj.Type()) == "valueKind" {
			v, _ := constant.Int64Val(cobj.Val())
			val[n] = v
		}
	}
	es5 := []string{"valueUndefined", "valueNull", "valueNumber", "valueString", "valueBoolean", "valueObject"}
	internal := []string{"valueEmpty", "valueResult", "valueReference"}
	for _, k := range append(append([]string{}, es5...), internal...) {
		if _, ok := val[k]; !ok {
			r.undecided("const:"+k, "-", "UNRESOLVED kind constant "+k)
			return
		}
	}
	r.check(val["valueUndefined"] == 0, "zero-is-undefined", "value.go", "Value{} is undefined", "the zero Value must be undefined (Value{} is used as undefined everywhere)")
	maxES5 := int64(-1)
	for _, k := range es5 {
		if val[k] > maxES5 {
			maxES5 = val[k]
		}
	}
	for _, k := range internal {
		r.check(val[k] > maxES5, "internal-after-es5:"+k, "value.go", "ordered after the ES5 kinds", k+" must be ordered after the six ES5 kinds (`kind < valueEmpty`-style tests select script-visible values)")
	}
	// every ordered comparison against a kind constant
	p := c.Otto()
	info := p.TypesInfo
	selected := func(op token.Token, bound int64) []string {
		var out []string
		for _, k := range append(append([]string{}, es5...), internal...) {
			v := val[k]
			ok := false
			switch op {
			case token.LEQ:
				ok = v <= bound
			case token.LSS:
				ok = v < bound
			case token.GEQ:
				ok = v >= bound
			case token.GTR:
				ok = v > bound
			}
			if ok {
				out = append(out, strings.TrimPrefix(k, "value"))
			}
		}
		return out
	}
	want := map[string][]string{
		"<= valueNull":   {"Undefined", "Null"},
		"<= valueString": {"Undefined", "Null", "Number", "String"},
		"< valueEmpty":   {"Undefined", "Null", "Number", "String", "Boolean", "Object"},
		">= valueEmpty":  {"Empty", "Result", "Reference"},
		"> valueObject":  {"Empty", "Result", "Reference"},
		"<= valueObject": {"Undefined", "Null", "Number", "String", "Boolean", "Object"},
	}
	for _, f := range p.Syntax {
		ast.Inspect(f, func(n ast.Node) bool {
			b, ok := n.(*ast.BinaryExpr)
			if !ok {
				return true
			}
			switch b.Op {
			case token.LEQ, token.LSS, token.GEQ, token.GTR:
			default:
				return true
			}
			id, ok := unparen(b.Y).(*ast.Ident)
			if !ok {
				return true
			}
			cobj, ok := info.Uses[id].(*types.Const)
			if !ok || typeStr(cobj.Type()) != "valueKind" {
				return true
			}
			form := b.Op.String() + " " + cobj.Name()
			got := selected(b.Op, val[cobj.Name()])
			fd := c.EnclosingFuncDecl(b)
			w, known := want[form]
			if !known {
				r.undecided("cmp:"+declName(fd)+":"+form, c.Pos(b.Pos()), "ordered kind comparison of a form not in the reviewed table; it selects {"+strings.Join(got, ",")+"}")
				return true
			}
			r.check(sameSet(got, w), "cmp:"+declName(fd)+":"+form, c.Pos(b.Pos()), "selects {"+strings.Join(got, ",")+"}", fmt.Sprintf("`kind %s` selects {%s} with the current constant order, the algorithm needs {%s}", form, strings.Join(got, ","), strings.Join(w, ",")))
			return true
		})
	}
}

var es5ErrorNames = []string{"Error", "EvalError", "RangeError", "ReferenceError", "SyntaxError", "TypeError", "URIError"}

func ruleExhErrName(c *Ctx, r *R) {
	p := c.Otto()
	info := p.TypesInfo
	isES5 := map[string]bool{}
	for _, n := range es5ErrorNames {
		isES5[n] = true
	}
	// writers: constant string passed as the `name` parameter of functions that take a name and build an error
	nameParam := map[*types.Func]int{}
	for _, fn := range []string{"newError", "runtime.newError", "runtime.newErrorObject"} {
		f := c.LookupFunc("", fn)
		if f == nil {
			r.undecided("anchor:"+fn, "-", "UNRESOLVED "+fn)
			continue
		}
		sig := f.Type().(*types.Signature)
		for i := 0; i < sig.Params().Len(); i++ {
			if sig.Params().At(i).Name() == "name" {
				nameParam[f] = i
			}
		}
	}
	for _, f := range p.Syntax {
		ast.Inspect(f, func(n ast.Node) bool {
			call, ok := n.(*ast.CallExpr)
			if !ok {
				return true
			}
			var callee *types.Func
			switch fun := unparen(call.Fun).(type) {
			case *ast.Ident:
				callee, _ = info.Uses[fun].(*types.Func)
			case *ast.SelectorExpr:
				callee, _ = info.Uses[fun.Sel].(*types.Func)
			}
			idx, ok := nameParam[callee]
			if !ok || idx >= len(call.Args) {
				return true
			}
			tv := info.Types[call.Args[idx]]
			fd := c.EnclosingFuncDecl(call)
			if tv.Value == nil {
				r.ok("name-passthrough:"+declName(fd), c.Pos(call.Pos()), "name forwarded from the caller")
				return true
			}
			name := constant.StringVal(tv.Value)
			r.check(isES5[name], "name:"+declName(fd)+":"+name, c.Pos(call.Pos()), name, fmt.Sprintf("internal error raised with the name %q, which is not an ES5 native error constructor: scripts cannot catch it by class", name))
			return true
		})
	}
	// format-first: the first variadic argument of the error helpers is a string at every call site
	// (newError asserts in[0].(string) unconditionally)
	helpers := map[string]bool{"newError": true, "panicTypeError": true, "panicReferenceError": true, "panicURIError": true, "panicSyntaxError": true, "panicRangeError": true}
	for _, fn := range c.AllSrcFuncs("") {
		for _, b := range fn.Blocks {
			for _, ins := range b.Instrs {
				call, ok := ins.(*ssa.Call)
				if !ok {
					continue
				}
				callee := call.Call.StaticCallee()
				if callee == nil || !helpers[callee.Name()] || !callee.Signature.Variadic() {
					continue
				}
				va := call.Call.Args[len(call.Call.Args)-1]
				sl, ok := va.(*ssa.Slice)
				if !ok {
					continue // nil (no arguments) or a forwarded slice
				}
				al, ok := sl.X.(*ssa.Alloc)
				if !ok || al.Comment != "varargs" {
					continue
				}
				first := ""
				for _, ref := range *al.Referrers() {
					ia, ok := ref.(*ssa.IndexAddr)
					if !ok {
						continue
					}
					if idx, isC := constInt(ia.Index); !isC || idx != 0 {
						continue
					}
					for _, r2 := range *ia.Referrers() {
						if st, ok := r2.(*ssa.Store); ok {
							if mi, ok := st.Val.(*ssa.MakeInterface); ok {
								first = typeStr(mi.X.Type())
							} else {
								first = "interface"
							}
						}
					}
				}
				if first == "" {
					continue
				}
				r.check(first == "string", "format-first:"+ssaFuncName(fn)+":"+callee.Name(), c.Pos(instrPos(ins)), "format string first",
					fmt.Sprintf("%s is called with a first variadic argument of type %s; newError asserts in[0].(string) without a check, so raising this error would itself panic the host", callee.Name(), first))
			}
		}
	}
	// readers: switches over an error name with case labels among the ES5 names
	for _, f := range p.Syntax {
		ast.Inspect(f, func(n ast.Node) bool {
			sw, ok := n.(*ast.SwitchStmt)
			if !ok || sw.Tag == nil {
				return true
			}
			labels := map[string]bool{}
			for _, cs := range sw.Body.List {
				for _, e := range cs.(*ast.CaseClause).List {
					if tv := info.Types[e]; tv.Value != nil && tv.Value.Kind() == constant.String {
						labels[constant.StringVal(tv.Value)] = true
					}
				}
			}
			nES5 := 0
			for l := range labels {
				if isES5[l] && l != "Error" {
					nES5++
				}
			}
			if nES5 < 3 {
				return true
			}
			fd := c.EnclosingFuncDecl(sw)
			for _, nme := range es5ErrorNames {
				if nme == "Error" {
					continue // the generic case is the fall-through/default
				}
				r.check(labels[nme], "reader:"+declName(fd)+":"+nme, c.Pos(sw.Pos()), "has an arm", fmt.Sprintf("%s maps error names to constructors/prototypes but has no arm for %s: such errors get the generic Error prototype (instanceof %s fails)", declName(fd), nme, nme))
			}
			return true
		})
	}
}

func ruleExhPayload(c *Ctx, r *R) {
	// recover sites
	for _, fn := range c.AllSrcFuncs("") {
		hasRecover := false
		for _, b := range fn.Blocks {
			for _, ins := range b.Instrs {
				if call, ok := ins.(*ssa.Call); ok {
					if bi, ok := call.Call.Value.(*ssa.Builtin); ok && bi.Name() == "recover" {
						hasRecover = true
					}
				}
			}
		}
		if !hasRecover {
			continue
		}
		fname := ssaFuncName(fn)
		site := c.Pos(fn.Pos())
		// type assertions / switches on the recovered value
		caseTypes := map[string]bool{}
		repanics := false
		for _, b := range fn.Blocks {
			for _, ins := range b.Instrs {
				switch x := ins.(type) {
				case *ssa.TypeAssert:
					caseTypes[typeStr(x.AssertedType)] = true
				case *ssa.Panic:
					if isRepanicOfRecover(x) {
						repanics = true
					}
				}
			}
		}
		if len(caseTypes) == 0 {
			// a handler that re-panics whatever it recovered (possibly wrapped) swallows nothing
			allPanic := true
			exits := simulateHandler(fn, nil)
			for _, e := range exits {
				if e.kind != "same" && e.kind != "wrap" {
					allPanic = false
				}
			}
			if allPanic && len(exits) > 0 {
				r.ok("propagate:"+fname, site, "re-panics every recovered value ("+describeExits(c, exits)+")")
				continue
			}
			// a bare recover that swallows everything
			r.bad("swallow:"+fname, site, "recover() whose result is not inspected: every panic, including a host interrupt, is swallowed")
			continue
		}
		// a site that unwraps the exception (eject) must understand every payload kind; a site that treats every script
		// exception alike (no eject) has nothing to distinguish
		ejects := len(staticCallsIn(fn, "eject")) > 0
		if caseTypes["*exception"] && ejects {
			for _, want := range []string{"ottoError", "Value"} {
				r.check(caseTypes[want], "case:"+fname+":"+want, site, "handled", "recover site unwraps *exception but has no case for an ejected "+want)
			}
		}
		key := "repanic:" + fname
		if why, ok := recoverNoRepanicReviewed[fname]; ok {
			if repanics {
				r.ok(key, site, "re-panics payloads it does not understand")
			} else {
				// reviewed known behaviour: reported through the known-findings file
				r.bad(key, site, why)
			}
			continue
		}
		r.check(repanics, key, site, "re-panics payloads it does not understand", "recover site converts or drops payloads it does not understand instead of re-panicking: a host interrupt (or a Go runtime error) is swallowed and the script continues")
	}
}

var recoverNoRepanicReviewed = map[string]string{
	"(*runtime).tryCatchEvaluate$1": "tryCatchEvaluate's default arm converts ANY foreign panic (a host interrupt's panic, a Go runtime error) into a value the script's catch clause receives: the script continues instead of unwinding (pinned by Test_issue383)",
}

func ruleExhObjClass(c *Ctx, r *R) {
	oc := c.LookupType("", "objectClass")
	if oc == nil {
		r.undecided("anchor", "-", "UNRESOLVED objectClass")
		return
	}
	st := oc.Underlying().(*types.Struct)
	optional := map[string]string{"marshalJSON": "optional: callers test for nil"}
	p := c.Otto()
	info := p.TypesInfo
	for _, f := range p.Syntax {
		ast.Inspect(f, func(n ast.Node) bool {
			cl, ok := n.(*ast.CompositeLit)
			if !ok {
				return true
			}
			nt := derefNamed(info.TypeOf(cl))
			if nt == nil || nt.Obj() != oc.Obj() {
				return true
			}
			// which variable is it assigned to
			owner := "?"
			if u, ok := c.ParentOf(cl).(*ast.UnaryExpr); ok {
				if as, ok := c.ParentOf(u).(*ast.AssignStmt); ok && len(as.Lhs) == 1 {
					owner = types.ExprString(as.Lhs[0])
				}
			}
			set := map[string]ast.Expr{}
			for i, el := range cl.Elts {
				if kv, ok := el.(*ast.KeyValueExpr); ok {
					set[kv.Key.(*ast.Ident).Name] = kv.Value
				} else if i < st.NumFields() {
					set[st.Field(i).Name()] = el
				}
			}
			for i := 0; i < st.NumFields(); i++ {
				fn := st.Field(i).Name()
				if _, opt := optional[fn]; opt {
					continue
				}
				v := set[fn]
				nonNil := v != nil
				if id, ok := unparen(v).(*ast.Ident); ok && id.Name == "nil" {
					nonNil = false
				}
				r.check(nonNil, "slot:"+owner+"."+fn, c.Pos(cl.Pos()), "filled", fmt.Sprintf("objectClass table %s leaves the mandatory slot %s nil: the first %s on such an object calls a nil function", owner, fn, fn))
			}
			return true
		})
	}
}

func init() {
	register(&Rule{ID: "LENGTH-repr", Props: []string{"C08", "C02"}, Min: 4,
		Doc: "T: the Go payload type of an array's length is uint32 wherever it is produced - in the constructor that installs the array objectClass table, in every slot function of that table, and in the Array.prototype literal - and a String object's length payload is int; this is what the unchecked assertions .(uint32) / .(int) in objectLength, arrayDefineOwnProperty and export rely on",
		Run: ruleLengthRepr})
}

func ruleLengthRepr(c *Ctx, r *R) {
	cf := computeClassFacts(c)
	numberHelpers := map[string]string{"intValue": "int", "int32Value": "int32", "int64Value": "int64", "uint16Value": "uint16", "uint32Value": "uint32", "float64Value": "float64"}
	check := func(fn *ssa.Function, want, why string) {
		n := 0
		for _, b := range fn.Blocks {
			for _, ins := range b.Instrs {
				st, ok := ins.(*ssa.Store)
				if !ok || !isFieldAddr(st.Addr, "property", "value") {
					continue
				}
				mi, ok := st.Val.(*ssa.MakeInterface)
				if !ok {
					continue
				}
				call, ok := mi.X.(*ssa.Call)
				if !ok || call.Call.StaticCallee() == nil {
					continue
				}
				t, isNum := numberHelpers[call.Call.StaticCallee().Name()]
				if !isNum {
					continue
				}
				n++
				r.check(t == want, fmt.Sprintf("store:%s:%s", ssaFuncName(fn), call.Call.StaticCallee().Name()), c.Pos(instrPos(ins)), "length payload "+t,
					fmt.Sprintf("%s stores a number Value with a %s payload into a property of an array (%s); readers assert .(%s) unconditionally", ssaFuncName(fn), t, why, want))
			}
			for _, ins := range b.Instrs {
				call, ok := ins.(*ssa.Call)
				if !ok {
					continue
				}
				callee := call.Call.StaticCallee()
				if callee == nil || callee.Name() != "defineProperty" || len(call.Call.Args) < 3 {
					continue
				}
				nameC, ok := call.Call.Args[1].(*ssa.Const)
				if !ok || nameC.Value == nil || constant.StringVal(nameC.Value) != "length" {
					continue
				}
				vcall, ok := call.Call.Args[2].(*ssa.Call)
				if !ok || vcall.Call.StaticCallee() == nil {
					r.undecided("define:"+ssaFuncName(fn), c.Pos(instrPos(ins)), "length defined from a value that is not a typed helper call")
					continue
				}
				t := numberHelpers[vcall.Call.StaticCallee().Name()]
				n++
				r.check(t == want, fmt.Sprintf("define:%s:%s", ssaFuncName(fn), vcall.Call.StaticCallee().Name()), c.Pos(instrPos(ins)), "length payload "+t,
					fmt.Sprintf("%s defines `length` with a %s payload (%s); readers assert .(%s) unconditionally", ssaFuncName(fn), t, why, want))
			}
		}
		if n == 0 {
			r.ok("none:"+ssaFuncName(fn), c.Pos(fn.Pos()), "no length payload produced here")
		}
	}
	// constructors and slot functions of the array table
	arrayTable, stringTable := "", ""
	for v := range cf.payloadOfClassVar {
		_ = v
	}
	m := c.ObjectClassOfClassName()
	if o := m["Array"]; o != nil {
		arrayTable = o.Name()
	}
	if o := m["String"]; o != nil {
		stringTable = o.Name()
	}
	if arrayTable == "" || stringTable == "" {
		r.undecided("tables", "-", "UNRESOLVED array / string objectClass tables")
		return
	}
	for _, fn := range c.AllSrcFuncs("") {
		installs := ""
		for _, b := range fn.Blocks {
			for _, ins := range b.Instrs {
				if st, ok := ins.(*ssa.Store); ok && isFieldAddr(st.Addr, "object", "objectClass") {
					if g := rootGlobal(st.Val, 0); g != nil {
						installs = g.Name()
					}
				}
			}
		}
		switch {
		case installs == arrayTable:
			check(fn, "uint32", "constructor installing "+arrayTable)
		case installs == stringTable:
			check(fn, "int", "constructor installing "+stringTable)
		case cf.slotFuncs[fn] == arrayTable:
			check(fn, "uint32", "slot function of "+arrayTable)
		}
	}
	// the prototypes in the literal heap
	s := c.Shape()
	for path, want := range map[string]string{"Array.prototype": "uint32", "String.prototype": "int"} {
		o := s.ByPath[path]
		if o == nil || o.Props["length"] == nil {
			r.bad("literal:"+path, "inline.go", path+" has no length property")
			continue
		}
		got := "?"
		if sv, ok := o.Props["length"].Value.(*SValue); ok {
			if cst, ok := sv.Payload.(SConst); ok && cst.Type != nil {
				got = typeStr(cst.Type)
			} else if e, ok := sv.Payload.(SExpr); ok {
				got = typeStr(s.info.TypeOf(e.E))
			}
		}
		r.check(got == want, "literal:"+path, c.Pos(o.Props["length"].Pos), got, fmt.Sprintf("%s.length has a %s payload in the literal heap; readers assert .(%s)", path, got, want))
	}
}

// payloadOfCall: the payload is what a function of the module (or a closure) returns as its idx-th result: every value it
// returns there must be a legal payload.
func payloadOfCall(call *ssa.Call, idx int, payloadOK func(ssa.Value, int, map[ssa.Value]bool) (bool, string), depth int, seen map[ssa.Value]bool) (bool, string) {
	callee := closureOf(&call.Call)
	if callee == nil {
		callee = call.Call.StaticCallee()
	}
	if callee == nil || len(callee.Blocks) == 0 {
		return false, "result of a call that is not statically known"
	}
	n := 0
	for _, b := range callee.Blocks {
		ret, ok := b.Instrs[len(b.Instrs)-1].(*ssa.Return)
		if !ok {
			continue
		}
		if idx >= len(ret.Results) {
			return false, "arity"
		}
		n++
		if ok, why := payloadOK(ret.Results[idx], depth+1, seen); !ok {
			return false, "returned by " + ssaFuncName(callee) + ": " + why
		}
	}
	if n == 0 {
		return false, "result of " + ssaFuncName(callee) + ", which never returns"
	}
	return true, ""
}
